#!/bin/bash
# Mutation self-test for C13: each edit is applied to a scratch worktree of /repo,
# the check must exit 1 with a VIOLATION line. Usage: selftest/C13/run_mutations.sh
set -u
WT=/tmp/wt-C13
VERIF=$(cd "$(dirname "$0")/../.." && pwd)
git -C /repo worktree remove --force $WT >/dev/null 2>&1
git -C /repo worktree add --detach $WT HEAD >/dev/null 2>&1 || exit 2
# the three proposed fixes go in first, so that every VIOLATION below is due to the mutation
for d in "$VERIF"/proposed_fixes/C13-*.diff; do git -C $WT apply "$d" || exit 2; done
git -C $WT -c user.name=x -c user.email=x@x commit -qam "C13 proposed fixes (scratch)" || exit 2

mutate() { # name file python-expression(old,new)
  python3 - "$WT/$2" "$3" "$4" <<'PY'
import sys
p,old,new=sys.argv[1:4]
s=open(p).read()
assert s.count(old)==1, (p, old, s.count(old))
open(p,'w').write(s.replace(old,new))
PY
}
run() {
  echo "=== mutation $1"
  git -C $WT diff --stat | tail -1
  (cd "$VERIF" && VERIF_REPO=$WT VERIF_SHARDS=${VERIF_SHARDS:-4} bin/check C13 quick >/tmp/c13-mut.out 2>&1; echo "exit=$?" >>/tmp/c13-mut.out)
  grep -E "^  key=|^check C13|HARNESS|^exit=" /tmp/c13-mut.out | sort | uniq -c | sort -rn | head -12
  rm -f /tmp/c13-mut.out
  git -C $WT checkout -- . 
}

mutate M1 internal/grpcutil/metadata.go "char > '~'" "char >= '~'"
run "M1 validator (and encoder) treat '~' as a byte that must be percent-encoded"

mutate M2 internal/app/referenceclient/wire_details.go '				tok, err := checkNoDuplicateKeys(elemWhat, dec)
				if err != nil {
					return nil, err
				}
				if tok == json.Delim('"'"']'"'"') {
					break
				}
				i++' '				_ = elemWhat
				if !dec.More() {
					if _, err := dec.Token(); err != nil {
						return nil, err
					}
					break
				}
				var skipped json.RawMessage
				if err := dec.Decode(&skipped); err != nil {
					return nil, err
				}
				i++'
run "M2 duplicate-key check does not recurse into arrays"

mutate M3 internal/app/referenceserver/impl.go 'strings.ToLower(trailer.Name), val)' 'trailer.Name, val)'
run "M3 reference server writes gRPC-Web trailer names as given (not lower-cased)"

mutate M4 internal/app/referenceserver/impl.go 'Value: []string{base64.RawStdEncoding.EncodeToString(data)},' 'Value: []string{base64.StdEncoding.EncodeToString(data)},'
run "M4 reference server pads grpc-status-details-bin"

mutate M5 internal/app/referenceclient/wire_details.go 'if code < 0 || code > 16 {' 'if code < 0 || code > 17 {'
run "M5 grpc-status 17 accepted"

mutate M6 internal/app/referenceclient/wire_details.go 'if len(trace.Response.Trailer) > 0 {
			printer.Printf("response included' 'if len(trace.Response.Trailer) > 1 {
			printer.Printf("response included'
run "M6 a single HTTP trailer outside gRPC goes unnoticed"

git -C /repo worktree remove --force $WT
git -C /repo worktree prune
