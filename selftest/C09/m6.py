import sys; sys.path.insert(0, __import__('os').path.dirname(__import__('os').path.abspath(__file__))); from lib import *
sub(C,"""		if errors.Is(err, io.EOF) {
			err = io.ErrUnexpectedEOF
		}
		return err
""","""		return err
""")
