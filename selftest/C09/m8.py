import sys; sys.path.insert(0, __import__('os').path.dirname(__import__('os').path.abspath(__file__))); from lib import *
sub(D,"""	if _, err := out.Write(data); err != nil {
		return err
	}
	return nil""","""	_, _ = out.Write(data)
	return nil""")
