def sub(path, old, new):
    s=open(path).read()
    assert old in s, "pattern not found: "+old
    open(path,'w').write(s.replace(old,new,1))
D='/tmp/wt-C09/internal/delimited.go'
C='/tmp/wt-C09/internal/codec.go'
