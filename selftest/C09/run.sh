#!/bin/bash
# usage: selftest/C09/run.sh <m0..m9> [budget_s]
# Applies one mutation to a scratch worktree of /repo and runs the C09 check against it.
# Expected: exit=1 and the VIOLATION key listed in README.md. The worktree is removed afterwards.
set -u
here=$(cd "$(dirname "$0")" && pwd); name=$1; budget=${2:-60}
wt=/tmp/wt-C09
git -C /repo worktree remove --force $wt >/dev/null 2>&1
git -C /repo worktree add --detach $wt HEAD >/dev/null 2>&1 || exit 9
if [ "$name" = m0 ]; then
  # revert of repository commit 8f3753f (zero-length body read with an empty buffer)
  (cd $wt && git revert --no-commit 8f3753f >/dev/null) || { echo "MUTATION FAILED TO APPLY"; exit 9; }
else
  python3 "$here/$name.py" || { echo "MUTATION FAILED TO APPLY"; exit 9; }
fi
git -C $wt diff HEAD | grep '^[-+]' | grep -v '^+++\|^---'
log=$(mktemp)
(cd "$here/../.." && VERIF_SHARDS=${VERIF_SHARDS:-4} VERIF_BUDGET_OVERRIDE=$budget VERIF_REPO=$wt bin/check C09 quick) > $log 2>&1
echo "exit=$?"
grep -A1 '^VIOLATION' $log | grep 'key=' | sort | uniq -c
grep '^check\|HARNESS' $log | cut -c1-300
rm -f $log
git -C /repo worktree remove --force $wt
rm -rf "$here/../../replays/C09"   # replays of mutated trees are scratch
