import sys; sys.path.insert(0, __import__('os').path.dirname(__import__('os').path.abspath(__file__))); from lib import *
sub(D,"r.prefixDone, r.bytesRead, r.bytesExpecting = true, 0, msgSize","r.prefixDone, r.bytesExpecting = true, msgSize")
