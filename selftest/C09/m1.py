import sys; sys.path.insert(0, __import__('os').path.dirname(__import__('os').path.abspath(__file__))); from lib import *
sub(D,"""		if offs+numRead == numBytes {
			// Done! If n > 0 and err != nil, we can
			// ignore the error and subsequent attempt
			// to read from in will return it.
			return data, nil
		}
		offs += numRead
""","""		offs += numRead
""")
sub(D,"""			return nil, err
		}
	}
}""","""			return nil, err
		}
		if offs == numBytes {
			return data, nil
		}
	}
}""")
