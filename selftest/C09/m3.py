import sys; sys.path.insert(0, __import__('os').path.dirname(__import__('os').path.abspath(__file__))); from lib import *
sub(D,"""		if errors.Is(readErr, io.EOF) {
			readErr = io.ErrUnexpectedEOF
		}
""","")
