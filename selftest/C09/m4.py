import sys; sys.path.insert(0, __import__('os').path.dirname(__import__('os').path.abspath(__file__))); from lib import *
# size check only after the body was read
sub(D,"""		if msgSize > r.maxSize {
			readErr = fmt.Errorf("%s result indicates message size of %d bytes, but should not exceed %d",
				r.source, msgSize, r.maxSize)
			return
		}
""","")
sub(D,"""		msgBytes, readErr = r.read(msgSize)
""","""		msgBytes, readErr = r.read(msgSize)
		if msgSize > r.maxSize {
			readErr = fmt.Errorf("%s result indicates message size of %d bytes, but should not exceed %d",
				r.source, msgSize, r.maxSize)
			return
		}
""")
