import sys; sys.path.insert(0, __import__('os').path.dirname(__import__('os').path.abspath(__file__))); from lib import *
sub(D,"if msgSize > r.maxSize {","if msgSize >= r.maxSize {")
