import sys; sys.path.insert(0, __import__('os').path.dirname(__import__('os').path.abspath(__file__))); from lib import *
sub(C,"""		if errors.Is(err, io.EOF) {
			return err
		}
		return fmt.Errorf("failed to decode JSON""","""		if errors.Is(err, io.EOF) || errors.Is(err, io.ErrUnexpectedEOF) {
			return io.EOF
		}
		return fmt.Errorf("failed to decode JSON""")
