#!/usr/bin/env python3
"""Mutation self-test for C20. Usage: mutate.py <worktree> <mutation-name>|list|reset
Applies the two proposed fixes (so that the base is clean) plus one mutation to the worktree."""
import subprocess, sys, os
WT = sys.argv[1]
FIXES = ["/verif/proposed_fixes/C20-brotli-reset-stale-input.diff", "/verif/proposed_fixes/C20-gzip-close-after-failed-reset.diff"]

def sub(path, old, new):
    p = os.path.join(WT, path)
    s = open(p).read()
    assert old in s, (path, old)
    open(p, "w").write(s.replace(old, new, 1))

MUT = {
 # D-list: zstd decoder reused after Close
 "zstd-reuse-after-close": lambda: sub("internal/compression/zstd.go",
    "\tc.decoder.Close()\n\t// zstd.Decoder cannot be re-used after close, even via Reset\n\tc.decoder = nil\n", "\tc.decoder.Close()\n"),
 # D-list: deflate keeping the error reader after a bad Reset
 "deflate-sticky-error": lambda: sub("internal/compression/deflate.go",
    "\treader, err := zlib.NewReader(rdr)\n", "\tif bad, ok := c.reader.(*errorDecompressor); ok {\n\t\treturn bad.err\n\t}\n\treader, err := zlib.NewReader(rdr)\n"),
 # D-list: "deflate" mapped to raw flate (RFC 1951) on both sides, so the pair still round-trips with itself
 "deflate-raw-flate": lambda: (
    sub("internal/compression/deflate.go", "\treader, err := zlib.NewReader(rdr)\n\tif err != nil {\n\t\tc.reader = &errorDecompressor{err: err}\n\t\treturn err\n\t}\n\tc.reader = reader\n",
        "\tc.reader = flate.NewReader(rdr)\n"),
    sub("internal/compression/deflate.go", "\treturn zlib.NewWriter(nil)\n", "\tw, _ := flate.NewWriter(nil, flate.DefaultCompression)\n\treturn w\n"),
    sub("internal/compression/deflate.go", "\t\"compress/zlib\"\n", "\t\"compress/flate\"\n")),
 # names: the server registers the zstd constructors under the name snappy (and vice versa)
 "server-swapped-registration": lambda: (
    sub("internal/app/referenceserver/server.go", "connect.WithCompression(compression.Snappy, compression.NewSnappyDecompressor, compression.NewSnappyCompressor)",
        "connect.WithCompression(compression.Snappy, compression.NewZstdDecompressor, compression.NewZstdCompressor)"),
    sub("internal/app/referenceserver/server.go", "connect.WithCompression(compression.Zstd, compression.NewZstdDecompressor, compression.NewZstdCompressor)",
        "connect.WithCompression(compression.Zstd, compression.NewSnappyDecompressor, compression.NewSnappyCompressor)")),
 # names: the tracer maps "br" to zstd
 "tracer-br-is-zstd": lambda: sub("internal/tracer/tracer.go", "\tcase \"br\":\n\t\tcomp = conformancev1.Compression_COMPRESSION_BR\n", "\tcase \"br\":\n\t\tcomp = conformancev1.Compression_COMPRESSION_ZSTD\n"),
 # names: the reference server expects "zlib" on the wire for DEFLATE
 "server-wire-name": lambda: sub("internal/app/referenceserver/checks.go", "\t\texpect = compression.Deflate\n", "\t\texpect = \"zlib\"\n"),
 # reuse of a compressor: identity keeps writing to the first sink
 "identity-compressor-keeps-sink": lambda: sub("internal/compression/compression.go",
    "func (c *noOpCompressor) Reset(writer io.Writer) {\n", "func (c *noOpCompressor) Reset(writer io.Writer) {\n\tif c.WriteCloser != nil {\n\t\treturn\n\t}\n"),
 # crash: snappy decompressor without a reader
 "snappy-nil-reader": lambda: sub("internal/compression/snappy.go", "\t\treader: snappy.NewReader(nil),\n", "\t\treader: nil,\n"),
 # reuse after a failed decode: the snappy wrapper does not reset the library reader (its sticky error survives)
 "snappy-no-reset": lambda: sub("internal/compression/snappy.go", "\tc.reader.Reset(rdr)\n", "\tif c.rdrSet {\n\t\treturn nil\n\t}\n\tc.rdrSet = true\n\tc.reader.Reset(rdr)\n") or
    sub("internal/compression/snappy.go", "\treader *snappy.Reader\n", "\treader *snappy.Reader\n\trdrSet bool\n"),
}

def git(*a):
    subprocess.run(["git", "-C", WT] + list(a), check=True)

name = sys.argv[2]
if name == "list":
    print("\n".join(MUT)); sys.exit(0)
git("checkout", "--", ".")
if name == "unfixed":
    sys.exit(0)
for f in FIXES:
    git("apply", f)
if name != "reset":
    MUT[name]()
subprocess.run(["git", "-C", WT, "diff", "--stat"])
