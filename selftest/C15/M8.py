p='internal/tracer/http2.go'
s=open(p).read()
old='\t\t// This is a retry; cancel the pending wait task.\n\t\tdelete(h.waiting, testName)\n\t\tstate.stop()'
new='\t\t// This is a retry; cancel the pending wait task.\n\t\tstate.stop()'
assert s.count(old)==1
s=s.replace(old,new)
open(p,'w').write(s)
