p='internal/tracer/http2.go'
s=open(p).read()
old='\t\tif !isTimeout {\n\t\t\tc.cancelAll(err)\n\t\t}'
new='\t\t_ = isTimeout\n\t\tc.cancelAll(err)'
assert s.count(old)==1
s=s.replace(old,new)
open(p,'w').write(s)
