p='internal/tracer/http2.go'
s=open(p).read()
old='framer.ReadMetaHeaders = h.decoder'
new='framer.ReadMetaHeaders = hpack.NewDecoder(math.MaxUint32, nil)'
assert s.count(old)==1
s=s.replace(old,new)
open(p,'w').write(s)
