p='internal/tracer/http2.go'
s=open(p).read()
old='\tn, err = c.Conn.Write(data)\n\tif err != nil {\n\t\tc.cancelAll(err)\n\t}\n\treturn n, err'
new='\tn, err = c.Conn.Write(data)\n\tif err != nil {\n\t\tc.cancelAll(err)\n\t}\n\treturn len(data), nil'
assert s.count(old)==1
s=s.replace(old,new)
open(p,'w').write(s)
