p='internal/tracer/http2.go'
s=open(p).read()
old='\treturn c.streams[streamID]\n}\n\nfunc (c *tracingHTTP2Conn) closeStreamLocked'
new='\tif s, ok := c.streams[streamID+2]; ok {\n\t\treturn s\n\t}\n\treturn c.streams[streamID]\n}\n\nfunc (c *tracingHTTP2Conn) closeStreamLocked'
assert s.count(old)==1
s=s.replace(old,new)
open(p,'w').write(s)
