p='internal/tracer/http2.go'
s=open(p).read()
old='\tif !isRequest || err != nil {\n\t\t// This is either end of response or an error, which means the\n\t\t// whole operation done.\n\t\tdelete(c.streams, streamID)\n\t}\n'
new='\tdelete(c.streams, streamID)\n'
assert s.count(old)==1
s=s.replace(old,new)
open(p,'w').write(s)
