p='internal/tracer/http2.go'
s=open(p).read()
old='\t\tif streamID > maxStreamID {'
new='\t\tif streamID >= maxStreamID {'
assert s.count(old)==1
s=s.replace(old,new)
open(p,'w').write(s)
