p='internal/tracer/http2.go'
s=open(p).read()
old='\t\th.actual += uint64(len(data))\n\t\th.frame.Write(data)\n\t\treturn need, false'
new='\t\th.frame.Write(data)\n\t\treturn need, false'
assert s.count(old)==1
s=s.replace(old,new)
open(p,'w').write(s)
