p='internal/app/referenceclient/raw_request.go'
s=open(p).read()
old='''			vals[param.Name] = append(vals[param.Name], param.Value...)
'''
assert old in s
s=s.replace(old,'''			vals[param.Name] = param.Value
''')
open(p,'w').write(s)
