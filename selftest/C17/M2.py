p='internal/raw_http_body.go'
s=open(p).read()
old='		if item.Length != nil {'
assert old in s
s=s.replace(old,'		if false && item.Length != nil {')
open(p,'w').write(s)
