p='internal/app/referenceserver/raw_response.go'
s=open(p).read()
old='''	for k := range r.respWriter.Header() {
		delete(r.respWriter.Header(), k)
	}
'''
assert old in s
s=s.replace(old,'')
open(p,'w').write(s)
