p='internal/app/referenceserver/raw_response.go'
s=open(p).read()
old='''		case conformancev1connect.ConformanceServiceBidiStreamProcedure:
			streamReq := &conformancev1.BidiStreamRequest{}
			rawResponseFunc = func() *conformancev1.RawHTTPResponse {
				return streamReq.GetResponseDefinition().GetRawResponse()
			}
			req = streamReq
'''
assert old in s
s=s.replace(old,'')
open(p,'w').write(s)
