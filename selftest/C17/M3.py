p='internal/app/referenceserver/raw_response.go'
s=open(p).read()
old='''func (r *rawResponseWriter) Flush() {
	if r.canSendResponse() {'''
assert old in s
s=s.replace(old,'''func (r *rawResponseWriter) Flush() {
	if r.rawResponse() == nil {''')
open(p,'w').write(s)
