p='internal/app/referenceserver/raw_response.go'
s=open(p).read()
old='''	for _, hdr := range resp.Trailers {
		r.respWriter.Header().Add("Trailer", hdr.Name)
	}
'''
assert old in s
s=s.replace(old,'')
anchor='''		statusCode = 200
	}
	r.respWriter.WriteHeader(statusCode)
'''
assert anchor in s
s=s.replace(anchor,anchor+old)
open(p,'w').write(s)
