p='internal/app/referenceclient/raw_request.go'
s=open(p).read()
old='''	internal.AddHeaders(r.rawRequest.Headers, req.Header)
'''
assert old in s
s=s.replace(old,'''	req.Header = orig.Header.Clone()
'''+old)
open(p,'w').write(s)
