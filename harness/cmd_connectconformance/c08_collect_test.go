package main

// C08 (c) — every pattern supplied, by repeated flags, by @files, or both,
// takes part: the slice that cmd/connectconformance hands to
// connectconformance.Run contains exactly the given patterns.
//
// The real flag set (bind) parses a real argv with repeated --run / --skip /
// --known-failing / --known-flaky occurrences; the real argsToPatterns turns
// each collected flag slice into the pattern slice that run() passes on.
// File syntax per docs/configuring_and_running_tests.md: one pattern per line,
// leading/trailing whitespace discarded, blank lines and lines starting with
// '#' ignored.

import (
	"crypto/sha1"
	"encoding/hex"
	"encoding/json"
	"fmt"
	"os"
	"path/filepath"
	"sort"
	"strings"
	"testing"
	"time"

	"connectrpc.com/conformance/internal/verif/rep"
	"github.com/spf13/cobra"
)

// c08cArg is one flag value as presented on the command line.
type c08cArg struct {
	Direct   string   `json:"direct,omitempty"`   // a pattern given directly
	IsFile   bool     `json:"is_file,omitempty"`  // value is @<file>
	Patterns []string `json:"patterns,omitempty"` // patterns in the file, in file order
	Style    int      `json:"style,omitempty"`    // how the file is written (c08cRender)
	Content  string   `json:"content,omitempty"`  // the bytes of the file
}

type c08cCase struct {
	Flag string    `json:"flag"`
	Args []c08cArg `json:"args"`
	Want []string  `json:"want"` // patterns in order of presentation
	// Form: how the values are put on the command line. 0: alternating
	// `--flag v` / `--flag=v`; 1: `--flag v` throughout (a value that starts with
	// '-' is still written `--flag=v`); 2: `--flag=v` throughout.
	Form int `json:"form,omitempty"`
}

const c08cStyles = 6

// c08cStyleRaw marks a file of the raw-file family: its content is not rendered
// from a pattern list; the patterns are what c08cFileModel reads out of it.
const c08cStyleRaw = 9

// c08cRender writes the pattern list of one file in one of the documented shapes.
func c08cRender(pats []string, style int) string {
	var sb strings.Builder
	switch style {
	case 0: // plain, newline-terminated
		for _, p := range pats {
			sb.WriteString(p + "\n")
		}
	case 1: // last line without newline
		sb.WriteString(strings.Join(pats, "\n"))
	case 2: // comments and blank lines around and between
		sb.WriteString("# header comment\n\n")
		for _, p := range pats {
			sb.WriteString(p + "\n\n# a/b is only mentioned in a comment\n")
		}
		sb.WriteString("\n# trailing comment without newline")
	case 3: // leading and trailing blanks
		for _, p := range pats {
			sb.WriteString("  \t" + p + " \t \n")
		}
	case 4: // CRLF line ends, blank CRLF lines
		sb.WriteString("\r\n")
		for _, p := range pats {
			sb.WriteString(p + "\r\n\r\n")
		}
	case 5: // indented comments, whitespace-only lines
		sb.WriteString("   \n\t# indented comment\n")
		for _, p := range pats {
			sb.WriteString("\t\t" + p + "\n   \t \n    # x/y\n")
		}
	default:
		panic("c08c: no such style")
	}
	return sb.String()
}

type c08cFiles struct {
	dir   string
	known map[string]string
}

func c08cNewFiles(t *testing.T) *c08cFiles {
	base := os.Getenv("VERIF_WORKDIR")
	if base == "" {
		base = t.TempDir()
	}
	dir := filepath.Join(base, fmt.Sprintf("c08-collect-%s-%d", os.Getenv("VERIF_SHARD"), os.Getpid()))
	if err := os.MkdirAll(dir, 0o755); err != nil {
		t.Fatalf("scratch dir: %v", err)
	}
	t.Cleanup(func() { _ = os.RemoveAll(dir) })
	return &c08cFiles{dir: dir, known: map[string]string{}}
}

func (f *c08cFiles) path(t *testing.T, content string) string {
	if p, ok := f.known[content]; ok {
		return p
	}
	sum := sha1.Sum([]byte(content))
	p := filepath.Join(f.dir, "patterns-"+hex.EncodeToString(sum[:8])+".txt")
	if err := os.WriteFile(p, []byte(content), 0o644); err != nil {
		t.Fatalf("write pattern file: %v", err)
	}
	f.known[content] = p
	return p
}

// c08cPerms returns all permutations of xs (in a deterministic order).
func c08cPerms[T any](xs []T) [][]T {
	if len(xs) <= 1 {
		return [][]T{append([]T{}, xs...)}
	}
	var out [][]T
	for i := range xs {
		rest := append(append([]T{}, xs[:i]...), xs[i+1:]...)
		for _, p := range c08cPerms(rest) {
			out = append(out, append([]T{xs[i]}, p...))
		}
	}
	return out
}

// c08cPartitions returns all set partitions of xs (blocks keep the order of xs).
func c08cPartitions(xs []string) [][][]string {
	if len(xs) == 0 {
		return [][][]string{{}}
	}
	first, rest := xs[0], xs[1:]
	var out [][][]string
	for _, part := range c08cPartitions(rest) {
		// first in a block of its own
		out = append(out, append([][]string{{first}}, part...))
		// or joined to one of the existing blocks
		for i := range part {
			cp := make([][]string, len(part))
			for j := range part {
				cp[j] = append([]string{}, part[j]...)
			}
			cp[i] = append([]string{first}, cp[i]...)
			out = append(out, cp)
		}
	}
	return out
}

// c08cSubsets returns all subsets of xs with at most max elements, smallest first.
func c08cSubsets(xs []string, max int) [][]string {
	var out [][]string
	for size := 0; size <= max; size++ {
		var rec func(start int, cur []string)
		rec = func(start int, cur []string) {
			if len(cur) == size {
				out = append(out, append([]string{}, cur...))
				return
			}
			for i := start; i < len(xs); i++ {
				rec(i+1, append(cur, xs[i]))
			}
		}
		rec(0, nil)
	}
	return out
}

// c08cPresentations enumerates every way of presenting the pattern set: each
// block of a partition is a direct value (singletons only) or an @file (at
// most two pattern files), the patterns of a file in every order and every
// style, the arguments in every order, and optionally one extra @file holding
// no pattern at all (empty, or comments only) at every position.
func c08cPresentations(set []string, styles []int, emit func(args []c08cArg)) {
	emptyFiles := []string{"", "# nothing but a comment\n\n"}
	for _, part := range c08cPartitions(set) {
		// kinds: bit i set => block i is a file
		for kinds := 0; kinds < 1<<len(part); kinds++ {
			files, ok := 0, true
			for i, block := range part {
				isFile := kinds&(1<<i) != 0
				if isFile {
					files++
				} else if len(block) != 1 {
					ok = false
				}
			}
			if !ok || files > 2 {
				continue
			}
			// expand file blocks: order within the file and style
			var expand func(i int, cur []c08cArg)
			expand = func(i int, cur []c08cArg) {
				if i < len(part) {
					if kinds&(1<<i) == 0 {
						expand(i+1, append(cur, c08cArg{Direct: part[i][0]}))
						return
					}
					for _, order := range c08cPerms(part[i]) {
						for _, style := range styles {
							arg := c08cArg{IsFile: true, Patterns: order, Style: style, Content: c08cRender(order, style)}
							expand(i+1, append(append([]c08cArg{}, cur...), arg))
						}
					}
					return
				}
				for _, args := range c08cPerms(cur) {
					emit(args)
					for _, content := range emptyFiles {
						for pos := 0; pos <= len(args); pos++ {
							with := append(append(append([]c08cArg{}, args[:pos]...), c08cArg{IsFile: true, Content: content}), args[pos:]...)
							emit(with)
						}
					}
				}
			}
			expand(0, nil)
		}
	}
}

var c08cFlagNames = []string{runFlagName, skipFlagName, knownFailingFlagName, knownFlakyFlagName} //nolint:gochecknoglobals

func c08cFlagSlice(fl *flags, name string) []string {
	switch name {
	case runFlagName:
		return fl.runPatterns
	case skipFlagName:
		return fl.skipPatterns
	case knownFailingFlagName:
		return fl.knownFailingPatterns
	case knownFlakyFlagName:
		return fl.knownFlakyPatterns
	}
	panic("c08c: no such flag " + name)
}

type c08cResult struct {
	flagValues []string
	got        []string
	err        string
	panicked   string
}

// c08cCollect parses a real argv with the real flag set and converts the
// collected values with the real argsToPatterns, exactly as run() does before
// calling connectconformance.Run.
func c08cCollect(flagName string, values []string, form int) (res c08cResult) {
	defer func() {
		if x := recover(); x != nil {
			res.panicked = fmt.Sprint(x)
		}
	}()
	fl := &flags{}
	cmd := &cobra.Command{Use: "connectconformance", Run: func(*cobra.Command, []string) {}}
	bind(cmd, fl)
	argv := []string{"--" + modeFlagName, "client"}
	for i, v := range values {
		separate := i%2 == 0
		switch form {
		case 1:
			separate = true
		case 2:
			separate = false
		}
		if strings.HasPrefix(v, "-") {
			separate = false // a value that looks like an option is attached to its flag
		}
		if separate {
			argv = append(argv, "--"+flagName, v)
		} else {
			argv = append(argv, "--"+flagName+"="+v)
		}
	}
	argv = append(argv, "--", "some-command")
	if err := cmd.ParseFlags(argv); err != nil {
		res.err = "flag parsing: " + err.Error()
		return res
	}
	res.flagValues = append([]string{}, c08cFlagSlice(fl, flagName)...)
	got, err := argsToPatterns(c08cFlagSlice(fl, flagName))
	if err != nil {
		res.err = err.Error()
	}
	res.got = got
	return res
}

func c08cMultiset(xs []string) map[string]int {
	m := map[string]int{}
	for _, x := range xs {
		m[x]++
	}
	return m
}

// c08cDiff returns what is missing from got and what got has in excess.
func c08cDiff(want, got []string) (missing, extra []string) {
	w, g := c08cMultiset(want), c08cMultiset(got)
	for x, n := range w {
		for i := g[x]; i < n; i++ {
			missing = append(missing, x)
		}
	}
	for x, n := range g {
		for i := w[x]; i < n; i++ {
			extra = append(extra, x)
		}
	}
	sort.Strings(missing)
	sort.Strings(extra)
	return missing, extra
}

func c08cJudge(t *testing.T, r *rep.Report, files *c08cFiles, cs c08cCase, verbose bool) {
	values := make([]string, len(cs.Args))
	for i, a := range cs.Args {
		if a.IsFile {
			values[i] = "@" + files.path(t, a.Content)
		} else {
			values[i] = a.Direct
		}
	}
	res := c08cCollect(cs.Flag, values, cs.Form)
	r.Eval(1)
	if verbose {
		fmt.Printf("replay: --%s values %q\n  file contents: %q\n  collected %q err=%q panicked=%q\n  given patterns %q\n",
			cs.Flag, values, c08cContents(cs.Args), res.got, res.err, res.panicked, cs.Want)
	}
	switch {
	case res.panicked != "":
		r.Outcome("panic")
		r.Violate("panic", fmt.Sprintf("collecting --%s %s panicked: %s", cs.Flag, c08cDescribe(cs.Args), res.panicked), cs)
		return
	case res.err != "":
		r.Outcome("error")
		r.Violate("collect-error", fmt.Sprintf("collecting --%s %s failed: %s", cs.Flag, c08cDescribe(cs.Args), res.err), cs)
		return
	}
	if strings.Join(res.flagValues, "\x00") != strings.Join(values, "\x00") {
		r.Violate("flag-values-lost", fmt.Sprintf("--%s given %d times with %q, flag set holds %q", cs.Flag, len(values), values, res.flagValues), cs)
		return
	}
	missing, extra := c08cDiff(cs.Want, res.got)
	if len(missing) == 0 && len(extra) == 0 {
		if strings.Join(res.got, "\x00") == strings.Join(cs.Want, "\x00") {
			r.Outcome("exact-in-order")
		} else {
			r.Outcome("exact-other-order")
			r.Count("order-differs-from-presentation", 1)
		}
		return
	}
	// Which part failed? Present every argument on its own.
	perArgOK := true
	for i, a := range cs.Args {
		alone := c08cCollect(cs.Flag, values[i:i+1], cs.Form)
		want := a.Patterns
		if !a.IsFile {
			want = []string{a.Direct}
		}
		m, e := c08cDiff(want, alone.got)
		if alone.err != "" || alone.panicked != "" || len(m) > 0 || len(e) > 0 {
			perArgOK = false
		}
	}
	detail := fmt.Sprintf("--%s %s: given patterns %q, handed on %q (missing %q, extra %q)",
		cs.Flag, c08cDescribe(cs.Args), cs.Want, res.got, missing, extra)
	switch {
	case !perArgOK:
		r.Outcome("file-parse-mismatch")
		r.Violate("patternfile-parse-mismatch", detail+"; a single argument on its own is already collected wrongly", cs)
	case len(missing) > 0:
		r.Outcome("dropped")
		r.Violate("atfile-drops-patterns", detail+"; every argument on its own is collected correctly, together some do not take part", cs)
	default:
		r.Outcome("extra")
		r.Violate("collects-extra-patterns", detail, cs)
	}
}

func c08cContents(args []c08cArg) []string {
	var out []string
	for _, a := range args {
		if a.IsFile {
			out = append(out, a.Content)
		}
	}
	return out
}

func c08cDescribe(args []c08cArg) string {
	parts := make([]string, len(args))
	for i, a := range args {
		if a.IsFile {
			parts[i] = fmt.Sprintf("@file%q", a.Content)
		} else {
			parts[i] = fmt.Sprintf("%q", a.Direct)
		}
	}
	return "[" + strings.Join(parts, ", ") + "]"
}

// c08cFileModel is the documented meaning of a pattern file
// (docs/configuring_and_running_tests.md: "the path of a file that contains
// patterns, one per line. Leading and trailing whitespace is discarded from
// each line, blank lines are ignored, and lines that start with a pound-sign
// (`#`) are treated as comments and ignored."): the lines are what stands
// between line feeds; whitespace (blank, tab, carriage return, vertical tab,
// form feed) is dropped from both ends of a line; a line with nothing left, or
// whose first remaining character is '#', contributes nothing; every other
// line is one pattern, taken as it stands — a '#' further on, blanks inside,
// commas and quotes are pattern text.
func c08cFileModel(content string) []string {
	isSpace := func(c byte) bool {
		return c == ' ' || c == '\t' || c == '\r' || c == '\v' || c == '\f' || c == '\n'
	}
	var pats []string
	start := 0
	for i := 0; i <= len(content); i++ {
		if i < len(content) && content[i] != '\n' {
			continue
		}
		lo, hi := start, i
		start = i + 1
		for lo < hi && isSpace(content[lo]) {
			lo++
		}
		for hi > lo && isSpace(content[hi-1]) {
			hi--
		}
		if lo == hi || content[lo] == '#' {
			continue
		}
		pats = append(pats, content[lo:hi])
	}
	return pats
}

// c08cRawLines: the line alphabet of the raw-file family. Lines as they stand in
// a file (without the line terminator): nothing, whitespace only, plain
// patterns with blanks / tabs before, behind and inside, and '#' at every kind
// of place — first character, first after indentation, directly behind text,
// behind a blank or a tab inside the line, as the last character, as the first
// character of a later component, alone.
var c08cRawLines = []string{ //nolint:gochecknoglobals
	"", " ", "\t",
	"a", " a", "a ", "\ta/b \t", "a b/*", "a  b",
	"#", "#a", " #a", "\t# a/b", "# a #b", "##",
	"a#", "a#b", "a# b/*", "a/#b", "*/# b",
	"a #b", "a # b", "a\t#b", "a #", "a\t#", "a b #c/**", "S/**/regression #42", "a/ #b/c", "a/\t# b",
}

// c08cRawFiles enumerates every sequence of 1..maxLines raw lines, each written
// with LF after every line, with LF between the lines only, and with CRLF after
// every line.
func c08cRawFiles(maxLines int, emit func(lines []string, content string)) {
	var rec func(cur []string)
	rec = func(cur []string) {
		if len(cur) > 0 {
			emit(cur, strings.Join(cur, "\n")+"\n")
			emit(cur, strings.Join(cur, "\n"))
			emit(cur, strings.Join(cur, "\r\n")+"\r\n")
		}
		if len(cur) == maxLines {
			return
		}
		for _, l := range c08cRawLines {
			rec(append(append([]string{}, cur...), l))
		}
	}
	rec(nil)
}

// c08cVerbatim: flag values that a command-line layer could mangle. A pattern
// is a slash-separated list of name components, a component is any text
// (names come from suite files, including user suites), so commas, quotes,
// blanks, backslashes, '=', a leading '-' and the empty string are ordinary
// pattern text: the value given is the pattern that takes part, verbatim.
// (Only as direct values: a pattern file trims lines and treats '#'.)
var c08cVerbatim = []string{ //nolint:gochecknoglobals
	"a,b", "Pairs/*/a,b", "Retries/**/first fails, second succeeds", ",", "a/,/b",
	`x "quoted" y`, `"`, `"a/b"`, `s/"*"/c`, "it's/*",
	" lead", "trail ", "two  blanks/x y",
	`a\b`, `a\`, `\n/x`,
	"k=v/**", "=", "a=b=c",
	"-x/*", "--run", "-", "--known-flaky=a",
	"", "a//b", "/a", "a/",
	"[a]", "a;b", "{a,b}", "a|b", "$HOME/*", "%s/%d", "a\tb",
	// round 5: '#' and blanks / tabs next to it; a direct value is never a comment and never trimmed
	"#", "#a/b", "# a", "a #b", "S/**/regression #42", "a\t#b/*", "a# b", " #", "a # ", "\ta/b\t", " ",
}

// c08cVerbatimCases: every value alone, every ordered pair of values, and every
// value before / after / between ordinary arguments (a direct plain pattern and
// an @file), through each flag and in each command-line form.
func c08cVerbatimCases(thorough bool, emit func(args []c08cArg, form int)) {
	file := c08cArg{IsFile: true, Patterns: []string{"Suite A/x y", "s/*/b", "t/**/issue #7", "u/x\t# y/*"}, Style: 2}
	file.Content = c08cRender(file.Patterns, file.Style)
	plain := c08cArg{Direct: "**/c#d"}
	for _, form := range []int{1, 2} {
		for _, v := range c08cVerbatim {
			d := c08cArg{Direct: v}
			emit([]c08cArg{d}, form)
			emit([]c08cArg{d, d}, form) // the same pattern twice is supplied twice
			emit([]c08cArg{plain, d}, form)
			emit([]c08cArg{d, plain}, form)
			emit([]c08cArg{file, d}, form)
			emit([]c08cArg{d, file}, form)
			emit([]c08cArg{plain, d, file}, form)
		}
		for i, v := range c08cVerbatim {
			for j, w := range c08cVerbatim {
				if i == j || (!thorough && (i+j)%3 != 0) {
					continue
				}
				emit([]c08cArg{{Direct: v}, {Direct: w}}, form)
			}
		}
	}
}

func TestVerifC08Collect(t *testing.T) {
	r := rep.New("c08-collect")
	defer r.Write()
	files := c08cNewFiles(t)
	if data := rep.ReplayInput(); data != nil {
		var rec struct {
			Replay c08cCase `json:"replay"`
		}
		if err := json.Unmarshal(data, &rec); err != nil {
			t.Fatalf("bad replay file: %v", err)
		}
		c08cJudge(t, r, files, rec.Replay, true)
		return
	}
	// pattern alphabet: a literal name with a blank inside, one with `*`, one
	// with `**` and a '#' that does not start the line, one with a '@' inside
	alphabet := []string{"Suite A/x y", "s/*/b", "**/c#d"}
	styles := []int{0, 2, 3, 5}
	if rep.Thorough() {
		alphabet = append(alphabet, "a@b/**/*")
		styles = []int{0, 1, 2, 3, 4, 5}
	}
	maxLines := 2
	if rep.Thorough() {
		maxLines = 3
	}
	// the two descriptions of the file format in this harness (the rendering styles and the reader model) must agree
	for style := 0; style < c08cStyles; style++ {
		for _, set := range append(c08cSubsets(append(append([]string{}, alphabet...), "a@b/**/*", "t/**/issue #7", "u/x\t# y/*"), 3), nil) {
			if got := c08cFileModel(c08cRender(set, style)); strings.Join(got, "\x00") != strings.Join(set, "\x00") {
				t.Fatalf("harness inconsistency: style %d renders %q as %q, which the file model reads as %q", style, set, c08cRender(set, style), got)
			}
		}
	}
	r.Rule = fmt.Sprintf("every subset of <=3 of the %d patterns %q x every presentation: each block of every set partition is a direct flag value (singletons) or an @file (<=2 pattern files), "+
		"patterns of a file in every order, file written in each of %d styles (plain, no final newline, comments/blank lines, surrounding blanks, CRLF, indented comments), arguments in every order, "+
		"optionally one more @file without any pattern (empty / comment only) at every position; each presentation given through each of the 4 flags (--run --skip --known-failing --known-flaky), "+
		"alternating `--flag v` and `--flag=v`, parsed by the real flag set, converted by the real argsToPatterns. Oracle: the multiset of given patterns. "+
		"A case is non-trivial when it has >=2 arguments of which >=1 is an @file; cases are distinct by construction. "+
		"Verbatim family: %d direct flag values with a comma, double / single quote, leading / trailing / doubled blank, backslash, '=', leading '-', the empty string, empty components, brackets and other shell / format characters, '#' first / behind a blank or tab / alone, a lone blank, "+
		"each alone, twice, before / after a plain pattern and an @file, and in ordered pairs (quick: a third of them), through each of the 4 flags, once as `--flag v` and once as `--flag=v` (values with a leading '-' always as `--flag=v`): "+
		"the flag set must hold exactly the values given and argsToPatterns must hand on exactly those patterns. "+
		"Raw-file family: every sequence of 1..%d lines over a line alphabet of %d raw lines (empty, whitespace only, text with blanks / tabs before, behind and inside, '#' as first character, first after indentation, directly behind text, behind a blank or tab inside the line, last, first of a later component, alone), "+
		"written with LF after every line, LF between lines only, CRLF; as the only value and (one-line files) before / after the same text as a direct flag value, through each of the 4 flags. "+
		"Oracle: a reader model written from docs/configuring_and_running_tests.md (lines between line feeds, surrounding whitespace dropped, empty lines and lines whose first remaining character is '#' ignored, everything else verbatim); direct values verbatim.",
		len(alphabet), alphabet, len(styles), len(c08cVerbatim), maxLines, len(c08cRawLines))
	deadline := rep.Deadline()
	var k int64
	stop := false
	// the verbatim family first (small)
	c08cVerbatimCases(rep.Thorough(), func(args []c08cArg, form int) {
		for _, flagName := range c08cFlagNames {
			k++
			if stop || !r.Mine(k) {
				continue
			}
			if !deadline.IsZero() && k%64 == 0 && time.Now().After(deadline) {
				r.NotExhaustive("budget reached in c08-collect")
				stop = true
				continue
			}
			cs := c08cCase{Flag: flagName, Args: args, Form: form}
			for _, a := range args {
				if a.IsFile {
					cs.Want = append(cs.Want, a.Patterns...)
				} else {
					cs.Want = append(cs.Want, a.Direct)
				}
			}
			c08cJudge(t, r, files, cs, false)
			r.NonTrivial("")
			r.Count("verbatim-family", 1)
			if k%701 == 5 {
				r.Sample(cs)
			}
		}
	})
	// raw-file family: the file reader against the documented file format
	c08cRawFiles(maxLines, func(lines []string, content string) {
		pats := c08cFileModel(content)
		file := c08cArg{IsFile: true, Patterns: pats, Style: c08cStyleRaw, Content: content}
		presentations := [][]c08cArg{{file}}
		if len(lines) == 1 {
			// the same text by both routes: as a line of a file (trimmed, maybe a comment) and as a flag value (verbatim)
			d := c08cArg{Direct: lines[0]}
			presentations = append(presentations, []c08cArg{file, d}, []c08cArg{d, file})
		}
		for _, args := range presentations {
			for _, flagName := range c08cFlagNames {
				k++
				if stop || !r.Mine(k) {
					continue
				}
				if !deadline.IsZero() && k%64 == 0 && time.Now().After(deadline) {
					r.NotExhaustive("budget reached in c08-collect")
					stop = true
					continue
				}
				cs := c08cCase{Flag: flagName, Args: args, Form: 1 + int(k%2)}
				for _, a := range args {
					if a.IsFile {
						cs.Want = append(cs.Want, a.Patterns...)
					} else {
						cs.Want = append(cs.Want, a.Direct)
					}
				}
				c08cJudge(t, r, files, cs, false)
				if len(pats) >= 1 && strings.Join(pats, "\n") != strings.Join(lines, "\n") {
					r.NonTrivial("") // something is dropped or trimmed and something is left
				}
				r.Count(fmt.Sprintf("raw-file-family:lines=%d,patterns=%d", len(lines), len(pats)), 1)
				if k%2003 == 9 {
					r.Sample(cs)
				}
			}
		}
	})
	for _, set := range c08cSubsets(alphabet, 3) {
		c08cPresentations(set, styles, func(args []c08cArg) {
			for _, flagName := range c08cFlagNames {
				k++
				if stop || !r.Mine(k) {
					continue
				}
				if !deadline.IsZero() && k%64 == 0 && time.Now().After(deadline) {
					r.NotExhaustive("budget reached in c08-collect")
					stop = true
					continue
				}
				cs := c08cCase{Flag: flagName, Args: args}
				nFiles := 0
				for _, a := range args {
					if a.IsFile {
						nFiles++
						cs.Want = append(cs.Want, a.Patterns...)
					} else {
						cs.Want = append(cs.Want, a.Direct)
					}
				}
				c08cJudge(t, r, files, cs, false)
				if len(args) >= 2 && nFiles >= 1 {
					r.NonTrivial("")
				}
				r.Count(fmt.Sprintf("args=%d,files=%d", len(args), nFiles), 1)
				if k%3001 == 17 {
					r.Sample(cs)
				}
			}
		})
	}
}
