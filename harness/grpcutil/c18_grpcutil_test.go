package grpcutil

// C18 — "Error, metadata and message conversions are lossless", part 2 of 2
// (package internal/grpcutil): errors.go, metadata.go, and the chains that need
// package internal as well.
//
//   gerr/…  errors (same alphabet as part 1): Proto→gRPC status→Proto, the
//           status form in between, the same trip twice, and the mixed chains
//           Proto→Connect→Proto→gRPC→Proto / Proto→gRPC→Proto→Connect→Proto.
//   md/…    header lists over names in 3 case variants, repeated keys and -bin
//           keys: ProtoHeader→MD, MD→ProtoHeader (the same object converted
//           twice), both round trips, AppendToOutgoingContext.
//   bin/…   one -bin key with every 1-byte value and a sample of 2-6 byte
//           values, alone and followed by a second value.
//   …/f=N   the same header list with the base64 text of its -bin values
//           written padded (1), mixed (2), URL-safe unpadded (3) / padded (4).
//   gerr/enc/…  valid but non-canonical encodings of detail values.
//   pct/…   PercentEncodeMessage / ShouldEscapeByteInMessage on every byte
//           string of length ≤2 and all 3-byte strings over a fixed alphabet.

import (
	"bytes"
	"context"
	"encoding/base64"
	"encoding/json"
	"errors"
	"fmt"
	"sort"
	"strings"
	"testing"
	"time"

	"connectrpc.com/conformance/internal"
	conformancev1 "connectrpc.com/conformance/internal/gen/proto/go/connectrpc/conformance/v1"
	"connectrpc.com/conformance/internal/verif/rep"
	"google.golang.org/grpc/metadata"
	"google.golang.org/grpc/status"
	"google.golang.org/protobuf/encoding/protowire"
	"google.golang.org/protobuf/proto"
	"google.golang.org/protobuf/reflect/protoreflect"
	"google.golang.org/protobuf/reflect/protoregistry"
	"google.golang.org/protobuf/types/descriptorpb"
	"google.golang.org/protobuf/types/dynamicpb"
	"google.golang.org/protobuf/types/known/anypb"
	"google.golang.org/protobuf/types/known/durationpb"
	"google.golang.org/protobuf/types/known/emptypb"
	"google.golang.org/protobuf/types/known/wrapperspb"
)

// ---------------------------------------------------------------------------
// run bookkeeping (same shape as in part 1; the two files live in different packages)
// ---------------------------------------------------------------------------

type c18gReplay struct {
	Case string `json:"case"`
}

type c18gRun struct {
	r        *rep.Report
	k        int64
	replayID string
	replayed bool
	deadline time.Time
	stop     bool
	seen     map[string]bool
}

func (c *c18gRun) take(id string) bool {
	if c.stop {
		return false
	}
	if c.replayID != "" {
		if id == c.replayID {
			c.replayed = true
			fmt.Printf("C18 replay: re-running case %s\n", id)
			return true
		}
		return false
	}
	c.k++
	if !c.r.Mine(c.k) {
		return false
	}
	if !c.deadline.IsZero() && c.k%64 == 0 && time.Now().After(c.deadline) {
		c.r.NotExhaustive("soft budget reached; cases are enumerated simplest-first, the rest was not evaluated")
		c.stop = true
		return false
	}
	return true
}

// violate records the first failing case of every kind per shard in full (with
// a replay record); further ones of the same kind are only counted — they are
// enumerated simplest-first, so the recorded one is the simplest of its shard.
func (c *c18gRun) violate(key, id, detail string) {
	if c.seen == nil {
		c.seen = map[string]bool{}
	}
	if c.seen[key] && c.replayID == "" {
		c.r.Count("violations:"+key, 1)
		return
	}
	c.seen[key] = true
	c.r.Violate(key, id+": "+detail, c18gReplay{Case: id})
	if c.replayID != "" {
		fmt.Printf("C18 replay: STILL FAILS key=%s\n  %s\n", key, detail)
	}
}

func (c *c18gRun) thorough() bool { return rep.Thorough() || c.replayID != "" }

func (c *c18gRun) size(name string, n int) {
	if c.r.Shard == 0 && c.replayID == "" {
		c.r.Count("size:"+name, int64(n))
	}
}

func (c *c18gRun) say(format string, a ...any) {
	if c.replayID != "" {
		fmt.Printf("C18 replay: "+format+"\n", a...)
	}
}

func c18gGuard(fn func()) (panicked string) {
	defer func() {
		if p := recover(); p != nil {
			panicked = fmt.Sprint(p)
		}
	}()
	fn()
	return ""
}

// ---------------------------------------------------------------------------
// errors
// ---------------------------------------------------------------------------

type c18gDetail struct {
	Name  string
	URL   string
	Value []byte
}

type c18gMsg struct {
	Set  bool
	Text string
}

func c18gMessages() []c18gMsg {
	out := []c18gMsg{{false, ""}, {true, ""}, {true, "an ascii message"}}
	for b := 0; b < 256; b++ {
		s := string([]byte{byte(b)})
		if strings.ToValidUTF8(s, "") == s {
			out = append(out, c18gMsg{true, s})
		}
	}
	for _, s := range []string{
		"é", "€", "𝄞", "100% sure", "%41", "%", "%%", "日本語 %E3%81", "a b", "�",
		"x%\x00y", "line1\nline2\ttab", " leading and trailing ", "type.googleapis.com/",
	} {
		out = append(out, c18gMsg{true, s})
	}
	return out
}

func c18gMustMarshal(m proto.Message) []byte {
	b, err := proto.MarshalOptions{Deterministic: true}.Marshal(m)
	if err != nil {
		panic(err)
	}
	return b
}

const c18gPrefix = "type.googleapis.com/"

func c18gDetailPool() []c18gDetail {
	hdr := &conformancev1.Header{Name: "x-detail", Value: []string{"a", "b%"}}
	inner := &conformancev1.Error{Code: conformancev1.Code_CODE_ABORTED, Message: proto.String("inner é")}
	if a, err := anypb.New(hdr); err == nil {
		inner.Details = append(inner.Details, a)
	}
	var nonCanon []byte
	nonCanon = protowire.AppendTag(nonCanon, 2, protowire.BytesType)
	nonCanon = protowire.AppendString(nonCanon, "v")
	nonCanon = protowire.AppendTag(nonCanon, 1, protowire.BytesType)
	nonCanon = protowire.AppendString(nonCanon, "old")
	nonCanon = protowire.AppendTag(nonCanon, 1, protowire.BytesType)
	nonCanon = protowire.AppendString(nonCanon, "n")
	return []c18gDetail{
		{"header", c18gPrefix + "connectrpc.conformance.v1.Header", c18gMustMarshal(hdr)},
		{"empty", c18gPrefix + "google.protobuf.Empty", c18gMustMarshal(&emptypb.Empty{})},
		{"string", c18gPrefix + "google.protobuf.StringValue", c18gMustMarshal(wrapperspb.String("100% é\x00"))},
		{"error", c18gPrefix + "connectrpc.conformance.v1.Error", c18gMustMarshal(inner)},
		{"noncanon", c18gPrefix + "connectrpc.conformance.v1.Header", nonCanon},
		{"duration", c18gPrefix + "google.protobuf.Duration", c18gMustMarshal(&durationpb.Duration{Seconds: 1, Nanos: 5})},
		{"reqinfo", c18gPrefix + "connectrpc.conformance.v1.ConformancePayload.RequestInfo",
			c18gMustMarshal(&conformancev1.ConformancePayload_RequestInfo{RequestHeaders: []*conformancev1.Header{hdr}})},
		{"foreignprefix", "example.com/types/connectrpc.conformance.v1.Header", c18gMustMarshal(hdr)},
	}
}

func c18gDetailLists(n, maxLen int) [][]int {
	out := [][]int{{}}
	prev := [][]int{{}}
	for l := 1; l <= maxLen; l++ {
		var next [][]int
		for _, p := range prev {
			for i := 0; i < n; i++ {
				next = append(next, append(append([]int{}, p...), i))
			}
		}
		out = append(out, next...)
		prev = next
	}
	return out
}

type c18gErrSpec struct {
	Code    int32
	Msg     c18gMsg
	Details []c18gDetail
}

func (s c18gErrSpec) build() *conformancev1.Error {
	e := &conformancev1.Error{Code: conformancev1.Code(s.Code)}
	if s.Msg.Set {
		e.Message = proto.String(s.Msg.Text)
	}
	for _, d := range s.Details {
		e.Details = append(e.Details, &anypb.Any{TypeUrl: d.URL, Value: append([]byte(nil), d.Value...)})
	}
	return e
}

func c18gTypeName(url string) string { return url[strings.LastIndexByte(url, '/')+1:] }

// c18gCompare compares code, message and details against the specification.
// exactURL: the path never drops the URL prefix (pure gRPC path), so even a
// foreign prefix must come back unchanged; otherwise a foreign prefix is only
// required to keep the type name.
func c18gCompare(code int32, msg string, details []*anypb.Any, s c18gErrSpec, exactURL bool) (aspect, detail string) {
	if code != s.Code {
		return "code", fmt.Sprintf("code %d became %d", s.Code, code)
	}
	if msg != s.Msg.Text {
		return "message", fmt.Sprintf("message %q became %q", s.Msg.Text, msg)
	}
	if len(details) != len(s.Details) {
		return "detail-count", fmt.Sprintf("%d details became %d", len(s.Details), len(details))
	}
	for i, d := range s.Details {
		g := details[i]
		if exactURL || strings.HasPrefix(d.URL, c18gPrefix) {
			if g.GetTypeUrl() != d.URL {
				return "detail-type-url", fmt.Sprintf("detail %d type URL %q became %q", i, d.URL, g.GetTypeUrl())
			}
		} else if c18gTypeName(g.GetTypeUrl()) != c18gTypeName(d.URL) {
			return "detail-type-url", fmt.Sprintf("detail %d type %q (URL %q) became URL %q", i, c18gTypeName(d.URL), d.URL, g.GetTypeUrl())
		}
		if !bytes.Equal(g.GetValue(), d.Value) {
			return "detail-bytes", fmt.Sprintf("detail %d (%s) bytes %x became %x", i, d.Name, d.Value, g.GetValue())
		}
	}
	return "", ""
}

// ---------------------------------------------------------------------------
// grammar of valid but non-canonical encodings of a detail value
// ---------------------------------------------------------------------------

// c18gEncVariant is one alternative encoding of the value of a detail: the bytes
// are valid for the type (proto.Unmarshal accepts them) but differ from what
// the Go marshaller emits for the decoded value. Another protobuf runtime may
// legitimately put any of them on the wire; a conversion must carry them
// verbatim.
type c18gEncVariant struct {
	Name  string
	Value []byte
}

type c18gWireRec struct {
	Num protowire.Number
	Typ protowire.Type
	Raw []byte // tag + value
	Val []byte // value part only
}

func c18gSplitRecords(b []byte) ([]c18gWireRec, bool) {
	var out []c18gWireRec
	for len(b) > 0 {
		num, typ, n := protowire.ConsumeTag(b)
		if n < 0 {
			return nil, false
		}
		m := protowire.ConsumeFieldValue(num, typ, b[n:])
		if m < 0 {
			return nil, false
		}
		out = append(out, c18gWireRec{num, typ, append([]byte(nil), b[:n+m]...), append([]byte(nil), b[n:n+m]...)})
		b = b[n+m:]
	}
	return out, true
}

// c18gLongVarint re-encodes a minimal varint with one redundant continuation
// group (…|0x80, 0x00): same value, one byte more.
func c18gLongVarint(min []byte) []byte {
	out := append([]byte(nil), min...)
	out[len(out)-1] |= 0x80
	return append(out, 0x00)
}

func c18gJoin(recs []c18gWireRec) []byte {
	var out []byte
	for _, r := range recs {
		out = append(out, r.Raw...)
	}
	return out
}

// c18gEncodingVariants derives the alternative encodings from the canonical
// bytes of a value of the given (registered) message type:
//   - field records in reverse order / first record moved to the end,
//   - an unknown varint field in front, between and behind the known ones,
//   - every tag, the first length prefix, the first varint value written as a
//     non-minimal varint,
//   - a scalar field without presence that is absent, written explicitly with
//     its default value (in front and at the end),
//   - a singular scalar field given twice (earlier value is overridden),
//   - a packed repeated numeric field written unpacked and vice versa.
//
// Only variants that the protobuf runtime accepts for the type and that differ
// from the canonical bytes are returned.
func c18gEncodingVariants(md protoreflect.MessageDescriptor, canon []byte) []c18gEncVariant {
	recs, ok := c18gSplitRecords(canon)
	if !ok {
		return nil
	}
	var cands []c18gEncVariant
	add := func(name string, b []byte) { cands = append(cands, c18gEncVariant{name, b}) }
	// an unknown field: number above every declared one
	unkNum := protowire.Number(1)
	for i := 0; i < md.Fields().Len(); i++ {
		if n := md.Fields().Get(i).Number(); n >= unkNum {
			unkNum = n + 1
		}
	}
	unk := protowire.AppendVarint(protowire.AppendTag(nil, unkNum, protowire.VarintType), 1)

	if len(recs) >= 2 {
		rev := make([]c18gWireRec, len(recs))
		for i, r := range recs {
			rev[len(recs)-1-i] = r
		}
		add("fields-reversed", c18gJoin(rev))
	}
	if len(recs) >= 3 {
		add("first-field-last", c18gJoin(append(append([]c18gWireRec{}, recs[1:]...), recs[0])))
	}
	add("unknown-field-first", append(append([]byte(nil), unk...), canon...))
	if len(recs) >= 1 {
		add("unknown-field-behind", append(append([]byte(nil), canon...), unk...))
	}
	if len(recs) >= 2 {
		b := append([]byte(nil), recs[0].Raw...)
		b = append(b, unk...)
		add("unknown-field-between", append(b, c18gJoin(recs[1:])...))
	}
	if len(recs) >= 1 {
		var b []byte
		for _, r := range recs {
			tag := r.Raw[:len(r.Raw)-len(r.Val)]
			b = append(b, c18gLongVarint(tag)...)
			b = append(b, r.Val...)
		}
		add("non-minimal-tags", b)
	}
	for i, r := range recs {
		if r.Typ == protowire.BytesType {
			_, n := protowire.ConsumeVarint(r.Val)
			var b []byte
			b = append(b, c18gJoin(recs[:i])...)
			b = append(b, r.Raw[:len(r.Raw)-len(r.Val)]...)
			b = append(b, c18gLongVarint(r.Val[:n])...)
			b = append(b, r.Val[n:]...)
			b = append(b, c18gJoin(recs[i+1:])...)
			add("non-minimal-length", b)
			break
		}
	}
	for i, r := range recs {
		if r.Typ == protowire.VarintType {
			var b []byte
			b = append(b, c18gJoin(recs[:i])...)
			b = append(b, r.Raw[:len(r.Raw)-len(r.Val)]...)
			b = append(b, c18gLongVarint(r.Val)...)
			b = append(b, c18gJoin(recs[i+1:])...)
			add("non-minimal-varint", b)
			break
		}
	}
	present := map[protowire.Number]bool{}
	for _, r := range recs {
		present[r.Num] = true
	}
	zero := func(fd protoreflect.FieldDescriptor) []byte {
		switch fd.Kind() {
		case protoreflect.StringKind, protoreflect.BytesKind:
			return protowire.AppendBytes(protowire.AppendTag(nil, fd.Number(), protowire.BytesType), nil)
		case protoreflect.Fixed32Kind, protoreflect.Sfixed32Kind, protoreflect.FloatKind:
			return protowire.AppendFixed32(protowire.AppendTag(nil, fd.Number(), protowire.Fixed32Type), 0)
		case protoreflect.Fixed64Kind, protoreflect.Sfixed64Kind, protoreflect.DoubleKind:
			return protowire.AppendFixed64(protowire.AppendTag(nil, fd.Number(), protowire.Fixed64Type), 0)
		case protoreflect.MessageKind, protoreflect.GroupKind:
			return nil
		default:
			return protowire.AppendVarint(protowire.AppendTag(nil, fd.Number(), protowire.VarintType), 0)
		}
	}
	nDefault := 0
	for i := 0; i < md.Fields().Len() && nDefault < 2; i++ {
		fd := md.Fields().Get(i)
		if fd.IsList() || fd.IsMap() || fd.HasPresence() || present[fd.Number()] {
			continue
		}
		z := zero(fd)
		if z == nil {
			continue
		}
		nDefault++
		add("explicit-default-first:"+string(fd.Name()), append(append([]byte(nil), z...), canon...))
		if len(recs) >= 1 {
			add("explicit-default-last:"+string(fd.Name()), append(append([]byte(nil), canon...), z...))
		}
	}
	for i, r := range recs {
		fd := md.Fields().ByNumber(r.Num)
		if fd == nil || fd.IsList() || fd.IsMap() || fd.Kind() == protoreflect.MessageKind || fd.Kind() == protoreflect.GroupKind {
			continue
		}
		// the same field once more in front, with another value (the default): the later one wins
		z := zero(fd)
		if z == nil || bytes.Equal(z, r.Raw) {
			continue
		}
		var b []byte
		b = append(b, c18gJoin(recs[:i])...)
		b = append(b, z...)
		b = append(b, c18gJoin(recs[i:])...)
		add("singular-field-twice:"+string(fd.Name()), b)
		break
	}
	for i, r := range recs {
		fd := md.Fields().ByNumber(r.Num)
		if fd == nil || !fd.IsList() {
			continue
		}
		switch fd.Kind() {
		case protoreflect.StringKind, protoreflect.BytesKind, protoreflect.MessageKind, protoreflect.GroupKind:
			continue
		}
		if r.Typ == protowire.BytesType { // packed: write the elements unpacked
			payload, n := protowire.ConsumeBytes(r.Val)
			if n < 0 {
				continue
			}
			var elemType protowire.Type
			switch fd.Kind() {
			case protoreflect.Fixed32Kind, protoreflect.Sfixed32Kind, protoreflect.FloatKind:
				elemType = protowire.Fixed32Type
			case protoreflect.Fixed64Kind, protoreflect.Sfixed64Kind, protoreflect.DoubleKind:
				elemType = protowire.Fixed64Type
			default:
				elemType = protowire.VarintType
			}
			var b []byte
			b = append(b, c18gJoin(recs[:i])...)
			for len(payload) > 0 {
				m := protowire.ConsumeFieldValue(r.Num, elemType, payload)
				if m < 0 {
					break
				}
				b = protowire.AppendTag(b, r.Num, elemType)
				b = append(b, payload[:m]...)
				payload = payload[m:]
			}
			b = append(b, c18gJoin(recs[i+1:])...)
			add("packed-written-unpacked:"+string(fd.Name()), b)
		} else { // unpacked element: write it as a packed run of one
			var b []byte
			b = append(b, c18gJoin(recs[:i])...)
			b = protowire.AppendTag(b, r.Num, protowire.BytesType)
			b = protowire.AppendBytes(b, r.Val)
			b = append(b, c18gJoin(recs[i+1:])...)
			add("unpacked-written-packed:"+string(fd.Name()), b)
		}
		break
	}
	var out []c18gEncVariant
	seen := map[string]bool{string(canon): true}
	for _, cand := range cands {
		if seen[string(cand.Value)] {
			continue
		}
		if err := proto.Unmarshal(cand.Value, dynamicpb.NewMessage(md)); err != nil {
			continue // not valid for the type: outside this grammar
		}
		seen[string(cand.Value)] = true
		out = append(out, cand)
	}
	return out
}

// c18gEncTypes: canonical values of registered message types the grammar of
// alternative encodings is applied to (the registered types of the detail pool
// plus types with fixed-width, bool, bytes and packed repeated fields).
func c18gEncTypes() []c18gDetail {
	hdr := &conformancev1.Header{Name: "x-detail", Value: []string{"a", "b%"}}
	inner := &conformancev1.Error{Code: conformancev1.Code_CODE_ABORTED, Message: proto.String("inner é")}
	if a, err := anypb.New(hdr); err == nil {
		inner.Details = append(inner.Details, a)
	}
	mk := func(name string, m proto.Message) c18gDetail {
		return c18gDetail{name, c18gPrefix + string(m.ProtoReflect().Descriptor().FullName()), c18gMustMarshal(m)}
	}
	return []c18gDetail{
		mk("header", hdr),
		mk("empty", &emptypb.Empty{}),
		mk("string", wrapperspb.String("100% é\x00")),
		mk("error", inner),
		mk("duration", &durationpb.Duration{Seconds: 1, Nanos: 5}),
		mk("duration-seconds-only", &durationpb.Duration{Seconds: 7}),
		mk("header-without-name", &conformancev1.Header{Value: []string{"v"}}),
		mk("reqinfo", &conformancev1.ConformancePayload_RequestInfo{RequestHeaders: []*conformancev1.Header{hdr}, TimeoutMs: proto.Int64(300)}),
		mk("payload", &conformancev1.ConformancePayload{Data: []byte{0, 1, 0xff}}),
		mk("double", wrapperspb.Double(1.5)),
		mk("int32", wrapperspb.Int32(-1)),
		mk("bool", wrapperspb.Bool(true)),
		mk("location", &descriptorpb.SourceCodeInfo_Location{Path: []int32{4, 0, 300}, Span: []int32{1, 2, 3}, LeadingComments: proto.String("c")}),
	}
}

// encodingSection: every alternative encoding of every type of c18gEncTypes
// as the only detail, behind and in front of a canonically encoded detail and
// twice, x 3 codes x {no message, a message}, on every conversion path. The
// demanded result is the specification: same type URL, same BYTES.
func (c *c18gRun) encodingSection() {
	types := c18gEncTypes()
	canon := types[0]
	total := 0
	for _, d := range types {
		mt, err := protoregistry.GlobalTypes.FindMessageByURL(d.URL)
		if err != nil {
			panic(fmt.Sprintf("C18: %s is not a registered type: %v", d.URL, err))
		}
		variants := c18gEncodingVariants(mt.Descriptor(), d.Value)
		total += len(variants)
		for _, v := range variants {
			vd := c18gDetail{Name: d.Name + "~" + v.Name, URL: d.URL, Value: v.Value}
			layouts := [][]c18gDetail{{vd}, {canon, vd}, {vd, canon}, {vd, vd}}
			for li, layout := range layouts {
				for _, code := range []int32{1, 8, 16} {
					for mi, m := range []c18gMsg{{false, ""}, {true, "an ascii message"}} {
						id := fmt.Sprintf("gerr/enc/t=%s/v=%s/l=%d/c=%d/m=%d", d.Name, v.Name, li, code, mi)
						if !c.take(id) {
							continue
						}
						c.say("detail %s: canonical bytes %x, alternative encoding %x", vd.Name, d.Value, v.Value)
						c.r.Outcome("enc:" + strings.SplitN(v.Name, ":", 2)[0])
						c.errorCase(id, c18gErrSpec{Code: code, Msg: m, Details: layout})
						if li == 0 && code == 1 && mi == 0 && c.k%7 == 0 {
							c.r.Sample(map[string]any{"case": id, "type": d.URL, "canonical": fmt.Sprintf("%x", d.Value), "alternative-encoding": fmt.Sprintf("%x", v.Value)})
						}
					}
				}
			}
		}
	}
	c.size("gerr:alternative-encodings", total)
}

func (c *c18gRun) errorSection() {
	msgs := c18gMessages()
	pool := c18gDetailPool()
	maxLen := 2
	if c.thorough() {
		maxLen = 3
	}
	lists := c18gDetailLists(len(pool), maxLen)
	c.size("gerr:messages", len(msgs))
	c.size("gerr:detail-lists", len(lists))

	if c.take("gerr/nil") {
		c.r.Eval(1)
		c.r.NonTrivial("gerr/nil")
		if ConvertProtoToGrpcError(nil) != nil || ConvertGrpcToProtoError(nil) != nil {
			c.violate("error-roundtrip:nil-not-nil", "gerr/nil", "a nil error was converted to a non-nil one")
		}
	}
	// an error that carries no gRPC status: code unknown, message kept
	for mi, m := range msgs {
		id := fmt.Sprintf("gerr/plain/m=%d", mi)
		if !m.Set || !c.take(id) {
			continue
		}
		c.r.Eval(1)
		c.r.NonTrivial("")
		var p *conformancev1.Error
		if pn := c18gGuard(func() { p = ConvertGrpcToProtoError(errors.New(m.Text)) }); pn != "" {
			c.violate("error-roundtrip:panic", id, "panic: "+pn)
			continue
		}
		spec := c18gErrSpec{Code: 2, Msg: m}
		if a, d := c18gCompare(int32(p.GetCode()), p.GetMessage(), p.GetDetails(), spec, true); a != "" {
			c.violate("error-roundtrip:grpc-plain-error:"+a, id, "ConvertGrpcToProtoError(errors.New(msg)): "+d)
		} else {
			c.r.Outcome("gerr:plain:unknown+message")
		}
	}
	// valid but non-canonical encodings of detail values (bytes must be carried verbatim)
	c.encodingSection()

	for li, list := range lists {
		for mi, m := range msgs {
			for code := int32(1); code <= 16; code++ {
				id := fmt.Sprintf("gerr/c=%d/m=%d/d=%d", code, mi, li)
				if !c.take(id) {
					continue
				}
				spec := c18gErrSpec{Code: code, Msg: m}
				names := []string{}
				for _, di := range list {
					spec.Details = append(spec.Details, pool[di])
					names = append(names, pool[di].Name)
				}
				c.errorCase(id, spec)
				if c.k%20011 == 1 {
					c.r.Sample(map[string]any{"case": id, "code": code, "message": m.Text, "details": names})
				}
			}
		}
	}
}

func (c *c18gRun) errorCase(id string, spec c18gErrSpec) {
	c.r.Eval(1)
	c.r.NonTrivial("")
	type step struct {
		path     string
		got      *conformancev1.Error
		exactURL bool
	}
	var steps []step
	var st *status.Status
	pn := c18gGuard(func() {
		st = status.Convert(ConvertProtoToGrpcError(spec.build()))
		steps = append(steps, step{"grpc", ConvertGrpcToProtoError(ConvertProtoToGrpcError(spec.build())), true})
		once := ConvertGrpcToProtoError(ConvertProtoToGrpcError(spec.build()))
		steps = append(steps, step{"grpc-twice", ConvertGrpcToProtoError(ConvertProtoToGrpcError(once)), true})
		viaConnect := internal.ConvertConnectToProtoError(internal.ConvertProtoToConnectError(spec.build()))
		steps = append(steps, step{"connect-then-grpc", ConvertGrpcToProtoError(ConvertProtoToGrpcError(viaConnect)), false})
		viaGrpc := ConvertGrpcToProtoError(ConvertProtoToGrpcError(spec.build()))
		steps = append(steps, step{"grpc-then-connect", internal.ConvertErrorToProtoError(internal.ConvertProtoToConnectError(viaGrpc)), false})
	})
	if pn != "" {
		c.violate("error-roundtrip:panic", id, "panic: "+pn)
		return
	}
	failed := false
	if a, d := c18gCompare(int32(st.Code()), st.Message(), st.Proto().GetDetails(), spec, true); a != "" {
		c.violate("error-roundtrip:grpc-status-form:"+a, id, "ConvertProtoToGrpcError: "+d)
		failed = true
	}
	for _, s := range steps {
		if s.got == nil {
			c.violate("error-roundtrip:"+s.path+":nil-result", id, "conversion returned nil for a non-nil error")
			failed = true
			continue
		}
		c.say("path %s -> code=%d message=%q details=%d", s.path, int32(s.got.GetCode()), s.got.GetMessage(), len(s.got.GetDetails()))
		if a, d := c18gCompare(int32(s.got.GetCode()), s.got.GetMessage(), s.got.GetDetails(), spec, s.exactURL); a != "" {
			c.violate("error-roundtrip:"+s.path+":"+a, id, "Proto→…→Proto via "+s.path+": "+d)
			failed = true
		}
	}
	if failed {
		c.r.Outcome("gerr:lossy")
	} else {
		c.r.Outcome(fmt.Sprintf("gerr:identity:details=%d", len(spec.Details)))
	}
}

// ---------------------------------------------------------------------------
// metadata
// ---------------------------------------------------------------------------

// c18gHdr is one entry of a header list in *specification* form: for a -bin
// key Values holds the raw binary values; the test-case form (what goes into
// conformancev1.Header) carries them base64-encoded once.
type c18gHdr struct {
	Name   string
	Values []string
}

func c18gIsBin(name string) bool { return strings.HasSuffix(strings.ToLower(name), "-bin") }

// reference encoder/decoder: encoding/base64, unpadded on output (what the gRPC
// spec asks implementations to emit), padded or unpadded on input.
func c18gB64(raw string) string { return base64.RawStdEncoding.EncodeToString([]byte(raw)) }

func c18gUnB64(s string) (string, bool) {
	if b, err := base64.RawStdEncoding.DecodeString(s); err == nil {
		return string(b), true
	}
	if b, err := base64.StdEncoding.DecodeString(s); err == nil {
		return string(b), true
	}
	return "", false
}

func c18gBuildHeaders(list []c18gHdr) []*conformancev1.Header {
	return c18gBuildHeadersForm(list, c18gFormUnpadded)
}

// The textual form a binary value has in a header list (test-case form). The
// gRPC specification: senders SHOULD emit unpadded base64 (standard alphabet),
// receivers MUST accept padded and unpadded. A header list written by hand or by
// another tool (base64(1), Python, Java, Go's StdEncoding) is padded.
const (
	c18gFormUnpadded    = 0 // RawStdEncoding: what this code base emits
	c18gFormPadded      = 1 // StdEncoding
	c18gFormMixed       = 2 // values alternate: padded, unpadded, padded, …
	c18gFormURLUnpadded = 3 // RawURLEncoding ('-' '_'): NOT base64 in the sense of the gRPC spec
	c18gFormURLPadded   = 4 // URLEncoding
	c18gNumForms        = 5
)

var c18gFormNames = [c18gNumForms]string{"unpadded", "padded", "mixed", "urlsafe-unpadded", "urlsafe-padded"}

func c18gEncodeForm(raw string, form, pos int) string {
	switch form {
	case c18gFormPadded:
		return base64.StdEncoding.EncodeToString([]byte(raw))
	case c18gFormMixed:
		if pos%2 == 0 {
			return base64.StdEncoding.EncodeToString([]byte(raw))
		}
		return base64.RawStdEncoding.EncodeToString([]byte(raw))
	case c18gFormURLUnpadded:
		return base64.RawURLEncoding.EncodeToString([]byte(raw))
	case c18gFormURLPadded:
		return base64.URLEncoding.EncodeToString([]byte(raw))
	}
	return base64.RawStdEncoding.EncodeToString([]byte(raw))
}

// c18gIsStdBase64: the text is base64 over the standard alphabet, padded or not.
func c18gIsStdBase64(s string) bool {
	_, ok := c18gUnB64(s)
	return ok
}

func c18gBuildHeadersForm(list []c18gHdr, form int) []*conformancev1.Header {
	var out []*conformancev1.Header
	pos := 0
	for _, h := range list {
		vals := make([]string, len(h.Values))
		for i, v := range h.Values {
			if c18gIsBin(h.Name) {
				vals[i] = c18gEncodeForm(v, form, pos)
				pos++
			} else {
				vals[i] = v
			}
		}
		out = append(out, &conformancev1.Header{Name: h.Name, Value: vals})
	}
	return out
}

// c18gFormDiffers: does the header list look different in this form than in the
// unpadded one (otherwise the case is a duplicate)?
func c18gFormDiffers(list []c18gHdr, form int) bool {
	a, b := c18gBuildHeadersForm(list, form), c18gBuildHeadersForm(list, c18gFormUnpadded)
	for i := range a {
		if !c18gEq(a[i].GetValue(), b[i].GetValue()) {
			return true
		}
	}
	return false
}

// c18gModelForm: what the conversions owe for a header list given in a form.
// Padded / unpadded standard base64: the raw values (the model). A value whose
// URL-safe text is not standard base64 is outside the property ("-bin values
// base64-encoded exactly once" presupposes base64): the code documents a
// fallback that hands the text on verbatim; a lenient decoder would hand on the
// raw bytes. Either is accepted for such a value (alt holds the second choice),
// but nothing else, and count and order of the values must be kept.
func c18gModelForm(list []c18gHdr, form int) (want, alt map[string][]string) {
	if form != c18gFormURLUnpadded && form != c18gFormURLPadded {
		return c18gModel(list), nil
	}
	want, alt = map[string][]string{}, map[string][]string{}
	pos := 0
	for _, h := range list {
		k := strings.ToLower(h.Name)
		for _, v := range h.Values {
			w := v
			if c18gIsBin(h.Name) {
				text := c18gEncodeForm(v, form, pos)
				pos++
				if !c18gIsStdBase64(text) {
					w = text
				}
			}
			want[k] = append(want[k], w)
			alt[k] = append(alt[k], v)
		}
	}
	return want, alt
}

// c18gResolveAlt: where got holds the alternative value at a position, adopt it
// into the model, so that the ordinary comparison judges everything else.
func c18gResolveAlt(want, alt map[string][]string, got metadata.MD) map[string][]string {
	if alt == nil {
		return want
	}
	out := map[string][]string{}
	for k, vs := range want {
		out[k] = append([]string{}, vs...)
		g := got[k]
		for i := range vs {
			if i < len(g) && i < len(alt[k]) && g[i] != vs[i] && g[i] == alt[k][i] {
				out[k][i] = alt[k][i]
			}
		}
	}
	return out
}

// c18gModel: per lower-cased key the values (raw for -bin keys) in list order;
// keys that have no value at all are left out (nothing to preserve).
func c18gModel(list []c18gHdr) map[string][]string {
	out := map[string][]string{}
	for _, h := range list {
		k := strings.ToLower(h.Name)
		out[k] = append(out[k], h.Values...)
	}
	for k, v := range out {
		if len(v) == 0 {
			delete(out, k)
		}
	}
	return out
}

func c18gModelMD(list []c18gHdr) metadata.MD {
	md := metadata.MD{}
	for k, v := range c18gModel(list) {
		md[k] = append([]string{}, v...)
	}
	return md
}

func c18gSorted(m map[string][]string) []string {
	out := make([]string, 0, len(m))
	for k := range m {
		out = append(out, k)
	}
	sort.Strings(out)
	return out
}

func c18gEq(a, b []string) bool {
	if len(a) != len(b) {
		return false
	}
	for i := range a {
		if a[i] != b[i] {
			return false
		}
	}
	return true
}

func c18gMap(list []string, f func(string) string) []string {
	out := make([]string, len(list))
	for i, s := range list {
		out[i] = f(s)
	}
	return out
}

// c18gCheckMD judges gRPC metadata (binary values must be RAW there — grpc-go
// applies the wire encoding itself) against the model.
func c18gCheckMD(want map[string][]string, got metadata.MD) (aspect, detail string) {
	for _, k := range c18gSorted(want) {
		g, ok := got[k]
		if !ok {
			for gk := range got {
				if strings.EqualFold(gk, k) {
					return "key-not-lowercase", fmt.Sprintf("gRPC metadata key %q is not lower-case", gk)
				}
			}
			return "key-lost", fmt.Sprintf("key %q (values %q) is missing", k, want[k])
		}
		if c18gEq(g, want[k]) {
			continue
		}
		if c18gIsBin(k) && len(g) == len(want[k]) {
			// every value is either right or still the base64 text (padded or not) of the right value
			text := true
			for i := range g {
				if g[i] == want[k][i] {
					continue
				}
				if raw, ok := c18gUnB64(g[i]); !ok || raw != want[k][i] {
					text = false
				}
			}
			if text {
				return "bin-not-decoded", fmt.Sprintf("key %q: the metadata holds the base64 text %q instead of the raw values %q (grpc-go will encode it a second time on the wire)", k, g, want[k])
			}
		}
		return "values-lost-or-reordered", fmt.Sprintf("key %q: values %q became %q", k, want[k], g)
	}
	for _, k := range c18gSorted(got) {
		if _, ok := want[k]; !ok && len(got[k]) > 0 {
			return "key-invented", fmt.Sprintf("result has key %q (values %q) that the input does not have", k, got[k])
		}
	}
	return "", ""
}

// c18gCheckHeaders judges a header list (test-case form: binary values base64
// exactly once) against the model.
func c18gCheckHeaders(want map[string][]string, got []*conformancev1.Header) (aspect, detail string) {
	grouped := map[string][]string{}
	for _, h := range got {
		k := strings.ToLower(h.GetName())
		grouped[k] = append(grouped[k], h.GetValue()...)
	}
	for _, k := range c18gSorted(want) {
		g, ok := grouped[k]
		if !ok {
			return "key-lost", fmt.Sprintf("key %q (values %q) is missing", k, want[k])
		}
		if !c18gIsBin(k) {
			if !c18gEq(g, want[k]) {
				return "values-lost-or-reordered", fmt.Sprintf("key %q: values %q became %q", k, want[k], g)
			}
			continue
		}
		if len(g) != len(want[k]) {
			return "values-lost-or-reordered", fmt.Sprintf("key %q: %d binary values became %d (%q)", k, len(want[k]), len(g), g)
		}
		for i, raw := range want[k] {
			once, ok1 := c18gUnB64(g[i])
			if ok1 && once == raw {
				continue
			}
			if ok1 {
				if twice, ok2 := c18gUnB64(once); ok2 && twice == raw {
					return "bin-double-encoded", fmt.Sprintf("key %q value %d: raw %q came out as %q, which is base64 applied twice (once would be %q)", k, i, raw, g[i], c18gB64(raw))
				}
			}
			if g[i] == raw {
				return "bin-not-encoded", fmt.Sprintf("key %q value %d: raw %q came out unencoded", k, i, raw)
			}
			return "values-lost-or-reordered", fmt.Sprintf("key %q value %d: raw %q came out as %q (decodes to %q)", k, i, raw, g[i], once)
		}
	}
	for _, k := range c18gSorted(grouped) {
		if _, ok := want[k]; !ok && len(grouped[k]) > 0 {
			return "key-invented", fmt.Sprintf("result has key %q (values %q) that the input does not have", k, grouped[k])
		}
	}
	return "", ""
}

func c18gCloneHeaders(in []*conformancev1.Header) []*conformancev1.Header {
	out := make([]*conformancev1.Header, len(in))
	for i, h := range in {
		out[i] = proto.Clone(h).(*conformancev1.Header)
	}
	return out
}

// c18gFmt prints a header list deterministically (sorted by name; the order of
// entries of a list that came out of a map is random).
func c18gFmt(hs []*conformancev1.Header) string {
	parts := make([]string, 0, len(hs))
	for _, h := range hs {
		parts = append(parts, fmt.Sprintf("%s:%q", h.GetName(), h.GetValue()))
	}
	sort.Strings(parts)
	return "{" + strings.Join(parts, " ") + "}"
}

func c18gHeadersEqual(a, b []*conformancev1.Header) bool {
	if len(a) != len(b) {
		return false
	}
	for i := range a {
		if !proto.Equal(a[i], b[i]) {
			return false
		}
	}
	return true
}

// metadataFormCase: the conversions that take a header list in test-case form
// (ProtoHeader→MD incl. a second conversion, ProtoHeader→MD→ProtoHeader,
// AppendToOutgoingContext), with the binary values of the list written in the
// given textual form.
func (c *c18gRun) metadataFormCase(id string, list []c18gHdr, form int) {
	c.r.Eval(1)
	c.r.NonTrivial("")
	want, alt := c18gModelForm(list, form)
	failed := false
	fail := func(key, what, detail string) {
		c.violate(key, id, fmt.Sprintf("%s of %s (binary values written as %s base64: %s): %s", what, fmt.Sprintf("%q", list), c18gFormNames[form], c18gFmt(c18gBuildHeadersForm(list, form)), detail))
		failed = true
	}
	c.say("header list %q in form %s = %s, model %q", list, c18gFormNames[form], c18gFmt(c18gBuildHeadersForm(list, form)), want)
	var md1, md2 metadata.MD
	var rtH []*conformancev1.Header
	if pn := c18gGuard(func() {
		in := c18gBuildHeadersForm(list, form)
		md1 = ConvertProtoHeaderToMetadata(in)
		md2 = ConvertProtoHeaderToMetadata(in)
		rtH = ConvertMetadataToProtoHeader(ConvertProtoHeaderToMetadata(c18gBuildHeadersForm(list, form)))
	}); pn != "" {
		fail("metadata:panic", "ConvertProtoHeaderToMetadata", "panic: "+pn)
		return
	}
	c.say("ConvertProtoHeaderToMetadata -> %q", md1)
	if a, d := c18gCheckMD(c18gResolveAlt(want, alt, md1), md1); a != "" {
		fail("metadata:h2md:"+a+":"+c18gFormNames[form], "ProtoHeader→MD", d)
	} else if a, d := c18gCheckMD(c18gResolveAlt(want, alt, md1), md2); a != "" {
		fail("metadata:h2md-second-conversion:"+a+":"+c18gFormNames[form], "ProtoHeader→MD (same header list converted a second time)", d)
	} else if a, d := c18gCheckHeaders(c18gResolveAlt(want, alt, md1), rtH); a != "" {
		fail("metadata:h2md2h:"+a+":"+c18gFormNames[form], "ProtoHeader→MD→ProtoHeader", d)
	}
	for _, pre := range []bool{false, true} {
		var got metadata.MD
		if pn := c18gGuard(func() {
			ctx := context.Background()
			if pre {
				ctx = metadata.AppendToOutgoingContext(ctx, "x-pre", "p")
			}
			ctx = AppendToOutgoingContext(ctx, c18gBuildHeadersForm(list, form))
			got, _ = metadata.FromOutgoingContext(ctx)
		}); pn != "" {
			fail("metadata:panic", "AppendToOutgoingContext", "panic: "+pn)
			break
		}
		c.say("AppendToOutgoingContext (pre-existing pair: %v) -> %q", pre, got)
		wantCtx := map[string][]string{}
		for k, v := range c18gResolveAlt(want, alt, got) {
			wantCtx[k] = v
		}
		if pre {
			wantCtx["x-pre"] = []string{"p"}
		}
		if a, d := c18gCheckMD(wantCtx, got); a != "" {
			fail("metadata:outgoing:"+a+":"+c18gFormNames[form], "AppendToOutgoingContext", d)
			break
		}
	}
	if failed {
		c.r.Outcome("md:form-" + c18gFormNames[form] + ":lossy")
	} else {
		c.r.Outcome("md:form-" + c18gFormNames[form] + ":preserved")
	}
}

// metadataForms runs the list in every textual form that makes a difference.
func (c *c18gRun) metadataForms(id string, list []c18gHdr) {
	sig := func(form int) string {
		var b strings.Builder
		for _, h := range c18gBuildHeadersForm(list, form) {
			fmt.Fprintf(&b, "%q;", h.GetValue())
		}
		return b.String()
	}
	seen := map[string]bool{sig(c18gFormUnpadded): true}
	for form := 1; form < c18gNumForms; form++ {
		sg := sig(form)
		if seen[sg] {
			continue // looks the same as an earlier form: duplicate
		}
		seen[sg] = true
		fid := fmt.Sprintf("%s/f=%d", id, form)
		if !c.take(fid) {
			continue
		}
		c.metadataFormCase(fid, list, form)
	}
}

func (c *c18gRun) metadataCase(id string, list []c18gHdr) {
	c.r.Eval(1)
	if len(list) > 0 {
		c.r.NonTrivial("")
	}
	want := c18gModel(list)
	failed := false
	fail := func(key, what, detail string) {
		c.violate(key, id, fmt.Sprintf("%s of %q: %s", what, list, detail))
		failed = true
	}
	c.say("header list %q, model %q", list, want)

	// (a) ProtoHeader → MD, the same header list converted twice
	var md1, md2 metadata.MD
	if pn := c18gGuard(func() {
		in := c18gBuildHeaders(list)
		md1 = ConvertProtoHeaderToMetadata(in)
		md2 = ConvertProtoHeaderToMetadata(in)
	}); pn != "" {
		fail("metadata:panic", "ConvertProtoHeaderToMetadata", "panic: "+pn)
		return
	}
	c.say("ConvertProtoHeaderToMetadata -> %q", md1)
	if a, d := c18gCheckMD(want, md1); a != "" {
		fail("metadata:h2md:"+a, "ProtoHeader→MD", d)
	} else if a, d := c18gCheckMD(want, md2); a != "" {
		fail("metadata:h2md-second-conversion:"+a, "ProtoHeader→MD (same header list converted a second time)", d)
	}

	// (b) MD → ProtoHeader, the same MD converted twice
	var h1, h1snap, h2 []*conformancev1.Header
	if pn := c18gGuard(func() {
		md := c18gModelMD(list)
		h1 = ConvertMetadataToProtoHeader(md)
		h1snap = c18gCloneHeaders(h1)
		h2 = ConvertMetadataToProtoHeader(md)
	}); pn != "" {
		fail("metadata:panic", "ConvertMetadataToProtoHeader", "panic: "+pn)
		return
	}
	c.say("ConvertMetadataToProtoHeader -> %s ; second conversion of the same MD -> %s", c18gFmt(h1snap), c18gFmt(h2))
	if a, d := c18gCheckHeaders(want, h1snap); a != "" {
		fail("metadata:md2h:"+a, "MD→ProtoHeader", d)
	} else {
		if a, d := c18gCheckHeaders(want, h2); a != "" {
			fail("metadata:md2h-second-conversion:"+a, "MD→ProtoHeader (same MD converted a second time)", d)
		}
		if !c18gHeadersEqual(h1, h1snap) {
			fail("metadata:md2h:earlier-result-changed", "MD→ProtoHeader", fmt.Sprintf("the header list returned by the first conversion changed from %s to %s when the same MD was converted again", c18gFmt(h1snap), c18gFmt(h1)))
		}
	}

	// (c) round trips on fresh objects
	var rtH []*conformancev1.Header
	var rtMD metadata.MD
	if pn := c18gGuard(func() {
		rtH = ConvertMetadataToProtoHeader(ConvertProtoHeaderToMetadata(c18gBuildHeaders(list)))
		rtMD = ConvertProtoHeaderToMetadata(ConvertMetadataToProtoHeader(c18gModelMD(list)))
	}); pn != "" {
		fail("metadata:panic", "round trip", "panic: "+pn)
		return
	}
	if !failed {
		if a, d := c18gCheckHeaders(want, rtH); a != "" {
			fail("metadata:h2md2h:"+a, "ProtoHeader→MD→ProtoHeader", d)
		}
		if a, d := c18gCheckMD(want, rtMD); a != "" {
			fail("metadata:md2h2md:"+a, "MD→ProtoHeader→MD", d)
		}
	}

	// (d) AppendToOutgoingContext, on an empty context and on one that already
	// has pairs (one of them under the first key of the list): what is already
	// there stays in front, the new pairs follow in list order.
	for _, pre := range []bool{false, true} {
		var got metadata.MD
		wantCtx := map[string][]string{}
		for k, v := range want {
			wantCtx[k] = v
		}
		if pn := c18gGuard(func() {
			ctx := context.Background()
			if pre {
				ctx = metadata.AppendToOutgoingContext(ctx, "x-pre", "p")
				wantCtx["x-pre"] = []string{"p"}
				if len(list) > 0 {
					first := strings.ToLower(list[0].Name)
					ctx = metadata.AppendToOutgoingContext(ctx, first, "earlier")
					wantCtx[first] = append([]string{"earlier"}, want[first]...)
				}
			}
			ctx = AppendToOutgoingContext(ctx, c18gBuildHeaders(list))
			got, _ = metadata.FromOutgoingContext(ctx)
		}); pn != "" {
			fail("metadata:panic", "AppendToOutgoingContext", "panic: "+pn)
			break
		}
		c.say("AppendToOutgoingContext (pre-existing pairs: %v) -> %q", pre, got)
		if a, d := c18gCheckMD(wantCtx, got); a != "" {
			what := "AppendToOutgoingContext"
			if pre {
				what += " (context already holding x-pre=p and <first key>=earlier)"
			}
			fail("metadata:outgoing:"+a, what, d)
			break
		}
	}
	if failed {
		c.r.Outcome("md:lossy")
	} else {
		c.r.Outcome(fmt.Sprintf("md:preserved:keys=%d", len(want)))
	}
}

func c18gEntries() []c18gHdr {
	text := []string{"x-test", "X-Test", "X-TEST", "x-other"}
	bin := []string{"x-data-bin", "X-Data-Bin", "X-DATA-BIN"}
	textVals := [][]string{{"v1"}, {"v1", "v2"}, {"v2", "v1"}, {"v1", "v1"}, {""}, {}}
	r1, r2 := "\x00\xff", "QUJD" // r2 is itself valid base64 (of "ABC"): must not be decoded twice
	binVals := [][]string{{r1}, {r1, r2}, {r2, r1}, {r1, r1}, {}}
	var out []c18gHdr
	for i := 0; i < len(textVals); i++ {
		for _, n := range text {
			out = append(out, c18gHdr{n, textVals[i]})
		}
		if i < len(binVals) {
			for _, n := range bin {
				out = append(out, c18gHdr{n, binVals[i]})
			}
		}
	}
	return out
}

func (c *c18gRun) metadataSection() {
	entries := c18gEntries()
	maxLen := 2
	if c.thorough() {
		maxLen = 3
	}
	c.size("md:entry-alphabet", len(entries))
	idx := make([]int, 0, maxLen)
	n := 0
	var rec func(depth int)
	rec = func(depth int) {
		if c.stop {
			return
		}
		n++
		id := "md/" + strings.Trim(strings.Join(strings.Fields(fmt.Sprint(idx)), ","), "[]")
		list := make([]c18gHdr, len(idx))
		for i, e := range idx {
			list[i] = entries[e]
		}
		if c.take(id) {
			c.metadataCase(id, list)
			if n%331 == 7 {
				c.r.Sample(map[string]any{"case": id, "headers": fmt.Sprintf("%q", list)})
			}
		}
		// the same list with its binary values written padded / mixed / URL-safe
		c.metadataForms(id, list)
		if depth == maxLen {
			return
		}
		for e := range entries {
			idx = append(idx, e)
			rec(depth + 1)
			idx = idx[:len(idx)-1]
		}
	}
	rec(0)
}

// c18gBinaryValues: all 1-byte values, 2-byte values over a 16-byte alphabet,
// 3-byte values over an 8-byte alphabet, and a few special ones.
func c18gBinaryValues(thorough bool) []string {
	var out []string
	for b := 0; b < 256; b++ {
		out = append(out, string([]byte{byte(b)}))
	}
	a16 := []byte{0x00, 0x01, 0x1f, ' ', '%', '+', '/', '=', 'A', 'a', '~', 0x7f, 0x80, 0xc3, 0xfe, 0xff}
	for _, x := range a16 {
		for _, y := range a16 {
			out = append(out, string([]byte{x, y}))
		}
	}
	a8 := []byte{0x00, '=', 'A', '/', 0x7f, 0x80, 0xc3, 0xff}
	if thorough {
		a8 = a16
	}
	for _, x := range a8 {
		for _, y := range a8 {
			for _, z := range a8 {
				out = append(out, string([]byte{x, y, z}))
			}
		}
	}
	// lengths 4, 5, 6 (so that every length 0..6, i.e. every padding situation
	// twice, occurs): all strings over a 3-byte alphabet whose base64 text uses
	// '+' '/' (0xfb 0xff), '-'/'_' in the URL-safe alphabet, and plain letters
	a3 := []byte{0x00, 0xfb, 0xff}
	for l := 4; l <= 6; l++ {
		n := 1
		for i := 0; i < l; i++ {
			n *= len(a3)
		}
		for k := 0; k < n; k++ {
			b := make([]byte, l)
			for i, x := 0, k; i < l; i, x = i+1, x/len(a3) {
				b[i] = a3[x%len(a3)]
			}
			out = append(out, string(b))
		}
	}
	out = append(out, "", "AAAA", "AA==", "QUJD", "UVVKRA", strings.Repeat("\x00\xffbinary", 40))
	return out
}

func (c *c18gRun) binarySection() {
	vals := c18gBinaryValues(c.thorough())
	c.size("bin:values", len(vals))
	names := []string{"x-data-bin", "X-Data-Bin", "X-DATA-BIN"}
	for vi, v := range vals {
		for ni, name := range names {
			for shape := 0; shape < 2; shape++ {
				id := fmt.Sprintf("bin/v=%d/n=%d/s=%d", vi, ni, shape)
				list := []c18gHdr{{name, []string{v}}}
				if shape == 1 {
					list = []c18gHdr{{name, []string{v, "\x00\x01"}}, {"x-test", []string{"t"}}}
				}
				if c.take(id) {
					c.metadataCase(id, list)
					if vi%211 == 3 && ni == 0 && shape == 0 {
						c.r.Sample(map[string]any{"case": id, "headers": fmt.Sprintf("%q", list)})
					}
				}
				c.metadataForms(id, list)
			}
		}
	}
}

// ---------------------------------------------------------------------------
// percent-encoding
// ---------------------------------------------------------------------------

// c18gPctDecode is the independent decoder: %XX (two hex digits) is one byte,
// any other byte stands for itself; a '%' not followed by two hex digits is malformed.
func c18gPctDecode(s string) (string, bool) {
	hex := func(b byte) int {
		switch {
		case b >= '0' && b <= '9':
			return int(b - '0')
		case b >= 'A' && b <= 'F':
			return int(b-'A') + 10
		case b >= 'a' && b <= 'f':
			return int(b-'a') + 10
		}
		return -1
	}
	var out []byte
	for i := 0; i < len(s); i++ {
		if s[i] != '%' {
			out = append(out, s[i])
			continue
		}
		if i+2 >= len(s) {
			return "", false
		}
		hi, lo := hex(s[i+1]), hex(s[i+2])
		if hi < 0 || lo < 0 {
			return "", false
		}
		out = append(out, byte(hi<<4|lo))
		i += 2
	}
	return string(out), true
}

func (c *c18gRun) percentCase(id, s string) {
	c.r.Eval(1)
	if s != "" {
		c.r.NonTrivial("")
	}
	var out string
	pred := make([]bool, len(s))
	if pn := c18gGuard(func() {
		out = PercentEncodeMessage(s)
		for i := 0; i < len(s); i++ {
			pred[i] = ShouldEscapeByteInMessage(s[i])
		}
	}); pn != "" {
		c.violate("percent:panic", id, fmt.Sprintf("PercentEncodeMessage(%q): panic: %s", s, pn))
		return
	}
	c.say("PercentEncodeMessage(%q) = %q, ShouldEscapeByteInMessage per byte = %v", s, out, pred)
	ok := true
	for i := 0; i < len(out); i++ {
		if out[i] < 0x20 || out[i] > 0x7e {
			c.violate("percent:non-printable-output", id, fmt.Sprintf("PercentEncodeMessage(%q) = %q contains byte 0x%02x", s, out, out[i]))
			ok = false
			break
		}
	}
	if dec, wellFormed := c18gPctDecode(out); !wellFormed || dec != s {
		c.violate("percent:not-invertible", id, fmt.Sprintf("PercentEncodeMessage(%q) = %q, which decodes to %q (well-formed=%v)", s, out, dec, wellFormed))
		ok = false
	}
	// the predicate must describe the encoder byte by byte
	pos := 0
	agree := true
	for i := 0; i < len(s) && agree; i++ {
		if pred[i] {
			agree = pos+3 <= len(out) && out[pos] == '%' && strings.EqualFold(out[pos+1:pos+3], fmt.Sprintf("%02X", s[i]))
			pos += 3
		} else {
			agree = pos+1 <= len(out) && out[pos] == s[i]
			pos++
		}
	}
	if !agree || pos != len(out) {
		c.violate("percent:predicate-disagrees-with-encoder", id, fmt.Sprintf("PercentEncodeMessage(%q) = %q but ShouldEscapeByteInMessage says %v for its bytes", s, out, pred))
		ok = false
	}
	for i := 0; i < len(s); i++ {
		must := s[i] < 0x20 || s[i] > 0x7e || s[i] == '%'
		if must && !pred[i] {
			c.violate("percent:predicate-misses-byte", id, fmt.Sprintf("ShouldEscapeByteInMessage(0x%02x) = false, but the byte is not printable ASCII or is '%%'", s[i]))
			ok = false
			break
		}
	}
	switch {
	case !ok:
		c.r.Outcome("pct:bad")
	case out == s:
		c.r.Outcome("pct:verbatim")
	default:
		c.r.Outcome(fmt.Sprintf("pct:escaped:%d-of-%d", (len(out)-len(s))/2, len(s)))
	}
}

func (c *c18gRun) percentSection() {
	alpha := []byte{0x00, 0x1f, ' ', '%', '~', 0x7f, 0x80, 0xff, 'A', '0', 'a', 0xc3, 0xa9, '2', '5', '\n'}
	if c.thorough() {
		alpha = append(alpha, []byte{0x01, 0x09, 0x0d, 0x1e, '!', '"', '$', '&', '+', '/', '9', ':', '=', '?', '@', 'F', 'G', 'Z', '[', '\\', '_', 'f', 'g', '}'}...)
	}
	c.size("pct:alphabet-for-3-byte-strings", len(alpha))
	if c.take("pct/len0") {
		c.percentCase("pct/len0", "")
	}
	for b := 0; b < 256; b++ {
		id := fmt.Sprintf("pct/len1/%02x", b)
		if c.take(id) {
			c.percentCase(id, string([]byte{byte(b)}))
		}
	}
	for x := 0; x < 256; x++ {
		for y := 0; y < 256; y++ {
			id := fmt.Sprintf("pct/len2/%02x%02x", x, y)
			if c.take(id) {
				c.percentCase(id, string([]byte{byte(x), byte(y)}))
				if x*256+y == 0x2541 || x*256+y == 0xc3a9 {
					c.r.Sample(map[string]any{"case": id, "input": fmt.Sprintf("%q", string([]byte{byte(x), byte(y)})), "encoded": PercentEncodeMessage(string([]byte{byte(x), byte(y)}))})
				}
			}
		}
	}
	for _, x := range alpha {
		for _, y := range alpha {
			for _, z := range alpha {
				id := fmt.Sprintf("pct/len3/%02x%02x%02x", x, y, z)
				if c.take(id) {
					c.percentCase(id, string([]byte{x, y, z}))
				}
			}
		}
	}
}

// ---------------------------------------------------------------------------

func TestVerifC18Grpcutil(t *testing.T) {
	c := &c18gRun{r: rep.New("c18-grpcutil"), deadline: rep.Deadline()}
	defer c.r.Write()
	if in := rep.ReplayInput(); in != nil {
		var rec struct {
			Replay c18gReplay `json:"replay"`
		}
		if err := json.Unmarshal(in, &rec); err != nil || rec.Replay.Case == "" {
			t.Fatalf("C18: unusable replay file: %v", err)
		}
		c.replayID = rec.Replay.Case
	}
	c.r.Rule = "percent: every byte string of length ≤2 and all 3-byte strings over a 16 (thorough 40) byte alphabet, judged by an independent %XX decoder; " +
		"metadata: all lists of ≤2 (thorough ≤3) entries over 7 names (3 case variants of a text key and of a -bin key, one more key) x value lists (repeats, order swaps, empty value, no value; raw binary values incl. one that is itself valid base64), plus one -bin key in 3 case variants carrying every 1-byte value, 256 2-byte and 512 (4096) 3-byte values and all 4-6 byte values over {00, fb, ff} alone and followed by a second value; every list with -bin values additionally with their base64 text written padded, mixed padded/unpadded and in the URL-safe alphabet (model: the raw bytes; for URL-safe text that is not standard base64 the raw bytes or the verbatim text); each through ProtoHeader→MD, MD→ProtoHeader (same object twice), both round trips and AppendToOutgoingContext (empty and pre-filled context); " +
		"errors: codes 1..16 x messages {unset, \"\", ascii, each single byte 0..127, 14 multi-byte/%-strings} x ordered lists of 0..2 (thorough 0..3) details from a pool of 8, through Proto→gRPC→Proto, twice, and the mixed Connect/gRPC chains, plus the grammar of alternative (valid, non-canonical) encodings of 13 values of 11 registered detail types on the same paths; a case is non-trivial when it is a distinct non-empty input"
	sections := []struct {
		prefix string
		run    func()
	}{
		{"pct/", c.percentSection},
		{"md/", c.metadataSection},
		{"bin/", c.binarySection},
		{"gerr/", c.errorSection},
	}
	for _, s := range sections {
		if c.replayID == "" || strings.HasPrefix(c.replayID, s.prefix) {
			s.run()
		}
	}
	if c.replayID != "" && !c.replayed {
		t.Errorf("C18: replay case %q not found in the enumeration", c.replayID)
	}
}
