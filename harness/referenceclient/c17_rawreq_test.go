package referenceclient

// C17 unit 3: rawRequestSender (the transport wrapper the reference client
// installs when a test case carries a RawHTTPRequest) against plain net/http
// servers (HTTP/1.1, HTTP/2 over TLS, h2c) that record what arrives.
//
// The "request the client would have built" is a POST to the Unary procedure
// with its own headers and body; the oracle demands that the server sees the
// raw definition instead: verb, path, query parameters, every listed header
// with its values in order, exactly the specified body.
//
// Timing axis ("when does the server answer"): every server runs in one of two
// modes per case.  late = read the whole request body, then answer (what a unary
// / half-duplex handler does).  EARLY = send and flush the response headers
// first (HTTP/1.1: full duplex enabled), wait until the client's RoundTrip has
// returned (a channel closed by the test - no clock involved), and only then
// read the request body.  RoundTrip returning means "response headers
// received", not "request body sent": the body as specified must still arrive
// completely.  Bodies: the ordinary alphabet and large ones (64 KiB, 1 MiB,
// 4 MiB, 16 MiB: beyond the HTTP/2 flow-control window and the loopback socket
// buffers, so that part of the body is certainly still unsent at that moment).
//
// Stream items without payload are not part of this unit's alphabet: the
// encoders dereference the nil payload (see unit c17-body) inside a goroutine
// started by RoundTrip, which would kill the test process instead of producing
// a verdict.

import (
	"bytes"
	"context"
	"crypto/sha256"
	"crypto/tls"
	"encoding/base64"
	"encoding/binary"
	"encoding/hex"
	"encoding/json"
	"encoding/pem"
	"errors"
	"fmt"
	"io"
	"log"
	"net"
	"net/http"
	"net/http/httptest"
	"net/url"
	"sort"
	"strconv"
	"strings"
	"sync/atomic"
	"testing"
	"testing/synctest"
	"time"

	conformancev1 "connectrpc.com/conformance/internal/gen/proto/go/connectrpc/conformance/v1"
	"connectrpc.com/conformance/internal/gen/proto/go/connectrpc/conformance/v1/conformancev1connect"
	"connectrpc.com/conformance/internal/verif/c17lib"
	"connectrpc.com/conformance/internal/verif/rep"
	"golang.org/x/net/http2"
	"golang.org/x/net/http2/h2c"
	"google.golang.org/protobuf/proto"
	"google.golang.org/protobuf/types/known/anypb"
	"google.golang.org/protobuf/types/known/emptypb"
)

type c17qCase struct {
	Proto string          `json:"proto"`
	Early bool            `json:"server_answers_early,omitempty"` // the server flushes its response headers, waits until RoundTrip has returned, then reads the body
	Big   *c17qBig        `json:"big_body,omitempty"`             // the body is generated (c17qBigBody) instead of being spelled out in Raw
	Ext   *c17qExt        `json:"original_request,omitempty"`     // what becomes of the request the client builds itself (grids O and I)
	Raw   json.RawMessage `json:"raw"`                            // protojson RawHTTPRequest (without body when Big is set)
}

// c17qBig describes a large identity body: one binary message of Sizes[0]
// bytes (shape "unary") or a stream of len(Sizes) items with binary payloads of
// those sizes, computed lengths and flags 0,1,2,... (shape "stream").  The
// payload bytes are a fixed function of (item index, offset).
type c17qBig struct {
	Shape string `json:"shape"`
	Sizes []int  `json:"sizes"`
}

func c17qBigPayload(item, n int) []byte {
	out := make([]byte, n)
	for i := range out {
		out[i] = byte(i*13 + i/253 + i/65521 + item*101 + 7)
	}
	return out
}

func c17qBigFlags(item int) uint32 { return uint32(item % 3) }

// c17qBigBody puts the body described by big into raw.
func c17qBigBody(raw *conformancev1.RawHTTPRequest, big *c17qBig) {
	if big.Shape == "unary" {
		raw.Body = &conformancev1.RawHTTPRequest_Unary{Unary: &conformancev1.MessageContents{
			Data: &conformancev1.MessageContents_Binary{Binary: c17qBigPayload(0, big.Sizes[0])},
		}}
		return
	}
	sc := &conformancev1.StreamContents{}
	for i, n := range big.Sizes {
		sc.Items = append(sc.Items, &conformancev1.StreamContents_StreamItem{
			Flags:   c17qBigFlags(i),
			Payload: &conformancev1.MessageContents{Data: &conformancev1.MessageContents_Binary{Binary: c17qBigPayload(i, n)}},
		})
	}
	raw.Body = &conformancev1.RawHTTPRequest_Stream{Stream: sc}
}

// c17qBigWant: length and SHA-256 of the bytes the definition prescribes,
// computed here from the proto comments (item = flags byte, big-endian length,
// payload; uncompressed), without any encoder of the repository.
func c17qBigWant(big *c17qBig) (int64, string) {
	h := sha256.New()
	var n int64
	for i, size := range big.Sizes {
		if big.Shape == "stream" {
			var prefix [5]byte
			prefix[0] = byte(c17qBigFlags(i))
			binary.BigEndian.PutUint32(prefix[1:], uint32(size))
			h.Write(prefix[:])
			n += 5
		}
		h.Write(c17qBigPayload(i, size))
		n += int64(size)
		if big.Shape == "unary" {
			break
		}
	}
	return n, hex.EncodeToString(h.Sum(nil))
}

type c17qSeen struct {
	Method     string      `json:"method"`
	RequestURI string      `json:"request_uri"`
	Path       string      `json:"path"`
	Escaped    string      `json:"escaped_path"` // http.Request.URL.EscapedPath(): the path as it was written in the request target
	RawQuery   string      `json:"raw_query"`
	Header     http.Header `json:"header"`
	Body       []byte      `json:"body"` // the first c17qKeep bytes
	BodyLen    int64       `json:"body_len"`
	BodySHA    string      `json:"body_sha256"`
	BodyErr    string      `json:"body_err,omitempty"`
	Proto      string      `json:"proto"`
	Early      bool        `json:"answered_before_reading,omitempty"`
	GateErr    string      `json:"gate_err,omitempty"` // early mode: the request was given up before the test opened the gate
}

// c17qKeep: how much of a request body the recording server keeps verbatim (the
// rest is only counted and hashed).
const c17qKeep = 2 << 20

type c17qKeeper struct{ buf []byte }

func (k *c17qKeeper) Write(p []byte) (int, error) {
	if room := c17qKeep - len(k.buf); room > 0 {
		if room > len(p) {
			room = len(p)
		}
		k.buf = append(k.buf, p[:room]...)
	}
	return len(p), nil
}

type c17qServer struct {
	name      string
	url       string
	transport http.RoundTripper
	seen      chan c17qSeen
	stop      func()
	gate      atomic.Pointer[chan struct{}] // non-nil: EARLY mode - answer first, read the body when this channel is closed
	reply     atomic.Pointer[c17qReply]     // non-nil: what the server answers (grid I: something the RPC client can end on)
	pem       []byte                        // h2tls: the server's certificate
}

type c17qReply struct {
	contentType string
	body        []byte
}

const (
	c17qOrigPath = "/connectrpc.conformance.v1.ConformanceService/Unary"
	c17qOrigBody = "ORIGINAL-BODY-OF-THE-CLIENT"
)

func c17qStart() map[string]*c17qServer {
	quiet := log.New(io.Discard, "", 0)
	out := map[string]*c17qServer{}
	mk := func(name string) (*c17qServer, http.Handler) {
		s := &c17qServer{name: name, seen: make(chan c17qSeen, 64)}
		return s, http.HandlerFunc(func(w http.ResponseWriter, r *http.Request) {
			rec := c17qSeen{Method: r.Method, RequestURI: r.RequestURI, Path: r.URL.Path, Escaped: r.URL.EscapedPath(), RawQuery: r.URL.RawQuery, Header: r.Header.Clone(), Proto: r.Proto}
			reply := &c17qReply{"text/plain", []byte("ok")}
			if rp := s.reply.Load(); rp != nil {
				reply = rp
			}
			w.Header().Set("Content-Type", reply.contentType)
			if gate := s.gate.Load(); gate != nil {
				// EARLY: the response headers leave before a single body byte was read
				rec.Early = true
				rc := http.NewResponseController(w)
				_ = rc.EnableFullDuplex() // HTTP/1.1: allow reading the request after the response has started (HTTP/2 always can)
				w.WriteHeader(http.StatusOK)
				_ = rc.Flush()
				select {
				case <-*gate:
				case <-r.Context().Done():
					rec.GateErr = "request context done before the client's RoundTrip returned: " + r.Context().Err().Error()
				}
			}
			keep, hash := &c17qKeeper{}, sha256.New()
			n, err := io.Copy(io.MultiWriter(keep, hash), r.Body)
			rec.Body, rec.BodyLen, rec.BodySHA = keep.buf, n, hex.EncodeToString(hash.Sum(nil))
			if err != nil {
				rec.BodyErr = err.Error()
			}
			select {
			case s.seen <- rec:
			default:
			}
			_, _ = w.Write(reply.body)
		})
	}

	s1, h := mk("h1")
	ts1 := httptest.NewUnstartedServer(h)
	ts1.Config.ErrorLog = quiet
	ts1.Start()
	s1.url, s1.stop, s1.transport = ts1.URL, ts1.Close, &http.Transport{DisableCompression: true}
	out["h1"] = s1

	s2, h := mk("h2tls")
	ts2 := httptest.NewUnstartedServer(h)
	ts2.Config.ErrorLog = quiet
	ts2.EnableHTTP2 = true
	ts2.StartTLS()
	s2.url, s2.stop, s2.transport = ts2.URL, ts2.Close, ts2.Client().Transport
	if cert := ts2.Certificate(); cert != nil {
		s2.pem = pem.EncodeToMemory(&pem.Block{Type: "CERTIFICATE", Bytes: cert.Raw})
	}
	if tr, ok := s2.transport.(*http.Transport); ok {
		tr.DisableCompression = true
	}
	out["h2tls"] = s2

	s3, h := mk("h2c")
	ts3 := httptest.NewUnstartedServer(h2c.NewHandler(h, &http2.Server{}))
	ts3.Config.ErrorLog = quiet
	ts3.Start()
	s3.url, s3.stop = ts3.URL, ts3.Close
	s3.transport = &http2.Transport{
		AllowHTTP:          true,
		DisableCompression: true,
		DialTLSContext: func(ctx context.Context, network, addr string, _ *tls.Config) (net.Conn, error) {
			return (&net.Dialer{}).DialContext(ctx, network, addr)
		},
	}
	out["h2c"] = s3
	return out
}

type c17qObs struct {
	RoundTripErr string    `json:"round_trip_err,omitempty"`
	Panic        string    `json:"panic,omitempty"`
	Status       int       `json:"status"`
	Seen         *c17qSeen `json:"seen"`
}

func c17qRun(srv *c17qServer, raw *conformancev1.RawHTTPRequest, early bool) (obs c17qObs) {
	for len(srv.seen) > 0 { // leftovers of an earlier failed case
		<-srv.seen
	}
	var gate chan struct{}
	if early {
		// a fresh connection: what the kernel / the HTTP/2 peer lets the client send ahead of the
		// reader then does not depend on the cases that used the connection before
		if c, ok := srv.transport.(interface{ CloseIdleConnections() }); ok {
			c.CloseIdleConnections()
		}
		gate = make(chan struct{})
		srv.gate.Store(&gate)
		defer srv.gate.Store(nil)
	}
	opened := false
	open := func() {
		if gate != nil && !opened {
			opened = true
			close(gate)
		}
	}
	defer open()
	ctx, cancel := context.WithTimeout(context.Background(), 30*time.Second) // liveness guard only
	defer cancel()
	orig, err := http.NewRequestWithContext(ctx, http.MethodPost, srv.url+c17qOrigPath+"?orig=1", io.NopCloser(strings.NewReader(c17qOrigBody)))
	if err != nil {
		obs.RoundTripErr = "harness: " + err.Error()
		return obs
	}
	orig.Header.Set("X-Orig", "yes")
	orig.Header.Set("Content-Type", "application/proto")
	orig.Header.Set("Connect-Protocol-Version", "1")
	sender := &rawRequestSender{transport: srv.transport, rawRequest: raw}
	var resp *http.Response
	func() {
		defer func() {
			if p := recover(); p != nil {
				obs.Panic = fmt.Sprint(p)
			}
		}()
		resp, err = sender.RoundTrip(orig)
	}()
	// RoundTrip has returned (= the response headers are here): an EARLY server may read now
	open()
	if obs.Panic != "" {
		return obs
	}
	if err != nil {
		obs.RoundTripErr = err.Error()
	} else {
		obs.Status = resp.StatusCode
		// the response body is read (and closed) only after the server has reported what it
		// received: closing it earlier would itself abort a request that is still being sent
		defer func() {
			_, _ = io.Copy(io.Discard, resp.Body)
			_ = resp.Body.Close()
		}()
	}
	wait := 25 * time.Second // liveness guard only
	if err != nil {
		// RoundTrip failed: either nothing was sent or the handler has run already; a short
		// grace period only decides between the keys nothing-arrived and round-trip-error
		wait = 500 * time.Millisecond
	}
	select {
	case rec := <-srv.seen:
		obs.Seen = &rec
	case <-time.After(wait):
	}
	return obs
}

type c17qVerdict struct{ key, detail string }

func c17qDecodeB64(s string) ([]byte, error) {
	t := strings.TrimRight(s, "=")
	if b, err := base64.RawURLEncoding.DecodeString(t); err == nil {
		return b, nil
	}
	return base64.RawStdEncoding.DecodeString(t)
}

func c17qJudge(raw *conformancev1.RawHTTPRequest, early bool, big *c17qBig, obs c17qObs) (out []c17qVerdict) {
	add := func(key, format string, a ...any) {
		if early && strings.HasPrefix(key, "raw-request:body:") {
			// the same demand, in the situation "the response headers overtook the request body"
			key = "raw-request:server-answers-early:" + strings.TrimPrefix(key, "raw-request:")
			format = "[server answered before reading the request body] " + format
		}
		out = append(out, c17qVerdict{key, fmt.Sprintf(format, a...)})
	}
	if obs.Panic != "" {
		add("raw-request:panic", "rawRequestSender.RoundTrip panicked: %s", obs.Panic)
		return out
	}
	if obs.Seen == nil {
		add("raw-request:nothing-arrived", "no request reached the server (RoundTrip error %q)", obs.RoundTripErr)
		return out
	}
	seen := obs.Seen
	if early && !seen.Early {
		add("raw-request:harness-early-mode-not-applied", "the recording server did not run in early-answer mode for this case")
	}
	if seen.GateErr != "" {
		add("raw-request:server-answers-early:request-given-up", "the server had sent its response headers and was waiting for RoundTrip to return: %s", seen.GateErr)
	}
	if seen.Method != raw.GetVerb() {
		add("raw-request:method", "server saw method %q, specified %q", seen.Method, raw.GetVerb())
	}
	// path: the part of the given URI before '?', as it appears in the request target
	wantPath, wantOwnQuery, _ := strings.Cut(raw.GetUri(), "?")
	gotPath, _, _ := strings.Cut(seen.RequestURI, "?")
	switch {
	case gotPath == wantPath && seen.Escaped == wantPath:
	case strings.Contains(wantPath, "%") && len(raw.GetRawQueryParams())+len(raw.GetEncodedQueryParams()) > 0:
		// a percent-escape is part of the path as specified: %2F is not a segment separator,
		// %3F does not start the query, %23 no fragment, %25 is a literal percent sign
		add("raw-request:escaped-path-with-query-params", "server saw request target %q (escaped path %q, decoded path %q), specified URI %q whose path %q must arrive as written, together with the listed query parameters", seen.RequestURI, seen.Escaped, seen.Path, raw.GetUri(), wantPath)
	default:
		add("raw-request:path", "server saw request target %q (path %q, URL.EscapedPath %q), specified URI %q", seen.RequestURI, gotPath, seen.Escaped, raw.GetUri())
	}
	// query parameters
	got, err := url.ParseQuery(seen.RawQuery)
	if err != nil {
		add("raw-request:query-param", "server received an unparsable query %q: %v", seen.RawQuery, err)
	} else {
		literal := map[string][]string{}
		if own, err := url.ParseQuery(wantOwnQuery); err == nil {
			for k, v := range own {
				literal[k] = append(literal[k], v...)
			}
		}
		for _, p := range raw.GetRawQueryParams() {
			literal[p.GetName()] = append(literal[p.GetName()], p.GetValue()...)
		}
		encoded := map[string][]*conformancev1.RawHTTPRequest_EncodedQueryParam{}
		for _, p := range raw.GetEncodedQueryParams() {
			encoded[p.GetName()] = append(encoded[p.GetName()], p)
		}
		names := map[string]bool{}
		for k := range got {
			names[k] = true
		}
		for k := range literal {
			names[k] = true
		}
		for k := range encoded {
			names[k] = true
		}
		var sorted []string
		for k := range names {
			sorted = append(sorted, k)
		}
		sort.Strings(sorted)
		for _, name := range sorted {
			rest := append([]string{}, got[name]...)
			// literal values: each must be present (multiset)
			for _, want := range literal[name] {
				idx := -1
				for i, v := range rest {
					if v == want {
						idx = i
						break
					}
				}
				if idx < 0 {
					add("raw-request:query-param", "query parameter %q: value %q missing; server saw %q (query %q)", name, want, got[name], seen.RawQuery)
					continue
				}
				rest = append(rest[:idx], rest[idx+1:]...)
			}
			// encoded values: each must decode to its MessageContents
			for _, p := range encoded[name] {
				idx := -1
				for i, v := range rest {
					wire := []byte(v)
					if p.GetBase64Encode() {
						b, err := c17qDecodeB64(v)
						if err != nil {
							continue
						}
						wire = b
					}
					if c17lib.CheckUnary(p.GetValue(), wire) == nil {
						idx = i
						break
					}
				}
				if idx < 0 {
					add("raw-request:encoded-query-param", "encoded query parameter %q (%s): no received value decodes to it; server saw %q", name, c17lib.Short(p), got[name])
					continue
				}
				rest = append(rest[:idx], rest[idx+1:]...)
			}
			if len(rest) > 0 {
				add("raw-request:query-param-extra", "query parameter %q: unspecified value(s) %q reached the server (query %q)", name, rest, seen.RawQuery)
			}
		}
	}
	// headers
	listed, _ := c17lib.Group(raw.GetHeaders())
	entries := c17lib.Entries(raw.GetHeaders())
	for name, vals := range listed {
		if gotv := seen.Header.Values(name); !c17lib.EqualStrings(gotv, vals) {
			if entries[name] > 1 {
				add("raw-request:header-named-in-several-entries", "header %s is named in %d entries of the list: server saw %q, specified %q (all values, in list order)", name, entries[name], gotv, vals)
			} else {
				add("raw-request:header-missing-or-wrong", "header %s: server saw %q, specified %q", name, gotv, vals)
			}
		}
	}
	if v := seen.Header.Values("X-Orig"); len(v) > 0 {
		add("raw-request:original-header-leaks", "header X-Orig=%q of the request the client built reached the server", v)
	}
	if v := seen.Header.Values("Connect-Protocol-Version"); len(v) > 0 {
		add("raw-request:original-header-leaks", "header Connect-Protocol-Version=%q of the request the client built reached the server", v)
	}
	if _, ok := listed["Content-Type"]; !ok {
		if v := seen.Header.Get("Content-Type"); v == "application/proto" {
			add("raw-request:original-header-leaks", "Content-Type %q of the request the client built reached the server", v)
		}
	}
	// body
	if bytes.Contains(seen.Body, []byte(c17qOrigBody)) {
		add("raw-request:original-body-leaks", "the body of the request the client built reached the server: %.200q", seen.Body)
	}
	if seen.BodyErr != "" {
		add("raw-request:body:read-error", "server failed to read the request body: %s (after %d bytes)", seen.BodyErr, seen.BodyLen)
	}
	if big != nil {
		// large generated body: exactly the prescribed bytes (length and SHA-256 computed independently)
		wantLen, wantSHA := c17qBigWant(big)
		switch {
		case seen.BodyLen < wantLen:
			add("raw-request:body:cut-short", "the definition prescribes a body of %d bytes (%s, payload sizes %v); the server received only %d bytes (read error %q)", wantLen, big.Shape, big.Sizes, seen.BodyLen, seen.BodyErr)
		case seen.BodyLen > wantLen:
			add("raw-request:body:unexpected-bytes", "the definition prescribes a body of %d bytes (%s, payload sizes %v); the server received %d bytes", wantLen, big.Shape, big.Sizes, seen.BodyLen)
		case seen.BodySHA != wantSHA:
			add("raw-request:body:wrong-bytes", "body of %d bytes (%s, payload sizes %v): SHA-256 %s received, %s prescribed", wantLen, big.Shape, big.Sizes, seen.BodySHA, wantSHA)
		}
	}
	if seen.BodyLen > int64(len(seen.Body)) {
		// longer than what the server keeps verbatim: judged by length and hash above
		if big == nil {
			add("raw-request:body:unexpected-bytes", "server read %d bytes, far more than any definition of the alphabet prescribes", seen.BodyLen)
		}
		if len(out) == 0 && obs.RoundTripErr != "" {
			add("raw-request:round-trip-error", "the request arrived as specified but RoundTrip returned %q", obs.RoundTripErr)
		}
		return out
	}
	switch b := raw.GetBody().(type) {
	case nil:
		if len(seen.Body) != 0 {
			add("raw-request:body:unexpected-bytes", "no body specified, server read %d byte(s): %x", len(seen.Body), seen.Body)
		}
	case *conformancev1.RawHTTPRequest_Unary:
		if p := c17lib.CheckUnary(b.Unary, seen.Body); p != nil {
			add("raw-request:body:"+p.Kind, "%s", p.Detail)
		}
	case *conformancev1.RawHTTPRequest_Stream:
		if _, p := c17lib.CheckStream(b.Stream, seen.Body); p != nil {
			add("raw-request:body:"+p.Kind, "%s", p.Detail)
		}
	}
	if len(out) == 0 && obs.RoundTripErr != "" {
		add("raw-request:round-trip-error", "the request arrived as specified but RoundTrip returned %q", obs.RoundTripErr)
	}
	return out
}

// ---------------------------------------------------------------------------
// The request the client would have built: how long does it stay unfinished?
//
// The property says the raw request is sent INSTEAD of that request; it does not
// say "after it".  For a unary RPC the original body is finished when RoundTrip
// is called; for a client / bidi stream it is connect-go's request pipe, open
// until the application half-closes.  Two grids make that an axis:
//
// grid O - rawRequestSender.RoundTrip itself, with an in-memory recording
// transport, inside a testing/synctest bubble: the original body is a finished
// buffer, a pipe that ends when drained, a pipe closed / failed beforehand
// (controls), or a pipe that stays OPEN - with one message waiting to be
// drained, with three, with none - and is closed (or fails) only after the
// transport has been handed the raw request, or only after the response has
// been read.  synctest.Wait() returns when every goroutine of the bubble has
// finished or waits for something only the harness can do: at that moment the
// raw request must have reached the transport.  No clock.
//
// grid I - invoke(...) in reference mode (the real connect-go client, the wire
// capture transport, rawRequestSender) against the recording servers, for every
// stream type, 1 and 3 request messages, request_delay_ms, and cancellation
// before close-send.  A full-duplex bidi client waits for a response after each
// Send: if the raw request is held back until the original request ends, nothing
// ever arrives.  The only use of the clock is the hang detector (c17qHangBound);
// the same set-up with a request side that is finished at once (unary, server
// stream) is the control.

type c17qExt struct {
	Orig   string      `json:"original_body,omitempty"` // grid O: c17qOrigModes
	Invoke *c17qInvoke `json:"invoke,omitempty"`        // grid I
}

type c17qInvoke struct {
	StreamType string `json:"stream_type"` // unary | server | client | half-bidi | full-bidi
	Messages   int    `json:"request_messages"`
	DelayMs    uint32 `json:"request_delay_ms,omitempty"`
	Cancel     string `json:"cancel,omitempty"` // "before_close_send"
}

// c17qHangBound: how long the harness waits for a raw request that nothing but
// the unfinished original request can be holding back (liveness guard; the
// control cases of the same grid pass through the same code in milliseconds).
const c17qHangBound = 10 * time.Second

const c17qHeldKey = "raw-request:held-back-until-original-request-ends"

var c17qOrigModes = []string{
	"buffer", "pipe-ends-when-drained", "pipe-closed-before", "pipe-failed-before", // the original body is finished (or ends by itself)
	"open-until-seen", "open-3-messages-until-seen", "open-silent-until-seen", "fails-after-seen", "open-until-response-read",
}

func c17qOrigOpen(mode string) bool {
	return strings.HasPrefix(mode, "open") || mode == "fails-after-seen"
}

// c17qMem: an in-memory http.RoundTripper that records the request it is handed
// (reading its body to the end) and answers 200.
type c17qMem struct{ seen chan c17qSeen }

func (m *c17qMem) RoundTrip(req *http.Request) (*http.Response, error) {
	rec := c17qSeen{Method: req.Method, RequestURI: req.URL.RequestURI(), Path: req.URL.Path, Escaped: req.URL.EscapedPath(), RawQuery: req.URL.RawQuery, Header: req.Header.Clone(), Proto: "in-memory"}
	if req.Body != nil {
		keep, hash := &c17qKeeper{}, sha256.New()
		n, err := io.Copy(io.MultiWriter(keep, hash), req.Body)
		_ = req.Body.Close()
		rec.Body, rec.BodyLen, rec.BodySHA = keep.buf, n, hex.EncodeToString(hash.Sum(nil))
		if err != nil {
			rec.BodyErr = err.Error()
		}
	}
	select {
	case m.seen <- rec:
	default:
	}
	return &http.Response{
		Status: "200 OK", StatusCode: http.StatusOK, Proto: "HTTP/1.1", ProtoMajor: 1, ProtoMinor: 1,
		Header: http.Header{"Content-Type": {"text/plain"}}, Body: io.NopCloser(strings.NewReader("ok")), Request: req,
	}, nil
}

// c17qRunOrig: one grid-O case.  held != "" = the raw request had not been handed
// to the transport (or RoundTrip had not returned, mode open-until-response-read)
// when every goroutine had come to rest with the original body still open.
func c17qRunOrig(t *testing.T, raw *conformancev1.RawHTTPRequest, mode string) (obs c17qObs, held string) {
	defer func() {
		if p := recover(); p != nil { // synctest: goroutines left blocked for ever when the case was over
			obs.Panic = fmt.Sprint(p)
		}
	}()
	synctest.Test(t, func(*testing.T) {
		mem := &c17qMem{seen: make(chan c17qSeen, 4)}
		var body io.ReadCloser = io.NopCloser(strings.NewReader(c17qOrigBody))
		var pw *io.PipeWriter
		if mode != "buffer" {
			var pr *io.PipeReader
			pr, pw = io.Pipe()
			body = pr
			switch mode {
			case "pipe-ends-when-drained": // what connect-go does for a unary RPC
				go func() { _, _ = pw.Write([]byte(c17qOrigBody)); _ = pw.Close() }()
			case "pipe-closed-before":
				_ = pw.Close()
			case "pipe-failed-before":
				_ = pw.CloseWithError(errors.New("c17: the original request was given up"))
			case "open-until-seen", "fails-after-seen", "open-until-response-read": // one message waits to be drained; more may follow
				go func() { _, _ = pw.Write([]byte(c17qOrigBody)) }()
			case "open-3-messages-until-seen":
				go func() {
					for i := 0; i < 3; i++ {
						if _, err := pw.Write([]byte(c17qOrigBody)); err != nil {
							return
						}
					}
				}()
			case "open-silent-until-seen":
			default:
				panic("unknown original-body mode " + mode)
			}
		}
		orig, err := http.NewRequestWithContext(context.Background(), http.MethodPost, "http://c17.invalid"+c17qOrigPath+"?orig=1", body)
		if err != nil {
			obs.RoundTripErr = "harness: " + err.Error()
			return
		}
		orig.Header.Set("X-Orig", "yes")
		orig.Header.Set("Content-Type", "application/proto")
		orig.Header.Set("Connect-Protocol-Version", "1")
		sender := &rawRequestSender{transport: mem, rawRequest: raw}
		type result struct {
			resp  *http.Response
			err   error
			panic string
		}
		done := make(chan result, 1)
		go func() {
			var res result
			defer func() {
				if p := recover(); p != nil {
					res.panic = fmt.Sprint(p)
				}
				done <- res
			}()
			res.resp, res.err = sender.RoundTrip(orig)
		}()
		var res *result
		look := func() {
			if obs.Seen == nil {
				select {
				case rec := <-mem.seen:
					obs.Seen = &rec
				default:
				}
			}
			if res == nil {
				select {
				case x := <-done:
					res = &x
				default:
				}
			}
		}
		readResp := func() {
			if res != nil && res.resp != nil && res.resp.Body != nil {
				_, _ = io.Copy(io.Discard, res.resp.Body)
				_ = res.resp.Body.Close()
				res.resp.Body = nil
			}
		}
		synctest.Wait() // every goroutine has finished or waits for something only this goroutine can do
		look()
		switch {
		case obs.Seen == nil && res == nil:
			held = "RoundTrip was called with an original body in state '" + mode + "'; when every goroutine had come to rest, RoundTrip had neither returned nor handed any request to the underlying transport"
		case mode == "open-until-response-read" && res == nil:
			held = "the transport was handed the raw request and answered, but RoundTrip does not return while the original body is open"
		}
		if mode == "open-until-response-read" {
			readResp()
		}
		// now the original request ends
		if pw != nil {
			if mode == "fails-after-seen" {
				_ = pw.CloseWithError(errors.New("c17: the original request was given up"))
			} else {
				_ = pw.Close()
			}
		}
		synctest.Wait()
		look()
		switch {
		case res == nil:
			obs.RoundTripErr = "RoundTrip has not returned although the original body has ended"
		case res.panic != "":
			obs.Panic = res.panic
		case res.err != nil:
			obs.RoundTripErr = res.err.Error()
		default:
			obs.Status = res.resp.StatusCode
		}
		readResp()
	})
	return obs, held
}

func c17qAny(m proto.Message) *anypb.Any {
	a, err := anypb.New(m)
	if err != nil {
		panic(err)
	}
	return a
}

func c17qInvokeProcedure(streamType string) string {
	switch streamType {
	case "unary":
		return conformancev1connect.ConformanceServiceUnaryProcedure
	case "server":
		return conformancev1connect.ConformanceServiceServerStreamProcedure
	case "client":
		return conformancev1connect.ConformanceServiceClientStreamProcedure
	}
	return conformancev1connect.ConformanceServiceBidiStreamProcedure
}

// c17qInvokeOpen: does the request side of this stream type stay open after the first Send?
func c17qInvokeOpen(streamType string) bool { return streamType != "unary" && streamType != "server" }

func c17qInvokeRequest(srv *c17qServer, inv *c17qInvoke, raw *conformancev1.RawHTTPRequest) (*conformancev1.ClientCompatRequest, error) {
	u, err := url.Parse(srv.url)
	if err != nil {
		return nil, err
	}
	port, err := strconv.Atoi(u.Port())
	if err != nil {
		return nil, err
	}
	service := conformancev1connect.ConformanceServiceName
	req := &conformancev1.ClientCompatRequest{
		TestName:       "c17/" + inv.StreamType,
		HttpVersion:    conformancev1.HTTPVersion_HTTP_VERSION_2,
		Protocol:       conformancev1.Protocol_PROTOCOL_CONNECT,
		Codec:          conformancev1.Codec_CODEC_PROTO,
		Compression:    conformancev1.Compression_COMPRESSION_IDENTITY,
		Host:           u.Hostname(),
		Port:           uint32(port),
		Service:        &service,
		RequestDelayMs: inv.DelayMs,
		RawRequest:     raw,
	}
	if srv.name == "h1" {
		req.HttpVersion = conformancev1.HTTPVersion_HTTP_VERSION_1
	}
	if srv.name == "h2tls" {
		req.ServerTlsCert = srv.pem
	}
	var method string
	for i := 0; i < inv.Messages; i++ {
		data := []byte(fmt.Sprintf("original-message-%d", i))
		switch inv.StreamType {
		case "unary":
			method, req.StreamType = "Unary", conformancev1.StreamType_STREAM_TYPE_UNARY
			req.RequestMessages = append(req.RequestMessages, c17qAny(&conformancev1.UnaryRequest{RequestData: data}))
		case "server":
			method, req.StreamType = "ServerStream", conformancev1.StreamType_STREAM_TYPE_SERVER_STREAM
			req.RequestMessages = append(req.RequestMessages, c17qAny(&conformancev1.ServerStreamRequest{RequestData: data}))
		case "client":
			method, req.StreamType = "ClientStream", conformancev1.StreamType_STREAM_TYPE_CLIENT_STREAM
			req.RequestMessages = append(req.RequestMessages, c17qAny(&conformancev1.ClientStreamRequest{RequestData: data}))
		case "half-bidi":
			method, req.StreamType = "BidiStream", conformancev1.StreamType_STREAM_TYPE_HALF_DUPLEX_BIDI_STREAM
			req.RequestMessages = append(req.RequestMessages, c17qAny(&conformancev1.BidiStreamRequest{RequestData: data}))
		case "full-bidi":
			method, req.StreamType = "BidiStream", conformancev1.StreamType_STREAM_TYPE_FULL_DUPLEX_BIDI_STREAM
			req.RequestMessages = append(req.RequestMessages, c17qAny(&conformancev1.BidiStreamRequest{RequestData: data, FullDuplex: true}))
		default:
			return nil, fmt.Errorf("unknown stream type %q", inv.StreamType)
		}
	}
	req.Method = &method
	switch inv.Cancel {
	case "":
	case "before_close_send":
		req.Cancel = &conformancev1.ClientCompatRequest_Cancel{CancelTiming: &conformancev1.ClientCompatRequest_Cancel_BeforeCloseSend{BeforeCloseSend: &emptypb.Empty{}}}
	default:
		return nil, fmt.Errorf("unknown cancel timing %q", inv.Cancel)
	}
	return req, nil
}

// c17qRunInvoke: one grid-I case.  note = something worth recording that is not C17's business.
func c17qRunInvoke(srv *c17qServer, raw *conformancev1.RawHTTPRequest, inv *c17qInvoke) (obs c17qObs, held, note string) {
	for len(srv.seen) > 0 {
		<-srv.seen
	}
	reply := &c17qReply{"application/connect+proto", []byte{2, 0, 0, 0, 2, '{', '}'}} // an empty Connect stream
	if inv.StreamType == "unary" {
		reply = &c17qReply{"application/proto", nil} // an empty UnaryResponse
	}
	srv.reply.Store(reply)
	defer srv.reply.Store(nil)
	req, err := c17qInvokeRequest(srv, inv, raw)
	if err != nil {
		obs.RoundTripErr = "harness: " + err.Error()
		return obs, "", ""
	}
	ctx, cancel := context.WithCancel(context.Background())
	defer cancel() // a hanging invoke is left behind (its goroutine cannot be ended from outside)
	type result struct {
		err   error
		panic string
	}
	done := make(chan result, 1)
	go func() {
		var res result
		defer func() {
			if p := recover(); p != nil {
				res.panic = fmt.Sprint(p)
			}
			done <- res
		}()
		_, res.err = invoke(ctx, req, true, nil)
	}()
	var res *result
	hang := time.NewTimer(c17qHangBound)
	defer hang.Stop()
	select {
	case rec := <-srv.seen:
		obs.Seen = &rec
	case x := <-done:
		// invoke is over: whatever it sent has been sent; a short grace period for the handler to report
		res = &x
		select {
		case rec := <-srv.seen:
			obs.Seen = &rec
		case <-time.After(2 * time.Second):
		}
	case <-hang.C:
		held = fmt.Sprintf("%s RPC with %d request message(s) (request_delay_ms=%d, cancel=%q) through invoke(...): the raw request did not reach the server within %v, invoke has not returned - nothing but the unfinished original request is outstanding", inv.StreamType, inv.Messages, inv.DelayMs, inv.Cancel, c17qHangBound)
		return obs, held, ""
	}
	if res == nil {
		// How (and when) the RPC itself ends is not C17's business: in reference mode invoke spends
		// a further second waiting for its wire trace.  It is left to finish by itself.
		select {
		case x := <-done:
			res = &x
		default:
		}
	}
	if res != nil {
		if res.panic != "" {
			obs.Panic = res.panic
		} else if res.err != nil {
			note = "invoke returned the error " + res.err.Error()
		}
	}
	if obs.Seen == nil && obs.Panic == "" {
		obs.RoundTripErr = "invoke has returned"
		if res != nil && res.err != nil {
			obs.RoundTripErr += " the error " + res.err.Error()
		}
		if c17qInvokeOpen(inv.StreamType) {
			held = fmt.Sprintf("%s RPC with %d request message(s) (request_delay_ms=%d, cancel=%q) through invoke(...): invoke is over and no request has reached the server, although the first Send was made %d ms or more before the RPC was given up", inv.StreamType, inv.Messages, inv.DelayMs, inv.Cancel, int(inv.DelayMs)*(inv.Messages-1))
		}
	}
	return obs, held, note
}

// ---------------------------------------------------------------------------
// Enumeration

func c17qEncoded(name string, mc *conformancev1.MessageContents, b64 bool) *conformancev1.RawHTTPRequest_EncodedQueryParam {
	return &conformancev1.RawHTTPRequest_EncodedQueryParam{Name: name, Value: mc, Base64Encode: b64}
}

func c17qEncodedLists(thorough bool) [][]*conformancev1.RawHTTPRequest_EncodedQueryParam {
	p := c17lib.Payloads(2)
	hello, bin, anyMsg := p[0], p[1], p[2]
	with := func(mc *conformancev1.MessageContents, c conformancev1.Compression) *conformancev1.MessageContents {
		m := proto.Clone(mc).(*conformancev1.MessageContents)
		m.Compression = c
		return m
	}
	gz, sn := conformancev1.Compression_COMPRESSION_GZIP, conformancev1.Compression_COMPRESSION_SNAPPY
	out := [][]*conformancev1.RawHTTPRequest_EncodedQueryParam{
		nil,
		{c17qEncoded("message", hello, false)},
		{c17qEncoded("message", with(bin, gz), true)},
		{c17qEncoded("message", anyMsg, true), c17qEncoded("extra", with(hello, sn), false)},
		{c17qEncoded("message", bin, false), c17qEncoded("message", hello, true)}, // same name twice
		{c17qEncoded("novalue", nil, false)},                                      // value unset: an empty parameter value
	}
	if thorough {
		for _, mc := range c17lib.Messages(c17lib.Payloads(2)[:7], c17lib.Compressions()) {
			for _, b64 := range []bool{false, true} {
				out = append(out, []*conformancev1.RawHTTPRequest_EncodedQueryParam{c17qEncoded("message", mc, b64)})
			}
		}
	}
	return out
}

func c17qRawQueryLists() [][]*conformancev1.Header {
	return [][]*conformancev1.Header{
		nil,
		{c17lib.H("p", "v1")},
		{c17lib.H("p", "v1", "v 2&=%+/"), c17lib.H("q", "")},
		{c17lib.H("x", "2"), c17lib.H("x", "3")}, // "x" also occurs in the query of one of the URIs
	}
}

var (
	c17qProtos = []string{"h1", "h2tls", "h2c"}
	c17qVerbs  = []string{"POST", "GET", "PUT"}
	c17qURIs   = []string{"/svc.Name/Method", "/", "/a%20b/c", "/q?x=1&y=z"}
	// paths with a percent-escape whose decoded form would mean something else in a URI
	// (segment separator, start of the query, start of a fragment, the escape character itself),
	// without and with a query string of their own; each is combined with every raw / encoded
	// query parameter list
	c17qEscapedURIs = []string{
		"/pkg.Service/Me%2Fthod", "/x/What%3Fnow", "/x/frag%23ment", "/x/100%25",
		"/pkg.Service/Me%2Fthod?x=1&y=z", "/x/What%3Fnow?x=1",
	}
	c17qEscapedURIsThorough = []string{
		"/%2F", "/a%2Fb%3Fc%23d%25e", "/x/frag%23ment?y=z", "/x/100%25?x=1&x=%25", "/a%2Fb%3Fc%23d%25e?x=1",
	}
)

func c17qAllURIs(thorough bool) []string {
	out := append(append([]string{}, c17qURIs...), c17qEscapedURIs...)
	if thorough {
		out = append(out, c17qEscapedURIsThorough...)
	}
	return out
}

func c17qMake(verb, uri string, rawQ []*conformancev1.Header, encQ []*conformancev1.RawHTTPRequest_EncodedQueryParam, headers []*conformancev1.Header, body c17lib.Body) *conformancev1.RawHTTPRequest {
	raw := &conformancev1.RawHTTPRequest{Verb: verb, Uri: uri}
	for _, h := range rawQ {
		raw.RawQueryParams = append(raw.RawQueryParams, proto.Clone(h).(*conformancev1.Header))
	}
	for _, e := range encQ {
		raw.EncodedQueryParams = append(raw.EncodedQueryParams, proto.Clone(e).(*conformancev1.RawHTTPRequest_EncodedQueryParam))
	}
	for _, h := range headers {
		raw.Headers = append(raw.Headers, proto.Clone(h).(*conformancev1.Header))
	}
	switch {
	case body.Unary != nil:
		raw.Body = &conformancev1.RawHTTPRequest_Unary{Unary: body.Unary}
	case body.Stream != nil:
		raw.Body = &conformancev1.RawHTTPRequest_Stream{Stream: body.Stream}
	}
	return raw
}

// c17qIdentityLen: length of the body when it can be computed without any
// encoder (no body, or one uncompressed text/binary message); else -1.
func c17qIdentityLen(b c17lib.Body) int {
	if b.Stream != nil {
		return -1
	}
	if b.Unary == nil {
		return 0
	}
	if b.Unary.GetCompression() > conformancev1.Compression_COMPRESSION_IDENTITY {
		return -1
	}
	switch d := b.Unary.GetData().(type) {
	case nil:
		return 0
	case *conformancev1.MessageContents_Text:
		return len(d.Text)
	case *conformancev1.MessageContents_Binary:
		return len(d.Binary)
	}
	return -1
}

// c17qBigs: large identity bodies around 64 KiB, 1 MiB, 4 MiB and 16 MiB as one
// message, as a stream of one item and as a stream of several items.
func c17qBigs(thorough bool) []*c17qBig {
	const K, M = 1 << 10, 1 << 20
	out := []*c17qBig{
		{"unary", []int{64 * K}}, {"stream", []int{64*K - 5}}, {"stream", []int{16 * K, 32 * K, 16*K + 1}},
		{"unary", []int{M}}, {"stream", []int{M}}, {"stream", []int{256 * K, 512 * K, 256 * K, 3}},
		{"unary", []int{4 * M}}, {"stream", []int{4 * M}}, {"stream", []int{M, M + 1, M, M - 1}},
		{"unary", []int{16 * M}}, {"stream", []int{16 * M}}, {"stream", []int{4 * M, 4 * M, 4*M + 7, 4 * M}},
	}
	if thorough {
		out = append(out,
			&c17qBig{"unary", []int{64*K + 1}}, &c17qBig{"stream", []int{64 * K}}, &c17qBig{"unary", []int{65535}},
			&c17qBig{"stream", []int{M - 5}}, &c17qBig{"unary", []int{M + 1}},
			&c17qBig{"stream", []int{2 * M, 0, 2 * M}}, &c17qBig{"stream", []int{M, M, M, M, M, M, M, M}},
		)
	}
	return out
}

func c17qEnumerate(thorough bool, visitX func(grid, proto string, early bool, big *c17qBig, ext *c17qExt, raw *conformancev1.RawHTTPRequest) bool) {
	visit0 := func(grid, proto string, early bool, big *c17qBig, raw *conformancev1.RawHTTPRequest) bool {
		return visitX(grid, proto, early, big, nil, raw)
	}
	visit := func(grid, proto string, raw *conformancev1.RawHTTPRequest) bool {
		return visit0(grid, proto, false, nil, raw)
	}
	hl := c17lib.HeaderLists(1)
	helloBody := c17lib.Body{Unary: c17lib.Payloads(0)[0]}
	// grid U: verb x URI x raw query params x encoded query params
	for _, verb := range c17qVerbs {
		for _, uri := range c17qAllURIs(thorough) {
			for _, rq := range c17qRawQueryLists() {
				for _, eq := range c17qEncodedLists(thorough) {
					body := helloBody
					if verb == "GET" {
						body = c17lib.Body{}
					}
					raw := c17qMake(verb, uri, rq, eq, hl[2], body)
					for _, p := range c17qProtos {
						if !visit("U", p, raw) {
							return
						}
					}
				}
			}
		}
	}
	// grid H: verb x header list x body
	bodies := c17lib.Bodies(1)
	verbs := c17qVerbs
	headerLists := hl
	if !thorough {
		headerLists = c17lib.HeaderLists(0)
	}
	for _, verb := range verbs {
		for _, hs := range headerLists {
			for _, b := range bodies {
				raw := c17qMake(verb, c17qURIs[0], c17qRawQueryLists()[1], c17qEncodedLists(false)[2], hs, b)
				for _, p := range c17qProtos {
					if !visit("H", p, raw) {
						return
					}
				}
			}
		}
		// explicit, correct, positive Content-Length where it is computable independently
		for _, b := range bodies {
			n := c17qIdentityLen(b)
			if n <= 0 { // "Content-Length: 0" is net/http's business: a zero length with a body reader means "unknown" to its transport
				continue
			}
			hs := []*conformancev1.Header{c17lib.H("Content-Length", strconv.Itoa(n)), c17lib.H("X-Raw-A", "a1")}
			raw := c17qMake(verb, c17qURIs[0], nil, nil, hs, b)
			for _, p := range c17qProtos {
				if !visit("H", p, raw) {
					return
				}
			}
		}
	}
	// grid T (timing axis): the server answers EARLY - response headers first, the request body is
	// read only after RoundTrip has returned - x the medium body set x header lists
	tHeaders := [][]*conformancev1.Header{hl[2]}
	tVerbs := []string{"POST"}
	if thorough {
		tHeaders = [][]*conformancev1.Header{nil, hl[2], hl[4]}
		tVerbs = []string{"POST", "PUT"}
	}
	for _, verb := range tVerbs {
		for _, hs := range tHeaders {
			for _, b := range bodies {
				raw := c17qMake(verb, c17qURIs[0], c17qRawQueryLists()[1], nil, hs, b)
				for _, p := range c17qProtos {
					if !visit0("T", p, true, nil, raw) {
						return
					}
				}
			}
		}
	}
	// grid G: large bodies (beyond the HTTP/2 flow-control window and the loopback socket buffers)
	// x server answers late / early
	for _, big := range c17qBigs(thorough) {
		for _, early := range []bool{false, true} {
			hs := []*conformancev1.Header{c17lib.H("Content-Type", "application/x-raw"), c17lib.H("X-Raw-A", "a1")}
			raw := c17qMake("POST", c17qURIs[0], nil, nil, hs, c17lib.Body{})
			for _, p := range c17qProtos {
				if !visit0("G", p, early, big, raw) {
					return
				}
			}
		}
	}
	// grid O: the original body's lifecycle x raw definitions (synctest bubble, in-memory transport)
	oBodies, oVerbs := c17lib.Bodies(0), []string{"POST", "PUT"}
	if thorough {
		oBodies, oVerbs = bodies, c17qVerbs
	}
	for _, mode := range c17qOrigModes {
		for _, verb := range oVerbs {
			for _, hs := range [][]*conformancev1.Header{nil, hl[2]} {
				for _, b := range oBodies {
					raw := c17qMake(verb, c17qURIs[0], c17qRawQueryLists()[1], nil, hs, b)
					if !visitX("O", "mem", false, nil, &c17qExt{Orig: mode}, raw) {
						return
					}
				}
			}
		}
	}
	// grid I: invoke(...) in reference mode x stream type x request messages x delay x cancellation
	iBodies := c17lib.Bodies(0)
	if !thorough {
		iBodies = []c17lib.Body{iBodies[1], iBodies[3], iBodies[len(iBodies)-1]} // one message, two streams
	}
	for _, st := range []string{"unary", "server", "client", "half-bidi", "full-bidi"} {
		invs := []*c17qInvoke{{StreamType: st, Messages: 1}}
		if c17qInvokeOpen(st) {
			invs = append(invs,
				&c17qInvoke{StreamType: st, Messages: 3},
				&c17qInvoke{StreamType: st, Messages: 3, DelayMs: 20},
				// the RPC is given up instead of half-closed, 2 x 500 ms after the first Send
				&c17qInvoke{StreamType: st, Messages: 3, DelayMs: 500, Cancel: "before_close_send"},
			)
		}
		for _, inv := range invs {
			for bi, b := range iBodies {
				if inv.Cancel != "" && bi > 0 && !thorough {
					continue
				}
				hs := []*conformancev1.Header{c17lib.H("Content-Type", "application/x-raw"), c17lib.H("X-Raw-A", "a1", "a2")}
				raw := c17qMake("POST", c17qInvokeProcedure(st)+"?raw=1", c17qRawQueryLists()[1], nil, hs, b)
				for _, p := range c17qProtos {
					if st == "full-bidi" && p == "h1" {
						continue // full duplex needs HTTP/2
					}
					if !visitX("I", p, false, nil, &c17qExt{Invoke: inv}, raw) {
						return
					}
				}
			}
		}
	}
	// grid B (thorough): full body alphabet
	if thorough {
		for _, b := range c17lib.Bodies(2) {
			for _, verb := range []string{"POST", "GET"} {
				for _, hs := range [][]*conformancev1.Header{nil, hl[2]} {
					raw := c17qMake(verb, c17qURIs[0], nil, nil, hs, b)
					for _, p := range c17qProtos {
						if !visit("B", p, raw) {
							return
						}
					}
				}
			}
		}
	}
}

// c17qShort: the definition for messages, with a large body left out.
func c17qShort(raw *conformancev1.RawHTTPRequest) string {
	if proto.Size(raw) > 4096 {
		raw = proto.Clone(raw).(*conformancev1.RawHTTPRequest)
		raw.Body = nil
		return c17lib.Short(raw) + " (+ large generated body)"
	}
	return c17lib.Short(raw)
}

func TestVerifC17RawRequest(t *testing.T) {
	r := rep.New("c17-rawreq")
	defer r.Write()
	r.Rule = "case = (protocol h1|h2tls|h2c) x RawHTTPRequest; grid U = verb{POST,GET,PUT} x 10 URIs (thorough 15: plain, root, escaped space, with own query, paths with %2F / %3F / %23 / %25 without and with an own query string; the escaped path the server receives - request target and URL.EscapedPath() - must be the one specified) x 4 raw query lists x encoded query lists (text/binary/binary_message, compressed, +-base64, repeated name, unset value; thorough: 7 payloads x 7 compressions x +-base64); grid H = verb x header lists (0-3 headers, 1-2 values, a name in two entries - same spelling or differing in case - whose values must all arrive in list order, Content-Type, correct Content-Length) x medium body set; grid T (timing axis) = the recording server answers EARLY (flushes its response headers, HTTP/1.1 in full-duplex mode, waits on a channel the test closes when RoundTrip has returned, only then reads the request body) x medium body set x header lists; grid G = large generated identity bodies (64 KiB, 1 MiB, 4 MiB, 16 MiB - beyond the HTTP/2 flow-control window and the loopback socket buffers - as one message, one stream item, several stream items) x server answers late | early, on a fresh connection: the server must receive exactly the prescribed bytes (length + SHA-256 computed independently; bodies up to 2 MiB also through the independent decoder); grid B (thorough) = full body alphabet x 2 verbs x 2 header lists; distinct (proto, early, definition) = non-trivial; oracle = what a recording net/http server received vs. the definition (independent body decoder), nothing of the original request; grid O (what becomes of the ORIGINAL request) = rawRequestSender.RoundTrip in a testing/synctest bubble with an in-memory recording transport x original body {finished buffer, pipe that ends when drained, pipe closed / failed beforehand; pipe left OPEN with one / three / no message(s) waiting and closed - or failed - only after the transport was handed the raw request, or only after the response was read} x 2 verbs x 2 header lists x 7 bodies: when every goroutine has come to rest (synctest.Wait) the transport must have the raw request; grid I = invoke(...) in reference mode against the recording servers x stream type {unary, server, client, half-duplex bidi, full-duplex bidi (HTTP/2)} x {1, 3 request messages, request_delay_ms, cancel before_close_send} x 3 bodies x 3 protocols: the server must receive the raw request as prescribed while the original request is unfinished (hang detector 10 s; controls = unary / server stream)"

	servers := c17qStart()
	defer func() {
		for _, s := range servers {
			if c, ok := s.transport.(interface{ CloseIdleConnections() }); ok {
				c.CloseIdleConnections()
			}
			s.stop()
		}
	}()

	evalOne := func(protoName string, early bool, big *c17qBig, ext *c17qExt, raw *conformancev1.RawHTTPRequest, verbose bool) []c17qVerdict {
		srv := servers[protoName]
		if big != nil {
			raw = proto.Clone(raw).(*conformancev1.RawHTTPRequest)
			c17qBigBody(raw, big)
		}
		var obs c17qObs
		runAndJudge := func() []c17qVerdict {
			held := ""
			switch {
			case ext != nil && ext.Orig != "":
				obs, held = c17qRunOrig(t, raw, ext.Orig)
			case ext != nil && ext.Invoke != nil:
				if srv == nil {
					return []c17qVerdict{{"raw-request:harness-no-such-server", "no recording server " + protoName}}
				}
				var note string
				obs, held, note = c17qRunInvoke(srv, raw, ext.Invoke)
				if note != "" {
					r.Count("grid-I:"+strings.Join(strings.Fields(note)[:3], " ")+" ...", 1)
					if verbose {
						fmt.Println("note:", note)
					}
				}
			default:
				obs = c17qRun(srv, raw, early)
			}
			var out []c17qVerdict
			if held != "" {
				out = append(out, c17qVerdict{c17qHeldKey, held})
				if obs.Seen == nil && obs.Panic == "" {
					return out // nothing to compare
				}
			}
			return append(out, c17qJudge(raw, early, big, obs)...)
		}
		verdicts := runAndJudge()
		if len(verdicts) > 0 {
			// alarm discipline: run a failing case once more on fresh connections
			if srv != nil {
				if c, ok := srv.transport.(interface{ CloseIdleConnections() }); ok {
					c.CloseIdleConnections()
				}
			}
			again := runAndJudge()
			keys := map[string]bool{}
			for _, v := range again {
				keys[v.key] = true
			}
			var kept []c17qVerdict
			for _, v := range verdicts {
				if keys[v.key] {
					kept = append(kept, v)
				} else {
					r.Note("UNSTABLE verdict %s on proto=%s early=%v raw=%s: %s", v.key, protoName, early, c17qShort(raw), v.detail)
					r.Count("unstable", 1)
				}
			}
			verdicts = kept
		}
		bodyKind := "none"
		switch raw.GetBody().(type) {
		case *conformancev1.RawHTTPRequest_Unary:
			bodyKind = "unary"
		case *conformancev1.RawHTTPRequest_Stream:
			bodyKind = "stream"
		}
		cls := protoName + "/nothing-arrived"
		if ext != nil && ext.Orig != "" {
			cls = "original-body:" + ext.Orig + "/" + cls
		}
		if ext != nil && ext.Invoke != nil {
			cls = "invoke:" + ext.Invoke.StreamType + "/" + cls
		}
		if obs.Panic != "" {
			cls = protoName + "/panic"
		} else if obs.Seen != nil {
			q := "noquery"
			if obs.Seen.RawQuery != "" {
				q = "query"
			}
			n := "empty"
			switch {
			case obs.Seen.BodyLen >= 4<<20:
				n = "4MiB+"
			case obs.Seen.BodyLen >= 1<<20:
				n = "1MiB+"
			case obs.Seen.BodyLen >= 60<<10:
				n = "60KiB+"
			case obs.Seen.BodyLen > 0:
				n = "bytes"
			}
			cls = fmt.Sprintf("%s/%s/%s/%s-%s/hdrs%d", obs.Seen.Proto, obs.Seen.Method, q, bodyKind, n, len(raw.GetHeaders()))
			if ext != nil && ext.Orig != "" {
				cls = fmt.Sprintf("original-body:%s/%s/%s", ext.Orig, obs.Seen.Method, bodyKind)
			}
			if ext != nil && ext.Invoke != nil {
				cls = fmt.Sprintf("invoke:%s/msgs%d/delay%d/cancel=%s/%s/%s", ext.Invoke.StreamType, ext.Invoke.Messages, ext.Invoke.DelayMs, ext.Invoke.Cancel, obs.Seen.Proto, bodyKind)
			}
			if obs.Seen.Early {
				cls += "/server-answered-before-reading"
			}
		}
		r.Outcome(cls)
		if verbose {
			seen := c17qSeen{}
			if obs.Seen != nil {
				seen = *obs.Seen
				if len(seen.Body) > 256 {
					seen.Body = seen.Body[:256]
				}
			}
			extJSON, _ := json.Marshal(ext)
			fmt.Printf("replay: original-request=%s\n", extJSON)
			fmt.Printf("replay: proto=%s early=%v big=%+v raw=%s\nobserved: panic=%q err=%q status=%d\nseen(first 256 body bytes)=%+v\nverdicts=%v\n", protoName, early, big, c17qShort(raw), obs.Panic, obs.RoundTripErr, obs.Status, seen, verdicts)
		}
		return verdicts
	}

	if data := rep.ReplayInput(); data != nil {
		var rj struct {
			Replay c17qCase `json:"replay"`
		}
		if err := json.Unmarshal(data, &rj); err != nil {
			t.Fatalf("bad replay file: %v", err)
		}
		raw := &conformancev1.RawHTTPRequest{}
		if err := c17lib.FromJSON(rj.Replay.Raw, raw); err != nil {
			t.Fatal(err)
		}
		r.Eval(1)
		r.NonTrivial("")
		r.NonTrivial("")
		r.Sample(rj.Replay)
		for _, v := range evalOne(rj.Replay.Proto, rj.Replay.Early, rj.Replay.Big, rj.Replay.Ext, raw, true) {
			r.Violate(v.key, v.detail, rj.Replay)
		}
		return
	}

	deadline := rep.Deadline()
	var k int64
	hung := false // grid I: a hang was confirmed in this shard; the open-request-side family is not probed further
	c17qEnumerate(rep.Thorough(), func(grid, protoName string, early bool, big *c17qBig, ext *c17qExt, raw *conformancev1.RawHTTPRequest) bool {
		k++
		if !r.Mine(k) {
			return true
		}
		if hung && ext != nil && ext.Invoke != nil && c17qInvokeOpen(ext.Invoke.StreamType) {
			r.NotExhaustive("grid I: after a confirmed hang (" + c17qHeldKey + ") the remaining client / bidi stream cases of this shard were not run: each would cost 2 x " + c17qHangBound.String())
			r.Count("grid-I:skipped-after-confirmed-hang", 1)
			return true
		}
		if !deadline.IsZero() && time.Now().After(deadline) {
			r.NotExhaustive("budget reached in grid " + grid + " before the enumeration was complete")
			return false
		}
		began := time.Now()
		verdicts := evalOne(protoName, early, big, ext, raw, false)
		r.Eval(1)
		r.Count("grid:"+grid, 1)
		r.Count("wall-ms:grid:"+grid, time.Since(began).Milliseconds()) // cost accounting only
		c := c17qCase{Proto: protoName, Early: early, Big: big, Ext: ext, Raw: c17lib.JSON(raw)}
		bigKey, _ := json.Marshal(big)
		extKey, _ := json.Marshal(ext)
		r.NonTrivial(protoName + "|" + strconv.FormatBool(early) + "|" + string(bigKey) + "|" + string(extKey) + "|" + string(c.Raw))
		if k%499 == 1 || (grid == "G" && early && big.Sizes[0] == 4<<20) || (grid == "I" && ext.Invoke.StreamType == "full-bidi" && ext.Invoke.Messages == 3 && ext.Invoke.DelayMs == 0 && protoName == "h2c") {
			r.Sample(c)
		}
		if ext != nil && len(verdicts) > 0 {
			what := "original-body=" + ext.Orig
			if ext.Invoke != nil {
				what = fmt.Sprintf("invoke:%s:msgs=%d:delay=%d:cancel=%s", ext.Invoke.StreamType, ext.Invoke.Messages, ext.Invoke.DelayMs, ext.Invoke.Cancel)
				for _, v := range verdicts {
					if v.key == c17qHeldKey && strings.Contains(v.detail, "did not reach the server within") {
						hung = true
					}
				}
			}
			r.Count("cases-with-verdicts:grid-"+grid+":"+what, 1)
		}
		if len(verdicts) > 0 && (early || big != nil) {
			name := fmt.Sprintf("cases-with-verdicts:grid-%s:%s:early=%v", grid, protoName, early)
			if big != nil {
				total := 0
				for _, n := range big.Sizes {
					total += n
				}
				name += fmt.Sprintf(":about-%dKiB", total>>10)
			}
			r.Count(name, 1)
		}
		for _, v := range verdicts {
			r.Violate(v.key, fmt.Sprintf("proto=%s server-answers-early=%v big-body=%s original-request=%s raw=%s: %s", protoName, early, bigKey, extKey, c17lib.Short(raw), v.detail), c)
		}
		return true
	})
}
