// C19 (b), the LIMIT as an axis. c19_sharp_test.go explores every wire format
// with a handful of small limits; this unit keeps the wire formats few and walks
// the configured limit itself: message_receive_limit is a uint32 and every value
// is a legal limit, so "accepts a message of exactly the limit and rejects one
// byte more" has to hold wherever the limit sits - in particular round the
// powers of two where sizes change representation (varint length prefixes,
// 16/24/32-bit lengths, buffer classes) and at sizes far above what the embedded
// suites use (200 KiB / 1 MiB).
//
//	limits      2^k-1, 2^k, 2^k+1 for k = 10, 16, 20, 24, 25 (32 MiB); thorough: also k = 7, 14, 21, 22, 23, 26 (64 MiB) and 10^6, 10^7, 5*10^7
//	probes      message of limit, limit+1, limit-1 encoded bytes (zero padding)
//	routes      side=server      real reference client -> real reference server (the server has the limit)
//	            side=server-raw  plain net/http client with a hand-built envelope stream -> real reference server
//	            side=client      real reference server -> real reference client (the client has the limit, which is
//	                             <size of the response> - k for a response that carries n bytes of data twice)
//
// Limits up to 2 MiB: all five wires x {identity, gzip} x {unary, client-stream
// (critical message last), idempotent-unary up to 64 KiB [thorough: JSON codec
// up to 64 KiB]}. Limits from 8 MiB: one wire per limit (rotating, so that every
// wire meets some big limit), identity, proto, unary resp. a one-message client
// stream: every such message is copied a dozen times on its way through both
// in-process peers (about 1 GB per 64 MiB case), which is why this unit runs on
// few shards and keeps 64 MiB for the thorough tier.
//
// Oracle: the same truth table as c19-sharp (c19sServerSide / c19sRawSide /
// c19sClientSide): accepted with everything echoed iff size <= limit, otherwise
// resource_exhausted.
package referenceclient

import (
	"encoding/json"
	"fmt"
	"os"
	"testing"
	"time"

	"connectrpc.com/conformance/internal/verif/rep"
)

const c19lBig = 1 << 23 // from here on a case moves hundreds of megabytes

// c19lLimits returns the limits, split into those that every wire is tried with
// and the big ones.
func c19lLimits(thorough bool) (medium, big []int) {
	exps := []int{10, 16, 20, 24, 25}
	if thorough {
		exps = []int{7, 10, 14, 16, 20, 21, 22, 23, 24, 25, 26}
	}
	var all []int
	for _, k := range exps {
		all = append(all, 1<<k-1, 1<<k, 1<<k+1)
	}
	if thorough {
		all = append(all, 1_000_000, 10_000_000, 50_000_000)
	}
	// the limit that the runner really gives the server under test (200 KiB)
	all = append(all, c19gRunnerServerLimit)
	for _, limit := range all {
		if limit >= c19lBig-1 {
			big = append(big, limit)
		} else {
			medium = append(medium, limit)
		}
	}
	return medium, big
}

func c19lEnumerate(thorough bool, visit func(tc c19sCase) bool) {
	type wire struct {
		protocol string
		http     int
	}
	wires := []wire{{"connect", 1}, {"connect", 2}, {"grpc", 2}, {"grpcweb", 1}, {"grpcweb", 2}}
	rawWires := []wire{{"connect", 2}, {"grpcweb", 1}, {"connect", 1}, {"grpcweb", 2}}
	ks := []int{0, 1, -1}
	medium, big := c19lLimits(thorough)

	// 1. big limits first (they dominate the running time: spread evenly over the shards)
	for i, limit := range big {
		w := wires[i%len(wires)]
		for _, k := range ks {
			tc := c19sCase{Side: "server", HTTP: w.http, Protocol: w.protocol, Codec: "proto", Compression: "identity",
				Shape: "unary", Pad: "zeros", Limit: limit, K: k}
			if !visit(tc) {
				return
			}
		}
		rw := rawWires[i%len(rawWires)]
		rawStreams := []string{"0", "+"}
		if thorough {
			rawStreams = []string{"0", "+", "-"}
		}
		for _, stream := range rawStreams {
			tc := c19sCase{Side: "server-raw", HTTP: rw.http, Protocol: rw.protocol, Codec: "proto", Compression: "identity",
				Shape: "client-stream", Pad: "zeros", Limit: limit, Stream: stream, ContentLength: i%2 == 0}
			if !visit(tc) {
				return
			}
		}
		// Connect GET: a message of tens of megabytes of zeros is a URL of some ten
		// kilobytes once compressed; the limit applies to what comes out of it
		getKs := []int{0, 1}
		if thorough {
			getKs = ks
		}
		if !c19gEnumerate(limit, []int{1 + i%2}, []string{"proto"}, []string{"gzip"}, []string{"zeros"}, getKs, visit) {
			return
		}
	}
	// the client's limit: a response of 2n + a few hundred bytes (n bytes of data, echoed once more in the request info)
	bigResponses := []int{1 << 24}
	if thorough {
		bigResponses = []int{1 << 22, 1 << 23, 10_000_000, 1 << 24, 1 << 25}
	}
	for i, n := range bigResponses {
		shapes := []string{"unary"}
		if thorough {
			shapes = []string{"unary", "server-stream"}
		}
		for j, shape := range shapes {
			w := wires[(2*i+j+1)%len(wires)]
			for _, k := range ks {
				tc := c19sCase{Side: "client", HTTP: w.http, Protocol: w.protocol, Codec: "proto", Compression: "identity",
					Shape: shape, Pad: "zeros", Limit: n, K: k}
				if !visit(tc) {
					return
				}
			}
		}
	}

	// 2. limits up to 2 MiB: every wire
	for _, limit := range medium {
		small := limit < 1<<17
		codecs, shapes := []string{"proto"}, []string{"unary", "client-stream"}
		if c19gFitsURL(limit) {
			// the reference client sends IdempotentUnary as GET under Connect: the message is in the URL
			shapes = []string{"unary", "idempotent-unary", "client-stream"}
		}
		if small && thorough {
			codecs = []string{"proto", "json"}
		}
		for _, w := range wires {
			for _, compression := range []string{"identity", "gzip"} {
				for _, codec := range codecs {
					for _, shape := range shapes {
						for _, k := range ks {
							pos := 0
							if c19sIsStream(shape) {
								pos = 1
							}
							tc := c19sCase{Side: "server", HTTP: w.http, Protocol: w.protocol, Codec: codec, Compression: compression,
								Shape: shape, Pad: "zeros", Pos: pos, Limit: limit, K: k}
							if !visit(tc) {
								return
							}
						}
					}
				}
			}
		}
		// hand-built Connect GET, HTTP/1.1 and h2c: uncompressed where the URL stays below 1 MB, gzip everywhere
		if !c19gEnumerate(limit, []int{1, 2}, []string{"proto"}, []string{"identity", "gzip"}, []string{"zeros"}, ks, visit) {
			return
		}
		for _, w := range rawWires {
			for _, stream := range []string{"S0", "S+", "S-"} {
				for _, withLength := range []bool{true, false} {
					tc := c19sCase{Side: "server-raw", HTTP: w.http, Protocol: w.protocol, Codec: "proto", Compression: "identity",
						Shape: "client-stream", Pad: "zeros", Limit: limit, Stream: stream, ContentLength: withLength}
					if !visit(tc) {
						return
					}
				}
			}
		}
	}
	// further limits whose messages still fit into a URL, hand-built Connect GET only
	getExps := []int{18}
	if thorough {
		getExps = []int{17, 18, 19}
	}
	for _, exp := range getExps {
		for _, limit := range []int{1<<exp - 1, 1 << exp, 1<<exp + 1} {
			if !c19gEnumerate(limit, []int{1, 2}, []string{"proto"}, []string{"identity", "gzip"}, []string{"zeros"}, ks, visit) {
				return
			}
		}
	}
	responses := []int{1 << 10, 1 << 16, 1 << 20}
	if thorough {
		responses = []int{1 << 7, 1 << 10, 1 << 14, 1 << 16, 1 << 20, 1 << 21}
	}
	for _, n := range responses {
		for _, w := range wires {
			for _, compression := range []string{"identity", "gzip"} {
				for _, shape := range []string{"unary", "server-stream"} {
					for _, k := range ks {
						tc := c19sCase{Side: "client", HTTP: w.http, Protocol: w.protocol, Codec: "proto", Compression: compression,
							Shape: shape, Pad: "zeros", Limit: n, K: k}
						if !visit(tc) {
							return
						}
					}
				}
			}
		}
	}
}

func TestVerifC19Limits(t *testing.T) {
	r := rep.New("c19-limits")
	defer r.Write()
	r.Rule = "case = (route: real client -> real server with the limit | plain net/http client with a hand-built envelope stream -> real server with the limit | " +
		"real server -> real client with the limit; wire (Connect / gRPC / gRPC-Web over HTTP/1.1 / h2c), compression identity|gzip, codec, shape, LIMIT, k = message size - limit in {0,+1,-1}); " +
		"server limits 2^k-1, 2^k, 2^k+1 for k = 10, 16, 20 (every wire) and k = 24, 25 (one wire per limit, rotating) [thorough: also k = 7, 14, 21, 22, 23, 26 and 10^6, 10^7, 5*10^7]; " +
		"client limits: size of a response carrying n = 2^10, 2^16, 2^20 (every wire) and 2^24 (one wire) [thorough: also 2^7, 2^14, 2^21, 2^22, 2^23, 10^7, 2^25] bytes of data twice, minus k; every tuple is distinct; " +
		"non-trivial = every case (each sits on the boundary: |k| <= 1)"

	env := &c19sEnv{servers: map[string]*c19sServer{}, client: c19sStartClient()}
	defer env.shutdown()

	if data := rep.ReplayInput(); data != nil {
		var rec struct {
			Replay c19sCase `json:"replay"`
		}
		if err := json.Unmarshal(data, &rec); err != nil {
			t.Fatalf("bad replay file: %v", err)
		}
		if verdict, ok := c19sJudge(t, r, env, rec.Replay, true); ok {
			r.Eval(1)
			r.NonTrivial("")
			r.Outcome(verdict.Outcome)
			r.Sample(rec.Replay)
		}
		return
	}

	deadline := rep.Deadline()
	var k int64
	c19lEnumerate(rep.Thorough(), func(tc c19sCase) bool {
		k++
		if !r.Mine(k) {
			return true
		}
		if !deadline.IsZero() && time.Now().After(deadline) {
			r.NotExhaustive(fmt.Sprintf("budget reached after %d cases of the enumeration", k))
			return false
		}
		started := time.Now()
		verdict, ok := c19sJudge(t, r, env, tc, false)
		if os.Getenv("C19_DEBUG_TIMES") != "" && time.Since(started) > 200*time.Millisecond {
			fmt.Printf("C19-TIME %6.2fs %s -> %s\n", time.Since(started).Seconds(), tc, verdict.Outcome)
		}
		if !ok {
			return true
		}
		if verdict.Outcome == "size-unreachable" {
			r.Count("skipped:size-unreachable", 1)
			return true
		}
		r.Eval(1)
		r.NonTrivial("")
		class := "up-to-2MiB"
		if tc.Limit >= 1<<22 {
			class = "from-4MiB"
		}
		if tc.Side == "server-raw" {
			r.Outcome(fmt.Sprintf("%s:%s:stream=%s:%s", tc.Side, class, tc.Stream, verdict.Outcome))
		} else {
			r.Outcome(fmt.Sprintf("%s:%s:k=%+d:%s", tc.Side, class, tc.K, verdict.Outcome))
		}
		r.Count("cases:"+tc.Side, 1)
		r.Count("cases:"+tc.Side+":"+class, 1)
		r.Count(fmt.Sprintf("cases:%s:limit|n=%d", tc.Side, tc.Limit), 1)
		if tc.Compression != "identity" && verdict.ReqEnc {
			r.Count("request-compression-confirmed-by-server-echo", 1)
		}
		if k%97 == 1 {
			r.Sample(tc)
		}
		return true
	})
	if r.Shard == 0 {
		r.Count("enumeration-size", k)
	}
}
