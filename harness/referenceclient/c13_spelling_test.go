package referenceclient

// C13 round 4 — stage "spellings": the Content-Type of a response spelled in
// every legal way, for every kind of response, through the COMPLETE capture
// pipeline (wireCaptureTransport.RoundTrip decides on the header whether to
// capture the body; the tracer decides on it whether to parse envelopes;
// examineWireDetails decides on it which examiner runs). Three decisions on one
// header value: they have to agree for every spelling, not only for the one the
// reference server happens to use.
//
// Spellings (RFC 9110 section 8.3: type and subtype are case-insensitive, parameters
// may follow, optional blanks around ';', parameter values may be quoted):
// parameters charset / boundary / both / an empty one, lower / UPPER / Title /
// mIXED case of the type, case and parameter together, and the protocol's own
// codec suffixes (+proto, +json, +custom, none).
//
// Oracle: how the type is spelled must not CREATE feedback. A response draws
// either exactly the feedback it draws with the canonical spelling or — where the
// code deliberately leaves a response with an unusual spelling alone — none at
// all; so a well-formed response never draws feedback. Responses with HTTP
// trailers are only crossed with the spellings of the gRPC grammar itself
// ("application/grpc" [ "+" codec ]): gRPC defines its content type literally, a
// response typed differently and carrying trailers IS a non-gRPC response with
// trailers, which the examiner reports by design.

import (
	"fmt"
	"net/http"
	"os"
	"strings"

	"connectrpc.com/conformance/internal"
	"connectrpc.com/conformance/internal/app/referenceserver"
	"connectrpc.com/conformance/internal/verif/rep"
)

type c13SpellCase struct {
	Kind     string `json:"kind"`     // name of a response (c13HistSecondDefs + c13SpellExtraDefs)
	Spelling string `json:"spelling"` // name into c13Spellings
	Status   int    `json:"status"`   // 0 = as the kind defines it
	Chunk    int    `json:"chunk"`
}

func (c c13SpellCase) String() string {
	return fmt.Sprintf("%s spelling=%s status=%d chunk=%d", c.Kind, c.Spelling, c.Status, c.Chunk)
}

// ---------------------------------------------------------------- spellings

type c13SpellingDef struct {
	Name string
	GRPC bool // within the gRPC grammar (only the codec suffix differs)
	Do   func(ct string) string
}

func c13MixCase(s string) string {
	b := []byte(s)
	up := false
	for i, ch := range b {
		if ch >= 'a' && ch <= 'z' {
			if up {
				b[i] = ch - 'a' + 'A'
			}
			up = !up
		}
	}
	return string(b)
}

func c13TitleCase(s string) string {
	b := []byte(s)
	start := true
	for i, ch := range b {
		if ch >= 'a' && ch <= 'z' {
			if start {
				b[i] = ch - 'a' + 'A'
			}
			start = false
		} else {
			start = true
		}
	}
	return string(b)
}

// c13WithCodec replaces the "+codec" suffix of a protocol content type ("" = none).
func c13WithCodec(ct, codec string) string {
	base, _, _ := strings.Cut(ct, "+")
	switch {
	case !strings.HasPrefix(base, "application/connect") && !strings.HasPrefix(base, "application/grpc"):
		return ct // not a protocol type with codec suffix
	case codec == "" && strings.HasPrefix(base, "application/connect"):
		return ct // Connect streaming always names the codec
	case codec == "":
		return base
	}
	return base + "+" + codec
}

var c13Spellings = []c13SpellingDef{
	{"as-is", true, func(ct string) string { return ct }},
	{"charset", false, func(ct string) string { return ct + "; charset=utf-8" }},
	{"charset-no-blank", false, func(ct string) string { return ct + ";charset=utf-8" }},
	{"charset-upper", false, func(ct string) string { return ct + "; charset=UTF-8" }},
	{"charset-quoted", false, func(ct string) string { return ct + `; charset="utf-8"` }},
	{"charset-blank-before-semicolon", false, func(ct string) string { return ct + " ; charset=utf-8" }},
	{"charset-param-name-upper", false, func(ct string) string { return ct + "; Charset=utf-8" }},
	{"boundary", false, func(ct string) string { return ct + "; boundary=abc" }},
	{"two-params", false, func(ct string) string { return ct + "; charset=utf-8; boundary=\"a b\"" }},
	{"empty-param", false, func(ct string) string { return ct + ";" }},
	{"upper", false, strings.ToUpper},
	{"title", false, c13TitleCase},
	{"mixed", false, c13MixCase},
	{"upper-codec-only", false, func(ct string) string {
		base, codec, ok := strings.Cut(ct, "+")
		if !ok {
			base, sub, _ := strings.Cut(ct, "/")
			return base + "/" + strings.ToUpper(sub)
		}
		return base + "+" + strings.ToUpper(codec)
	}},
	{"upper-with-charset", false, func(ct string) string { return strings.ToUpper(ct) + "; charset=utf-8" }},
	{"mixed-with-charset-quoted", false, func(ct string) string { return c13MixCase(ct) + `;CHARSET="UTF-8"` }},
	{"codec-json", true, func(ct string) string { return c13WithCodec(ct, "json") }},
	{"codec-proto", true, func(ct string) string { return c13WithCodec(ct, "proto") }},
	{"codec-custom", true, func(ct string) string { return c13WithCodec(ct, "x-custom.v1") }},
	{"codec-none", true, func(ct string) string { return c13WithCodec(ct, "") }},
	{"codec-json-with-charset", false, func(ct string) string { return c13WithCodec(ct, "json") + "; charset=utf-8" }},
}

func c13SpellingOf(name string) c13SpellingDef {
	for _, s := range c13Spellings {
		if s.Name == name {
			return s
		}
	}
	panic("unknown spelling " + name)
}

// ---------------------------------------------------------------- kinds of response

// further kinds, besides the judged responses of the histories stage
var c13SpellExtraDefs = []c13HistSecondDef{
	{"connect-unary:error-ref", "connect-unary-error", "silent", func() *c13Script {
		return &c13Script{Status: 404, Header: http.Header{"Content-Type": {"application/json"}},
			Body: []byte(c13ErrTree(c13HistErr2, true, false).text(c13JStyle{})), End: "eof"}
	}},
	{"connect-unary:error-ref-gzip", "connect-unary-error", "silent", func() *c13Script {
		return &c13Script{Status: 500, Header: http.Header{"Content-Type": {"application/json"}, "Content-Encoding": {"gzip"}},
			Body: c13Gzip([]byte(c13ErrTree(c13HistErr, true, false).text(c13JStyle{}))), End: "eof"}
	}},
	{"connect-unary:code-only", "connect-unary-error", "silent", func() *c13Script {
		return &c13Script{Status: 503, Header: http.Header{"Content-Type": {"application/json"}}, Body: []byte(`{"code":"unavailable"}`), End: "eof"}
	}},
	{"connect-unary:unknown-code", "connect-unary-error", "feedback", func() *c13Script {
		return &c13Script{Status: 500, Header: http.Header{"Content-Type": {"application/json"}}, Body: []byte(`{"code":"not_a_code","message":"m"}`), End: "eof"}
	}},
	{"connect-unary:cut-short", "connect-unary-error", "feedback", func() *c13Script {
		return &c13Script{Status: 500, Header: http.Header{"Content-Type": {"application/json"}}, Body: []byte(`{"code":"internal","mess`), End: "eof"}
	}},
	{"connect-unary:unknown-code-gzip", "connect-unary-error", "feedback", func() *c13Script {
		return &c13Script{Status: 500, Header: http.Header{"Content-Type": {"application/json"}, "Content-Encoding": {"gzip"}},
			Body: c13Gzip([]byte(`{"code":"not_a_code","message":"m"}`)), End: "eof"}
	}},
	{"connect-unary:success-json-codec", "connect-unary-error", "silent", func() *c13Script {
		// a successful unary response of the JSON codec: same media type, status 200, not an error at all
		return &c13Script{Status: 200, Header: http.Header{"Content-Type": {"application/json"}}, Body: []byte(`{"payload":{"data":"AA"}}`), End: "eof"}
	}},
	{"other:html-error-page", "connect-unary-error", "silent", func() *c13Script {
		// what a proxy in front of the server answers: nothing the examiner has rules for
		return &c13Script{Status: 502, Header: http.Header{"Content-Type": {"text/html"}}, Body: []byte("<html><body>Bad Gateway</body></html>"), End: "eof"}
	}},
	{"connect:error-ref-gzip", "connect-end-stream", "silent", func() *c13Script {
		return c13StreamScript("connect", true, c13Envelope(3, c13Gzip([]byte(c13EndStreamTree(&c13HistErr, true, c13Meta(c13HistErr.Meta), false, true).text(c13JStyle{})))))
	}},
	{"grpcweb:error-ref-gzip", "grpc-web-trailers", "silent", func() *c13Script {
		return c13StreamScript("grpcweb", true, c13Envelope(0x81, c13Gzip([]byte(c13Block(c13RefTrailerPairs(c13HistErr, false, false), ": ")))))
	}},
	{"grpcweb:upper-case-key", "grpc-web-trailers", "feedback", func() *c13Script {
		return c13StreamScript("grpcweb", false, c13Envelope(0x80, []byte("grpc-status: 0\r\nX-Upper: v\r\n")))
	}},
	{"grpc:trailers-only-repo", "grpc-trailers", "silent", func() *c13Script {
		h := http.Header{}
		internal.AddHeaders(referenceserver.VerifC13GRPCStatusTrailers(c13ConnectError(c13HistErr)), h)
		h.Set("Content-Type", "application/grpc")
		return &c13Script{HTTP2: true, Status: 200, Header: h, End: "eof"}
	}},
	{"grpc:trailers-only-no-status", "grpc-trailers", "feedback", func() *c13Script {
		return &c13Script{HTTP2: true, Status: 200, Header: http.Header{"Content-Type": {"application/grpc+proto"}, "Grpc-Message": {"m"}}, End: "eof"}
	}},
	{"grpc:ok-trailers", "grpc-trailers", "silent", func() *c13Script {
		return &c13Script{HTTP2: true, Status: 200, Header: http.Header{"Content-Type": {"application/grpc"}},
			Body: c13Envelope(0, []byte("d")), Trailer: http.Header{"Grpc-Status": {"0"}, "X-Trailer": {"t"}}, End: "eof"}
	}},
	{"grpc:no-status-trailers", "grpc-trailers", "feedback", func() *c13Script {
		return &c13Script{HTTP2: true, Status: 200, Header: http.Header{"Content-Type": {"application/grpc+proto"}},
			Body: c13Envelope(0, []byte("d")), Trailer: http.Header{"Grpc-Message": {"m"}}, End: "eof"}
	}},
}

func c13SpellKindOf(name string) c13HistSecondDef {
	for _, d := range c13SpellExtraDefs {
		if d.Name == name {
			return d
		}
	}
	return c13HistSecondDefOf(name)
}

func c13SpellKinds() []c13HistSecondDef {
	return append(append([]c13HistSecondDef(nil), c13HistSecondDefs...), c13SpellExtraDefs...)
}

var c13SpellScriptCache = map[string]*c13Script{}

func c13SpellBaseScript(kind string) *c13Script {
	if sc, ok := c13SpellScriptCache[kind]; ok {
		return sc
	}
	sc := c13SpellKindOf(kind).Make()
	c13SpellScriptCache[kind] = sc
	return sc
}

// script: the kind's response with its Content-Type respelled (and, for the unary error kinds, another status).
func (c c13SpellCase) script() *c13Script {
	sc := *c13SpellBaseScript(c.Kind)
	sc.Header = sc.Header.Clone()
	sc.Header.Set("Content-Type", c13SpellingOf(c.Spelling).Do(sc.Header.Get("Content-Type")))
	if c.Status != 0 {
		sc.Status = c.Status
	}
	sc.Chunk = c.Chunk
	return &sc
}

// non-200 statuses a Connect unary error may arrive with (the protocol's code-to-status table and what proxies add)
var c13SpellStatuses = []int{400, 401, 403, 404, 408, 409, 412, 413, 415, 429, 431, 499, 500, 501, 502, 503, 504}

func c13SpellCases(thorough bool) []c13SpellCase {
	var out []c13SpellCase
	chunks := []int{0, 1}
	for _, k := range c13SpellKinds() {
		base := c13SpellBaseScript(k.Name)
		seen := map[string]bool{}
		for _, sp := range c13Spellings {
			if len(base.Trailer) > 0 && !sp.GRPC {
				continue // see the head of the file
			}
			ct := sp.Do(base.Header.Get("Content-Type"))
			if seen[ct] {
				continue // this spelling changes nothing for this kind
			}
			seen[ct] = true
			for _, ch := range chunks {
				out = append(out, c13SpellCase{k.Name, sp.Name, 0, ch})
			}
			if base.Header.Get("Content-Type") == "application/json" && base.Status != 200 {
				for _, st := range c13SpellStatuses {
					if st != base.Status && (thorough || sp.Name == "as-is" || sp.Name == "charset" || sp.Name == "upper" || st%100 == 0) {
						out = append(out, c13SpellCase{k.Name, sp.Name, st, 0})
					}
				}
			}
		}
	}
	return out
}

// ---------------------------------------------------------------- oracle

type c13SpellRunner struct {
	pl        *c13Pipeline
	canonical map[c13SpellCase][]string
}

func c13NewSpellRunner() *c13SpellRunner {
	return &c13SpellRunner{pl: c13NewPipeline(), canonical: map[c13SpellCase][]string{}}
}

// canonicalOf: the feedback of the kind as it is defined (same status, same delivery), plain verdict checked.
func (h *c13SpellRunner) canonicalOf(c c13SpellCase) (msgs []string, verdicts []c13Verdict) {
	canon := c13SpellCase{c.Kind, "as-is", c.Status, c.Chunk}
	if m, ok := h.canonical[canon]; ok {
		return m, nil
	}
	def := c13SpellKindOf(c.Kind)
	msgs, pk := h.pl.exchange(canon.script())
	h.canonical[canon] = msgs
	switch {
	case pk != "":
		verdicts = append(verdicts, c13Verdict{"panic:" + def.Format + ":spellings", "capture pipeline panicked on " + canon.String() + "\n" + pk})
	case def.Expect == "silent" && len(msgs) > 0:
		verdicts = append(verdicts, c13Verdict{"false-feedback:" + def.Format + ":scripted-pipeline:" + c13Slug(c13Class(msgs[0])),
			fmt.Sprintf("well-formed response %s, examined through the capturing transport, drew feedback %q", canon, msgs)})
	case def.Expect == "feedback" && len(msgs) == 0:
		verdicts = append(verdicts, c13Verdict{"malformation-not-flagged:scripted-pipeline:" + c13Slug(c.Kind),
			fmt.Sprintf("malformed response %s, examined through the capturing transport, drew no feedback", canon)})
	}
	return msgs, verdicts
}

func (h *c13SpellRunner) judge(c c13SpellCase) (verdicts []c13Verdict, outcome string) {
	want, verdicts := h.canonicalOf(c)
	def := c13SpellKindOf(c.Kind)
	sc := c.script()
	msgs, pk := h.pl.exchange(sc)
	switch {
	case pk != "":
		return append(verdicts, c13Verdict{"panic:" + def.Format + ":spellings:" + c.Spelling, "capture pipeline panicked on " + c.String() + "\n" + pk}), "panic"
	case len(msgs) == 0 && len(want) == 0:
		return verdicts, "silent"
	case len(msgs) == 0:
		return verdicts, "not-examined"
	case c13SameMsgs(msgs, want):
		return verdicts, "flagged-as-canonical"
	}
	what, key := "well-formed", "false-feedback:"+def.Format+":content-type-spelling:"+c13Slug(c13Class(msgs[0]))
	if def.Expect == "feedback" {
		what, key = "malformed", "spelling-dependent-feedback:"+def.Format+":"+c13Slug(c13Class(msgs[0]))
	}
	verdicts = append(verdicts, c13Verdict{key,
		fmt.Sprintf("the %s response %s (status %d), sent with Content-Type %q (spelling %q of %q), drew feedback %s; with the canonical spelling it draws %s. "+
			"Headers: %v. Read through the capturing transport and examined by examineWireDetails.",
			what, c.Kind, sc.Status, sc.Header.Get("Content-Type"), c.Spelling, c13SpellBaseScript(c.Kind).Header.Get("Content-Type"),
			c13Trunc(fmt.Sprintf("%q", msgs), 700), c13Trunc(fmt.Sprintf("%q", want), 400), sc.Header)})
	return verdicts, "differs"
}

func c13SpellingsPhase(x *c13Run_, thorough bool) {
	r := x.r
	if x.stopped {
		return
	}
	h := c13NewSpellRunner()
	cases := c13SpellCases(thorough)
	r.Extra["spellings"] = map[string]any{"cases": len(cases), "kinds": len(c13SpellKinds()), "spellings": len(c13Spellings)}
	for _, c := range cases {
		if !x.mine() {
			if x.stopped {
				return
			}
			continue
		}
		verdicts, outcome := h.judge(c)
		r.Eval(1)
		r.NonTrivial("")
		r.Count("cases:spellings", 1)
		r.Outcome("spellings:" + c13SpellKindOf(c.Kind).Format + ":" + c13SpellKindOf(c.Kind).Expect + ":" + outcome)
		if x.k%101 == 1 {
			r.Sample(map[string]any{"phase": "spellings", "case": c.String(), "content_type": c.script().Header.Get("Content-Type"), "observed": outcome})
		}
		for _, v := range verdicts {
			c := c
			r.Violate(v.Key, v.Detail, c13Replay{Spell: &c})
		}
	}
}

func c13ReplaySpelling(r *rep.Report, c c13SpellCase) {
	h := c13NewSpellRunner()
	verdicts, outcome := h.judge(c)
	fmt.Fprintf(os.Stderr, "replay spellings case %s (Content-Type %q) -> %s\nfeedback with the canonical spelling: %q\n",
		c, c.script().Header.Get("Content-Type"), outcome, h.canonical[c13SpellCase{c.Kind, "as-is", c.Status, c.Chunk}])
	for _, v := range verdicts {
		fmt.Fprintf(os.Stderr, "  %s\n  %s\n", v.Key, strings.ReplaceAll(v.Detail, "\n", "\n  "))
		r.Violate(v.Key, v.Detail, c13Replay{Spell: &c})
	}
	r.Sample(c.String())
}
