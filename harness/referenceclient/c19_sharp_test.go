// C19 (b): sharpness of the receive limits of the real reference peers.
//
// Property text: "the reference server accepts a message of exactly the limit
// and rejects one byte more with resource-exhausted, measured on the
// uncompressed size, and the reference client does the same for responses."
//
// Both peers are started from their exported entry points, in-process, and
// talk over real loopback TCP (HTTP/1.1 and h2c):
//
//	referenceserver.RunInReferenceMode  <- ServerCompatRequest on "stdin"
//	referenceclient.RunInReferenceMode  <- ClientCompatRequest stream on "stdin"
//
// side=server: the server has message_receive_limit = L; the client sends a
// message whose encoded (uncompressed) size is L-1, L or L+1.
// side=client: the request is fixed; it is run once without client limit to
// learn the encoded size S of the largest response, then with a client
// message_receive_limit of S+1, S and S-1 (message = limit-1, limit, limit+1).
package referenceclient

import (
	"bytes"
	"context"
	"crypto/tls"
	"encoding/binary"
	"encoding/json"
	"errors"
	"fmt"
	"hash/fnv"
	"io"
	"net"
	"net/http"
	"os"
	"regexp"
	"runtime"
	"strconv"
	"strings"
	"sync"
	"testing"
	"time"

	"connectrpc.com/conformance/internal"
	"connectrpc.com/conformance/internal/app/referenceserver"
	conformancev1 "connectrpc.com/conformance/internal/gen/proto/go/connectrpc/conformance/v1"
	"connectrpc.com/conformance/internal/verif/rep"
	"golang.org/x/net/http2"
	"google.golang.org/protobuf/proto"
	"google.golang.org/protobuf/types/known/anypb"
)

type c19sCase struct {
	Side        string `json:"side"`        // "server" | "client"
	HTTP        int    `json:"http"`        // 1 | 2 (h2c)
	Protocol    string `json:"protocol"`    // connect | grpc | grpcweb
	Codec       string `json:"codec"`       // proto | json
	Compression string `json:"compression"` // identity gzip br zstd deflate snappy
	Shape       string `json:"shape"`       // unary idempotent-unary client-stream server-stream bidi-half bidi-full
	Pad         string `json:"pad"`         // zeros (compressible) | noise (incompressible)
	Pos         int    `json:"pos"`         // side=server, streams: index of the critically sized request (0|1)
	Limit       int    `json:"limit"`       // side=server: the server's limit; side=client: length of the response data
	K           int    `json:"k"`           // encoded message size minus limit: -1, 0, +1
	// side=server-raw: a request stream of several messages sent by a plain
	// net/http client. Stream has one letter per message: S a few bytes, - limit-1,
	// 0 exactly the limit, + limit+1 (only as the last message).
	Stream        string `json:"stream,omitempty"`
	ContentLength bool   `json:"content_length,omitempty"` // the request declares its total length (otherwise chunked / unknown length)
}

func (c c19sCase) String() string {
	if c.Side == "server-raw" {
		return fmt.Sprintf("side=%s http=%d %s/%s/%s %s stream=[%s] content-length=%v limit=%d",
			c.Side, c.HTTP, c.Protocol, c.Codec, c.Compression, c.Shape, c.Stream, c.ContentLength, c.Limit)
	}
	return fmt.Sprintf("side=%s http=%d %s/%s/%s %s pad=%s pos=%d limit|n=%d k=%+d",
		c.Side, c.HTTP, c.Protocol, c.Codec, c.Compression, c.Shape, c.Pad, c.Pos, c.Limit, c.K)
}

// ---------------------------------------------------------------------------
// in-process peers

type c19sBuf struct {
	mu  sync.Mutex
	buf bytes.Buffer
}

func (b *c19sBuf) Write(p []byte) (int, error) {
	b.mu.Lock()
	defer b.mu.Unlock()
	if b.buf.Len() < 1<<20 {
		b.buf.Write(p)
	}
	return len(p), nil
}
func (b *c19sBuf) Close() error { return nil }
func (b *c19sBuf) String() string {
	b.mu.Lock()
	defer b.mu.Unlock()
	return b.buf.String()
}

type c19sServer struct {
	host   string
	port   uint32
	cancel context.CancelFunc
	done   chan error
	stderr *c19sBuf
}

func c19sStartServer(httpVersion conformancev1.HTTPVersion, limit uint32) (*c19sServer, error) {
	ctx, cancel := context.WithCancel(context.Background())
	inR, inW := io.Pipe()
	outR, outW := io.Pipe()
	srv := &c19sServer{cancel: cancel, done: make(chan error, 1), stderr: &c19sBuf{}}
	go func() {
		err := referenceserver.RunInReferenceMode(ctx, []string{"referenceserver", "-bind", "127.0.0.1", "-port", "0"},
			inR, outW, srv.stderr, nil)
		_ = outW.CloseWithError(fmt.Errorf("server exited: %v", err)) //nolint:errorlint
		srv.done <- err
	}()
	go func() {
		_ = internal.WriteDelimitedMessage(inW, &conformancev1.ServerCompatRequest{
			Protocol:            conformancev1.Protocol_PROTOCOL_CONNECT, // informational; the server speaks all three
			HttpVersion:         httpVersion,
			MessageReceiveLimit: limit,
		})
	}()
	resp := &conformancev1.ServerCompatResponse{}
	if err := internal.ReadDelimitedMessage(outR, resp, "reference server", 60*time.Second, 1<<20); err != nil {
		cancel()
		return nil, err
	}
	srv.host, srv.port = resp.Host, resp.Port
	return srv, nil
}

type c19sClient struct {
	in        *io.PipeWriter
	responses chan *conformancev1.ClientCompatResponse
	readErr   chan error
	done      chan error
	stderr    *c19sBuf
	seq       int
	// goroutines of RPCs that were found deadlocked earlier (they stay around
	// for ever: not even cancelling the client's context frees them)
	stale     map[string]bool
	deadlocks int
}

func c19sStartClient() *c19sClient {
	inR, inW := io.Pipe()
	outR, outW := io.Pipe()
	cli := &c19sClient{
		in: inW, responses: make(chan *conformancev1.ClientCompatResponse, 16), readErr: make(chan error, 1),
		done: make(chan error, 1), stderr: &c19sBuf{}, stale: map[string]bool{},
	}
	go func() {
		// -p: deadlocked RPCs keep their slot of the client's semaphore for ever
		err := RunInReferenceMode(context.Background(), []string{"referenceclient", "-p", "4096"}, inR, outW, cli.stderr, nil)
		_ = outW.CloseWithError(fmt.Errorf("client exited: %v", err)) //nolint:errorlint
		cli.done <- err
	}()
	go func() {
		for {
			resp := &conformancev1.ClientCompatResponse{}
			// (this timeout is never meant to fire; call() has its own guard)
			if err := internal.ReadDelimitedMessage(outR, resp, "reference client", 24*time.Hour, 256<<20); err != nil {
				cli.readErr <- err
				return
			}
			cli.responses <- resp
		}
	}()
	return cli
}

// c19sDeadlock is returned by call when the RPC can never complete: the
// client's RPC goroutine waits for the server to end the response while the
// server's handler waits for the next request message of the same stream.
type c19sDeadlock struct{ what string }

func (d *c19sDeadlock) Error() string { return d.what }

var (
	c19sClientFrame = regexp.MustCompile(`referenceclient\.\(\*invoker\)\.(\w+)\(`)           //nolint:gochecknoglobals
	c19sServerFrame = regexp.MustCompile(`referenceserver\.\(\*conformanceServer\)\.(\w+)\(`) //nolint:gochecknoglobals
	c19sGoroutineID = regexp.MustCompile(`^goroutine (\d+) \[`)                               //nolint:gochecknoglobals
)

// deadlockSignature inspects all goroutines of the process (one RPC is in
// flight at a time) for a wait-for cycle between the two peers. This is a
// structural test, not a timing one: the client's RPC goroutine sits inside
// Receive draining the response body (so it can neither send nor close its
// request side) and the server's handler sits inside Receive of the same RPC
// waiting for the next request (so it will not end the response). Neither can
// ever make progress, however long one waits.
func (c *c19sClient) deadlockSignature() string {
	buf := make([]byte, 64<<20)
	buf = buf[:runtime.Stack(buf, true)]
	var clientSide, serverSide, clientID, serverID string
	for _, block := range strings.Split(string(buf), "\n\n") {
		idMatch := c19sGoroutineID.FindStringSubmatch(block)
		if idMatch == nil || c.stale[idMatch[1]] {
			continue
		}
		if m := c19sClientFrame.FindStringSubmatch(block); m != nil &&
			strings.Contains(block, "connect.discard(") && strings.Contains(block, ").Receive(") {
			clientSide = "client RPC goroutine: connect.discard <- Receive <- referenceclient.(*invoker)." + m[1]
			clientID = idMatch[1]
		}
		if m := c19sServerFrame.FindStringSubmatch(block); m != nil &&
			strings.Contains(block, "envelopeReader).Read(") && strings.Contains(block, ").Receive(") {
			serverSide = "server handler goroutine: envelopeReader.Read <- Receive <- referenceserver.(*conformanceServer)." + m[1]
			serverID = idMatch[1]
		}
	}
	if clientSide != "" && serverSide != "" {
		c.stale[clientID], c.stale[serverID] = true, true
		return clientSide + "; " + serverSide
	}
	return ""
}

// call performs one RPC through the real client: request in, response out.
func (c *c19sClient) call(req *conformancev1.ClientCompatRequest) (*conformancev1.ClientCompatResponse, error) {
	c.seq++
	// The name travels in a request header that the server echoes in its
	// response. It is a function of the case only (fixed width), so that every
	// run of a case puts exactly the same bytes on the wire: response sizes -
	// uncompressed and compressed - are then reproducible.
	req.RequestHeaders = append(req.RequestHeaders,
		&conformancev1.Header{Name: "x-test-case-name", Value: []string{req.TestName}})
	if err := internal.WriteDelimitedMessage(c.in, req); err != nil {
		return nil, fmt.Errorf("writing request to client: %w", err)
	}
	// the hard timeout only guards the harness against an unexplained hang
	// (harness error); it decides nothing about the property
	hard := time.After(c19sCallTimeout())
	first := time.After(300 * time.Millisecond)
	var ticks <-chan time.Time
	for {
		select {
		case resp := <-c.responses:
			if resp.TestName != req.TestName {
				return nil, fmt.Errorf("client answered %q, expected %q", resp.TestName, req.TestName)
			}
			return resp, nil
		case err := <-c.readErr:
			return nil, err
		case <-hard:
			if os.Getenv("C19_DEBUG_DUMP") != "" {
				buf := make([]byte, 1<<22)
				buf = buf[:runtime.Stack(buf, true)]
				fmt.Printf("==== goroutines at timeout ====\n%s\n", buf)
			}
			return nil, errors.New("timed out waiting for result from reference client")
		case <-first:
			ticker := time.NewTicker(200 * time.Millisecond)
			defer ticker.Stop()
			ticks = ticker.C
		case <-ticks:
			if sig := c.deadlockSignature(); sig != "" {
				c.deadlocks++
				return nil, &c19sDeadlock{what: sig}
			}
		}
	}
}

func c19sCallTimeout() time.Duration {
	if v := os.Getenv("C19_CALL_TIMEOUT_S"); v != "" {
		if n, err := strconv.Atoi(v); err == nil {
			return time.Duration(n) * time.Second
		}
	}
	return 120 * time.Second
}

type c19sEnv struct {
	mu      sync.Mutex
	servers map[string]*c19sServer
	client  *c19sClient
	plain   map[int]*http.Client // side=server-raw: plain HTTP clients by HTTP version
}

// httpClient returns a plain net/http client: HTTP/1.1, or HTTP/2 over cleartext (prior knowledge).
func (e *c19sEnv) httpClient(version int) *http.Client {
	e.mu.Lock()
	defer e.mu.Unlock()
	if e.plain == nil {
		e.plain = map[int]*http.Client{}
	}
	if c, ok := e.plain[version]; ok {
		return c
	}
	var c *http.Client
	if version == 2 {
		c = &http.Client{Transport: &http2.Transport{
			AllowHTTP: true,
			DialTLSContext: func(ctx context.Context, network, addr string, _ *tls.Config) (net.Conn, error) {
				return (&net.Dialer{}).DialContext(ctx, network, addr)
			},
		}}
	} else {
		c = &http.Client{Transport: &http.Transport{DisableCompression: true}}
	}
	e.plain[version] = c
	return c
}

func (e *c19sEnv) server(httpVersion int, limit int) (*c19sServer, error) {
	e.mu.Lock()
	defer e.mu.Unlock()
	key := fmt.Sprintf("%d/%d", httpVersion, limit)
	if srv, ok := e.servers[key]; ok {
		return srv, nil
	}
	version := conformancev1.HTTPVersion_HTTP_VERSION_1
	if httpVersion == 2 {
		version = conformancev1.HTTPVersion_HTTP_VERSION_2
	}
	srv, err := c19sStartServer(version, uint32(limit))
	if err != nil {
		return nil, err
	}
	e.servers[key] = srv
	return srv, nil
}

func (e *c19sEnv) shutdown() {
	for _, srv := range e.servers {
		srv.cancel()
	}
	if e.client != nil && e.client.deadlocks > 0 {
		return // deadlocked RPCs never end; the process exits instead
	}
	if e.client != nil {
		_ = e.client.in.Close()
		select {
		case <-e.client.done:
		case <-time.After(10 * time.Second):
		}
	}
	for _, srv := range e.servers {
		select {
		case <-srv.done:
		case <-time.After(10 * time.Second):
		}
	}
}

// ---------------------------------------------------------------------------
// messages of an exact encoded size

// c19sEncodedSize is the number of bytes the peers' codec produces for msg:
// proto.Size for the binary codec, the length of the JSON text otherwise.
// codec "json-stable" is what connect-go sends for a Connect GET request (the
// codec's MarshalStable, i.e. compacted JSON, so that URLs are cacheable).
func c19sEncodedSize(codec string, msg proto.Message) int {
	if codec == "json-stable" {
		data, err := internal.StrictJSONCodec{}.MarshalStable(msg)
		if err != nil {
			panic(err)
		}
		return len(data)
	}
	if codec == "json" {
		data, err := internal.StrictJSONCodec{}.Marshal(msg)
		if err != nil {
			panic(err)
		}
		return len(data)
	}
	return proto.Size(msg)
}

var c19sNoise = func() []byte { //nolint:gochecknoglobals
	// fixed xorshift stream: content that no codec can shrink
	out := make([]byte, 1<<19)
	x := uint32(0x9E3779B9)
	for i := range out {
		x ^= x << 13
		x ^= x >> 17
		x ^= x << 5
		out[i] = byte(x >> 11)
	}
	return out
}()

var (
	c19sZeroMu sync.Mutex //nolint:gochecknoglobals
	c19sZeros  []byte     //nolint:gochecknoglobals
)

// c19sPadding returns n bytes of padding. Nothing ever writes to them: zero
// padding is a slice of one shared buffer (messages of tens of megabytes are
// sized by bisection; allocating every candidate would cost gigabytes).
func c19sPadding(style string, n int) []byte {
	if n < 0 {
		n = 0
	}
	if style == "noise" {
		if n > len(c19sNoise) {
			panic("c19s harness: incompressible padding is limited to 512 KiB")
		}
		return c19sNoise[:n]
	}
	c19sZeroMu.Lock()
	defer c19sZeroMu.Unlock()
	if len(c19sZeros) < n {
		c19sZeros = make([]byte, max(n, 2*len(c19sZeros), 1<<16))
	}
	return c19sZeros[:n:n]
}

func c19sUnaryDef(data []byte, hdrPad string) *conformancev1.UnaryResponseDefinition {
	def := &conformancev1.UnaryResponseDefinition{
		Response: &conformancev1.UnaryResponseDefinition_ResponseData{ResponseData: data},
	}
	if hdrPad != "" {
		def.ResponseHeaders = []*conformancev1.Header{{Name: "x-c19-pad", Value: []string{hdrPad}}}
	}
	return def
}

func c19sStreamDef(data [][]byte, hdrPad string) *conformancev1.StreamResponseDefinition {
	def := &conformancev1.StreamResponseDefinition{ResponseData: data}
	if hdrPad != "" {
		def.ResponseHeaders = []*conformancev1.Header{{Name: "x-c19-pad", Value: []string{hdrPad}}}
	}
	return def
}

// c19sRequest builds one request message of the given shape. first tells
// whether it is the first message of the stream (which carries the response
// definition); respData is what the server is asked to send back.
func c19sRequest(shape string, first bool, respData [][]byte, reqData []byte, hdrPad string) proto.Message {
	var unaryDef *conformancev1.UnaryResponseDefinition
	var streamDef *conformancev1.StreamResponseDefinition
	if first {
		var one []byte
		if len(respData) > 0 {
			one = respData[0]
		}
		unaryDef = c19sUnaryDef(one, hdrPad)
		streamDef = c19sStreamDef(respData, hdrPad)
	} else if hdrPad != "" {
		// later messages only pad through the definition's headers, which the
		// server ignores after the first message
		unaryDef = &conformancev1.UnaryResponseDefinition{ResponseHeaders: []*conformancev1.Header{{Name: "x-c19-pad", Value: []string{hdrPad}}}}
		streamDef = &conformancev1.StreamResponseDefinition{ResponseHeaders: []*conformancev1.Header{{Name: "x-c19-pad", Value: []string{hdrPad}}}}
	}
	switch shape {
	case "unary":
		return &conformancev1.UnaryRequest{ResponseDefinition: unaryDef, RequestData: reqData}
	case "idempotent-unary":
		return &conformancev1.IdempotentUnaryRequest{ResponseDefinition: unaryDef, RequestData: reqData}
	case "client-stream":
		return &conformancev1.ClientStreamRequest{ResponseDefinition: unaryDef, RequestData: reqData}
	case "server-stream":
		return &conformancev1.ServerStreamRequest{ResponseDefinition: streamDef, RequestData: reqData}
	case "bidi-half":
		return &conformancev1.BidiStreamRequest{ResponseDefinition: streamDef, RequestData: reqData}
	case "bidi-full":
		return &conformancev1.BidiStreamRequest{ResponseDefinition: streamDef, RequestData: reqData, FullDuplex: true}
	}
	panic("c19s: unknown shape " + shape)
}

// c19sSized returns a request of exactly `target` encoded bytes under codec, or nil.
func c19sSized(codec, shape string, first bool, respData [][]byte, style string, target int) proto.Message {
	for extra := 0; extra <= 12; extra++ {
		hdrPad := strings.Repeat("p", extra)
		size := func(n int) int {
			return c19sEncodedSize(codec, c19sRequest(shape, first, respData, c19sPadding(style, n), hdrPad))
		}
		if size(0) > target {
			return nil
		}
		// largest n with size(n) <= target (size is monotone in n)
		lo, hi := 0, target
		for lo < hi {
			mid := (lo + hi + 1) / 2
			if size(mid) <= target {
				lo = mid
			} else {
				hi = mid - 1
			}
		}
		if size(lo) == target {
			return c19sRequest(shape, first, respData, c19sPadding(style, lo), hdrPad)
		}
	}
	return nil
}

func c19sAnys(msgs ...proto.Message) []*anypb.Any {
	out := make([]*anypb.Any, len(msgs))
	for i, msg := range msgs {
		a, err := anypb.New(msg)
		if err != nil {
			panic(err)
		}
		out[i] = a
	}
	return out
}

// ---------------------------------------------------------------------------
// requests to the client

var c19sCompressions = map[string]conformancev1.Compression{ //nolint:gochecknoglobals
	"identity": conformancev1.Compression_COMPRESSION_IDENTITY,
	"gzip":     conformancev1.Compression_COMPRESSION_GZIP,
	"br":       conformancev1.Compression_COMPRESSION_BR,
	"zstd":     conformancev1.Compression_COMPRESSION_ZSTD,
	"deflate":  conformancev1.Compression_COMPRESSION_DEFLATE,
	"snappy":   conformancev1.Compression_COMPRESSION_SNAPPY,
}

// c19sHTTPMethod: the reference client enables connect.WithHTTPGet, so the
// side-effect-free IdempotentUnary method travels as GET with the Connect protocol.
func c19sHTTPMethod(tc c19sCase) string {
	if tc.Shape == "idempotent-unary" && tc.Protocol == "connect" {
		return "GET"
	}
	return "POST"
}

func c19sCompatRequest(tc c19sCase, srv *c19sServer, msgs []proto.Message, clientLimit uint32) *conformancev1.ClientCompatRequest {
	nameHash := fnv.New32a()
	_, _ = nameHash.Write([]byte(tc.String()))
	req := &conformancev1.ClientCompatRequest{
		TestName:            fmt.Sprintf("c19/%08x", nameHash.Sum32()),
		Host:                srv.host,
		Port:                srv.port,
		Compression:         c19sCompressions[tc.Compression],
		Service:             proto.String(internal.ConformanceServiceName),
		RequestMessages:     c19sAnys(msgs...),
		MessageReceiveLimit: clientLimit,
	}
	if tc.HTTP == 2 {
		req.HttpVersion = conformancev1.HTTPVersion_HTTP_VERSION_2
	} else {
		req.HttpVersion = conformancev1.HTTPVersion_HTTP_VERSION_1
	}
	switch tc.Protocol {
	case "connect":
		req.Protocol = conformancev1.Protocol_PROTOCOL_CONNECT
	case "grpc":
		req.Protocol = conformancev1.Protocol_PROTOCOL_GRPC
	case "grpcweb":
		req.Protocol = conformancev1.Protocol_PROTOCOL_GRPC_WEB
	}
	if tc.Codec == "json" {
		req.Codec = conformancev1.Codec_CODEC_JSON
	} else {
		req.Codec = conformancev1.Codec_CODEC_PROTO
	}
	// what the runner tells the reference server about the expected wire format
	// (server_runner.go); the server verifies it and prints feedback to stderr
	req.RequestHeaders = []*conformancev1.Header{
		{Name: "x-expect-http-version", Value: []string{fmt.Sprint(int(req.HttpVersion))}},
		{Name: "x-expect-http-method", Value: []string{c19sHTTPMethod(tc)}},
		{Name: "x-expect-protocol", Value: []string{fmt.Sprint(int(req.Protocol))}},
		{Name: "x-expect-codec", Value: []string{fmt.Sprint(int(req.Codec))}},
		{Name: "x-expect-compression", Value: []string{fmt.Sprint(int(req.Compression))}},
		{Name: "x-expect-tls", Value: []string{"false"}},
	}
	switch tc.Shape {
	case "unary":
		req.Method, req.StreamType = proto.String("Unary"), conformancev1.StreamType_STREAM_TYPE_UNARY
	case "idempotent-unary":
		req.Method, req.StreamType = proto.String("IdempotentUnary"), conformancev1.StreamType_STREAM_TYPE_UNARY
	case "client-stream":
		req.Method, req.StreamType = proto.String("ClientStream"), conformancev1.StreamType_STREAM_TYPE_CLIENT_STREAM
	case "server-stream":
		req.Method, req.StreamType = proto.String("ServerStream"), conformancev1.StreamType_STREAM_TYPE_SERVER_STREAM
	case "bidi-half":
		req.Method, req.StreamType = proto.String("BidiStream"), conformancev1.StreamType_STREAM_TYPE_HALF_DUPLEX_BIDI_STREAM
	case "bidi-full":
		req.Method, req.StreamType = proto.String("BidiStream"), conformancev1.StreamType_STREAM_TYPE_FULL_DUPLEX_BIDI_STREAM
	}
	return req
}

// c19sObservation is what one run shows, reduced to what the oracle needs.
type c19sObservation struct {
	Class    string // accepted | resource_exhausted | error:<code> | client-error
	Payloads []*conformancev1.ConformancePayload
	Message  string
	ReqEnc   bool // a request-compression header was echoed by the server
	RespEnc  bool // a response-compression header was seen by the client
}

func c19sHasEncoding(hdrs []*conformancev1.Header, compression string) bool {
	for _, hdr := range hdrs {
		switch strings.ToLower(hdr.Name) {
		case "content-encoding", "connect-content-encoding", "grpc-encoding":
			for _, v := range hdr.Value {
				if strings.EqualFold(v, compression) {
					return true
				}
			}
		}
	}
	return false
}

func c19sObserve(env *c19sEnv, tc c19sCase, req *conformancev1.ClientCompatRequest) (c19sObservation, error) {
	resp, err := env.client.call(req)
	if err != nil {
		var deadlock *c19sDeadlock
		if errors.As(err, &deadlock) {
			return c19sObservation{Class: "deadlock", Message: deadlock.what}, nil
		}
		return c19sObservation{}, err
	}
	if clientErr := resp.GetError(); clientErr != nil {
		return c19sObservation{Class: "client-error", Message: clientErr.Message}, nil
	}
	result := resp.GetResponse()
	obs := c19sObservation{Payloads: result.Payloads}
	obs.RespEnc = c19sHasEncoding(result.ResponseHeaders, tc.Compression)
	for _, payload := range result.Payloads {
		if c19sHasEncoding(payload.GetRequestInfo().GetRequestHeaders(), tc.Compression) {
			obs.ReqEnc = true
		}
	}
	switch {
	case result.Error == nil:
		obs.Class = "accepted"
	case result.Error.Code == conformancev1.Code_CODE_RESOURCE_EXHAUSTED:
		obs.Class, obs.Message = "resource_exhausted", result.Error.GetMessage()
	default:
		obs.Class = "error:" + strings.ToLower(strings.TrimPrefix(result.Error.Code.String(), "CODE_"))
		obs.Message = result.Error.GetMessage()
	}
	return obs, nil
}

// ---------------------------------------------------------------------------
// the two experiments

type c19sVerdict struct {
	Outcome string // outcome class for the report
	Key     string // violation key ("" = property holds)
	Detail  string
	ReqEnc  bool
	RespEnc bool
}

var c19sSizeInMessage = regexp.MustCompile(`message size (\d+) is larger than configured max`) //nolint:gochecknoglobals

// c19sRejectedOnOtherSize tells, for a message that was rejected although its
// uncompressed encoded size is within the limit, whether the peer measured
// something else than that size (its error names the size it looked at). When
// the error does not say, a compressed message is assumed to have been
// measured in compressed form.
func c19sRejectedOnOtherSize(errMessage string, uncompressedSize int, compression string) bool {
	if compression == "identity" {
		return false
	}
	if m := c19sSizeInMessage.FindStringSubmatch(errMessage); m != nil {
		measured, err := strconv.Atoi(m[1])
		return err != nil || measured != uncompressedSize
	}
	return true
}

func c19sIsStream(shape string) bool {
	return shape == "client-stream" || shape == "bidi-half" || shape == "bidi-full"
}

// c19sServerSide: the server's limit is tc.Limit; the critical request has
// encoded size tc.Limit+tc.K.
func c19sServerSide(env *c19sEnv, tc c19sCase) (c19sVerdict, error) {
	srv, err := env.server(tc.HTTP, tc.Limit)
	if err != nil {
		return c19sVerdict{}, err
	}
	target := tc.Limit + tc.K
	reqCodec := tc.Codec
	if reqCodec == "json" && c19sHTTPMethod(tc) == "GET" {
		reqCodec = "json-stable"
	}
	small := []byte("ok")
	var msgs []proto.Message
	var respData [][]byte
	switch tc.Shape {
	case "bidi-full":
		respData = [][]byte{small, small} // one response per request
	default:
		respData = [][]byte{small}
	}
	if c19sIsStream(tc.Shape) {
		var first, second proto.Message
		if tc.Pos == 0 {
			first = c19sSized(reqCodec, tc.Shape, true, respData, tc.Pad, target)
			second = c19sRequest(tc.Shape, false, nil, []byte("tail"), "")
		} else {
			first = c19sRequest(tc.Shape, true, respData, []byte("head"), "")
			second = c19sSized(reqCodec, tc.Shape, false, nil, tc.Pad, target)
		}
		if first == nil || second == nil {
			return c19sVerdict{Outcome: "size-unreachable"}, nil
		}
		msgs = []proto.Message{first, second}
	} else {
		msg := c19sSized(reqCodec, tc.Shape, true, respData, tc.Pad, target)
		if msg == nil {
			return c19sVerdict{Outcome: "size-unreachable"}, nil
		}
		msgs = []proto.Message{msg}
	}
	critical := msgs[0]
	if c19sIsStream(tc.Shape) {
		critical = msgs[tc.Pos]
	}
	if got := c19sEncodedSize(reqCodec, critical); got != target {
		return c19sVerdict{}, fmt.Errorf("harness: built a message of %d bytes, wanted %d", got, target)
	}
	for i, msg := range msgs {
		if msg != critical && c19sEncodedSize(reqCodec, msg) >= tc.Limit {
			return c19sVerdict{}, fmt.Errorf("harness: filler message %d is not below the limit", i)
		}
	}

	obs, err := c19sObserve(env, tc, c19sCompatRequest(tc, srv, msgs, 0))
	if err != nil {
		return c19sVerdict{}, err
	}
	verdict := c19sVerdict{ReqEnc: obs.ReqEnc, RespEnc: obs.RespEnc}
	describe := func(what string) string {
		return fmt.Sprintf("%s: %s: server message_receive_limit=%d, %s-encoded (uncompressed) request #%d has %d bytes (limit%+d); observed %s %q",
			what, tc, tc.Limit, tc.Codec, tc.Pos+1, target, tc.K, obs.Class, obs.Message)
	}
	wantAccept := tc.K <= 0
	switch {
	case obs.Class == "client-error":
		return verdict, fmt.Errorf("reference client reported an internal error: %s (%s)", obs.Message, tc)
	case obs.Class == "deadlock":
		verdict.Key = "peers-deadlock:server-limit:" + tc.Protocol + ":" + tc.Shape
		verdict.Detail = describe("the RPC never completes; client and server wait for each other")
		verdict.Outcome = "DEADLOCK"
	case obs.Class == "accepted" && wantAccept:
		// the whole request must have arrived: the server echoes what it received
		var echoed []*anypb.Any
		for _, payload := range obs.Payloads {
			echoed = append(echoed, payload.GetRequestInfo().GetRequests()...)
		}
		wantPayloads := 1
		if tc.Shape == "bidi-full" {
			wantPayloads = 2
		}
		if len(obs.Payloads) != wantPayloads || len(echoed) != len(msgs) {
			verdict.Key = "accepted-but-incomplete:server"
			verdict.Detail = describe(fmt.Sprintf("RPC succeeded but %d payloads / %d echoed requests (want %d / %d)",
				len(obs.Payloads), len(echoed), wantPayloads, len(msgs)))
			verdict.Outcome = "ACCEPTED-INCOMPLETE"
			return verdict, nil
		}
		for i, msg := range msgs {
			got, err := echoed[i].UnmarshalNew()
			if err != nil || !proto.Equal(got, msg) {
				verdict.Key = "accepted-but-incomplete:server"
				verdict.Detail = describe(fmt.Sprintf("echoed request #%d differs from what was sent", i+1))
				verdict.Outcome = "ACCEPTED-ALTERED"
				return verdict, nil
			}
		}
		verdict.Outcome = "accepted"
	case obs.Class == "resource_exhausted" && !wantAccept:
		verdict.Outcome = "resource_exhausted"
	case obs.Class == "accepted" && !wantAccept:
		verdict.Key = "limit-not-sharp:server:" + tc.Compression
		verdict.Detail = describe("a request one byte over the limit was accepted")
		verdict.Outcome = "OVER-LIMIT-ACCEPTED"
	case obs.Class == "resource_exhausted" && wantAccept:
		if c19sRejectedOnOtherSize(obs.Message, target, tc.Compression) {
			verdict.Key = "limit-measured-on-compressed:server:" + tc.Compression
			verdict.Detail = describe("a request within the limit (uncompressed size) was rejected because of its compressed size")
		} else {
			verdict.Key = "limit-not-sharp:server:" + tc.Compression
			verdict.Detail = describe("a request within the limit was rejected")
		}
		verdict.Outcome = "WITHIN-LIMIT-REJECTED"
	default:
		verdict.Key = "limit-wrong-code:server"
		want := "success"
		if !wantAccept {
			want = "resource_exhausted"
		}
		verdict.Detail = describe("expected " + want)
		verdict.Outcome = "WRONG-CODE/" + obs.Class
	}
	return verdict, nil
}

// ---------------------------------------------------------------------------
// side=server-raw: request streams of several messages, sent by a plain HTTP client

type c19sOpaqueReader struct{ r io.Reader } // hides the length of the body from net/http

func (o c19sOpaqueReader) Read(p []byte) (int, error) { return o.r.Read(p) }

func c19sEnvelope(flags byte, payload []byte) []byte {
	out := make([]byte, 5, 5+len(payload))
	out[0] = flags
	binary.BigEndian.PutUint32(out[1:], uint32(len(payload)))
	return append(out, payload...)
}

// c19sRawSide: the limit is per MESSAGE. A client-stream / half-duplex bidi
// stream of 2-3 messages, each within the server's limit, is accepted whatever
// the total size of the request body is and whether or not the request declares
// that total (Content-Length) - a client that buffers the stream, a proxy that
// de-chunks it or a hand-written request does -; a last message of limit+1
// bytes is rejected with resource_exhausted.
func c19sRawSide(env *c19sEnv, tc c19sCase) (c19sVerdict, error) {
	srv, err := env.server(tc.HTTP, tc.Limit)
	if err != nil {
		return c19sVerdict{}, err
	}
	respData := [][]byte{[]byte("ok")}
	var msgs []proto.Message
	var sizes []int
	var body []byte
	overLimit := false
	for i, letter := range tc.Stream {
		var msg proto.Message
		switch letter {
		case 'S':
			msg = c19sRequest(tc.Shape, i == 0, respData, []byte("fill"), "")
		case '-', '0', '+':
			target := tc.Limit + map[rune]int{'-': -1, '0': 0, '+': 1}[letter]
			msg = c19sSized("proto", tc.Shape, i == 0, respData, tc.Pad, target)
			if msg == nil {
				return c19sVerdict{Outcome: "size-unreachable"}, nil
			}
			overLimit = overLimit || letter == '+'
		default:
			return c19sVerdict{}, fmt.Errorf("harness: bad stream letter %q", letter)
		}
		raw, err := proto.Marshal(msg)
		if err != nil {
			return c19sVerdict{}, err
		}
		msgs = append(msgs, msg)
		sizes = append(sizes, len(raw))
		body = append(body, c19sEnvelope(0, raw)...)
	}
	method := map[string]string{"client-stream": "ClientStream", "bidi-half": "BidiStream"}[tc.Shape]
	if method == "" {
		return c19sVerdict{}, fmt.Errorf("harness: shape %s has no request stream", tc.Shape)
	}
	url := fmt.Sprintf("http://%s/%s/%s", net.JoinHostPort(srv.host, fmt.Sprint(srv.port)), internal.ConformanceServiceName, method)
	var reader io.Reader = bytes.NewReader(body)
	if !tc.ContentLength {
		reader = c19sOpaqueReader{reader}
	}
	req, err := http.NewRequest(http.MethodPost, url, reader)
	if err != nil {
		return c19sVerdict{}, err
	}
	if tc.ContentLength {
		req.ContentLength = int64(len(body))
	} else {
		req.ContentLength = -1
	}
	protocol, httpVersion := conformancev1.Protocol_PROTOCOL_CONNECT, conformancev1.HTTPVersion_HTTP_VERSION_1
	if tc.HTTP == 2 {
		httpVersion = conformancev1.HTTPVersion_HTTP_VERSION_2
	}
	switch tc.Protocol {
	case "connect":
		req.Header.Set("Content-Type", "application/connect+proto")
		req.Header.Set("Connect-Protocol-Version", "1")
	case "grpcweb":
		protocol = conformancev1.Protocol_PROTOCOL_GRPC_WEB
		req.Header.Set("Content-Type", "application/grpc-web+proto")
		req.Header.Set("X-Grpc-Web", "1")
	default:
		return c19sVerdict{}, fmt.Errorf("harness: protocol %s is not built by hand", tc.Protocol)
	}
	nameHash := fnv.New32a()
	_, _ = nameHash.Write([]byte(tc.String()))
	req.Header.Set("X-Test-Case-Name", fmt.Sprintf("c19/%08x", nameHash.Sum32()))
	req.Header.Set("X-Expect-Http-Version", fmt.Sprint(int(httpVersion)))
	req.Header.Set("X-Expect-Http-Method", http.MethodPost)
	req.Header.Set("X-Expect-Protocol", fmt.Sprint(int(protocol)))
	req.Header.Set("X-Expect-Codec", fmt.Sprint(int(conformancev1.Codec_CODEC_PROTO)))
	req.Header.Set("X-Expect-Compression", fmt.Sprint(int(conformancev1.Compression_COMPRESSION_IDENTITY)))
	req.Header.Set("X-Expect-Tls", "false")
	resp, err := env.httpClient(tc.HTTP).Do(req)
	if err != nil {
		return c19sVerdict{}, fmt.Errorf("plain HTTP client: %w", err)
	}
	raw, err := io.ReadAll(resp.Body)
	_ = resp.Body.Close()
	if err != nil {
		return c19sVerdict{}, fmt.Errorf("plain HTTP client, reading the response: %w", err)
	}

	// what the server answered
	class, message := "", ""
	var echoed []*anypb.Any
	grpcStatus, grpcMessage := resp.Header.Get("Grpc-Status"), resp.Header.Get("Grpc-Message")
	sawEnd := false
	if resp.StatusCode != http.StatusOK {
		class, message = fmt.Sprintf("http-status-%d", resp.StatusCode), string(raw[:min(len(raw), 200)])
	}
	for rest := raw; class == "" && len(rest) > 0; {
		if len(rest) < 5 || len(rest) < 5+int(binary.BigEndian.Uint32(rest[1:5])) {
			class, message = "malformed-response", fmt.Sprintf("%q", raw[:min(len(raw), 200)])
			break
		}
		flags, payload := rest[0], rest[5:5+int(binary.BigEndian.Uint32(rest[1:5]))]
		rest = rest[5+len(payload):]
		switch {
		case tc.Protocol == "connect" && flags&2 != 0:
			sawEnd = true
			var end struct {
				Error *struct {
					Code    string `json:"code"`
					Message string `json:"message"`
				} `json:"error"`
			}
			if err := json.Unmarshal(payload, &end); err != nil {
				class, message = "malformed-response", "end-of-stream message: "+err.Error()
			} else if end.Error != nil {
				class, message = "error:"+end.Error.Code, end.Error.Message
			}
		case tc.Protocol == "grpcweb" && flags&0x80 != 0:
			sawEnd = true
			for _, line := range strings.Split(string(payload), "\r\n") {
				if k, v, ok := strings.Cut(line, ":"); ok {
					switch strings.ToLower(strings.TrimSpace(k)) {
					case "grpc-status":
						grpcStatus = strings.TrimSpace(v)
					case "grpc-message":
						grpcMessage = strings.TrimSpace(v)
					}
				}
			}
		default:
			var payloadMsg *conformancev1.ConformancePayload
			if tc.Shape == "client-stream" {
				out := &conformancev1.ClientStreamResponse{}
				if err := proto.Unmarshal(payload, out); err != nil {
					class, message = "malformed-response", err.Error()
				}
				payloadMsg = out.GetPayload()
			} else {
				out := &conformancev1.BidiStreamResponse{}
				if err := proto.Unmarshal(payload, out); err != nil {
					class, message = "malformed-response", err.Error()
				}
				payloadMsg = out.GetPayload()
			}
			echoed = append(echoed, payloadMsg.GetRequestInfo().GetRequests()...)
		}
	}
	if class == "" && tc.Protocol == "grpcweb" {
		switch grpcStatus {
		case "0":
		case "":
			class, message = "malformed-response", "no grpc-status"
		case "8":
			class, message = "error:resource_exhausted", grpcMessage
		default:
			class, message = "error:grpc-status-"+grpcStatus, grpcMessage
		}
	}
	if class == "" && tc.Protocol == "connect" && !sawEnd {
		class, message = "malformed-response", "no end-of-stream message"
	}
	if class == "" {
		class = "accepted"
	}

	total := len(body)
	describe := func(what string) string {
		return fmt.Sprintf("%s: %s: server message_receive_limit=%d; the request stream has %d messages of %v bytes (each envelope 5 bytes more, request body %d bytes in total, Content-Length declared: %v); observed %s %q",
			what, tc, tc.Limit, len(msgs), sizes, total, tc.ContentLength, class, message)
	}
	verdict := c19sVerdict{}
	switch {
	case class == "accepted" && !overLimit:
		if len(echoed) != len(msgs) {
			verdict.Key = "accepted-but-incomplete:server"
			verdict.Detail = describe(fmt.Sprintf("RPC succeeded but the server echoes %d requests (want %d)", len(echoed), len(msgs)))
			verdict.Outcome = "ACCEPTED-INCOMPLETE"
			return verdict, nil
		}
		for i, msg := range msgs {
			got, err := echoed[i].UnmarshalNew()
			if err != nil || !proto.Equal(got, msg) {
				verdict.Key = "accepted-but-incomplete:server"
				verdict.Detail = describe(fmt.Sprintf("echoed request #%d differs from what was sent", i+1))
				verdict.Outcome = "ACCEPTED-ALTERED"
				return verdict, nil
			}
		}
		verdict.Outcome = "accepted"
	case class == "error:resource_exhausted" && overLimit:
		verdict.Outcome = "resource_exhausted"
	case class == "accepted" && overLimit:
		verdict.Key = "limit-not-sharp:server:" + tc.Compression
		verdict.Detail = describe("a stream whose last message is one byte over the limit was accepted")
		verdict.Outcome = "OVER-LIMIT-ACCEPTED"
	case class == "error:resource_exhausted" && !overLimit:
		verdict.Key = "limit-not-per-message:server"
		verdict.Detail = describe("every message of the stream is within the limit, yet the stream was rejected with resource_exhausted")
		verdict.Outcome = "WITHIN-LIMIT-STREAM-REJECTED"
		if m := c19sSizeInMessage.FindStringSubmatch(message); m != nil {
			// the error names the size it objects to: if that is the size of one of the
			// messages, a single message within the limit was held to be too large
			for _, size := range sizes {
				if m[1] == strconv.Itoa(size) {
					verdict.Key = "limit-not-sharp:server:" + tc.Compression
					verdict.Detail = describe(fmt.Sprintf("a message of %d bytes, which is within the limit, was rejected", size))
					verdict.Outcome = "WITHIN-LIMIT-REJECTED"
					break
				}
			}
		}
	default:
		verdict.Key = "limit-wrong-code:server"
		want := "success"
		if overLimit {
			want = "resource_exhausted"
		}
		verdict.Detail = describe("expected " + want)
		verdict.Outcome = "WRONG-CODE/" + class
	}
	return verdict, nil
}

// c19sRawStreams: every stream of 2 and 3 messages over {S, -, 0} whose last
// message may also be + (12 + 36).
func c19sRawStreams() []string {
	var out []string
	for n := 2; n <= 3; n++ {
		var rec func(prefix string)
		rec = func(prefix string) {
			if len(prefix) == n-1 {
				for _, last := range "S-0+" {
					out = append(out, prefix+string(last))
				}
				return
			}
			for _, l := range "S-0" {
				rec(prefix + string(l))
			}
		}
		rec("")
	}
	return out
}

func c19sResponseMessage(shape string, payload *conformancev1.ConformancePayload) proto.Message {
	switch shape {
	case "unary":
		return &conformancev1.UnaryResponse{Payload: payload}
	case "idempotent-unary":
		return &conformancev1.IdempotentUnaryResponse{Payload: payload}
	case "client-stream":
		return &conformancev1.ClientStreamResponse{Payload: payload}
	case "server-stream":
		return &conformancev1.ServerStreamResponse{Payload: payload}
	default:
		return &conformancev1.BidiStreamResponse{Payload: payload}
	}
}

// c19sClientSide: fixed request; learn the response sizes without limit, then
// give the client a limit of (largest response size) - tc.K.
func c19sClientSide(env *c19sEnv, tc c19sCase) (c19sVerdict, error) {
	srv, err := env.server(tc.HTTP, 0)
	if err != nil {
		return c19sVerdict{}, err
	}
	// pad=zeros: the server is asked for tc.Limit zero bytes of response data
	// (highly compressible response). pad=noise: the request carries tc.Limit
	// incompressible bytes, which the server echoes exactly once in its first
	// response (the response data itself would appear twice - in the payload
	// and in the echoed response definition - and thus always compress).
	data, reqData := c19sPadding("zeros", tc.Limit), []byte("a")
	if tc.Pad == "noise" {
		data, reqData = []byte("ok"), c19sPadding("noise", tc.Limit)
	}
	var msgs []proto.Message
	switch tc.Shape {
	case "unary", "idempotent-unary":
		msgs = []proto.Message{c19sRequest(tc.Shape, true, [][]byte{data}, reqData, "")}
	case "client-stream":
		msgs = []proto.Message{
			c19sRequest(tc.Shape, true, [][]byte{data}, reqData, ""),
			c19sRequest(tc.Shape, false, nil, []byte("b"), ""),
		}
	case "server-stream":
		msgs = []proto.Message{c19sRequest(tc.Shape, true, [][]byte{data, []byte("second")}, reqData, "")}
	default:
		msgs = []proto.Message{
			c19sRequest(tc.Shape, true, [][]byte{data, []byte("second")}, reqData, ""),
			c19sRequest(tc.Shape, false, nil, []byte("b"), ""),
		}
	}
	// 1. no limit: measure
	ref, err := c19sObserve(env, tc, c19sCompatRequest(tc, srv, msgs, 0))
	if err != nil {
		return c19sVerdict{}, err
	}
	if ref.Class != "accepted" || len(ref.Payloads) == 0 {
		return c19sVerdict{}, fmt.Errorf("measuring run without client limit did not succeed: %s %q (%s)", ref.Class, ref.Message, tc)
	}
	sizes := make([]int, len(ref.Payloads))
	largest := 0
	for i, payload := range ref.Payloads {
		sizes[i] = c19sEncodedSize(tc.Codec, c19sResponseMessage(tc.Shape, payload))
		if sizes[i] > sizes[largest] {
			largest = i
		}
	}
	limit := sizes[largest] - tc.K
	// model: responses are delivered in order until the first one over the limit
	wantPayloads, wantReject := len(sizes), false
	for i, size := range sizes {
		if size > limit {
			wantPayloads, wantReject = i, true
			break
		}
	}
	// 2. with the limit
	obs, err := c19sObserve(env, tc, c19sCompatRequest(tc, srv, msgs, uint32(limit)))
	if err != nil {
		return c19sVerdict{}, err
	}
	verdict := c19sVerdict{ReqEnc: ref.ReqEnc, RespEnc: ref.RespEnc}
	describe := func(what string) string {
		return fmt.Sprintf("%s: %s: %s-encoded (uncompressed) response sizes without limit %v; client message_receive_limit=%d (largest response = limit%+d); observed %s %q with %d payloads",
			what, tc, tc.Codec, sizes, limit, tc.K, obs.Class, obs.Message, len(obs.Payloads))
	}
	switch {
	case obs.Class == "client-error":
		return verdict, fmt.Errorf("reference client reported an internal error: %s (%s)", obs.Message, tc)
	case obs.Class == "deadlock":
		verdict.Key = "peers-deadlock:client-limit:" + tc.Protocol + ":" + tc.Shape
		verdict.Detail = describe("the client never reports a result: it waits for the server to end the response while the server waits for the next request")
		verdict.Outcome = "DEADLOCK"
	case obs.Class == "accepted" && !wantReject:
		if len(obs.Payloads) != len(sizes) {
			verdict.Key = "accepted-but-incomplete:client"
			verdict.Detail = describe("RPC succeeded with a different number of responses")
			verdict.Outcome = "ACCEPTED-INCOMPLETE"
			return verdict, nil
		}
		for i, payload := range obs.Payloads {
			if got := c19sEncodedSize(tc.Codec, c19sResponseMessage(tc.Shape, payload)); got != sizes[i] {
				// the measuring run is not representative: harness assumption broken
				return verdict, fmt.Errorf("response #%d has %d bytes with the limit but %d without (%s)", i+1, got, sizes[i], tc)
			}
		}
		verdict.Outcome = "accepted"
	case obs.Class == "resource_exhausted" && wantReject:
		if len(obs.Payloads) != wantPayloads {
			verdict.Key = "limit-not-sharp:client:" + tc.Compression
			verdict.Detail = describe(fmt.Sprintf("rejected, but %d responses were delivered before the error instead of %d", len(obs.Payloads), wantPayloads))
			verdict.Outcome = "REJECTED-AT-WRONG-MESSAGE"
			return verdict, nil
		}
		verdict.Outcome = "resource_exhausted"
	case obs.Class == "accepted" && wantReject:
		verdict.Key = "limit-not-sharp:client:" + tc.Compression
		verdict.Detail = describe("a response one byte over the limit was accepted")
		verdict.Outcome = "OVER-LIMIT-ACCEPTED"
	case obs.Class == "resource_exhausted" && !wantReject:
		rejectedSize := -1
		if len(obs.Payloads) < len(sizes) {
			rejectedSize = sizes[len(obs.Payloads)]
		}
		if c19sRejectedOnOtherSize(obs.Message, rejectedSize, tc.Compression) {
			verdict.Key = "limit-measured-on-compressed:client:" + tc.Compression
			verdict.Detail = describe("a response within the limit (uncompressed size) was rejected because of its compressed size")
		} else {
			verdict.Key = "limit-not-sharp:client:" + tc.Compression
			verdict.Detail = describe("a response within the limit was rejected")
		}
		verdict.Outcome = "WITHIN-LIMIT-REJECTED"
	default:
		verdict.Key = "limit-wrong-code:client"
		want := "success"
		if wantReject {
			want = "resource_exhausted"
		}
		verdict.Detail = describe("expected " + want)
		verdict.Outcome = "WRONG-CODE/" + obs.Class
	}
	return verdict, nil
}

func c19sRun(env *c19sEnv, tc c19sCase) (c19sVerdict, error) {
	switch tc.Side {
	case "client":
		return c19sClientSide(env, tc)
	case "server-raw":
		return c19sRawSide(env, tc)
	case "server-get":
		return c19sGetSide(env, tc)
	}
	return c19sServerSide(env, tc)
}

// ---------------------------------------------------------------------------
// enumeration

func c19sEnumerate(thorough bool, visit func(tc c19sCase) bool) {
	type wire struct {
		protocol string
		http     int
	}
	wires := []wire{{"connect", 1}, {"connect", 2}, {"grpc", 2}, {"grpcweb", 1}, {"grpcweb", 2}}
	compressions := []string{"identity", "gzip", "br", "zstd", "deflate", "snappy"}
	codecs := []string{"proto", "json"}
	pads := []string{"zeros", "noise"}
	ks := []int{0, 1, -1}

	// The side-effect-free procedure (IdempotentUnary) is a procedure of its own on the
	// server: handler options - the receive limit among them - are per procedure, so
	// the server-side grid contains it in both tiers. The reference client sends it
	// as GET (message in the URL) under the Connect protocol and as POST under gRPC
	// and gRPC-Web, so both ways of delivering the message are covered.
	serverShapes := []string{"unary", "idempotent-unary", "client-stream", "bidi-half", "bidi-full"}
	clientShapes := []string{"unary", "client-stream", "server-stream", "bidi-half", "bidi-full"}
	serverLimits := []int{1024, 200}
	clientSizes := []int{4000, 64}
	if thorough {
		clientShapes = append(clientShapes, "idempotent-unary")
		serverLimits = []int{1024, 200, 128, 16384, 200 * 1024}
		clientSizes = []int{4000, 64, 16384, 210 * 1024}
	}
	// request streams of several messages from a plain HTTP client (cheap: first)
	rawLimits := []int{1024, 200}
	if thorough {
		rawLimits = []int{1024, 200, 128, 16384}
	}
	for _, limit := range rawLimits {
		for _, w := range []wire{{"connect", 1}, {"connect", 2}, {"grpcweb", 1}, {"grpcweb", 2}} {
			for _, shape := range []string{"client-stream", "bidi-half"} {
				for _, stream := range c19sRawStreams() {
					for _, withLength := range []bool{true, false} {
						tc := c19sCase{
							Side: "server-raw", HTTP: w.http, Protocol: w.protocol, Codec: "proto", Compression: "identity",
							Shape: shape, Pad: "zeros", Limit: limit, Stream: stream, ContentLength: withLength,
						}
						if !visit(tc) {
							return
						}
					}
				}
			}
		}
	}
	// the message in the URL: hand-built Connect GET requests (c19_get_test.go), uncompressed and
	// compressed with every compression, at the unit's small limits and at the limit that the
	// runner really configures (200 KiB; JSON there in the thorough tier only)
	for _, limit := range append([]int{c19gRunnerServerLimit}, rawLimits...) {
		getCodecs := codecs
		if limit > 16384 && !thorough {
			getCodecs = []string{"proto"}
		}
		if !c19gEnumerate(limit, []int{1, 2}, getCodecs, compressions, pads, ks, visit) {
			return
		}
	}
	for _, side := range []string{"server", "client"} {
		shapes, limits := serverShapes, serverLimits
		if side == "client" {
			shapes, limits = clientShapes, clientSizes
		}
		for _, limit := range limits {
			for _, compression := range compressions {
				for _, w := range wires {
					for _, codec := range codecs {
						for _, shape := range shapes {
							if shape == "bidi-full" && w.http == 1 {
								continue // HTTP/1.1 can't do full duplex
							}
							for _, pad := range pads {
								if side == "client" && pad == "noise" && (limit != 4000 || shape == "idempotent-unary") {
									// The server echoes the request headers in map-iteration order, so
									// the compressed form of a response differs from run to run while its
									// uncompressed size does not. Incompressible data makes the compressed
									// size hover round the uncompressed one, and whether it ends up above
									// the limit is then not reproducible - except where the margin is
									// wide: 4000 noise bytes (snappy stores the chunk raw, +18 bytes; the
									// other codecs still gain ~100+ bytes on the header text). The
									// idempotent call travels as a Connect GET, whose response also
									// echoes the base64 query string: no wide margin there either.
									continue
								}
								for _, k := range ks {
									positions := []int{0}
									if side == "server" && c19sIsStream(shape) {
										// a rejected message is always the last one sent, so that the
										// outcome does not depend on how fast the client keeps sending
										positions = []int{1}
										if k <= 0 {
											positions = []int{1, 0}
										}
									}
									for _, pos := range positions {
										tc := c19sCase{
											Side: side, HTTP: w.http, Protocol: w.protocol, Codec: codec, Compression: compression,
											Shape: shape, Pad: pad, Pos: pos, Limit: limit, K: k,
										}
										if !visit(tc) {
											return
										}
									}
								}
							}
						}
					}
				}
			}
		}
	}
}

// c19sJudge runs a case; a would-be violation must reproduce twice more.
func c19sJudge(t *testing.T, r *rep.Report, env *c19sEnv, tc c19sCase, verbose bool) (c19sVerdict, bool) {
	t.Helper()
	verdict, err := c19sRun(env, tc)
	if err != nil {
		t.Errorf("harness error in case %s: %v", tc, err)
		return verdict, false
	}
	if verbose {
		fmt.Printf("case %s\n  outcome=%s key=%q\n  %s\n", tc, verdict.Outcome, verdict.Key, verdict.Detail)
	}
	if verdict.Key != "" && verdict.Outcome == "DEADLOCK" {
		// established structurally (wait-for cycle), no need to repeat
		r.Violate(verdict.Key, verdict.Detail, tc)
	} else if verdict.Key != "" {
		for i := 0; i < 2; i++ {
			again, err := c19sRun(env, tc)
			if err != nil || again.Key != verdict.Key {
				r.Count("unstable", 1)
				t.Errorf("unstable outcome for case %s: first %q, then %q (err=%v)", tc, verdict.Key, again.Key, err)
				return verdict, false
			}
		}
		r.Violate(verdict.Key, verdict.Detail, tc)
	}
	return verdict, true
}

func TestVerifC19Sharp(t *testing.T) {
	r := rep.New("c19-sharp")
	defer r.Write()
	r.Rule = "case = (side server|client, HTTP/1.1|h2c, protocol (3), codec (2), compression (6), RPC shape, padding compressible|incompressible, " +
		"position of the critical request, limit, k = message size - limit in {-1,0,+1}); side=server: real client sends a request of encoded size limit+k " +
		"to the real server with that limit; side=client: the limit of the real client is (encoded size of the largest response) - k; every tuple is distinct; " +
		"non-trivial = every case (each one sits on the boundary: |k| <= 1); " +
		"side=server-raw: a plain net/http client (HTTP/1.1 and h2c) sends hand-built Connect-streaming and gRPC-Web request streams (client-stream, half-duplex bidi) of 2 and 3 messages, " +
		"every message one of {a few bytes, limit-1, limit} and the last one also limit+1 (48 streams), with and without a declared Content-Length: accepted with every request echoed iff no message exceeds the limit, else resource_exhausted; " +
		"side=server-get: a plain net/http client (HTTP/1.1 and h2c) calls IdempotentUnary by Connect GET with a hand-built URL (?connect=v1&encoding=..&base64=1&message=..[&compression=..]), " +
		"message of limit+k encoded bytes, uncompressed and compressed (6 compressions) x proto/JSON x compressible/incompressible padding, limits 1024, 200 [thorough 128, 16384] and the runner's real server limit 204800: same truth table"

	env := &c19sEnv{servers: map[string]*c19sServer{}, client: c19sStartClient()}
	defer env.shutdown()

	judge := func(tc c19sCase, verbose bool) (c19sVerdict, bool) { return c19sJudge(t, r, env, tc, verbose) }

	if data := rep.ReplayInput(); data != nil {
		var rec struct {
			Replay c19sCase `json:"replay"`
		}
		if err := json.Unmarshal(data, &rec); err != nil {
			t.Fatalf("bad replay file: %v", err)
		}
		verdict, ok := judge(rec.Replay, true)
		if ok {
			r.Eval(1)
			r.NonTrivial("")
			r.Outcome(verdict.Outcome)
			r.Sample(rec.Replay)
		}
		return
	}

	deadline := rep.Deadline()
	var k int64
	c19sEnumerate(rep.Thorough(), func(tc c19sCase) bool {
		k++
		if !r.Mine(k) {
			return true
		}
		if !deadline.IsZero() && time.Now().After(deadline) {
			r.NotExhaustive(fmt.Sprintf("budget reached after %d cases of the enumeration", k))
			return false
		}
		verdict, ok := judge(tc, false)
		if !ok {
			return true
		}
		if verdict.Outcome == "size-unreachable" {
			r.Count("skipped:size-unreachable", 1)
			return true
		}
		r.Eval(1)
		r.NonTrivial("")
		if tc.Side == "server-raw" {
			r.Outcome(fmt.Sprintf("%s:content-length=%v:%s", tc.Side, tc.ContentLength, verdict.Outcome))
		} else {
			r.Outcome(fmt.Sprintf("%s:k=%+d:%s", tc.Side, tc.K, verdict.Outcome))
		}
		r.Count("cases:"+tc.Side, 1)
		r.Count("cases:"+tc.Side+":"+tc.Compression, 1)
		if tc.Compression != "identity" {
			if verdict.ReqEnc {
				r.Count("request-compression-confirmed-by-server-echo", 1)
			}
			if verdict.RespEnc {
				r.Count("response-compression-confirmed-by-header", 1)
			}
		}
		if k%211 == 1 {
			r.Sample(tc)
		}
		return true
	})
	if r.Shard == 0 {
		r.Count("enumeration-size", k)
	}
}
