package referenceclient

// C13: single malformations, one at a time at every position, of well-formed
// renderings. Oracle: at least one feedback message. Only classes that the
// property names and that wire_details.go claims to detect are generated.

import (
	"encoding/base64"
	"fmt"
	"net/http"
	"strings"

	"google.golang.org/protobuf/proto"
	"google.golang.org/protobuf/types/known/anypb"
)

// Base errors: between them they exercise every member, two details, nested
// debug objects and arrays, -bin / repeated / upper-case metadata. No leading or
// trailing blanks in messages (those are a well-formedness topic, not a
// malformation one).
func c13MalformBases(thorough bool) []c13Err {
	b := []c13Err{
		{Code: 3, Msg: "foo", Details: nil, Meta: "none"},
		{Code: 5, Msg: "a% é~b", Details: []string{"header"}, Meta: "mixed"},
		{Code: 13, Msg: "", Details: []string{"reqinfo", "any"}, Meta: "bin"},
	}
	if thorough {
		b = append(b,
			c13Err{Code: 16, Msg: "x\"y\\z\nw", Details: []string{"status", "struct"}, Meta: "repeated"},
			c13Err{Code: 1, Msg: "€", Details: []string{"bytes62", "string"}, Meta: "upper"},
		)
	}
	return b
}

var c13WrongTypes = map[string][]string{
	"string": {"null", "true", "0", "1.5", "[]", `["x"]`, "{}", `{"a":1}`},
	"array":  {"null", "true", "0", `"x"`, "{}", `{"a":1}`},
	"object": {"null", "true", "0", `"x"`, "[]", `["x"]`},
}

var c13BadCodes = []string{"", "ok", "OK", "Canceled", "CANCELED", "cancelled", "internal ", " internal", "13", "code_13",
	"INTERNAL", "deadline-exceeded", "not found", "unknown_code", "invalid argument", "NotFound", "not_found\n"}

var c13BadTypeNames = func(name string) []string {
	return []string{"", ".", "a..b", "." + name, name + ".", "type.googleapis.com/" + name, "/" + name, name + " ", " " + name,
		"1a.b", "a.1b", "a-b.c", "a b", strings.Replace(name, ".", "/", 1), name + "!", "é.b"}
}

// c13JSONMutants walks the error tree (path-aware) and yields every single
// malformation. wrap embeds the (mutated) error tree into the document that is
// examined (identity for the unary error, {"error":..,"metadata":..} for the
// end-stream message).
func c13JSONMutants(e c13Err, format string, wrap func(errTree *c13J) *c13J, yield func(*c13Case)) {
	base := c13ErrTree(e, true, true)
	origin := e.String()
	emit := func(class, where string, doc *c13J) {
		yield(&c13Case{Phase: "malformed", Format: format, Class: class, Expect: "feedback",
			Input: []byte(doc.text(c13JStyle{})), Origin: origin + " @ " + where})
	}
	mutate := func(class, where string, fn func(t *c13J)) {
		t := base.clone()
		fn(t)
		emit(class, where, wrap(t))
	}
	// code
	mutate("code-missing", "code", func(t *c13J) { t.del("code") })
	for _, lit := range c13WrongTypes["string"] {
		mutate("code-not-a-string", "code="+lit, func(t *c13J) { t.set("code", c13Raw(lit)) })
	}
	mutate("code-not-a-string", "code=<number of the code>", func(t *c13J) { t.set("code", c13Raw(fmt.Sprint(e.Code))) })
	for _, bad := range c13BadCodes {
		mutate("code-unknown", fmt.Sprintf("code=%q", bad), func(t *c13J) { t.set("code", c13S(bad)) })
	}
	mutate("code-unknown", "code=upper-cased", func(t *c13J) { t.set("code", c13S(strings.ToUpper(c13CodeNames[e.Code]))) })
	// message
	for _, lit := range c13WrongTypes["string"] {
		mutate("wrong-type:message", "message="+lit, func(t *c13J) { t.set("message", c13Raw(lit)) })
	}
	// details
	for _, lit := range c13WrongTypes["array"] {
		mutate("wrong-type:details", "details="+lit, func(t *c13J) { t.set("details", c13Raw(lit)) })
	}
	// unknown keys, top level
	for _, k := range []string{"zzz", "Code", "codes", "", "detail", "MESSAGE", "error"} {
		mutate("unknown-key:error", fmt.Sprintf("+%q (last)", k), func(t *c13J) {
			t.Keys = append(t.Keys, k)
			t.Vals = append(t.Vals, c13S("v"))
		})
		mutate("unknown-key:error", fmt.Sprintf("+%q (first)", k), func(t *c13J) {
			t.Keys = append([]string{k}, t.Keys...)
			t.Vals = append([]*c13J{c13Raw("1")}, t.Vals...)
		})
	}
	// every object of the document: duplicate each key (copy right after the
	// original; copy with another value at the end)
	var walk func(path string, level string, get func(t *c13J) *c13J)
	walk = func(path, level string, get func(t *c13J) *c13J) {
		node := get(base)
		switch node.Kind {
		case 'o':
			for i := range node.Keys {
				i := i
				k := node.Keys[i]
				mutate("dup-key:"+level, path+"."+k+" (adjacent copy)", func(t *c13J) {
					n := get(t)
					n.Keys = append(n.Keys[:i+1:i+1], append([]string{k}, n.Keys[i+1:]...)...)
					n.Vals = append(n.Vals[:i+1:i+1], append([]*c13J{n.Vals[i].clone()}, n.Vals[i+1:]...)...)
				})
				mutate("dup-key:"+level, path+"."+k+" (copy at the end, other value)", func(t *c13J) {
					n := get(t)
					n.Keys = append(n.Keys, k)
					n.Vals = append(n.Vals, c13Raw("null"))
				})
				sub := level
				if level == "error" && k == "details" {
					sub = "detail"
				} else if level == "detail" && k == "debug" {
					sub = "debug-nested"
				}
				walk(path+"."+k, sub, func(t *c13J) *c13J { return get(t).Vals[i] })
			}
		case 'a':
			for i := range node.Elems {
				i := i
				walk(fmt.Sprintf("%s[%d]", path, i), level, func(t *c13J) *c13J { return get(t).Elems[i] })
			}
		}
	}
	walk("error", "error", func(t *c13J) *c13J { return t })
	// per detail
	if arr := base.get("details"); arr != nil {
		for i := range arr.Elems {
			i := i
			def := c13DetailDefOf(e.Details[i])
			name := string(def.Msg.ProtoReflect().Descriptor().FullName())
			at := fmt.Sprintf("details[%d]", i)
			det := func(t *c13J) *c13J { return t.get("details").Elems[i] }
			for _, lit := range c13WrongTypes["object"] {
				mutate("wrong-type:detail", at+"="+lit, func(t *c13J) { t.get("details").Elems[i] = c13Raw(lit) })
			}
			mutate("detail-type-missing", at, func(t *c13J) { det(t).del("type") })
			mutate("detail-value-missing", at, func(t *c13J) { det(t).del("value") })
			for _, lit := range c13WrongTypes["string"] {
				mutate("wrong-type:detail-type", at+".type="+lit, func(t *c13J) { det(t).set("type", c13Raw(lit)) })
				mutate("wrong-type:detail-value", at+".value="+lit, func(t *c13J) { det(t).set("value", c13Raw(lit)) })
			}
			for _, bad := range c13BadTypeNames(name) {
				mutate("bad-type-name", fmt.Sprintf("%s.type=%q", at, bad), func(t *c13J) { det(t).set("type", c13S(bad)) })
			}
			for _, k := range []string{"zzz", "Type", "", "typeUrl", "@type"} {
				mutate("unknown-key:detail", fmt.Sprintf("%s +%q", at, k), func(t *c13J) {
					d := det(t)
					d.Keys = append(d.Keys, k)
					d.Vals = append(d.Vals, c13S("v"))
				})
			}
			val := det(base).get("value").Str
			for _, bad := range c13BadBase64(val) {
				mutate("bad-base64:detail-value", fmt.Sprintf("%s.value=%q (was %q)", at, bad, val), func(t *c13J) { det(t).set("value", c13S(bad)) })
			}
			if def.Alt != nil {
				mutate("debug-disagrees-with-value", at+".debug=<other message>", func(t *c13J) { det(t).set("debug", c13ParseJSON(c13DebugJSON(def.Alt))) })
				data := c13B64(c13MustMarshal(def.Alt))
				mutate("debug-disagrees-with-value", at+".value=<other message>", func(t *c13J) { det(t).set("value", c13S(data)) })
			}
			if e.Details[i] != "struct" && e.Details[i] != "string" && e.Details[i] != "duration" && e.Details[i] != "bytes62" {
				// protobuf JSON of a message type: an unknown member cannot agree with the value
				mutate("unknown-key:debug", at+".debug +\"zzz\"", func(t *c13J) {
					d := det(t).get("debug")
					d.Keys = append(d.Keys, "zzz")
					d.Vals = append(d.Vals, c13Raw("1"))
				})
			}
		}
	}
	// the text itself
	text := wrap(base).text(c13JStyle{})
	for cut := 0; cut < len(text); cut++ {
		yield(&c13Case{Phase: "malformed", Format: format, Class: "truncated-json", Expect: "feedback", Input: []byte(text[:cut]), Origin: fmt.Sprintf("%s @ cut at %d of %d", origin, cut, len(text))})
	}
	for _, tail := range []string{"x", "{}", ",", "}", "]", "\"", "null", "\x00"} {
		yield(&c13Case{Phase: "malformed", Format: format, Class: "trailing-garbage", Expect: "feedback", Input: []byte(text + tail), Origin: fmt.Sprintf("%s @ +%q", origin, tail)})
	}
	for _, doc := range []string{"null", "[]", `"x"`, "1", "true", "[" + text + "]", ""} {
		yield(&c13Case{Phase: "malformed", Format: format, Class: "top-level-not-an-object", Expect: "feedback", Input: []byte(doc), Origin: fmt.Sprintf("%s @ document=%s", origin, c13Trunc(doc, 30))})
	}
}

func c13MustMarshal(m proto.Message) []byte {
	data, err := proto.Marshal(m)
	if err != nil {
		panic(err)
	}
	return data
}

// c13BadBase64: strings that are not valid *unpadded standard* base64 though
// close to val.
func c13BadBase64(val string) []string {
	seen := map[string]bool{}
	var out []string
	add := func(s string) {
		if s == val || seen[s] {
			return
		}
		// keep only strings a strict RFC 4648 §4 unpadded decoder rejects
		if _, err := base64.RawStdEncoding.Strict().DecodeString(s); err == nil && !strings.ContainsAny(s, "\r\n") {
			return
		}
		if strings.ContainsAny(s, "\r\n") {
			return // Go's decoder skips CR/LF; not a class the checks name
		}
		seen[s] = true
		out = append(out, s)
	}
	add(val + "=")
	add(val + "==")
	add("=" + val)
	if raw, err := base64.RawStdEncoding.DecodeString(val); err == nil {
		add(base64.StdEncoding.EncodeToString(raw))                                 // correct padding
		add(base64.RawURLEncoding.EncodeToString(raw))                              // URL alphabet
		add(base64.StdEncoding.EncodeToString(append(append([]byte{}, raw...), 0))) // padded, other length
	}
	for pos := 0; pos <= len(val); pos++ {
		for _, ch := range []string{"*", " ", "-", "_", "=", "\x00", "é", ".", "%"} {
			if ch == "=" && pos == len(val) {
				continue
			}
			add(val[:pos] + ch + val[pos:])
		}
	}
	for n := len(val) - 1; n >= 0 && n >= len(val)-3; n-- {
		if n%4 == 1 {
			add(val[:n]) // impossible length
		}
	}
	return out
}

// c13EndStreamMutants: malformations of the end-stream envelope itself.
func c13EndStreamMutants(e c13Err, yield func(*c13Case)) {
	meta := c13Meta(e.Meta)
	if len(meta) == 0 {
		meta = c13Meta("mixed")
	}
	base := c13EndStreamTree(&e, true, meta, false, true)
	origin := e.String()
	mutate := func(class, where string, fn func(t *c13J)) {
		t := base.clone()
		fn(t)
		yield(&c13Case{Phase: "malformed", Format: "connect-end-stream", Class: class, Expect: "feedback",
			Input: []byte(t.text(c13JStyle{})), Origin: origin + " @ " + where})
	}
	for _, lit := range c13WrongTypes["object"] {
		mutate("wrong-type:error", "error="+lit, func(t *c13J) { t.set("error", c13Raw(lit)) })
		mutate("wrong-type:metadata", "metadata="+lit, func(t *c13J) { t.set("metadata", c13Raw(lit)) })
	}
	mutate("wrong-type:metadata", "metadata=[{key,value}]", func(t *c13J) { t.set("metadata", c13Raw(`[{"key":"k","value":"v"}]`)) })
	for _, k := range []string{"zzz", "Error", "Metadata", "", "trailers", "code"} {
		mutate("unknown-key:end-stream", fmt.Sprintf("+%q", k), func(t *c13J) {
			t.Keys = append(t.Keys, k)
			t.Vals = append(t.Vals, c13Raw("{}"))
		})
	}
	for _, k := range []string{"error", "metadata"} {
		mutate("dup-key:end-stream", k, func(t *c13J) {
			t.Keys = append(t.Keys, k)
			t.Vals = append(t.Vals, t.get(k).clone())
		})
	}
	md := base.get("metadata")
	for i, k := range md.Keys {
		i, k := i, k
		mdOf := func(t *c13J) *c13J { return t.get("metadata") }
		mutate("dup-key:metadata", k+" (adjacent)", func(t *c13J) {
			m := mdOf(t)
			m.Keys = append(m.Keys[:i+1:i+1], append([]string{k}, m.Keys[i+1:]...)...)
			m.Vals = append(m.Vals[:i+1:i+1], append([]*c13J{m.Vals[i].clone()}, m.Vals[i+1:]...)...)
		})
		mutate("dup-key:metadata", k+" (at the end)", func(t *c13J) {
			m := mdOf(t)
			m.Keys = append(m.Keys, k)
			m.Vals = append(m.Vals, c13Arr(c13S("z")))
		})
		for _, lit := range c13WrongTypes["array"] {
			mutate("wrong-type:metadata-values", k+"="+lit, func(t *c13J) { mdOf(t).Vals[i] = c13Raw(lit) })
		}
		for j := range md.Vals[i].Elems {
			j := j
			for _, lit := range c13WrongTypes["string"] {
				mutate("wrong-type:metadata-value", fmt.Sprintf("%s[%d]=%s", k, j, lit), func(t *c13J) { mdOf(t).Vals[i].Elems[j] = c13Raw(lit) })
			}
			v := md.Vals[i].Elems[j].Str
			for pos := 0; pos <= len(v); pos++ {
				for _, b := range c13BadValueBytes(true) {
					mutate("invalid-field-value", fmt.Sprintf("%s[%d]: 0x%02x inserted at %d", k, j, b, pos), func(t *c13J) {
						mdOf(t).Vals[i].Elems[j] = c13S(v[:pos] + string(rune(b)) + v[pos:])
					})
				}
			}
		}
		for pos := 0; pos <= len(k); pos++ {
			for _, b := range c13BadNameBytes(true) {
				r := string(rune(b))
				if b >= 0x80 {
					r = string(rune(0x80 + int(b)%0x700)) // some non-ASCII rune (JSON strings are UTF-8)
				}
				mutate("invalid-field-name", fmt.Sprintf("%q: 0x%02x inserted at %d", k, b, pos), func(t *c13J) { mdOf(t).Keys[i] = k[:pos] + r + k[pos:] })
			}
		}
	}
	mutate("empty-field-name", "metadata[\"\"]", func(t *c13J) {
		m := t.get("metadata")
		m.Keys = append(m.Keys, "")
		m.Vals = append(m.Vals, c13Arr(c13S("v")))
	})
}

// Bytes that may not occur in an HTTP field name (RFC 7230 token). ':' and LF
// are left out: they change the line structure instead of the name.
func c13BadNameBytes(forJSON bool) []int {
	var out []int
	for b := 0; b < 256; b++ {
		ch := byte(b)
		tchar := strings.IndexByte("!#$%&'*+-.^_`|~", ch) >= 0 || (ch >= '0' && ch <= '9') || (ch >= 'a' && ch <= 'z') || (ch >= 'A' && ch <= 'Z')
		if tchar || (!forJSON && (ch == ':' || ch == '\n')) {
			continue
		}
		if forJSON && b >= 0x80 && b%16 != 0 {
			continue // non-ASCII runes: a sample is enough (all of them are >= 0x80 bytes in UTF-8)
		}
		out = append(out, b)
	}
	return out
}

// Bytes that may not occur in an HTTP field value: CTLs except HTAB, and DEL.
func c13BadValueBytes(forJSON bool) []int {
	var out []int
	for b := 0; b < 0x20; b++ {
		if b == '\t' || (!forJSON && b == '\n') {
			continue
		}
		out = append(out, b)
	}
	return append(out, 0x7f)
}

// ---------------------------------------------------------------- trailer blocks and trailer sets

type c13Line struct{ K, V string }

func c13Lines(kv []c13KV) []c13Line {
	out := make([]c13Line, len(kv))
	for i, p := range kv {
		out[i] = c13Line{p.K, p.V}
	}
	return out
}

func c13RenderLines(ls []c13Line) string {
	var b strings.Builder
	for _, l := range ls {
		b.WriteString(l.K + ": " + l.V + "\r\n")
	}
	return b.String()
}

func c13IsHex(ch byte) bool {
	return (ch >= '0' && ch <= '9') || (ch >= 'a' && ch <= 'f') || (ch >= 'A' && ch <= 'F')
}

// c13BadPercent: grpc-message values that are not valid Percent-Encoded text.
func c13BadPercent(enc string) []string {
	out := []string{"%", "a%", "%4", "a%4", "%zz", "%4z", "%z4", "% 41", "%%", "%G0", "%0G", "abc%"}
	for pos := 0; pos <= len(enc); pos++ {
		s := enc[:pos] + "%" + enc[pos:]
		if c13ValidPercent(s) {
			continue // "%" in front of two hex digits is well-formed
		}
		out = append(out, s)
	}
	return out
}

func c13ValidPercent(s string) bool {
	for i := 0; i < len(s); i++ {
		if s[i] == '%' {
			if i+2 >= len(s) || !c13IsHex(s[i+1]) || !c13IsHex(s[i+2]) {
				return false
			}
			i += 2
			continue
		}
		if s[i] < 0x20 || s[i] > 0x7e {
			return false
		}
	}
	return true
}

// c13StatusMutants: the semantic malformations of the status trio, applied to a
// list of lines; used for both the gRPC-Web block and HTTP trailers.
func c13StatusMutants(e c13Err, withBin bool, yield func(class, where string, ls []c13Line)) {
	if !withBin {
		e.Details = nil // no grpc-status-details-bin: nothing else can draw feedback by accident
	}
	base := c13Lines(c13RefTrailerPairs(e, false, withBin))
	idx := func(k string) int {
		for i, l := range base {
			if l.K == k {
				return i
			}
		}
		return -1
	}
	clone := func() []c13Line { return append([]c13Line(nil), base...) }
	without := func(i int) []c13Line { c := clone(); return append(c[:i:i], c[i+1:]...) }
	insert := func(at int, l c13Line) []c13Line {
		c := clone()
		return append(c[:at:at], append([]c13Line{l}, c[at:]...)...)
	}
	set := func(i int, v string) []c13Line { c := clone(); c[i].V = v; return c }
	is, im, id := idx("grpc-status"), idx("grpc-message"), idx("grpc-status-details-bin")

	yield("grpc-status-missing", "", without(is))
	for at := 0; at <= len(base); at++ {
		yield("grpc-status-duplicated", fmt.Sprintf("copy before line %d", at), insert(at, base[is]))
	}
	yield("grpc-status-duplicated", "second one differs", insert(len(base), c13Line{"grpc-status", "2"}))
	for _, v := range []string{"", "abc", "5x", "x5", "0x5", "5.0", "5 5", "٥", "five", "1e1", "--1", "1-", "٣", "NaN"} {
		yield("grpc-status-not-a-number", fmt.Sprintf("%q", v), set(is, v))
	}
	for _, v := range []string{"-1", "17", "18", "100", "255", "-16", "2147483648", "4294967296", "99999999999999999999", "-99999999999999999999"} {
		yield("grpc-status-out-of-range", v, set(is, v))
	}
	yield("grpc-status-with-sign", "+N", set(is, "+"+base[is].V))

	enc := base[im].V
	for _, v := range c13BadPercent(enc) {
		yield("bad-percent-encoding", fmt.Sprintf("%q", v), set(im, v))
	}
	for pos := 0; pos <= len(enc); pos++ {
		inEscape := (pos >= 1 && enc[pos-1] == '%') || (pos >= 2 && enc[pos-2] == '%')
		if inEscape {
			continue
		}
		for _, b := range []byte{0x80, 0xc3, 0xff, 0x7f, 0x01, 0x1f} {
			yield("unescaped-byte-in-message", fmt.Sprintf("0x%02x at %d", b, pos), set(im, enc[:pos]+string([]byte{b})+enc[pos:]))
		}
		if pos > 0 && pos < len(enc) {
			yield("unescaped-byte-in-message", fmt.Sprintf("HTAB at %d", pos), set(im, enc[:pos]+"\t"+enc[pos:]))
		}
	}
	yield("unescaped-byte-in-message", "raw UTF-8", set(im, "caf\xc3\xa9"))
	for at := 0; at <= len(base); at++ {
		yield("grpc-message-duplicated", fmt.Sprintf("copy before line %d", at), insert(at, base[im]))
	}

	// OK status that still carries an error
	okAny := []*anypb.Any{c13MustAny(c13Detail("empty"))}
	yield("ok-status-with-message", "", []c13Line{{"grpc-status", "0"}, {"grpc-message", "foo"}})
	yield("ok-status-with-details", "", []c13Line{{"grpc-status", "0"}, {"grpc-status-details-bin", c13StatusBin(0, "", okAny)}})
	// binary metadata
	for _, v := range []string{"*", "a", "YQ=", "YQ==", "YWI=", "a-_b", "aGVsbG8 aGVsbG8", "=", "YQ==YQ"} {
		yield("bad-base64:binary-metadata", fmt.Sprintf("x-c13-bin=%q", v), insert(len(base), c13Line{"x-c13-bin", v}))
	}
	if !withBin {
		return
	}

	bin := base[id].V
	for pos := 0; pos <= len(bin); pos += 1 + len(bin)/40 {
		for _, ch := range []string{"*", "-", "_", "\x00", "%", "."} {
			yield("bad-base64:details-bin", fmt.Sprintf("%q inserted at %d", ch, pos), set(id, bin[:pos]+ch+bin[pos:]))
		}
		if pos > 0 && pos < len(bin) {
			yield("bad-base64:details-bin", fmt.Sprintf("blank inserted at %d", pos), set(id, bin[:pos]+" "+bin[pos:]))
		}
	}
	yield("bad-base64:details-bin", "stray '='", set(id, bin+"="))
	yield("bad-base64:details-bin", "stray '===='", set(id, bin+"===="))
	for extra := 0; extra < 3; extra++ { // three message lengths so that both "=" and "==" paddings occur
		msg := e.Msg + strings.Repeat("x", extra)
		raw, _ := base64.RawStdEncoding.DecodeString(c13StatusBin(e.Code, msg, c13DetailAnys(e)))
		padded := base64.StdEncoding.EncodeToString(raw)
		if strings.HasSuffix(padded, "=") {
			c := set(id, padded)
			c[im].V = c13PctEncode(msg, false, false)
			yield("padded-base64:details-bin", fmt.Sprintf("message %q", msg), c)
		}
	}
	for _, garbage := range [][]byte{{0xff}, {0x0a, 0x05, 'a'}, {0x08}, {0x12, 0xff, 0xff, 0xff, 0xff, 0x7f}, {0x1a, 0x02, 0x0a}} {
		yield("details-bin-not-a-status", fmt.Sprintf("%x", garbage), set(id, c13B64(garbage)))
	}
	for code := 0; code <= 17; code++ {
		if code != e.Code {
			yield("details-disagree:code", fmt.Sprintf("details say %d", code), set(id, c13StatusBin(code, e.Msg, c13DetailAnys(e))))
		}
	}
	yield("details-disagree:code", "details say -1", set(id, c13StatusBin(-1, e.Msg, c13DetailAnys(e))))
	for _, m := range []string{e.Msg + "x", "x" + e.Msg, strings.ToUpper(e.Msg) + "!", "completely different", c13PctEncode(e.Msg, false, true) + "."} {
		if strings.TrimSpace(m) != strings.TrimSpace(e.Msg) {
			yield("details-disagree:message", fmt.Sprintf("details say %q", m), set(id, c13StatusBin(e.Code, m, c13DetailAnys(e))))
		}
	}
	if e.Msg != "" {
		yield("details-disagree:message", "details say \"\"", set(id, c13StatusBin(e.Code, "", c13DetailAnys(e))))
	}
	for at := 0; at <= len(base); at++ {
		yield("details-bin-duplicated", fmt.Sprintf("copy before line %d", at), insert(at, base[id]))
	}
}

func c13TrailerMutants(e c13Err, yield func(*c13Case)) {
	origin := e.String()
	// (a) semantic, through the block and through an HTTP trailer set
	for _, withBin := range []bool{false, true} {
		tag := map[bool]string{false: " (no details-bin) @ ", true: " (with details-bin) @ "}[withBin]
		c13StatusMutants(e, withBin, func(class, where string, ls []c13Line) {
			yield(&c13Case{Phase: "malformed", Format: "grpc-web-trailers", Class: class, Expect: "feedback", Input: []byte(c13RenderLines(ls)), Origin: origin + tag + where})
			h := http.Header{}
			for _, l := range ls {
				h.Add(l.K, l.V)
			}
			yield(&c13Case{Phase: "malformed", Format: "grpc-trailers", Class: class, Expect: "feedback", Hdr: c13HVOf(h), Origin: origin + tag + where})
		})
	}
	// (b) syntactic, block only
	base := c13Lines(c13RefTrailerPairs(e, false, false))
	emit := func(class, where, text string) {
		yield(&c13Case{Phase: "malformed", Format: "grpc-web-trailers", Class: class, Expect: "feedback", Input: []byte(text), Origin: origin + " @ " + where})
	}
	render := func(ls []c13Line, eol func(i int) string, mod func(i int, l c13Line) string) string {
		var b strings.Builder
		for i, l := range ls {
			line := l.K + ": " + l.V
			if mod != nil {
				line = mod(i, l)
			}
			b.WriteString(line + eol(i))
		}
		return b.String()
	}
	crlf := func(int) string { return "\r\n" }
	n := len(base)
	for i := 0; i < n; i++ {
		i := i
		emit("lf-instead-of-crlf", fmt.Sprintf("line %d", i), render(base, func(j int) string {
			if j == i {
				return "\n"
			}
			return "\r\n"
		}, nil))
		emit("cr-instead-of-crlf", fmt.Sprintf("line %d", i), render(base, func(j int) string {
			if j == i {
				return "\r"
			}
			return "\r\n"
		}, nil))
		emit("missing-colon", fmt.Sprintf("line %d", i), render(base, crlf, func(j int, l c13Line) string {
			if j == i {
				return l.K + " " + l.V
			}
			return l.K + ": " + l.V
		}))
		emit("missing-colon", fmt.Sprintf("line %d, name only", i), render(base, crlf, func(j int, l c13Line) string {
			if j == i {
				return l.K
			}
			return l.K + ": " + l.V
		}))
		for _, fold := range []string{" continued", "\tcontinued", "  \t x: y"} {
			emit("obsolete-line-folding", fmt.Sprintf("after line %d %q", i, fold), render(base, crlf, func(j int, l c13Line) string {
				if j == i {
					return l.K + ": " + l.V + "\r\n" + fold
				}
				return l.K + ": " + l.V
			}))
		}
		k := base[i].K
		for p := 0; p < len(k); p++ {
			if k[p] >= 'a' && k[p] <= 'z' {
				p := p
				emit("upper-case-key", fmt.Sprintf("line %d %q letter %d", i, k, p), render(base, crlf, func(j int, l c13Line) string {
					if j == i {
						return k[:p] + strings.ToUpper(k[p:p+1]) + k[p+1:] + ": " + l.V
					}
					return l.K + ": " + l.V
				}))
			}
		}
		emit("upper-case-key", fmt.Sprintf("line %d %q canonical MIME form", i, k), render(base, crlf, func(j int, l c13Line) string {
			if j == i {
				return http.CanonicalHeaderKey(k) + ": " + l.V
			}
			return l.K + ": " + l.V
		}))
		for p := 0; p <= len(k); p++ {
			for _, b := range c13BadNameBytes(false) {
				p, b := p, b
				emit("invalid-field-name", fmt.Sprintf("line %d %q: 0x%02x inserted at %d", i, k, b, p), render(base, crlf, func(j int, l c13Line) string {
					if j == i {
						return k[:p] + string([]byte{byte(b)}) + k[p:] + ": " + l.V
					}
					return l.K + ": " + l.V
				}))
			}
		}
		v := base[i].V
		for p := 0; p <= len(v); p++ {
			for _, b := range c13BadValueBytes(false) {
				p, b := p, b
				emit("invalid-field-value", fmt.Sprintf("line %d %q: 0x%02x inserted at %d", i, k, b, p), render(base, crlf, func(j int, l c13Line) string {
					if j == i {
						return l.K + ": " + v[:p] + string([]byte{byte(b)}) + v[p:]
					}
					return l.K + ": " + l.V
				}))
			}
		}
	}
	emit("lf-instead-of-crlf", "every line", render(base, func(int) string { return "\n" }, nil))
	whole := render(base, crlf, nil)
	emit("missing-final-crlf", "no CRLF at the end", strings.TrimSuffix(whole, "\r\n"))
	emit("missing-final-crlf", "no LF at the end", strings.TrimSuffix(whole, "\n"))
	for at := 0; at <= n; at++ {
		ls := append(append(append([]c13Line(nil), base[:at]...), c13Line{}), base[at:]...)
		emit("blank-line", fmt.Sprintf("before line %d", at), render(ls, crlf, func(j int, l c13Line) string {
			if l.K == "" {
				return ""
			}
			return l.K + ": " + l.V
		}))
		ls2 := append(append(append([]c13Line(nil), base[:at]...), c13Line{"", "v"}), base[at:]...)
		emit("empty-field-name", fmt.Sprintf("\": v\" before line %d", at), render(ls2, crlf, nil))
	}
	emit("blank-line", "two at the end", whole+"\r\n\r\n")
	emit("blank-line", "only a blank line", "\r\n")
}

// c13OutsideGRPCCases: HTTP trailers on responses that are not gRPC.
func c13OutsideGRPCCases(yield func(*c13Case)) {
	e := c13Err{Code: 3, Msg: "foo"}
	errJSON := c13ErrTree(e, false, false).text(c13JStyle{})
	endStream := c13EndStreamTree(&e, false, nil, false, true).text(c13JStyle{})
	block := c13Block(c13RefTrailerPairs(e, false, false), ": ")
	trailers := []http.Header{
		{"X-T": {"v"}},
		{"Grpc-Status": {"0"}},
		{"Grpc-Status": {"3"}, "Grpc-Message": {"foo"}},
		{"A": {"1"}, "B": {"2", "3"}},
	}
	type resp struct {
		ct     string
		status int
		body   string
		end    *string
	}
	resps := []resp{
		{"application/json", 400, errJSON, nil},
		{"application/json", 200, `{"payload":{}}`, nil},
		{"application/proto", 200, "\x0a\x00", nil},
		{"application/connect+proto", 200, "", &endStream},
		{"application/connect+json", 200, "", &endStream},
		{"application/grpc-web", 200, "", &block},
		{"application/grpc-web+proto", 200, "", &block},
		{"application/grpc-web+json", 200, "", &block},
		{"application/grpc-web-text", 200, "", &block},
		{"text/plain", 200, "hello", nil},
		{"text/html", 502, "<html/>", nil},
		{"", 200, "", nil},
	}
	for _, r := range resps {
		for _, tr := range trailers {
			w := c13Wire{ContentType: r.ct, Status: r.status, Body: r.body, EndStream: r.end, Trailer: tr, HasData: true}
			yield(&c13Case{Phase: "malformed", Format: "wire", Class: "http-trailers-outside-grpc", Expect: "feedback", Wire: &w,
				Origin: fmt.Sprintf("content-type %q status %d trailers %v", r.ct, r.status, tr)})
		}
	}
}
