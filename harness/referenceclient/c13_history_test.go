package referenceclient

// C13 round 3 — two stages that drive the reference client's COMPLETE capture
// pipeline (newWireCaptureTransport -> tracer.TracingRoundTripper -> body
// readers -> examineWireDetails) over a scripted http.RoundTripper:
//
//   histories  short call histories in one process, on one pinned goroutine with a
//              single P and the collector switched off: one (thorough: also two)
//              abnormal response(s) followed by a response with a definite verdict.
//              The verdict about a response is a function of that response alone:
//              a well-formed one draws no feedback whatever preceded it, and every
//              response draws exactly the feedback it draws in isolation.
//   sizes      well-formed unary error bodies / end-stream messages / trailer blocks /
//              trailers whose size is 2^k-1, 2^k, 2^k+1 (k = 10..20): no feedback.
//
// Nothing here goes over a socket: the scripted transport hands out response
// bodies that deliver the prescribed bytes in the prescribed portions and then
// end the prescribed way (EOF, read error, or the reader walks away and closes).

import (
	"bytes"
	"compress/gzip"
	"context"
	"errors"
	"fmt"
	"io"
	"net/http"
	"os"
	"runtime"
	"runtime/debug"
	"strings"

	"connectrpc.com/conformance/internal"
	"connectrpc.com/conformance/internal/app/referenceserver"
	"connectrpc.com/conformance/internal/verif/rep"
)

// ---------------------------------------------------------------- scripted transport

type c13Script struct {
	HTTP2   bool
	Status  int
	Header  http.Header
	Trailer http.Header // HTTP trailers; they become visible when the body reports EOF (as with net/http)
	Body    []byte
	Chunk   int    // most bytes a single Read delivers (0 = as many as are asked for)
	End     string // after Body: "eof" | "error" (Read fails) | "close" (the reader closes without having seen the end)
	RTError bool   // the round trip itself fails: no response at all
}

var errC13ScriptedRead = errors.New("c13: scripted read error (connection reset)")

type c13ScriptRT struct{ cur *c13Script }

func (f *c13ScriptRT) RoundTrip(req *http.Request) (*http.Response, error) {
	sc := f.cur
	if req.Body != nil {
		_, _ = io.Copy(io.Discard, req.Body)
		_ = req.Body.Close()
	}
	if sc.RTError {
		return nil, errors.New("c13: scripted round-trip failure")
	}
	resp := &http.Response{
		Status: fmt.Sprintf("%d %s", sc.Status, http.StatusText(sc.Status)), StatusCode: sc.Status,
		Proto: "HTTP/1.1", ProtoMajor: 1, ProtoMinor: 1,
		Header: sc.Header.Clone(), ContentLength: -1, Request: req,
	}
	if resp.Header == nil {
		resp.Header = http.Header{}
	}
	if sc.HTTP2 {
		resp.Proto, resp.ProtoMajor, resp.ProtoMinor = "HTTP/2.0", 2, 0
	}
	if len(sc.Trailer) > 0 {
		resp.Trailer = http.Header{}
		for k := range sc.Trailer {
			resp.Trailer[k] = nil // announced, not yet received
		}
	}
	resp.Body = &c13ScriptBody{sc: sc, resp: resp}
	return resp, nil
}

type c13ScriptBody struct {
	sc     *c13Script
	resp   *http.Response
	off    int
	closed bool
}

func (b *c13ScriptBody) Read(p []byte) (int, error) {
	if b.closed {
		return 0, errors.New("c13: read on closed body")
	}
	if b.off < len(b.sc.Body) {
		n := len(p)
		if b.sc.Chunk > 0 && n > b.sc.Chunk {
			n = b.sc.Chunk
		}
		n = copy(p[:n], b.sc.Body[b.off:])
		b.off += n
		return n, nil
	}
	if b.sc.End == "error" {
		return 0, errC13ScriptedRead
	}
	for k, v := range b.sc.Trailer {
		b.resp.Trailer[k] = append([]string(nil), v...)
	}
	return 0, io.EOF
}

func (b *c13ScriptBody) Close() error { b.closed = true; return nil }

// c13Pipeline: one capturing transport (as the reference client has one per
// process) on top of the scripted one.
type c13Pipeline struct {
	rt        *c13ScriptRT
	transport http.RoundTripper
}

func c13NewPipeline() *c13Pipeline {
	f := &c13ScriptRT{}
	return &c13Pipeline{rt: f, transport: newWireCaptureTransport(f, nil)}
}

// exchange performs one call the way the client does (round trip, consume the
// body, close it, examine the wire details) and returns the feedback.
func (pl *c13Pipeline) exchange(sc *c13Script) (msgs []string, panicked string) {
	return c13Run(func(p internal.Printer) {
		pl.rt.cur = sc
		ctx := withWireCapture(context.Background())
		req, err := http.NewRequestWithContext(ctx, http.MethodPost,
			"http://c13.invalid/connectrpc.conformance.v1.ConformanceService/Unary", bytes.NewReader([]byte("\x0a\x00")))
		if err != nil {
			panic(err)
		}
		req.Header.Set("Content-Type", "application/proto")
		req.Header.Set("X-Test-Case-Name", "c13/scripted") // without a test name nothing is traced
		resp, err := pl.transport.RoundTrip(req)
		if err == nil {
			if sc.End == "close" {
				// the caller gives up (deadline, cancellation) after what has arrived so far
				buf := make([]byte, 512)
				for got := 0; got < len(sc.Body); {
					n, rerr := resp.Body.Read(buf[:min(len(buf), len(sc.Body)-got)])
					got += n
					if rerr != nil {
						break
					}
				}
			} else {
				_, _ = io.ReadAll(resp.Body)
			}
			_ = resp.Body.Close()
		}
		examineWireDetails(ctx, p)
	})
}

func c13Gzip(data []byte) []byte {
	var b bytes.Buffer
	w := gzip.NewWriter(&b)
	_, _ = w.Write(data)
	_ = w.Close()
	return b.Bytes()
}

// c13StreamScript: a 200 response of an enveloped protocol: one data message,
// then endStream (already enveloped or cut by the caller).
func c13StreamScript(proto string, gz bool, tail []byte) *c13Script {
	sc := &c13Script{Status: 200, Header: http.Header{}, End: "eof"}
	switch proto {
	case "connect":
		sc.Header.Set("Content-Type", "application/connect+proto")
		if gz {
			sc.Header.Set("Connect-Content-Encoding", "gzip")
		}
	case "grpcweb":
		sc.Header.Set("Content-Type", "application/grpc-web+proto")
		if gz {
			sc.Header.Set("Grpc-Encoding", "gzip")
		}
	default:
		panic("bad proto " + proto)
	}
	sc.Body = append(c13Envelope(0, []byte("d")), tail...)
	return sc
}

func c13EndFlag(proto string) byte {
	if proto == "connect" {
		return 0x02
	}
	return 0x80
}

// ---------------------------------------------------------------- histories: the abnormal first responses

var c13HistErr = c13Err{Code: 13, Msg: "boom: 100% bad", Details: []string{"string"}, Meta: "lower"}
var c13HistErr2 = c13Err{Code: 5, Msg: "a% é~b", Details: []string{"header", "reqinfo"}, Meta: "mixed"}

// c13HistBase: the well-formed end-stream payload a first response is derived from.
var c13HistBaseCache = map[string][]byte{}

func c13HistBase(proto, base string) (payload []byte, gz bool) {
	name, gz := strings.CutSuffix(base, "+gzip")
	if p, ok := c13HistBaseCache[proto+"/"+name]; ok {
		return p, gz
	}
	defer func() { c13HistBaseCache[proto+"/"+name] = payload }()
	switch proto + "/" + name {
	case "connect/ok-meta":
		payload = []byte(`{"metadata":{"x-trailer":["ok"]}}`)
	case "connect/error":
		payload = []byte(c13EndStreamTree(&c13HistErr, true, c13Meta(c13HistErr.Meta), false, true).text(c13JStyle{}))
	case "connect/error2":
		payload = []byte(c13EndStreamTree(&c13HistErr2, true, c13Meta(c13HistErr2.Meta), false, true).text(c13JStyle{}))
	case "grpcweb/ok":
		payload = []byte("grpc-status: 0\r\n")
	case "grpcweb/error":
		payload = []byte(c13Block(c13RefTrailerPairs(c13HistErr, false, false), ": "))
	case "grpcweb/error2":
		payload = []byte(c13Block(c13RefTrailerPairs(c13HistErr2, false, false), ": "))
	case "unary/error":
		payload = c13ErrorWriterRender(c13HistErr, "application/proto").Body.Bytes()
	default:
		panic("bad history base " + proto + "/" + base)
	}
	return payload, gz
}

var c13HistEnvCache = map[string][]byte{}

// c13HistEnvelope: the base as a complete end-stream envelope (callers must not modify it).
func c13HistEnvelope(proto, base string) (env []byte, gz bool) {
	if e, ok := c13HistEnvCache[proto+"/"+base]; ok {
		return e, strings.HasSuffix(base, "+gzip")
	}
	defer func() { c13HistEnvCache[proto+"/"+base] = env }()
	payload, gz := c13HistBase(proto, base)
	flag := c13EndFlag(proto)
	if gz {
		return c13Envelope(flag|1, c13Gzip(payload)), true
	}
	return c13Envelope(flag, payload), false
}

// c13HistFirst: one response that does not end the way a response should.
type c13HistFirst struct {
	Proto string `json:"proto"` // connect | grpcweb | unary
	Base  string `json:"base"`
	Kind  string `json:"kind"`
	N     int    `json:"n"`
	End   string `json:"end"`
	Chunk int    `json:"chunk"`
}

func (f c13HistFirst) String() string {
	return fmt.Sprintf("%s/%s %s n=%d end=%s chunk=%d", f.Proto, f.Base, f.Kind, f.N, f.End, f.Chunk)
}

// kind: the stable name of what is abnormal about the response.
func (f c13HistFirst) kind() string {
	k := f.Kind
	if f.Kind == "cut" && f.Proto != "unary" {
		env, _ := c13HistEnvelope(f.Proto, f.Base)
		switch {
		case f.N == 0:
			k = "body-ends-before-end-stream"
		case f.N < 5:
			k = "cut-in-end-stream-prefix"
		case f.N < len(env):
			k = "cut-in-end-stream-message"
		default:
			k = "complete-end-stream"
		}
	}
	return f.Proto + "-" + k + "-" + f.End
}

func (f c13HistFirst) script() *c13Script {
	var sc *c13Script
	if f.Proto == "unary" {
		body, _ := c13HistBase("unary", f.Base)
		sc = &c13Script{Status: 500, Header: http.Header{"Content-Type": {"application/json"}}}
		switch f.Kind {
		case "cut":
			sc.Body = body[:f.N]
		case "rt-error":
			sc.RTError = true
		default:
			panic("bad kind " + f.Kind)
		}
		sc.End, sc.Chunk = f.End, f.Chunk
		return sc
	}
	env, gz := c13HistEnvelope(f.Proto, f.Base)
	payload, _ := c13HistBase(f.Proto, f.Base)
	flag := c13EndFlag(f.Proto)
	var tail []byte
	switch f.Kind {
	case "cut": // the first N bytes of the end-stream envelope arrive
		tail = env[:f.N]
	case "overannounce": // the prefix announces N bytes more than ever arrive
		tail = append([]byte(nil), env...)
		n := len(env) - 5 + f.N
		tail[1], tail[2], tail[3], tail[4] = byte(n>>24), byte(n>>16), byte(n>>8), byte(n)
	case "complete-then-partial": // a complete end-stream message, then the first N bytes of another one
		tail = append(append([]byte(nil), env...), env[:f.N]...)
	case "malformed-complete": // complete envelope, contents broken (variant N)
		var bad []byte
		switch {
		case f.Proto == "connect" && f.N == 0:
			bad = payload[:len(payload)/2]
		case f.Proto == "connect":
			bad = append(append([]byte(nil), payload...), []byte(`{"x":1}`)...)
		case f.N == 0:
			bad = append(append([]byte(nil), payload...), []byte("grpc-status: 0\r\n")...)
		default:
			bad = bytes.TrimSuffix(payload, []byte("\r\n"))
		}
		tail = c13Envelope(flag, bad)
	case "compressed-garbage": // compressed flag set, contents are not gzip
		tail = c13Envelope(flag|1, payload)
		gz = true
	case "data-cut": // a data message of 10 bytes of which N arrive (prefix included); no end-stream at all
		tail = c13Envelope(0, []byte("0123456789"))[:f.N]
	default:
		panic("bad kind " + f.Kind)
	}
	sc = c13StreamScript(f.Proto, gz, tail)
	sc.End, sc.Chunk = f.End, f.Chunk
	return sc
}

var c13HistEnds = []string{"eof", "error", "close"}

func c13HistFirsts(thorough bool) []c13HistFirst {
	var out []c13HistFirst
	chunks := []int{0, 1}
	if thorough {
		chunks = []int{0, 1, 3}
	}
	for _, proto := range []string{"connect", "grpcweb"} {
		bases := []string{"ok", "error", "ok+gzip"}
		if proto == "connect" {
			bases = []string{"ok-meta", "error", "ok-meta+gzip"}
		}
		if thorough {
			bases = append(bases, "error2", "error+gzip")
		}
		for _, base := range bases {
			env, _ := c13HistEnvelope(proto, base)
			// every truncation: 0 .. all bytes of the end-stream envelope, each ending each way
			for n := 0; n <= len(env); n++ {
				for _, end := range c13HistEnds {
					for _, ch := range chunks {
						out = append(out, c13HistFirst{proto, base, "cut", n, end, ch})
					}
				}
			}
			for _, n := range []int{1, 1000} {
				for _, end := range c13HistEnds {
					out = append(out, c13HistFirst{proto, base, "overannounce", n, end, 0})
				}
			}
			for _, n := range []int{1, 5, 6, len(env) - 1} {
				for _, end := range []string{"eof", "close"} {
					out = append(out, c13HistFirst{proto, base, "complete-then-partial", n, end, 0})
				}
			}
			if !strings.HasSuffix(base, "+gzip") {
				for n := 0; n < 2; n++ {
					out = append(out, c13HistFirst{proto, base, "malformed-complete", n, "eof", 0})
				}
				out = append(out, c13HistFirst{proto, base, "compressed-garbage", 0, "eof", 0})
			}
		}
		for n := 1; n < 15; n++ {
			for _, end := range c13HistEnds {
				out = append(out, c13HistFirst{proto, "ok" + map[bool]string{true: "-meta"}[proto == "connect"], "data-cut", n, end, 0})
			}
		}
	}
	body, _ := c13HistBase("unary", "error")
	for _, n := range []int{0, 1, len(body) / 2, len(body) - 1} {
		for _, end := range c13HistEnds {
			out = append(out, c13HistFirst{"unary", "error", "cut", n, end, 0})
		}
	}
	out = append(out, c13HistFirst{"unary", "error", "rt-error", 0, "eof", 0})
	return out
}

// c13HistTripleFirsts: the restricted alphabet for histories with two abnormal responses.
func c13HistTripleFirsts() []c13HistFirst {
	var out []c13HistFirst
	for _, proto := range []string{"connect", "grpcweb"} {
		for _, base := range []string{map[bool]string{true: "ok-meta", false: "ok"}[proto == "connect"], "error"} {
			env, _ := c13HistEnvelope(proto, base)
			for _, n := range []int{3, 5, 6, len(env) - 1} {
				for _, end := range c13HistEnds {
					out = append(out, c13HistFirst{proto, base, "cut", n, end, 0})
				}
			}
		}
	}
	return out
}

// ---------------------------------------------------------------- histories: the response under judgement

type c13HistSecond struct {
	Name  string `json:"name"`
	Chunk int    `json:"chunk"`
}

type c13HistSecondDef struct {
	Name   string
	Format string // wire format the verdict is about
	Expect string // silent | feedback
	Make   func() *c13Script
}

var c13HistSecondDefs = []c13HistSecondDef{
	{"connect:empty-object", "connect-end-stream", "silent", func() *c13Script {
		return c13StreamScript("connect", false, c13Envelope(2, []byte(`{}`)))
	}},
	{"connect:metadata", "connect-end-stream", "silent", func() *c13Script {
		return c13StreamScript("connect", false, c13Envelope(2, []byte(`{"metadata":{"x-trailer":["ok"]}}`)))
	}},
	{"connect:error-ref", "connect-end-stream", "silent", func() *c13Script {
		return c13StreamScript("connect", false, c13Envelope(2, []byte(c13EndStreamTree(&c13HistErr, true, c13Meta(c13HistErr.Meta), false, false).text(c13JStyle{Indent: true}))))
	}},
	{"connect:error-connect-go", "connect-end-stream", "silent", func() *c13Script {
		end, ok := c13EndStreamOf(c13ErrorWriterRender(c13HistErr, "application/connect+proto").Body.Bytes(), 2)
		if !ok {
			panic("connect-go ErrorWriter wrote no end-stream envelope")
		}
		return c13StreamScript("connect", false, c13Envelope(2, []byte(end)))
	}},
	{"connect:metadata-gzip", "connect-end-stream", "silent", func() *c13Script {
		return c13StreamScript("connect", true, c13Envelope(3, c13Gzip([]byte(`{"metadata":{"x-trailer":["ok"]}}`))))
	}},
	{"grpcweb:ok", "grpc-web-trailers", "silent", func() *c13Script {
		return c13StreamScript("grpcweb", false, c13Envelope(0x80, []byte("grpc-status: 0\r\n")))
	}},
	{"grpcweb:error-ref", "grpc-web-trailers", "silent", func() *c13Script {
		return c13StreamScript("grpcweb", false, c13Envelope(0x80, []byte(c13Block(c13RefTrailerPairs(c13HistErr, true, false), ":"))))
	}},
	{"grpcweb:error-repo", "grpc-web-trailers", "silent", func() *c13Script {
		return c13StreamScript("grpcweb", false, c13Envelope(0x80, []byte(referenceserver.VerifC13GRPCWebStatusEndStream(c13ConnectError(c13HistErr), c13Meta(c13HistErr.Meta)))))
	}},
	{"grpcweb:trailers-only-connect-go", "grpc-web-trailers", "silent", func() *c13Script {
		return &c13Script{Status: 200, Header: c13ErrorWriterRender(c13HistErr, "application/grpc-web+proto").Result().Header, End: "eof"}
	}},
	{"connect-unary:error-connect-go", "connect-unary-error", "silent", func() *c13Script {
		rec := c13ErrorWriterRender(c13HistErr, "application/proto")
		return &c13Script{Status: rec.Code, Header: rec.Result().Header, Body: rec.Body.Bytes(), End: "eof"}
	}},
	{"grpc:error-repo", "grpc-trailers", "silent", func() *c13Script {
		tr := http.Header{}
		internal.AddHeaders(referenceserver.VerifC13GRPCStatusTrailers(c13ConnectError(c13HistErr)), tr)
		internal.AddHeaders(c13Meta(c13HistErr.Meta), tr)
		return &c13Script{HTTP2: true, Status: 200, Header: http.Header{"Content-Type": {"application/grpc+proto"}},
			Body: c13Envelope(0, []byte("d")), Trailer: tr, End: "eof"}
	}},
	// malformed, complete responses: must stay flagged, with the very same words
	{"connect:unknown-code", "connect-end-stream", "feedback", func() *c13Script {
		return c13StreamScript("connect", false, c13Envelope(2, []byte(`{"error":{"code":"not_a_code","message":"m"}}`)))
	}},
	{"grpcweb:two-statuses", "grpc-web-trailers", "feedback", func() *c13Script {
		return c13StreamScript("grpcweb", false, c13Envelope(0x80, []byte("grpc-status: 3\r\ngrpc-message: m\r\ngrpc-status: 5\r\n")))
	}},
	{"grpcweb:no-status", "grpc-web-trailers", "feedback", func() *c13Script {
		return c13StreamScript("grpcweb", false, c13Envelope(0x80, []byte("grpc-message: m\r\n")))
	}},
}

func c13HistSecondDefOf(name string) c13HistSecondDef {
	for _, d := range c13HistSecondDefs {
		if d.Name == name {
			return d
		}
	}
	panic("unknown history second " + name)
}

func c13HistSeconds(thorough bool) []c13HistSecond {
	var out []c13HistSecond
	for _, d := range c13HistSecondDefs {
		out = append(out, c13HistSecond{d.Name, 0})
		// also delivered byte by byte (the capture is assembled piecemeal)
		if thorough || d.Name == "connect:metadata" || d.Name == "grpcweb:ok" {
			out = append(out, c13HistSecond{d.Name, 1})
		}
	}
	return out
}

var c13HistSecondCache = map[string]*c13Script{}

// script: the scripted response (built once; the transport only reads from a script).
func (s c13HistSecond) script() *c13Script {
	base, ok := c13HistSecondCache[s.Name]
	if !ok {
		base = c13HistSecondDefOf(s.Name).Make()
		c13HistSecondCache[s.Name] = base
	}
	sc := *base
	sc.Chunk = s.Chunk
	return &sc
}

// the two neutral calls that close every history (and return the process to a known state)
var c13HistNeutral = []c13HistSecond{{"connect:metadata", 0}, {"grpcweb:ok", 0}}

type c13HistCase struct {
	Firsts []c13HistFirst `json:"firsts"`
	Second c13HistSecond  `json:"second"`
}

func (c c13HistCase) String() string {
	var fs []string
	for _, f := range c.Firsts {
		fs = append(fs, "["+f.String()+"]")
	}
	return fmt.Sprintf("%s -> %s (chunk=%d)", strings.Join(fs, " -> "), c.Second.Name, c.Second.Chunk)
}

func (c c13HistCase) kinds() string {
	var ks []string
	for _, f := range c.Firsts {
		ks = append(ks, f.kind())
	}
	return strings.Join(ks, "+")
}

type c13HistRunner struct {
	pl       *c13Pipeline
	isolated map[c13HistSecond][]string // feedback of each second response examined on its own
}

func c13NewHistRunner() *c13HistRunner {
	return &c13HistRunner{pl: c13NewPipeline(), isolated: map[c13HistSecond][]string{}}
}

// baseline examines the response on its own (after a neutral call, twice; the
// second observation counts) and checks the plain verdict.
func (h *c13HistRunner) baseline(s c13HistSecond) (verdicts []c13Verdict) {
	def := c13HistSecondDefOf(s.Name)
	for _, n := range c13HistNeutral {
		h.pl.exchange(n.script())
	}
	h.pl.exchange(s.script())
	msgs, pk := h.pl.exchange(s.script())
	h.isolated[s] = msgs
	if pk != "" {
		verdicts = append(verdicts, c13Verdict{"panic:" + def.Format, "capture pipeline panicked on " + s.Name + "\n" + pk})
	}
	switch {
	case def.Expect == "silent" && len(msgs) > 0:
		verdicts = append(verdicts, c13Verdict{"false-feedback:" + def.Format + ":scripted-pipeline:" + c13Slug(c13Class(msgs[0])),
			fmt.Sprintf("well-formed response %s, examined on its own through the capturing transport, drew feedback %q", s.Name, msgs)})
	case def.Expect == "feedback" && len(msgs) == 0:
		verdicts = append(verdicts, c13Verdict{"malformation-not-flagged:scripted-pipeline:" + c13Slug(s.Name),
			fmt.Sprintf("malformed response %s, examined on its own through the capturing transport, drew no feedback", s.Name)})
	}
	return verdicts
}

func c13SameMsgs(a, b []string) bool {
	if len(a) != len(b) {
		return false
	}
	for i := range a {
		if a[i] != b[i] {
			return false
		}
	}
	return true
}

// run plays the history: the abnormal response(s), the response under
// judgement, the two neutral calls.
func (h *c13HistRunner) run(c c13HistCase) (verdicts []c13Verdict, outcome string) {
	if _, ok := h.isolated[c.Second]; !ok {
		verdicts = append(verdicts, h.baseline(c.Second)...)
	}
	for _, n := range c13HistNeutral {
		if _, ok := h.isolated[n]; !ok {
			verdicts = append(verdicts, h.baseline(n)...)
		}
	}
	def := c13HistSecondDefOf(c.Second.Name)
	kinds := c.kinds()
	for _, f := range c.Firsts {
		if _, pk := h.pl.exchange(f.script()); pk != "" {
			verdicts = append(verdicts, c13Verdict{"panic:history:" + f.kind(), "capture pipeline panicked on an abnormal response: " + f.String() + "\n" + pk})
		}
	}
	msgs, pk := h.pl.exchange(c.Second.script())
	if pk != "" {
		verdicts = append(verdicts, c13Verdict{"panic:history:" + def.Format + ":after-" + kinds, "capture pipeline panicked: " + c.String() + "\n" + pk})
	}
	iso := h.isolated[c.Second]
	outcome = "silent"
	if len(msgs) > 0 {
		outcome = "flagged"
	}
	switch {
	case !c13SameMsgs(msgs, iso):
		outcome = "differs-from-isolation"
		what := "well-formed"
		if def.Expect == "feedback" {
			what = "malformed"
		}
		verdicts = append(verdicts, c13Verdict{"history-dependent-feedback:" + def.Format + ":after-" + kinds,
			fmt.Sprintf("the %s response %s (chunk=%d) drew feedback %s when examined after [%s]; examined on its own it draws %s. "+
				"Same process, same capturing transport, same goroutine, GOMAXPROCS=1, no collection in between.\nhistory: %s",
				what, c.Second.Name, c.Second.Chunk, c13Trunc(fmt.Sprintf("%q", msgs), 900), kinds, c13Trunc(fmt.Sprintf("%q", iso), 400), c.String())})
	case def.Expect == "feedback" && len(msgs) == 0:
		verdicts = append(verdicts, c13Verdict{"malformation-not-flagged:after-history:" + c13Slug(c.Second.Name), "history: " + c.String()})
	}
	for _, n := range c13HistNeutral {
		nm, npk := h.pl.exchange(n.script())
		if npk != "" || !c13SameMsgs(nm, h.isolated[n]) {
			outcome = "later-call-differs-from-isolation"
			verdicts = append(verdicts, c13Verdict{"history-dependent-feedback:" + c13HistSecondDefOf(n.Name).Format + ":two-calls-after-" + kinds,
				fmt.Sprintf("the well-formed response %s, examined after the history below, drew feedback %s (on its own: %q) %s\nhistory: %s",
					n.Name, c13Trunc(fmt.Sprintf("%q", nm), 900), h.isolated[n], npk, c.String())})
		}
	}
	return verdicts, outcome
}

// c13Pin makes pooled-object hand-off between consecutive calls deterministic:
// one P, the goroutine tied to its thread, no garbage collection unless asked for.
func c13Pin() (unpin func()) {
	runtime.LockOSThread()
	procs := runtime.GOMAXPROCS(1)
	gc := debug.SetGCPercent(-1)
	return func() {
		debug.SetGCPercent(gc)
		runtime.GOMAXPROCS(procs)
		runtime.UnlockOSThread()
	}
}

func c13HistoryPhase(x *c13Run_, thorough bool) {
	r := x.r
	if x.stopped {
		return
	}
	defer c13Pin()()
	h := c13NewHistRunner()
	firsts := c13HistFirsts(thorough)
	seconds := c13HistSeconds(thorough)
	r.Extra["histories"] = map[string]any{"abnormal_first_responses": len(firsts), "judged_second_responses": len(seconds),
		"pairs": len(firsts) * len(seconds), "gomaxprocs": 1, "gc": "off during a history, forced between histories (every 128)"}
	// every shard establishes the isolated verdicts itself
	for _, s := range seconds {
		for _, v := range h.baseline(s) {
			r.Violate(v.Key, v.Detail, c13Replay{Hist: &c13HistCase{Second: s}})
		}
		r.Eval(1)
	}
	var done int64
	one := func(c c13HistCase) bool {
		if !x.mine() {
			return !x.stopped
		}
		verdicts, outcome := h.run(c)
		r.Eval(1)
		r.NonTrivial("")
		r.Count("cases:histories", 1)
		r.Count("exchanges:histories", int64(len(c.Firsts)+1+len(c13HistNeutral)))
		r.Outcome("histories:" + c13HistSecondDefOf(c.Second.Name).Format + ":" + c13HistSecondDefOf(c.Second.Name).Expect + ":" + outcome)
		r.Count("histories:after-"+c.Firsts[len(c.Firsts)-1].kind(), 1)
		if x.k%4001 == 1 {
			r.Sample(map[string]any{"phase": "histories", "history": c.String(), "observed": outcome})
		}
		for _, v := range verdicts {
			c := c
			r.Violate(v.Key, v.Detail, c13Replay{Hist: &c})
		}
		if done++; done%128 == 0 { // between two histories: keeps the heap small although the collector is off
			runtime.GC()
		}
		return true
	}
	for _, f := range firsts {
		for _, s := range seconds {
			if !one(c13HistCase{Firsts: []c13HistFirst{f}, Second: s}) {
				return
			}
		}
	}
	if thorough {
		tf := c13HistTripleFirsts()
		short := []c13HistSecond{{"connect:metadata", 0}, {"connect:error-connect-go", 0}, {"grpcweb:ok", 0}, {"grpcweb:error-repo", 0},
			{"connect-unary:error-connect-go", 0}, {"grpcweb:two-statuses", 0}}
		for _, a := range tf {
			for _, b := range tf {
				for _, s := range short {
					if !one(c13HistCase{Firsts: []c13HistFirst{a, b}, Second: s}) {
						return
					}
				}
			}
		}
	}
}

func c13ReplayHistory(r *rep.Report, c c13HistCase) {
	defer c13Pin()()
	h := c13NewHistRunner()
	verdicts, outcome := h.run(c)
	fmt.Fprintf(os.Stderr, "replay history %s -> %s\nisolated feedback of %s: %q\n", c.String(), outcome, c.Second.Name, h.isolated[c.Second])
	for _, v := range verdicts {
		fmt.Fprintf(os.Stderr, "  %s\n  %s\n", v.Key, strings.ReplaceAll(v.Detail, "\n", "\n  "))
		r.Violate(v.Key, v.Detail, c13Replay{Hist: &c})
	}
	r.Sample(c.String())
}

// ---------------------------------------------------------------- sizes

// c13SizeCase: one well-formed response in which the examined unit (error body,
// end-stream payload, trailer block, trailer set) has exactly Size bytes.
type c13SizeCase struct {
	Shape    string `json:"shape"`    // connect-unary | connect-end-stream | grpc-web-block | grpc-web-trailers-only | grpc-trailers | grpc-trailers-only
	Renderer string `json:"renderer"` // ref (spec encoder of the harness) | connect-go (ErrorWriter) | repo (the reference server's encoders)
	Pad      string `json:"pad"`      // what supplies the bulk: message | detail
	Enc      string `json:"enc"`      // identity | gzip
	Size     int    `json:"size"`
	Chunk    int    `json:"chunk"`
}

func (c c13SizeCase) String() string {
	return fmt.Sprintf("%s renderer=%s bulk=%s enc=%s size=%d chunk=%d", c.Shape, c.Renderer, c.Pad, c.Enc, c.Size, c.Chunk)
}

func (c c13SizeCase) format() string {
	switch c.Shape {
	case "connect-unary":
		return "connect-unary-error"
	case "connect-end-stream":
		return "connect-end-stream"
	case "grpc-web-block", "grpc-web-trailers-only":
		return "grpc-web-trailers"
	}
	return "grpc-trailers"
}

// c13PadText: n visible ASCII characters, no blank at either end, nothing that
// any of the encodings escapes (so one character is one byte everywhere).
func c13PadText(n int) string {
	const unit = "the quick brown fox jumps over the lazy dog, "
	s := strings.Repeat(unit, n/len(unit)+1)[:n]
	if n > 0 && s[n-1] == ' ' {
		s = s[:n-1] + "."
	}
	return s
}

// c13HeaderSize: the size of a field set rendered as "name: value CRLF" lines.
func c13HeaderSize(h http.Header) int {
	n := 0
	for k, vs := range h {
		for _, v := range vs {
			n += len(k) + 2 + len(v) + 2
		}
	}
	return n
}

type c13Rendered struct {
	body    []byte      // the measured unit when it is a byte string
	header  http.Header // the measured unit when it is a field set (nil otherwise); response headers otherwise
	status  int
	measure int
}

// render builds the response unit for the given amount of bulk (message
// characters or detail bytes) and of exact fill (message characters for the
// JSON formats, characters of the custom field x-pad for the trailer formats).
func (c c13SizeCase) render(bulk, fill int) c13Rendered {
	e := c13Err{Code: 1 + c.Size%16}
	jsonShape := c.Shape == "connect-unary" || c.Shape == "connect-end-stream"
	// the message is never empty (an empty one is omitted by some encoders, which would break the unit slope of the fill)
	msgLen := 1
	if c.Pad == "message" {
		msgLen += bulk
	} else {
		e.Details = []string{fmt.Sprintf("big:%d", bulk)}
	}
	if jsonShape {
		msgLen += fill
	} else {
		e.Meta = fmt.Sprintf("pad:%d", fill)
	}
	e.Msg = c13PadText(msgLen)
	var out c13Rendered
	switch c.Shape + "/" + c.Renderer {
	case "connect-unary/ref":
		out.body, out.status = []byte(c13ErrTree(e, true, false).text(c13JStyle{})), 400+e.Code
	case "connect-unary/connect-go":
		rec := c13ErrorWriterRender(e, "application/proto")
		out.body, out.status = rec.Body.Bytes(), rec.Code
	case "connect-end-stream/ref":
		out.body = []byte(c13EndStreamTree(&e, true, nil, false, true).text(c13JStyle{}))
	case "connect-end-stream/connect-go":
		end, ok := c13EndStreamOf(c13ErrorWriterRender(e, "application/connect+proto").Body.Bytes(), 2)
		if !ok {
			panic("connect-go ErrorWriter wrote no end-stream envelope")
		}
		out.body = []byte(end)
	case "grpc-web-block/ref":
		out.body = []byte(c13Block(c13RefTrailerPairs(e, false, false), ": "))
	case "grpc-web-block/repo":
		out.body = []byte(referenceserver.VerifC13GRPCWebStatusEndStream(c13ConnectError(e), c13Meta(e.Meta)))
	case "grpc-web-trailers-only/connect-go":
		out.header = c13ErrorWriterRender(e, "application/grpc-web+proto").Result().Header
	case "grpc-trailers/ref", "grpc-trailers-only/ref":
		out.header = c13HeaderOf(c13RefTrailerPairs(e, false, false))
	case "grpc-trailers/repo", "grpc-trailers-only/repo":
		out.header = http.Header{}
		internal.AddHeaders(referenceserver.VerifC13GRPCStatusTrailers(c13ConnectError(e)), out.header)
		internal.AddHeaders(c13Meta(e.Meta), out.header)
	default:
		panic("bad size shape " + c.Shape + "/" + c.Renderer)
	}
	if out.header != nil {
		out.measure = c13HeaderSize(out.header)
	} else {
		out.measure = len(out.body)
	}
	return out
}

var errC13Infeasible = errors.New("size below the smallest rendering")

// fit finds the rendering whose measured unit has exactly c.Size bytes.
func (c c13SizeCase) fit() (c13Rendered, error) {
	hasBulk := !(c.Pad == "message" && (c.Shape == "connect-unary" || c.Shape == "connect-end-stream"))
	l0 := c.render(0, 0).measure
	if l0 > c.Size {
		return c13Rendered{}, errC13Infeasible
	}
	bulk := 0
	if hasBulk {
		// the bulk knob has a fractional slope (base64, nested length prefixes): stay a little below, fill the rest exactly
		l1 := c.render(3000, 0).measure
		slope := float64(l1-l0) / 3000
		bulk = max(0, int(float64(c.Size-l0-48)/slope))
	}
	out := c.render(bulk, 0)
	for i := 0; bulk > 0 && out.measure > c.Size && i < 8; i++ {
		bulk = max(0, bulk-16-bulk/64)
		out = c.render(bulk, 0)
	}
	if out.measure > c.Size {
		return c13Rendered{}, fmt.Errorf("cannot fit %s: bulk %d already gives %d bytes", c, bulk, out.measure)
	}
	if fill := c.Size - out.measure; fill > 0 {
		out = c.render(bulk, fill)
		if out.measure != c.Size {
			return c13Rendered{}, fmt.Errorf("cannot fit %s: bulk %d fill %d gives %d bytes", c, bulk, fill, out.measure)
		}
	}
	return out, nil
}

func (c c13SizeCase) script() (*c13Script, error) {
	rd, err := c.fit()
	if err != nil {
		return nil, err
	}
	gz := c.Enc == "gzip"
	var sc *c13Script
	switch c.Shape {
	case "connect-unary":
		sc = &c13Script{Status: rd.status, Header: http.Header{"Content-Type": {"application/json"}}, Body: rd.body}
		if gz {
			sc.Header.Set("Content-Encoding", "gzip")
			sc.Body = c13Gzip(rd.body)
		}
	case "connect-end-stream":
		if gz {
			sc = c13StreamScript("connect", true, c13Envelope(3, c13Gzip(rd.body)))
		} else {
			sc = c13StreamScript("connect", false, c13Envelope(2, rd.body))
		}
	case "grpc-web-block":
		sc = c13StreamScript("grpcweb", false, c13Envelope(0x80, rd.body))
	case "grpc-web-trailers-only":
		sc = &c13Script{Status: 200, Header: rd.header}
	case "grpc-trailers":
		sc = &c13Script{HTTP2: true, Status: 200, Header: http.Header{"Content-Type": {"application/grpc+proto"}}, Body: c13Envelope(0, []byte("d")), Trailer: rd.header}
	case "grpc-trailers-only":
		sc = &c13Script{HTTP2: true, Status: 200, Header: rd.header.Clone()}
		sc.Header.Set("Content-Type", "application/grpc")
	default:
		panic("bad shape " + c.Shape)
	}
	sc.End, sc.Chunk = "eof", c.Chunk
	return sc, nil
}

// c13SizeCases: sizes ascending (smallest first); for every size every shape.
func c13SizeCases(thorough bool) []c13SizeCase {
	type combo struct {
		shape, renderer string
		encs            []string
		stream          bool
	}
	both := []string{"identity", "gzip"}
	ident := []string{"identity"}
	combos := []combo{
		{"connect-unary", "ref", both, false}, {"connect-unary", "connect-go", both, false},
		{"connect-end-stream", "ref", both, true}, {"connect-end-stream", "connect-go", both, true},
		{"grpc-web-block", "ref", ident, true}, {"grpc-web-block", "repo", ident, true},
		{"grpc-web-trailers-only", "connect-go", ident, false},
		{"grpc-trailers", "ref", ident, false}, {"grpc-trailers", "repo", ident, false},
		{"grpc-trailers-only", "repo", ident, false},
	}
	kMax := 20
	deltas := []int{-1, 0, 1}
	// enveloped: also payload sizes that put the envelope (5-byte prefix included) just below / at / above the power of two
	streamDeltas := []int{-6, -5, -4, -1, 0, 1}
	chunks := []int{0}
	if thorough {
		kMax = 22
		deltas = []int{-2, -1, 0, 1, 2}
		streamDeltas = []int{-7, -6, -5, -4, -3, -2, -1, 0, 1, 2}
		chunks = []int{0, 1000}
	}
	var out []c13SizeCase
	for k := 10; k <= kMax; k++ {
		// quick tier, 2^18 and up: one renderer per shape (the first), and for the enveloped shapes the
		// deltas -5 (envelope = 2^k), -1, 0, +1; everything else as below
		reduced := !thorough && k >= 18
		seenShape := map[string]bool{}
		for _, cb := range combos {
			if reduced && seenShape[cb.shape] {
				continue
			}
			seenShape[cb.shape] = true
			ds := deltas
			if cb.stream {
				ds = streamDeltas
				if reduced {
					ds = []int{-5, -1, 0, 1}
				}
			}
			for _, d := range ds {
				for _, pad := range []string{"message", "detail"} {
					for _, enc := range cb.encs {
						for _, ch := range chunks {
							out = append(out, c13SizeCase{cb.shape, cb.renderer, pad, enc, 1<<k + d, ch})
						}
					}
				}
			}
		}
	}
	return out
}

func c13JudgeSize(pl *c13Pipeline, c c13SizeCase) (verdicts []c13Verdict, outcome string, harnessErr string) {
	sc, err := c.script()
	if err != nil {
		return nil, "", err.Error()
	}
	msgs, pk := pl.exchange(sc)
	if pk != "" {
		return []c13Verdict{{"panic:" + c.format() + ":at-size-threshold", "capture pipeline panicked on " + c.String() + "\n" + pk}}, "panic", ""
	}
	seen := map[string]bool{}
	for _, m := range msgs {
		key := "false-feedback:" + c.format() + ":at-size-threshold:" + c13Slug(c13Class(m))
		if seen[key] {
			continue
		}
		seen[key] = true
		verdicts = append(verdicts, c13Verdict{key, fmt.Sprintf("well-formed response whose %s measures exactly %d bytes (%s), read through the capturing transport and examined by examineWireDetails, drew feedback %s",
			c.format(), c.Size, c.String(), c13Trunc(fmt.Sprintf("%q", strings.TrimSuffix(m, "\n")), 400))})
	}
	if len(msgs) == 0 {
		return verdicts, "silent", ""
	}
	return verdicts, "flagged", ""
}

func c13SizePhase(x *c13Run_, thorough bool) {
	r := x.r
	if x.stopped {
		return
	}
	// one P: the stage allocates by the megabyte; with one shard per core a single P keeps the collector's
	// helpers from fighting over the other (busy) cores. Has no bearing on what is examined.
	defer runtime.GOMAXPROCS(runtime.GOMAXPROCS(1))
	pl := c13NewPipeline()
	cases := c13SizeCases(thorough)
	r.Extra["sizes"] = map[string]any{"cases": len(cases), "smallest": cases[0].Size, "largest": cases[len(cases)-1].Size}
	harnessErrs := 0
	for _, c := range cases {
		if !x.mine() {
			if x.stopped {
				return
			}
			continue
		}
		verdicts, outcome, herr := c13JudgeSize(pl, c)
		if herr != "" {
			if harnessErrs++; harnessErrs <= 5 {
				x.t.Errorf("sizes stage, %s: %s", c, herr)
			}
			continue
		}
		r.Eval(1)
		r.NonTrivial("")
		r.Count("cases:sizes", 1)
		r.Count("cases:sizes:"+c.Shape, 1)
		r.Outcome("sizes:" + c.Shape + ":" + c.Enc + ":" + outcome)
		if x.k%401 == 1 {
			r.Sample(map[string]any{"phase": "sizes", "case": c.String(), "observed": outcome})
		}
		for _, v := range verdicts {
			c := c
			r.Violate(v.Key, v.Detail, c13Replay{Size: &c})
		}
	}
}
