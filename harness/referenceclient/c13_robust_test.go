package referenceclient

// C13 robustness: every short byte string into every examiner (never a panic),
// plus typed grammars (every combination of member values of the documents /
// trailer trio, well-formed or not) judged by a small reference model written
// from the protocol specifications.

import (
	"fmt"
	"net/http"
	"strings"

	"google.golang.org/protobuf/types/known/anypb"
)

// Targets: where an arbitrary byte string is put.
var c13RobustTargets = []string{
	"connect-unary-error", "connect-end-stream", "grpc-web-block",
	"value:grpc-status", "value:grpc-message", "value:grpc-status-details-bin", "value:x-bin",
	"json:error-member", "json:details-element", "json:detail-debug", "json:detail-value-string", "json:metadata-member", "json:metadata-key-string",
	"block:name", "block:value",
	"wire:application/json", "wire:application/connect+proto", "wire:application/grpc-web+proto", "wire:trailers-only-header",
}

func c13RobustCase(target string, s string) *c13Case {
	c := &c13Case{Phase: "robust", Class: target, Expect: "nopanic", Origin: fmt.Sprintf("%q", s)}
	emptyVal := "" // google.protobuf.Empty
	switch target {
	case "connect-unary-error":
		c.Format, c.Input = "connect-unary-error", []byte(s)
	case "connect-end-stream":
		c.Format, c.Input = "connect-end-stream", []byte(s)
	case "grpc-web-block":
		c.Format, c.Input = "grpc-web-trailers", []byte(s)
	case "value:grpc-status":
		c.Format, c.Hdr = "grpc-trailers", []c13HV{{"Grpc-Status", []byte(s)}, {"Grpc-Message", []byte("m")}}
	case "value:grpc-message":
		c.Format, c.Hdr = "grpc-trailers", []c13HV{{"Grpc-Status", []byte("3")}, {"Grpc-Message", []byte(s)}, {"Grpc-Status-Details-Bin", []byte(c13StatusBin(3, "m", nil))}}
	case "value:grpc-status-details-bin":
		c.Format, c.Hdr = "grpc-trailers", []c13HV{{"Grpc-Status", []byte("3")}, {"Grpc-Message", []byte("m")}, {"Grpc-Status-Details-Bin", []byte(s)}}
	case "value:x-bin":
		c.Format, c.Hdr = "binary-metadata", []c13HV{{"X-Bin", []byte(s)}, {"x-other-bin", []byte(s)}, {"Grpc-Status-Details-Bin", []byte(s)}}
	case "json:error-member":
		c.Format, c.Input = "connect-end-stream", []byte(`{"error":`+s+`}`)
	case "json:details-element":
		c.Format, c.Input = "connect-unary-error", []byte(`{"code":"internal","details":[`+s+`]}`)
	case "json:detail-debug":
		c.Format, c.Input = "connect-unary-error", []byte(`{"code":"internal","details":[{"type":"google.protobuf.Empty","value":"`+emptyVal+`","debug":`+s+`}]}`)
	case "json:detail-value-string":
		c.Format, c.Input = "connect-unary-error", []byte(`{"code":"internal","details":[{"type":"google.rpc.Status","debug":{},"value":"`+s+`"}]}`)
	case "json:metadata-member":
		c.Format, c.Input = "connect-end-stream", []byte(`{"metadata":`+s+`}`)
	case "json:metadata-key-string":
		c.Format, c.Input = "connect-end-stream", []byte(`{"metadata":{"`+s+`":["`+s+`"]}}`)
	case "block:name":
		c.Format, c.Input = "grpc-web-trailers", []byte("grpc-status: 0\r\n"+s+": v\r\n")
	case "block:value":
		c.Format, c.Input = "grpc-web-trailers", []byte("x-a: "+s+"\r\ngrpc-status:"+s+"\r\ngrpc-message:"+s+"\r\n")
	case "wire:application/json":
		c.Format, c.Wire, c.WireB = "wire", &c13Wire{ContentType: "application/json", Status: 500}, []byte(s)
	case "wire:application/connect+proto":
		x := ""
		c.Format, c.Wire, c.WireB = "wire", &c13Wire{ContentType: "application/connect+proto", Status: 200, EndStream: &x}, []byte(s)
	case "wire:application/grpc-web+proto":
		x := ""
		c.Format, c.Wire, c.WireB = "wire", &c13Wire{ContentType: "application/grpc-web+proto", Status: 200, EndStream: &x, Trailer: http.Header{"X": {s}}}, []byte(s)
	case "wire:trailers-only-header":
		c.Format, c.Wire = "wire", &c13Wire{ContentType: "application/grpc-web", Status: 200, Header: http.Header{"Grpc-Status": {s}, "Grpc-Message": {s}, "Grpc-Status-Details-Bin": {s}}}
	default:
		panic("bad target " + target)
	}
	return c
}

// JSON / trailer alphabet of the robustness enumeration.
var c13RobustAlphabet = []byte{'{', '}', '"', ':', ',', '[', ']', '\r', '\n', '%', 'a', '1', ' '}

// c13ShortStrings enumerates, shortest first: every byte string of length <= 2,
// then every string of length 3..maxLen over the alphabet.
func c13ShortStrings(maxLen int, yield func(s string) bool) {
	if !yield("") {
		return
	}
	for a := 0; a < 256; a++ {
		if !yield(string([]byte{byte(a)})) {
			return
		}
	}
	for a := 0; a < 256; a++ {
		for b := 0; b < 256; b++ {
			if !yield(string([]byte{byte(a), byte(b)})) {
				return
			}
		}
	}
	n := len(c13RobustAlphabet)
	for l := 3; l <= maxLen; l++ {
		idx := make([]int, l)
		buf := make([]byte, l)
		for {
			for i, x := range idx {
				buf[i] = c13RobustAlphabet[x]
			}
			if !yield(string(buf)) {
				return
			}
			p := l - 1
			for p >= 0 {
				idx[p]++
				if idx[p] < n {
					break
				}
				idx[p] = 0
				p--
			}
			if p < 0 {
				break
			}
		}
	}
}

// ---------------------------------------------------------------- typed grammars

type c13Opt struct {
	Text string // JSON text of the member value; "" = member absent
	Bad  bool   // the reference model calls this malformed
	Skip bool   // outside the model (no oracle, robustness only)
}

const c13HeaderType = "connectrpc.conformance.v1.Header"

func c13TypedDetailObjects() []c13Opt {
	hdr := c13DetailDefOf("header")
	val := c13B64(c13MustMarshal(hdr.Msg))
	typeVals := []c13Opt{{"", true, false}, {`"` + c13HeaderType + `"`, false, false}, {`"not.Registered"`, false, false}, {`"bad/name"`, true, false},
		{`""`, true, false}, {"null", true, false}, {"1", true, false}, {"[]", true, false}, {"{}", true, false}}
	valueVals := []c13Opt{{"", true, false}, {`"` + val + `"`, false, false}, {`""`, false, false}, {`"` + val + `="`, true, false}, {`"*"`, true, false},
		{"null", true, false}, {"1", true, false}, {"[]", true, false}, {"{}", true, false}}
	debugVals := []c13Opt{{"", false, false}, {c13DebugJSON(hdr.Msg), false, false}, {c13DebugJSON(hdr.Alt), true, false},
		{"null", false, true}, {"1", false, true}, {`"s"`, false, true}, {"[]", false, true}, {"{}", false, true}, {`{"zzz":1}`, false, true}}
	extraVals := []c13Opt{{"", false, false}, {"1", true, false}}
	var out []c13Opt
	for ti, t := range typeVals {
		for vi, v := range valueVals {
			for di, d := range debugVals {
				for _, x := range extraVals {
					var members []string
					if t.Text != "" {
						members = append(members, `"type":`+t.Text)
					}
					if d.Text != "" {
						members = append(members, `"debug":`+d.Text)
					}
					if v.Text != "" {
						members = append(members, `"value":`+v.Text)
					}
					if x.Text != "" {
						members = append(members, `"zzz":`+x.Text)
					}
					o := c13Opt{Text: "{" + strings.Join(members, ",") + "}"}
					o.Bad = t.Bad || v.Bad || x.Bad
					// The debug member can only be judged against a resolvable type and a decodable value.
					if d.Text != "" {
						switch {
						case d.Skip:
							o.Skip = true
						case ti != 1 || (vi != 1 && vi != 2):
							o.Skip = true // unregistered type / undecodable value: no claim either way
						case vi == 2:
							o.Skip = true // value is the empty message: neither debug text agrees by construction
						case di == 2:
							o.Bad = true
						}
					}
					out = append(out, o)
				}
			}
		}
	}
	return out
}

func c13TypedConnectErrors(full bool, yield func(*c13Case)) {
	codeVals := []c13Opt{{"", true, false}, {`"internal"`, false, false}, {`"bogus"`, true, false}, {`""`, true, false}, {"null", true, false},
		{"13", true, false}, {"true", true, false}, {"[]", true, false}, {"{}", true, false}}
	msgVals := []c13Opt{{"", false, false}, {`"m"`, false, false}, {`""`, false, false}, {"null", true, false}, {"1", true, false}, {"[]", true, false}, {"{}", true, false}}
	detailsVals := []c13Opt{{"", false, false}, {"null", true, false}, {"1", true, false}, {`"x"`, true, false}, {"{}", true, false}, {"[]", false, false},
		{"[null]", true, false}, {"[1]", true, false}, {`["x"]`, true, false}, {"[[]]", true, false}, {"[{}]", true, false}}
	objs := c13TypedDetailObjects()
	good := objs[0]
	for _, o := range objs {
		if !o.Bad && !o.Skip && strings.Contains(o.Text, `"debug"`) {
			good = o
			break
		}
	}
	for _, o := range objs {
		detailsVals = append(detailsVals, c13Opt{"[" + o.Text + "]", o.Bad, o.Skip})
	}
	step := 1
	if !full {
		step = 7 // quick tier: every 7th two-element list (all one-element lists are always covered)
	}
	for i := 0; i < len(objs); i += step {
		o := objs[i]
		detailsVals = append(detailsVals, c13Opt{"[" + good.Text + "," + o.Text + "]", o.Bad, o.Skip})
		detailsVals = append(detailsVals, c13Opt{"[" + o.Text + "," + good.Text + "]", o.Bad, o.Skip})
	}
	extraVals := []c13Opt{{"", false, false}, {"1", true, false}}
	for _, cd := range codeVals {
		for _, m := range msgVals {
			for _, d := range detailsVals {
				for _, x := range extraVals {
					var members []string
					if d.Text != "" {
						members = append(members, `"details":`+d.Text)
					}
					if m.Text != "" {
						members = append(members, `"message":`+m.Text)
					}
					if cd.Text != "" {
						members = append(members, `"code":`+cd.Text)
					}
					if x.Text != "" {
						members = append(members, `"Code":`+x.Text)
					}
					c := &c13Case{Phase: "typed", Format: "connect-unary-error", Class: "typed-error-grammar", Input: []byte("{" + strings.Join(members, ",") + "}")}
					bad := cd.Bad || m.Bad || d.Bad || x.Bad
					switch {
					case bad:
						c.Expect = "feedback"
					case d.Skip:
						c.Expect = "nopanic"
					default:
						c.Expect = "silent"
					}
					c.Origin = "typed grammar"
					yield(c)
				}
			}
		}
	}
}

func c13TypedEndStreams(yield func(*c13Case)) {
	errVals := []c13Opt{{"", false, false}, {`{"code":"internal"}`, false, false}, {`{"code":"internal","message":"m","details":[]}`, false, false},
		{"{}", true, false}, {`{"code":"bogus"}`, true, false}, {"null", true, false}, {"1", true, false}, {`"x"`, true, false}, {"[]", true, false}, {`[{"code":"internal"}]`, true, false}}
	metaVals := []c13Opt{{"", false, false}, {"{}", false, false}, {`{"k":["v"]}`, false, false}, {`{"k":[]}`, false, false}, {`{"K-k":["v","w"],"l":[""]}`, false, false},
		{`{"k-bin":["AAEC"]}`, false, false},
		{`{"k":"v"}`, true, false}, {`{"k":[1]}`, true, false}, {`{"k":null}`, true, false}, {`{"k":[null]}`, true, false}, {`{"k":[["v"]]}`, true, false}, {`{"k":{"v":"v"}}`, true, false},
		{`{"b d":["v"]}`, true, false}, {`{"k:":["v"]}`, true, false}, {`{"k\u0000":["v"]}`, true, false}, {`{"ké":["v"]}`, true, false},
		{`{"k":["\u0000"]}`, true, false}, {`{"k":["a\nb"]}`, true, false}, {`{"k":["\u007f"]}`, true, false}, {`{"k":["v"],"k":["w"]}`, true, false},
		{"null", true, false}, {"1", true, false}, {`"x"`, true, false}, {"[]", true, false}, {`[{"k":"v"}]`, true, false}}
	extraVals := []c13Opt{{"", false, false}, {`"zzz":1`, true, false}, {`"Error":{}`, true, false}, {`"code":"internal"`, true, false}}
	for _, e := range errVals {
		for _, m := range metaVals {
			for _, x := range extraVals {
				for order := 0; order < 2; order++ {
					var members []string
					if e.Text != "" {
						members = append(members, `"error":`+e.Text)
					}
					if m.Text != "" {
						members = append(members, `"metadata":`+m.Text)
					}
					if order == 1 {
						if len(members) < 2 {
							continue
						}
						members[0], members[1] = members[1], members[0]
					}
					if x.Text != "" {
						members = append(members, x.Text)
					}
					c := &c13Case{Phase: "typed", Format: "connect-end-stream", Class: "typed-end-stream-grammar", Origin: "typed grammar",
						Input: []byte("{" + strings.Join(members, ", ") + "}"), Expect: "silent"}
					if e.Bad || m.Bad || x.Bad {
						c.Expect = "feedback"
					}
					yield(c)
				}
			}
		}
	}
}

// c13TypedTrailers: every combination of status / message / details-bin forms.
func c13TypedTrailers(yield func(*c13Case)) {
	type opt struct {
		lines []string // values of the field (0, 1 or 2 occurrences)
		bad   bool
		code  int    // numeric value when well-formed, -1 otherwise
		msg   string // decoded message when well-formed
		has   bool
	}
	anyEmpty := []*anypb.Any{c13MustAny(c13Detail("empty"))}
	statusVals := []opt{{nil, true, -1, "", false}, {[]string{"0"}, false, 0, "", true}, {[]string{"5"}, false, 5, "", true}, {[]string{"16"}, false, 16, "", true},
		{[]string{"17"}, true, -1, "", true}, {[]string{"-1"}, true, -1, "", true}, {[]string{"abc"}, true, -1, "", true}, {[]string{""}, true, -1, "", true}, {[]string{"5", "5"}, true, -1, "", true}}
	msgVals := []opt{{nil, false, 0, "", false}, {[]string{""}, false, 0, "", true}, {[]string{"foo"}, false, 0, "foo", true}, {[]string{"f%6Fo"}, false, 0, "foo", true},
		{[]string{"%C3%A9 b"}, false, 0, "é b", true}, {[]string{"%"}, true, 0, "", true}, {[]string{"%zz"}, true, 0, "", true}, {[]string{"fo\xc3\xa9"}, true, 0, "", true},
		{[]string{"foo", "foo"}, true, 0, "", true}}
	type bin struct {
		val  []string
		bad  bool
		code int
		msg  string
		det  bool
		has  bool
	}
	binVals := []bin{{nil, false, 0, "", false, false},
		{[]string{c13StatusBin(5, "foo", anyEmpty)}, false, 5, "foo", true, true},
		{[]string{c13StatusBin(5, "foo", nil)}, false, 5, "foo", false, true},
		{[]string{c13StatusBin(5, "é b", anyEmpty)}, false, 5, "é b", true, true},
		{[]string{c13StatusBin(5, "", anyEmpty)}, false, 5, "", true, true},
		{[]string{c13StatusBin(0, "", nil)}, false, 0, "", false, true},
		{[]string{c13StatusBin(0, "", anyEmpty)}, false, 0, "", true, true},
		{[]string{c13StatusBin(16, "foo", anyEmpty)}, false, 16, "foo", true, true},
		{[]string{c13StatusBin(5, "foo", anyEmpty) + "="}, true, 0, "", false, true},
		{[]string{"*"}, true, 0, "", false, true},
		{[]string{c13B64([]byte{0xff})}, true, 0, "", false, true},
		{[]string{c13StatusBin(5, "foo", anyEmpty), c13StatusBin(5, "foo", anyEmpty)}, true, 0, "", false, true}}
	for _, s := range statusVals {
		for _, m := range msgVals {
			for _, b := range binVals {
				bad := s.bad || m.bad || b.bad
				if !s.bad && s.code == 0 && m.has && !m.bad && m.msg != "" {
					bad = true // OK status with a message
				}
				if b.has && !b.bad {
					if !s.bad && s.code != b.code {
						bad = true
					}
					if m.has && !m.bad && m.msg != b.msg {
						bad = true
					}
					if b.code == 0 && b.det {
						bad = true
					}
				}
				var ls []c13Line
				for _, v := range s.lines {
					ls = append(ls, c13Line{"grpc-status", v})
				}
				for _, v := range m.lines {
					ls = append(ls, c13Line{"grpc-message", v})
				}
				for _, v := range b.val {
					ls = append(ls, c13Line{"grpc-status-details-bin", v})
				}
				expect := "silent"
				if bad {
					expect = "feedback"
				}
				h := http.Header{}
				for _, l := range ls {
					h.Add(l.K, l.V)
				}
				yield(&c13Case{Phase: "typed", Format: "grpc-trailers", Class: "typed-status-trio", Expect: expect, Hdr: c13HVOf(h), Origin: "typed grammar"})
				if len(ls) > 0 {
					yield(&c13Case{Phase: "typed", Format: "grpc-web-trailers", Class: "typed-status-trio", Expect: expect, Input: []byte(c13RenderLines(ls)), Origin: "typed grammar"})
				}
			}
		}
	}
}

// ---------------------------------------------------------------- duplicate keys at every nesting level

// c13DupKeyDocs enumerates JSON documents completely up to a nesting bound:
//
//	level 2: every value of depth <= 2 over scalars {1,"a",null}, keys {a,b},
//	         objects of <= 2 members, arrays of <= 2 elements;
//	deeper:  every value of depth <= 2 over the scalar {1} (same shapes), put
//	         into each of seven wrappers that add one or two levels of array /
//	         object nesting (so a duplicate sits below arrays, objects and mixes).
//
// The oracle (does any object of the document repeat a key?) is computed on the
// generator's own tree, not by parsing.
type c13Doc struct {
	Text string
	Dup  bool
}

func c13DocLevel(prev []c13Doc, scalars []string) []c13Doc {
	var out []c13Doc
	for _, s := range scalars {
		out = append(out, c13Doc{s, false})
	}
	keys := []string{"a", "b"}
	out = append(out, c13Doc{"{}", false}, c13Doc{"[]", false})
	for _, k := range keys {
		for _, v := range prev {
			out = append(out, c13Doc{`{"` + k + `":` + v.Text + `}`, v.Dup})
		}
	}
	for _, k1 := range keys {
		for _, v1 := range prev {
			for _, k2 := range keys {
				for _, v2 := range prev {
					out = append(out, c13Doc{`{"` + k1 + `":` + v1.Text + `,"` + k2 + `":` + v2.Text + `}`, v1.Dup || v2.Dup || k1 == k2})
				}
			}
		}
	}
	for _, v := range prev {
		out = append(out, c13Doc{"[" + v.Text + "]", v.Dup})
	}
	for _, v1 := range prev {
		for _, v2 := range prev {
			out = append(out, c13Doc{"[" + v1.Text + "," + v2.Text + "]", v1.Dup || v2.Dup})
		}
	}
	return out
}

func c13DupKeyDocs(thorough bool, yield func(*c13Case)) {
	emit := func(d c13Doc, where string) {
		c := &c13Case{Phase: "dupkeys", Format: "json-dup-keys", Class: "dup-key-nested", Expect: "silent", Input: []byte(d.Text), Origin: where}
		if d.Dup {
			c.Expect = "feedback"
		}
		yield(c)
	}
	full := []string{"1", `"a"`, "null"}
	l0 := []c13Doc{{"1", false}, {`"a"`, false}, {"null", false}, {"{}", false}, {"[]", false}}
	l1 := c13DocLevel(l0, full)
	for _, d := range c13DocLevel(l1, full) {
		emit(d, "depth<=2, full alphabet")
	}
	one := []string{"1"}
	w0 := []c13Doc{{"1", false}, {"{}", false}, {"[]", false}}
	w2 := c13DocLevel(c13DocLevel(w0, one), one)
	wrappers := []struct{ pre, post string }{{"[", "]"}, {`{"a":`, "}"}, {"[1,", "]"}, {`{"a":1,"b":`, "}"}, {"[[", "]]"}, {`{"a":[`, "]}"}, {`[{"a":`, "}]"}}
	if thorough {
		wrappers = append(wrappers, struct{ pre, post string }{`{"a":{"b":`, "}}"}, struct{ pre, post string }{`[[[`, "]]]"}, struct{ pre, post string }{`[1,[{"b":[`, `]}],1]`})
	}
	for _, w := range wrappers {
		for _, d := range w2 {
			emit(c13Doc{w.pre + d.Text + w.post, d.Dup}, "depth<=2 inside "+w.pre+"…"+w.post)
		}
	}
}
