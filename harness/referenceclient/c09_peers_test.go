package referenceclient

// C09, unit c09-peers — the peers' CALL SITES of the framing code.
//
// internal/c09_test.go drives the stream decoders directly: one decoder, one
// stream. What a peer really does with its stdin is decided one level up, in
// the loops of referenceclient.run (a decoder for a stream of requests) and
// referenceserver.run (a decoder for its single request). This unit drives the
// exported entry points Run / RunInReferenceMode with a scripted stdin:
//
//   client   stdin = 1-3 ClientCompatRequests (empty / short / long test name), written by
//            the real stream encoders (binary, JSON) or as compact JSON, cut at every byte,
//            delivered in every composition into Read answers (all up to a bound, beyond
//            that <= 3 chunks, 1-byte reads, message-aligned reads), ended by EOF, EOF
//            together with the last data, or left open (stall) and closed later.
//            The requests name no HTTP version, so each one is answered at once with an
//            error RESULT (an ordinary response message) and no network is involved; the
//            whole run sits in a testing/synctest bubble, so "the client has done everything
//            it can do while stdin is still open" is a deterministic point.
//            Oracle (whole-buffer reference parser): exactly one response per request that
//            is completely contained in the delivered bytes - already while stdin is still
//            open - each an error result carrying that request's test name; Run returns
//            nil iff the input ends at a message boundary.
//   server   stdin = one ServerCompatRequest under every composition; the server must come
//            up (loopback, port 0), answer with exactly one ServerCompatResponse naming a
//            port, also when stdin stays open after the request; a request cut short makes
//            Run fail without a response.

import (
	"bytes"
	"context"
	"encoding/binary"
	"encoding/json"
	"fmt"
	"io"
	"sort"
	"strings"
	"sync"
	"testing"
	"testing/synctest"
	"time"

	"connectrpc.com/conformance/internal"
	"connectrpc.com/conformance/internal/app/referenceserver"
	conformancev1 "connectrpc.com/conformance/internal/gen/proto/go/connectrpc/conformance/v1"
	"connectrpc.com/conformance/internal/verif/rep"
	"google.golang.org/protobuf/encoding/protojson"
	"google.golang.org/protobuf/proto"
)

type c09pCase struct {
	Peer    string `json:"peer"`   // client | server
	Enc     string `json:"enc"`    // penc (binary, real encoder) | jenc (JSON, real encoder) | compact-nl | compact-cat
	Seq     string `json:"seq"`    // client: letters e (empty request) s (short test name) L (long test name); server: a | b
	Cut     int    `json:"cut"`    // stream bytes delivered
	Chunks  []int  `json:"chunks"` // composition of Cut into Read answers
	End     string `json:"end"`    // eof | eof+ | stall
	RefMode bool   `json:"ref_mode,omitempty"`
	P1      bool   `json:"p1,omitempty"` // client: -p 1
}

func (c c09pCase) String() string { b, _ := json.Marshal(c); return string(b) }

type c09pVerdict struct{ key, detail string }

// ---------------------------------------------------------------------------
// reference parsers (whole buffer, never look at the chunking)

func c09pRefBinary(buf []byte) (bodies [][]byte, inside bool) {
	for {
		if len(buf) == 0 {
			return bodies, false
		}
		if len(buf) < 4 {
			return bodies, true
		}
		n := int(binary.BigEndian.Uint32(buf))
		if len(buf)-4 < n {
			return bodies, true
		}
		bodies = append(bodies, buf[4:4+n])
		buf = buf[4+n:]
	}
}

func c09pRefJSON(buf []byte) (objs [][]byte, inside bool) {
	i := 0
	for {
		for i < len(buf) && (buf[i] == ' ' || buf[i] == '\t' || buf[i] == '\r' || buf[i] == '\n') {
			i++
		}
		if i == len(buf) {
			return objs, false
		}
		if buf[i] != '{' {
			return objs, true
		}
		start, depth, inStr, esc, closed := i, 0, false, false, false
		for ; i < len(buf) && !closed; i++ {
			ch := buf[i]
			switch {
			case esc:
				esc = false
			case inStr:
				if ch == '\\' {
					esc = true
				} else if ch == '"' {
					inStr = false
				}
			case ch == '"':
				inStr = true
			case ch == '{' || ch == '[':
				depth++
			case ch == '}' || ch == ']':
				depth--
				closed = depth == 0
			}
		}
		if !closed {
			return objs, true
		}
		objs = append(objs, buf[start:i])
	}
}

func c09pRef(jsonWire bool, buf []byte) (msgs [][]byte, inside bool) {
	if jsonWire {
		return c09pRefJSON(buf)
	}
	return c09pRefBinary(buf)
}

// ---------------------------------------------------------------------------
// scripted stdin / stdout

type c09pReader struct {
	data    []byte
	chunks  []int
	ci, in  int
	pos     int
	end     string
	release chan struct{} // stall: closed by the harness, then the stream ends
}

func (r *c09pReader) Read(p []byte) (int, error) {
	if len(p) == 0 {
		return 0, nil
	}
	if r.pos == len(r.data) {
		if r.end == "stall" {
			<-r.release
		}
		return 0, io.EOF
	}
	n := r.chunks[r.ci] - r.in
	if n > len(p) {
		n = len(p)
	}
	copy(p, r.data[r.pos:r.pos+n])
	r.pos += n
	r.in += n
	if r.in == r.chunks[r.ci] {
		r.ci++
		r.in = 0
	}
	if r.pos == len(r.data) && r.end == "eof+" {
		return n, io.EOF
	}
	return n, nil
}

func (r *c09pReader) Close() error { return nil }

type c09pWriter struct {
	mu     sync.Mutex
	buf    bytes.Buffer
	notify chan struct{} // optional: gets a token on every Write
}

func (w *c09pWriter) Write(p []byte) (int, error) {
	w.mu.Lock()
	w.buf.Write(p)
	w.mu.Unlock()
	if w.notify != nil {
		select {
		case w.notify <- struct{}{}:
		default:
		}
	}
	return len(p), nil
}
func (w *c09pWriter) Close() error { return nil }
func (w *c09pWriter) snapshot() []byte {
	w.mu.Lock()
	defer w.mu.Unlock()
	return append([]byte(nil), w.buf.Bytes()...)
}

// ---------------------------------------------------------------------------
// streams

type c09pStream struct {
	JSON   bool
	Bytes  []byte
	Names  []string // client: test name per request
	Bounds []int    // offsets at which a message ends
}

func c09pClientRequest(letter byte, pos int) *conformancev1.ClientCompatRequest {
	name := string(rune('a' + pos))
	switch letter {
	case 'e':
		return &conformancev1.ClientCompatRequest{}
	case 's':
		return &conformancev1.ClientCompatRequest{TestName: name}
	case 'L':
		return &conformancev1.ClientCompatRequest{TestName: name + strings.Repeat("x", 700)}
	}
	panic("letter")
}

func c09pServerRequest(letter byte) *conformancev1.ServerCompatRequest {
	switch letter {
	case 'a':
		return &conformancev1.ServerCompatRequest{Protocol: conformancev1.Protocol_PROTOCOL_CONNECT, HttpVersion: conformancev1.HTTPVersion_HTTP_VERSION_1}
	case 'b':
		return &conformancev1.ServerCompatRequest{Protocol: conformancev1.Protocol_PROTOCOL_GRPC_WEB, HttpVersion: conformancev1.HTTPVersion_HTTP_VERSION_1, MessageReceiveLimit: 200000}
	}
	panic("letter")
}

func c09pEncode(enc string, msgs []proto.Message) (*c09pStream, error) {
	st := &c09pStream{JSON: enc != "penc"}
	var buf bytes.Buffer
	switch enc {
	case "penc", "jenc":
		e := internal.NewCodec(enc == "jenc").NewEncoder(&buf)
		for _, m := range msgs {
			if err := e.Encode(m); err != nil {
				return nil, err
			}
			st.Bounds = append(st.Bounds, buf.Len())
		}
	case "compact-nl", "compact-cat":
		for _, m := range msgs {
			b, err := protojson.Marshal(m)
			if err != nil {
				return nil, err
			}
			var c bytes.Buffer
			if err := json.Compact(&c, b); err != nil {
				return nil, err
			}
			buf.Write(c.Bytes())
			if enc == "compact-nl" {
				buf.WriteByte('\n')
			}
			st.Bounds = append(st.Bounds, buf.Len())
		}
	default:
		panic("enc " + enc)
	}
	st.Bytes = buf.Bytes()
	return st, nil
}

func c09pNewStream(cs *c09pCase) (*c09pStream, error) {
	var msgs []proto.Message
	var names []string
	for i := 0; i < len(cs.Seq); i++ {
		if cs.Peer == "client" {
			m := c09pClientRequest(cs.Seq[i], i)
			msgs = append(msgs, m)
			names = append(names, m.TestName)
		} else {
			msgs = append(msgs, c09pServerRequest(cs.Seq[i]))
		}
	}
	st, err := c09pEncode(cs.Enc, msgs)
	if err != nil {
		return nil, err
	}
	st.Names = names
	// the encoders are judged by c09-enum; here only a sanity check that the reference parser sees
	// the messages that were written
	got, inside := c09pRef(st.JSON, st.Bytes)
	if inside || len(got) != len(msgs) {
		return nil, fmt.Errorf("stream %q of %s/%s: reference parser sees %d messages, inside=%v", st.Bytes, cs.Enc, cs.Seq, len(got), inside)
	}
	return st, nil
}

// ---------------------------------------------------------------------------
// client

const c09pHorizon = time.Hour // virtual

func c09pShort(s string) string {
	if len(s) > 24 {
		return fmt.Sprintf("%s...(%d bytes)", s[:8], len(s))
	}
	return s
}

// c09pResponses parses the client's stdout with the reference parser and returns the sorted
// test names; problem != "" if the output is not a sequence of error-result responses.
func c09pResponses(jsonWire bool, out []byte) (names []string, problem string) {
	msgs, inside := c09pRef(jsonWire, out)
	if inside {
		problem = "output ends inside a message"
	}
	for _, m := range msgs {
		resp := &conformancev1.ClientCompatResponse{}
		var err error
		if jsonWire {
			err = protojson.Unmarshal(m, resp)
		} else {
			err = proto.Unmarshal(m, resp)
		}
		if err != nil {
			return names, "output message does not parse: " + err.Error()
		}
		if resp.GetError() == nil {
			problem = "response without an error result for a request that names no HTTP version"
		}
		names = append(names, c09pShort(resp.TestName))
	}
	sort.Strings(names)
	return names, problem
}

// c09pRunClient runs one client case; must be called inside a synctest bubble.
func c09pRunClient(st *c09pStream, cs *c09pCase) (vs []c09pVerdict, outcome string) {
	add := func(key, format string, a ...any) {
		vs = append(vs, c09pVerdict{"client-loop:" + key, fmt.Sprintf(format, a...)})
	}
	delivered := st.Bytes[:cs.Cut]
	refMsgs, inside := c09pRef(st.JSON, delivered)
	var want []string
	for i := range refMsgs {
		want = append(want, c09pShort(st.Names[i]))
	}
	sort.Strings(want)

	rd := &c09pReader{data: delivered, chunks: cs.Chunks, end: cs.End, release: make(chan struct{})}
	out, errw := &c09pWriter{}, &c09pWriter{}
	args := []string{"referenceclient"}
	if st.JSON {
		args = append(args, "-json")
	}
	if cs.P1 {
		args = append(args, "-p", "1")
	}
	type result struct {
		err error
		pan string
	}
	done := make(chan result, 1)
	go func() {
		var res result
		defer func() {
			if p := recover(); p != nil {
				res.pan = fmt.Sprint(p)
			}
			done <- res
		}()
		if cs.RefMode {
			res.err = RunInReferenceMode(context.Background(), args, rd, out, errw, nil)
		} else {
			res.err = Run(context.Background(), args, rd, out, errw)
		}
	}()
	synctest.Wait() // everything the client can do with the delivered bytes has been done
	script := fmt.Sprintf("stdin = %d of %d bytes (%d complete requests) in reads %v, then %s", cs.Cut, len(st.Bytes), len(refMsgs), cs.Chunks, cs.End)
	if cs.End == "stall" {
		// stdin is still open: the requests that arrived completely must have been answered by now
		early, problem := c09pResponses(st.JSON, out.snapshot())
		if problem == "" && !c09pEqual(early, want) {
			add("request-not-answered-while-input-open", "%s: with stdin still open the client has answered %q, want %q", script, early, want)
		}
		close(rd.release)
	}
	var res result
	tm := time.NewTimer(c09pHorizon)
	select {
	case res = <-done:
		tm.Stop()
	case <-tm.C:
		add("run-never-returns", "%s: Run did not return after the end of its input", script)
		if cs.End != "stall" {
			close(rd.release)
		}
		return vs, "client/hung"
	}
	if res.pan != "" {
		add("panic", "%s: Run panicked: %s", script, res.pan)
		return vs, "client/panic"
	}
	got, problem := c09pResponses(st.JSON, out.snapshot())
	state := "boundary"
	if inside {
		state = "inside"
	}
	outcome = fmt.Sprintf("client/%s/%s/%s/answers=%d/err=%v", cs.Enc, cs.End, state, len(got), res.err != nil)
	if problem != "" {
		add("bad-output", "%s: %s (stdout %q)", script, problem, c09pShort(string(out.snapshot())))
	}
	if !c09pEqual(got, want) {
		key := "requests-lost"
		if len(got) > len(want) {
			key = "extra-responses"
		}
		add(key, "%s: %d requests were completely written to the client's stdin, the responses on stdout name %q, want %q (Run returned %v)", script, len(want), got, want, res.err)
	}
	switch {
	case !inside && res.err != nil:
		add("well-formed-input-rejected", "%s: the input ends at a message boundary, Run returned %q", script, res.err)
	case inside && res.err == nil:
		add("truncation-reported-as-clean-end", "%s: the input ends inside a message, Run returned nil", script)
	}
	return vs, outcome
}

func c09pEqual(a, b []string) bool {
	if len(a) != len(b) {
		return false
	}
	for i := range a {
		if a[i] != b[i] {
			return false
		}
	}
	return true
}

// ---------------------------------------------------------------------------
// server (real loopback listener, so no bubble; the only clock is a generous liveness guard)

const c09pGuard = 60 * time.Second

func c09pRunServer(st *c09pStream, cs *c09pCase) (vs []c09pVerdict, outcome string) {
	add := func(key, format string, a ...any) {
		vs = append(vs, c09pVerdict{"server-read:" + key, fmt.Sprintf(format, a...)})
	}
	delivered := st.Bytes[:cs.Cut]
	refMsgs, inside := c09pRef(st.JSON, delivered)
	complete := len(refMsgs) == 1
	rd := &c09pReader{data: delivered, chunks: cs.Chunks, end: cs.End, release: make(chan struct{})}
	defer close(rd.release)
	out, errw := &c09pWriter{notify: make(chan struct{}, 1)}, &c09pWriter{}
	args := []string{"referenceserver", "-bind", "127.0.0.1", "-port", "0"}
	if st.JSON {
		args = append(args, "-json")
	}
	ctx, cancel := context.WithCancel(context.Background())
	defer cancel()
	type result struct {
		err error
		pan string
	}
	done := make(chan result, 1)
	go func() {
		var res result
		defer func() {
			if p := recover(); p != nil {
				res.pan = fmt.Sprint(p)
			}
			done <- res
		}()
		if cs.RefMode {
			res.err = referenceserver.RunInReferenceMode(ctx, args, rd, out, errw, nil)
		} else {
			res.err = referenceserver.Run(ctx, args, rd, out, errw)
		}
	}()
	script := fmt.Sprintf("stdin = %d of %d bytes in reads %v, then %s", cs.Cut, len(st.Bytes), cs.Chunks, cs.End)
	guard := time.NewTimer(c09pGuard)
	defer guard.Stop()
	var res result
	returnedEarly := false
	select {
	case <-out.notify:
	case res = <-done:
		returnedEarly = true
	case <-guard.C:
		if complete {
			add("no-response", "%s: the request is complete but the server wrote nothing within %v", script, c09pGuard)
		} else {
			add("run-never-returns", "%s: the input ended inside the request but Run did not return within %v", script, c09pGuard)
		}
		return vs, "server/hung"
	}
	if !returnedEarly {
		cancel()
		select {
		case res = <-done:
		case <-guard.C:
			add("run-never-returns", "%s: Run did not return within %v after its context was cancelled", script, c09pGuard)
			return vs, "server/hung"
		}
	}
	if res.pan != "" {
		add("panic", "%s: Run panicked: %s", script, res.pan)
		return vs, "server/panic"
	}
	msgs, outInside := c09pRef(st.JSON, out.snapshot())
	outcome = fmt.Sprintf("server/%s/%s/complete=%v/responses=%d/early-return=%v", cs.Enc, cs.End, complete, len(msgs), returnedEarly)
	if complete {
		switch {
		case returnedEarly:
			add("complete-request-not-served", "%s: the request is completely contained in the delivered bytes, but Run returned %v before answering", script, res.err)
		case outInside || len(msgs) != 1:
			add("bad-output", "%s: want exactly one ServerCompatResponse on stdout, got %d messages (ends inside a message: %v): %q", script, len(msgs), outInside, out.snapshot())
		default:
			resp := &conformancev1.ServerCompatResponse{}
			var err error
			if st.JSON {
				err = protojson.Unmarshal(msgs[0], resp)
			} else {
				err = proto.Unmarshal(msgs[0], resp)
			}
			if err != nil || resp.Port == 0 || resp.Host == "" {
				add("bad-output", "%s: response %q does not name host and port (%v)", script, msgs[0], err)
			}
		}
		return vs, outcome
	}
	// request cut short (inside == true or nothing delivered)
	_ = inside
	if !returnedEarly || len(msgs) != 0 {
		add("truncated-request-served", "%s: the request is not complete, yet the server answered with %d messages", script, len(msgs))
	} else if res.err == nil {
		add("truncation-reported-as-clean-end", "%s: the request is not complete, Run returned nil", script)
	}
	return vs, outcome
}

// ---------------------------------------------------------------------------
// enumeration

// c09pPositions: the cut / chunk-boundary positions used for a stream of n bytes: all of them up
// to 64 bytes, otherwise the neighbourhood of every message boundary (and of the binary prefix
// after it), of the multiples of 512 (read-ahead size of encoding/json) and of both ends.
func c09pPositions(n int, bounds []int) []int {
	if n <= 64 {
		out := make([]int, 0, n+1)
		for i := 0; i <= n; i++ {
			out = append(out, i)
		}
		return out
	}
	set := map[int]bool{}
	mark := func(p int) {
		for d := -1; d <= 1; d++ {
			if p+d >= 0 && p+d <= n {
				set[p+d] = true
			}
		}
	}
	mark(0)
	mark(n)
	mark(4)
	for _, b := range bounds {
		mark(b)
		mark(b + 4)
	}
	for p := 512; p < n; p += 512 {
		mark(p)
	}
	out := make([]int, 0, len(set))
	for p := range set {
		out = append(out, p)
	}
	sort.Ints(out)
	return out
}

// c09pComps enumerates compositions of c: all when c <= full; otherwise those with at most
// maxParts parts whose boundaries are in positions, the all-1-byte one and the ones aligned to
// message boundaries (one message per read, and every grouping of whole messages).
func c09pComps(c, full, maxParts int, positions, bounds []int, fn func([]int)) {
	if c == 0 {
		fn(nil)
		return
	}
	if c <= full {
		for mask := uint32(0); mask < 1<<uint(c-1); mask++ {
			var ch []int
			last := 0
			for i := 1; i < c; i++ {
				if mask&(1<<uint(i-1)) != 0 {
					ch = append(ch, i-last)
					last = i
				}
			}
			fn(append(ch, c-last))
		}
		return
	}
	var inner []int
	for _, p := range positions {
		if p > 0 && p < c {
			inner = append(inner, p)
		}
	}
	seen := map[string]bool{}
	emit := func(ch []int) {
		k := fmt.Sprint(ch)
		if !seen[k] {
			seen[k] = true
			fn(ch)
		}
	}
	emit([]int{c})
	if maxParts >= 2 {
		for _, i := range inner {
			emit([]int{i, c - i})
		}
	}
	if maxParts >= 3 {
		for a, i := range inner {
			for _, j := range inner[a+1:] {
				emit([]int{i, j - i, c - j})
			}
		}
	}
	ones := make([]int, c)
	for i := range ones {
		ones[i] = 1
	}
	emit(ones)
	// message-aligned groupings
	var bs []int
	for _, b := range bounds {
		if b < c {
			bs = append(bs, b)
		}
	}
	for mask := 0; mask < 1<<uint(len(bs)); mask++ {
		var ch []int
		last := 0
		for i, b := range bs {
			if mask&(1<<uint(i)) != 0 && b > last {
				ch = append(ch, b-last)
				last = b
			}
		}
		emit(append(ch, c-last))
	}
}

func c09pClientSeqs(thorough bool) []string {
	var out []string
	for n := 1; n <= 3; n++ {
		for i := 0; i < 1<<uint(n); i++ {
			b := make([]byte, n)
			for j := range b {
				b[j] = "es"[(i>>uint(j))&1]
			}
			out = append(out, string(b))
		}
	}
	out = append(out, "sL", "Ls", "LL", "sLs")
	if thorough {
		out = append(out, "L", "eL", "Le", "LsL", "ssL", "Lss", "LLL")
	}
	return out
}

func TestVerifC09Peers(t *testing.T) {
	r := rep.New("c09-peers")
	defer r.Write()
	r.Rule = "one case = (peer client|server, wire variant and producer of the stdin stream, request sequence, number of bytes delivered, composition of those bytes into Read answers, ending eof|eof-with-last-data|stdin left open, Run|RunInReferenceMode [, -p 1]); client: sequences of 1-3 requests over {empty, short name} plus sequences with a 700-byte name; compositions complete up to 12 (thorough 16) bytes, beyond that <=3 chunks (whole stream) / <=2 (cut streams) + 1-byte reads + every grouping of whole messages; distinct by construction; non-trivial = at least one complete request delivered"
	thorough := rep.Thorough()
	deadline := rep.Deadline()

	if data := rep.ReplayInput(); data != nil {
		var rj struct {
			Replay c09pCase `json:"replay"`
		}
		if err := json.Unmarshal(data, &rj); err != nil {
			t.Fatal(err)
		}
		cs := rj.Replay
		st, err := c09pNewStream(&cs)
		if err != nil {
			t.Fatal(err)
		}
		var vs []c09pVerdict
		var outcome string
		if cs.Peer == "client" {
			synctest.Test(t, func(*testing.T) { vs, outcome = c09pRunClient(st, &cs) })
		} else {
			vs, outcome = c09pRunServer(st, &cs)
		}
		fmt.Printf("replay: case=%v\nstream (%d bytes): %q\noutcome=%s\n", cs, len(st.Bytes), c09pShort(string(st.Bytes)), outcome)
		for _, v := range vs {
			fmt.Printf("VERDICT %s: %s\n", v.key, v.detail)
			r.Violate(v.key, v.detail, cs)
		}
		r.Eval(1)
		return
	}

	full := 12
	if thorough {
		full = 16
	}
	r.Extra["all_compositions_up_to_bytes"] = full
	var k int64
	stop := false
	over := func() bool {
		if !stop && !deadline.IsZero() && time.Now().After(deadline) {
			stop = true
			r.NotExhaustive("per-shard time budget reached; order: server cases, then client streams by producer and sequence")
		}
		return stop
	}
	report := func(cs *c09pCase, vs []c09pVerdict, outcome string, nontrivial bool) {
		r.Eval(1)
		if nontrivial {
			r.NonTrivial("")
		}
		r.Outcome(outcome)
		r.Count("cases:"+cs.Peer, 1)
		cp := *cs
		cp.Chunks = append([]int(nil), cs.Chunks...)
		if k%5003 == 1 {
			r.Sample(cp)
		}
		for _, v := range vs {
			r.Violate(v.key, v.detail+"\ncase: "+cp.String(), cp)
		}
	}

	// ---- server: its single request. referenceserver.run sleeps 200 ms (real time) before it answers,
	// so this shard's cases are collected first and then run by a small pool of workers; the results
	// are reported in enumeration order.
	{
		serverFull := 8 // all compositions for streams up to 8 bytes (the smaller binary request)
		type job struct {
			st      *c09pStream
			cs      c09pCase
			k       int64
			vs      []c09pVerdict
			outcome string
			ran     bool
		}
		var jobs []*job
		for _, enc := range []string{"penc", "jenc", "compact-nl", "compact-cat"} {
			for _, seq := range []string{"a", "b"} {
				base := c09pCase{Peer: "server", Enc: enc, Seq: seq}
				st, err := c09pNewStream(&base)
				if err != nil {
					t.Fatal(err)
				}
				n := len(st.Bytes)
				positions := c09pPositions(n, st.Bounds)
				for _, cut := range positions {
					maxParts := 1
					if cut == n {
						maxParts = 2
						if thorough {
							maxParts = 3
						}
					}
					c09pComps(cut, serverFull, maxParts, positions, st.Bounds, func(chunks []int) {
						ends := []string{"eof", "eof+"}
						if cut == n {
							ends = append(ends, "stall")
						}
						for _, end := range ends {
							if cut == 0 && end == "eof+" {
								continue
							}
							k++
							if !r.Mine(k) {
								continue
							}
							cs := base
							cs.Cut, cs.Chunks, cs.End = cut, append([]int(nil), chunks...), end
							cs.RefMode = (k/int64(len(ends)))%2 == 0
							jobs = append(jobs, &job{st: st, cs: cs, k: k})
						}
					})
				}
			}
		}
		var wg sync.WaitGroup
		next := make(chan *job)
		for w := 0; w < 8; w++ {
			wg.Add(1)
			go func() {
				defer wg.Done()
				for j := range next {
					j.vs, j.outcome = c09pRunServer(j.st, &j.cs)
					j.ran = true
				}
			}()
		}
		for _, j := range jobs {
			if over() {
				break
			}
			next <- j
		}
		close(next)
		wg.Wait()
		for _, j := range jobs {
			if j.ran {
				report(&j.cs, j.vs, j.outcome, j.cs.Cut == len(j.st.Bytes))
			}
		}
	}
	r.Extra["server_cases_enumerated_all_shards"] = k

	// ---- client: the request loop
	for _, enc := range []string{"jenc", "compact-cat", "compact-nl", "penc"} {
		for _, seq := range c09pClientSeqs(thorough) {
			if over() {
				break
			}
			base := c09pCase{Peer: "client", Enc: enc, Seq: seq}
			st, err := c09pNewStream(&base)
			if err != nil {
				t.Fatal(err)
			}
			n := len(st.Bytes)
			positions := c09pPositions(n, st.Bounds)
			synctest.Test(t, func(*testing.T) {
				for _, cut := range positions {
					maxParts := 2
					if cut == n {
						maxParts = 3
					}
					complete := 0
					for _, b := range st.Bounds {
						if b <= cut {
							complete++
						}
					}
					c09pComps(cut, full, maxParts, positions, st.Bounds, func(chunks []int) {
						for _, end := range []string{"eof", "eof+", "stall"} {
							if cut == 0 && end == "eof+" {
								continue
							}
							for _, variant := range []int{0, 1, 2} {
								// Run for every case; RunInReferenceMode and -p 1 for coarse compositions
								if variant > 0 && len(chunks) > 2 {
									continue
								}
								k++
								if !r.Mine(k) || stop { // (the clock inside the bubble is virtual: the budget is looked at per stream)
									continue
								}
								cs := base
								cs.Cut, cs.Chunks, cs.End = cut, chunks, end
								cs.RefMode, cs.P1 = variant == 1, variant == 2
								vs, outcome := c09pRunClient(st, &cs)
								report(&cs, vs, outcome, complete > 0)
							}
						}
					})
				}
			})
		}
	}
	r.Extra["cases_enumerated_all_shards"] = k
}
