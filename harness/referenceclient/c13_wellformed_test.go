package referenceclient

// C13 route (i): every error of the grid rendered by the repository's own
// encoders called directly (grpcStatusTrailers, grpcWebStatusEndStream,
// grpcutil.PercentEncodeMessage), by connect-go's ErrorWriter (the encoder the
// reference server uses for everything else) and by independent encoders
// written from the Connect / gRPC / gRPC-Web specifications. Oracle: silence.

import (
	"encoding/binary"
	"fmt"
	"net/http"
	"net/http/httptest"
	"strings"

	"connectrpc.com/conformance/internal"
	"connectrpc.com/conformance/internal/app/referenceserver"
	conformancev1 "connectrpc.com/conformance/internal/gen/proto/go/connectrpc/conformance/v1"
	"connectrpc.com/conformance/internal/grpcutil"
	"connectrpc.com/connect"
)

func c13ErrorWriterRender(e c13Err, contentType string) *httptest.ResponseRecorder {
	connErr := c13ConnectError(e)
	internal.AddHeaders(c13Meta(e.Meta), connErr.Meta())
	req := httptest.NewRequest(http.MethodPost, "http://127.0.0.1/connectrpc.conformance.v1.ConformanceService/Unary", strings.NewReader(""))
	req.Header.Set("Content-Type", contentType)
	req.Header.Set("Connect-Protocol-Version", "1")
	rec := httptest.NewRecorder()
	if err := connect.NewErrorWriter().Write(rec, req, connErr); err != nil {
		panic(fmt.Sprintf("ErrorWriter.Write: %v", err))
	}
	return rec
}

func c13EndStreamOf(body []byte, flag byte) (string, bool) {
	for len(body) >= 5 {
		n := int(binary.BigEndian.Uint32(body[1:5]))
		if 5+n > len(body) {
			return "", false
		}
		if body[0]&flag != 0 {
			return string(body[5 : 5+n]), true
		}
		body = body[5+n:]
	}
	return "", false
}

// c13WellFormedCases yields every rendering of e. withWire adds the passes
// through the real dispatcher (examineWireDetails with a hand-built trace).
func c13WellFormedCases(e c13Err, withWire bool, yield func(*c13Case)) {
	origin := e.String()
	mk := func(format, class string, input string) *c13Case {
		return &c13Case{Phase: "wellformed", Format: format, Class: class, Expect: "silent", Input: []byte(input), Origin: origin}
	}
	mkH := func(format, class string, h http.Header) *c13Case {
		return &c13Case{Phase: "wellformed", Format: format, Class: class, Expect: "silent", Hdr: c13HVOf(h), Origin: origin}
	}
	meta := c13Meta(e.Meta)

	// ---- Connect unary error JSON
	rec := c13ErrorWriterRender(e, "application/proto")
	ewUnary := rec.Body.String()
	yield(mk("connect-unary-error", "connect-go-error-writer", ewUnary))
	yield(mkH("binary-metadata", "connect-go-error-writer-unary-headers", rec.Result().Header))
	yield(mk("connect-unary-error", "ref-compact-debug", c13ErrTree(e, true, false).text(c13JStyle{})))
	yield(mk("connect-unary-error", "ref-indent-nodebug", c13ErrTree(e, false, false).text(c13JStyle{Indent: true})))
	yield(mk("connect-unary-error", "ref-escaped-reversed", c13ErrTree(e, true, false).text(c13JStyle{EscapeNA: true, Reverse: true})))
	yield(mk("connect-unary-error", "ref-explicit-message", c13ErrTree(e, false, true).text(c13JStyle{})))

	// ---- Connect end-stream message
	rec = c13ErrorWriterRender(e, "application/connect+proto")
	ewEnd, ok := c13EndStreamOf(rec.Body.Bytes(), 2)
	if !ok {
		panic("connect-go ErrorWriter wrote no end-stream envelope")
	}
	yield(mk("connect-end-stream", "connect-go-error-writer", ewEnd))
	yield(mk("connect-end-stream", "ref-compact-canonical-keys", c13EndStreamTree(&e, true, meta, false, true).text(c13JStyle{})))
	yield(mk("connect-end-stream", "ref-indent-lower-keys", c13EndStreamTree(&e, false, meta, true, false).text(c13JStyle{Indent: true})))
	yield(mk("connect-end-stream", "ref-escaped-reversed", c13EndStreamTree(&e, true, meta, false, false).text(c13JStyle{EscapeNA: true, Reverse: true})))

	// ---- gRPC-Web trailer block
	repoBlock := referenceserver.VerifC13GRPCWebStatusEndStream(c13ConnectError(e), meta)
	yield(mk("grpc-web-trailers", "repo-grpcWebStatusEndStream", repoBlock))
	yield(mk("grpc-web-trailers", "ref-block", c13Block(c13RefTrailerPairs(e, false, false), ": ")))
	yield(mk("grpc-web-trailers", "ref-block-no-space-lower-hex", c13Block(c13RefTrailerPairs(e, true, false), ":")))
	yield(mk("grpc-web-trailers", "ref-block-ows-always-bin", c13Block(c13RefTrailerPairs(e, false, true), ": \t ")))
	// trailers-only form (connect-go puts the trio into the HTTP headers)
	rec = c13ErrorWriterRender(e, "application/grpc-web+proto")
	ewWebHdr := rec.Result().Header
	c := mkH("grpc-web-trailers", "connect-go-error-writer-trailers-only", ewWebHdr)
	yield(c)

	// ---- gRPC status trailers
	repoTrailers := http.Header{}
	internal.AddHeaders(referenceserver.VerifC13GRPCStatusTrailers(c13ConnectError(e)), repoTrailers)
	internal.AddHeaders(meta, repoTrailers)
	yield(mkH("grpc-trailers", "repo-grpcStatusTrailers", repoTrailers))
	rec = c13ErrorWriterRender(e, "application/grpc+proto")
	ewTrailers := rec.Result().Trailer
	yield(mkH("grpc-trailers", "connect-go-error-writer", ewTrailers))
	yield(mkH("grpc-trailers", "ref-trailers", c13HeaderOf(c13RefTrailerPairs(e, false, false))))
	yield(mkH("grpc-trailers", "ref-trailers-lower-hex-always-bin", c13HeaderOf(c13RefTrailerPairs(e, true, true))))
	yield(mkH("grpc-trailers", "repo-PercentEncodeMessage-only", http.Header{
		"Grpc-Status": {fmt.Sprint(e.Code)}, "Grpc-Message": {grpcutil.PercentEncodeMessage(e.Msg)}}))

	if !withWire {
		return
	}
	// ---- the same bytes through examineWireDetails' dispatch
	wire := func(class string, w c13Wire) {
		yield(&c13Case{Phase: "wellformed", Format: "wire", Class: class, Expect: "silent", Wire: &w, Origin: origin})
	}
	wire("unary-error-json", c13Wire{ContentType: "application/json", Status: 400 + e.Code, Body: ewUnary})
	wire("connect-stream", c13Wire{ContentType: "application/connect+proto", Status: 200, EndStream: &ewEnd, HasData: true})
	wire("grpc-web-block", c13Wire{ContentType: "application/grpc-web+proto", Status: 200, EndStream: &repoBlock})
	wire("grpc-web-trailers-only", c13Wire{Status: 200, Header: ewWebHdr})
	wire("grpc-trailers", c13Wire{ContentType: "application/grpc+proto", Status: 200, Trailer: repoTrailers, HasData: true})
	wire("grpc-trailers-only-in-headers", c13Wire{ContentType: "application/grpc", Status: 200, Header: repoTrailers})
}

// c13WellFormedFixed: well-formed inputs that are not errors (OK status,
// end-stream without error) and a few spec corner cases.
func c13WellFormedFixed(yield func(*c13Case)) {
	origin := "fixed"
	mk := func(format, class, input string) {
		yield(&c13Case{Phase: "wellformed", Format: format, Class: class, Expect: "silent", Input: []byte(input), Origin: origin})
	}
	mkH := func(format, class string, h http.Header) {
		yield(&c13Case{Phase: "wellformed", Format: format, Class: class, Expect: "silent", Hdr: c13HVOf(h), Origin: origin})
	}
	for _, m := range c13MetaAlphabet {
		origin = "fixed, metadata " + m.Name
		meta := c13Meta(m.Name)
		mk("connect-end-stream", "ok", c13EndStreamTree(nil, false, meta, false, true).text(c13JStyle{}))
		mk("connect-end-stream", "ok-empty-metadata", c13EndStreamTree(nil, false, meta, true, false).text(c13JStyle{Indent: true}))
		kv := []c13KV{{"grpc-status", "0"}}
		for _, h := range meta {
			for _, v := range h.Value {
				kv = append(kv, c13KV{strings.ToLower(h.Name), v})
			}
		}
		mk("grpc-web-trailers", "ok", c13Block(kv, ": "))
		mkH("grpc-trailers", "ok", c13HeaderOf(kv))
		kv = append(kv, c13KV{"grpc-message", ""})
		mk("grpc-web-trailers", "ok-empty-message", c13Block(kv, ":"))
		mkH("grpc-trailers", "ok-empty-message", c13HeaderOf(kv))
		mkH("binary-metadata", "ok", c13HeaderOf(kv))
	}
	origin = "fixed"
	okBin := c13StatusBin(0, "", nil)
	mk("grpc-web-trailers", "ok-with-empty-details-bin", "grpc-status: 0\r\ngrpc-status-details-bin: "+okBin+"\r\n")
	// Percent-encoding every byte is legal (gRPC: "Percent-Encoded" may be used for any byte).
	for _, msg := range []string{"foo", "a b", "é", "100%"} {
		e := c13Err{Code: 3, Msg: msg}
		kv := []c13KV{{"grpc-status", "3"}, {"grpc-message", c13PctEncode(msg, false, true)}, {"grpc-status-details-bin", c13StatusBin(3, msg, c13DetailAnys(c13Err{Details: []string{"empty"}}))}}
		mk("grpc-web-trailers", "ref-block-everything-percent-encoded", c13Block(kv, ": "))
		mkH("grpc-trailers", "ref-trailers-everything-percent-encoded", c13HeaderOf(kv))
		_ = e
	}
	// Content types of gRPC: HTTP trailers are expected, nothing to complain about.
	for _, ct := range []string{"application/grpc", "application/grpc+proto", "application/grpc+json"} {
		w := c13Wire{ContentType: ct, Status: 200, Trailer: http.Header{"Grpc-Status": {"0"}, "X-T": {"v"}}, HasData: true}
		yield(&c13Case{Phase: "wellformed", Format: "wire", Class: "grpc-ok-with-http-trailers", Expect: "silent", Wire: &w, Origin: "fixed " + ct})
	}
	// Responses that carry nothing to examine.
	for _, ct := range []string{"application/proto", "application/json", "application/connect+proto", "application/grpc-web+proto", "text/plain", ""} {
		w := c13Wire{ContentType: ct, Status: 200, HasData: true}
		if ct == "application/grpc-web+proto" {
			s := "grpc-status: 0\r\n"
			w.EndStream = &s
		}
		if ct == "application/connect+proto" {
			s := "{}"
			w.EndStream = &s
		}
		yield(&c13Case{Phase: "wellformed", Format: "wire", Class: "ok-response", Expect: "silent", Wire: &w, Origin: "fixed " + ct})
	}
	_ = conformancev1.Code_CODE_UNSPECIFIED
}
