package referenceclient

// C13 round 4 — stage "encodings": same content, different legal encodings.
//
// Everything the examiner inflates before it looks at it (a unary Connect error
// body with Content-Encoding, a Connect end-stream message with the compressed
// flag, a gRPC-Web trailer block with the compressed flag) is sent through the
// COMPLETE capture pipeline (newWireCaptureTransport -> tracer -> body readers ->
// examineWireDetails, scripted transport of c13_history_test.go) in many
// encodings of the SAME content, each of them legal under the codec's own
// specification:
//
//   gzip     (RFC 1952) one member at every compression level incl. stored blocks and Huffman-only; optional
//            header fields FNAME / FCOMMENT / FEXTRA / FHCRC / FTEXT / MTIME+OS; several deflate blocks
//            (sync flush at every offset); TWO members split at every offset (incl. an empty first / last
//            member), three members at representative offsets, members with header fields
//   zstd     (RFC 8878) one frame at every level, with / without checksum, streaming writer (no content size),
//            several blocks (flush at every offset), two frames split at every offset, three frames,
//            a skippable frame before / between / after the data frames
//   deflate  (zlib, RFC 1950) every level incl. stored, several blocks (flush at every offset)
//   br       (RFC 7932) qualities 0..11, window sizes, several meta-blocks (flush at every offset)
//   snappy   (framing format) buffered writer, one chunk per write, uncompressed chunk, compressed +
//            uncompressed chunk, repeated stream identifier (= two concatenated streams) at every offset,
//            padding chunk and reserved skippable chunks after the identifier / between / at the end
//
// Oracle: the feedback is a function of the CONTENT: every encoding draws exactly
// the feedback the plain (identity) rendering of the same content draws — nothing for
// the well-formed contents, the very same message(s) for each malformed content
// (malformations sit at the start, in the middle and in the last bytes, so that
// they fall into every member / frame / block in turn). Each variant is first
// decoded with the codec library itself (not with internal/compression) to make
// sure that it is a legal encoding of the content; a variant that is not is a
// harness error, not a violation.

import (
	"bytes"
	"compress/flate"
	"compress/gzip"
	"compress/zlib"
	"fmt"
	"hash/crc32"
	"io"
	"net/http"
	"os"
	"strconv"
	"strings"
	"time"

	"connectrpc.com/conformance/internal/app/referenceserver"
	"connectrpc.com/conformance/internal/verif/rep"
	"github.com/andybalholm/brotli"
	"github.com/golang/snappy"
	"github.com/klauspost/compress/zstd"
)

type c13EncCase struct {
	Shape   string `json:"shape"`   // connect-unary | connect-end-stream | grpc-web-block
	Content string `json:"content"` // name into the content table of the shape
	Codec   string `json:"codec"`   // identity | gzip | zstd | deflate | br | snappy
	Variant string `json:"variant"` // "<kind>" or "<kind>@<offset>[,<offset>]"
	Chunk   int    `json:"chunk"`
}

func (c c13EncCase) String() string {
	return fmt.Sprintf("%s content=%s codec=%s variant=%s chunk=%d", c.Shape, c.Content, c.Codec, c.Variant, c.Chunk)
}

func (c c13EncCase) format() string {
	switch c.Shape {
	case "connect-unary":
		return "connect-unary-error"
	case "connect-end-stream":
		return "connect-end-stream"
	}
	return "grpc-web-trailers"
}

// variantKind: the variant without its offsets (stable part of a violation key).
func (c c13EncCase) variantKind() string {
	k, _, _ := strings.Cut(c.Variant, "@")
	return c13Slug(k)
}

// ---------------------------------------------------------------- contents

type c13EncContentDef struct {
	Name   string
	Expect string // silent | feedback
	Make   func() []byte
}

func c13JSONWithDupMetadata() []byte {
	o := c13EndStreamTree(&c13HistErr, true, c13Meta("lower"), false, true)
	// the duplicate is the LAST member of the document
	o.Keys = append(o.Keys, "metadata")
	o.Vals = append(o.Vals, c13Obj())
	return []byte(o.text(c13JStyle{}))
}

var c13EncContentDefs = map[string][]c13EncContentDef{
	"connect-unary": {
		{"wf:connect-go", "silent", func() []byte { return c13ErrorWriterRender(c13HistErr, "application/proto").Body.Bytes() }},
		{"wf:ref-indented-debug", "silent", func() []byte { return []byte(c13ErrTree(c13HistErr2, true, false).text(c13JStyle{Indent: true})) }},
		{"wf:code-only", "silent", func() []byte { return []byte(`{"code":"not_found"}`) }},
		{"mal:unknown-code-first", "feedback", func() []byte {
			o := c13ErrTree(c13HistErr, true, false)
			o.set("code", c13S("not_a_code"))
			return []byte(o.text(c13JStyle{}))
		}},
		{"mal:unknown-key-last", "feedback", func() []byte {
			o := c13ErrTree(c13HistErr, true, false)
			o.set("extra", c13Raw("1"))
			return []byte(o.text(c13JStyle{}))
		}},
		{"mal:padded-base64-middle", "feedback", func() []byte {
			o := c13ErrTree(c13Err{Code: 9, Msg: "m", Details: []string{"empty", "string"}}, false, false)
			d := o.get("details").Elems[0]
			d.set("value", c13S("AA=="))
			return []byte(o.text(c13JStyle{}))
		}},
		{"mal:second-document", "feedback", func() []byte {
			return append(c13ErrorWriterRender(c13HistErr, "application/proto").Body.Bytes(), []byte(`{"code":"internal"}`)...)
		}},
	},
	"connect-end-stream": {
		{"wf:empty-object", "silent", func() []byte { return []byte(`{}`) }},
		{"wf:metadata", "silent", func() []byte { return []byte(`{"metadata":{"x-trailer":["ok"]}}`) }},
		{"wf:error-ref", "silent", func() []byte {
			return []byte(c13EndStreamTree(&c13HistErr, true, c13Meta(c13HistErr.Meta), false, false).text(c13JStyle{}))
		}},
		{"wf:error-connect-go", "silent", func() []byte {
			end, ok := c13EndStreamOf(c13ErrorWriterRender(c13HistErr2, "application/connect+proto").Body.Bytes(), 2)
			if !ok {
				panic("connect-go ErrorWriter wrote no end-stream envelope")
			}
			return []byte(end)
		}},
		{"mal:unknown-code", "feedback", func() []byte { return []byte(`{"error":{"code":"not_a_code","message":"m"},"metadata":{"x-a":["1"]}}`) }},
		{"mal:duplicate-metadata-last", "feedback", c13JSONWithDupMetadata},
		{"mal:metadata-value-not-array-last", "feedback", func() []byte {
			return []byte(`{"error":{"code":"internal","message":"the quick brown fox jumps over the lazy dog"},"metadata":{"x-a":["1"],"x-b":"2"}}`)
		}},
	},
	"grpc-web-block": {
		{"wf:ok", "silent", func() []byte { return []byte("grpc-status: 0\r\n") }},
		{"wf:error-ref", "silent", func() []byte { return []byte(c13Block(c13RefTrailerPairs(c13HistErr, false, false), ": ")) }},
		{"wf:error-ref-no-blank", "silent", func() []byte { return []byte(c13Block(c13RefTrailerPairs(c13HistErr2, true, false), ":")) }},
		{"wf:error-repo", "silent", func() []byte {
			return []byte(referenceserver.VerifC13GRPCWebStatusEndStream(c13ConnectError(c13HistErr), c13Meta(c13HistErr.Meta)))
		}},
		{"mal:upper-case-key-last", "feedback", func() []byte {
			return []byte(c13Block(c13RefTrailerPairs(c13HistErr, false, false), ": ") + "X-Upper: v\r\n")
		}},
		{"mal:upper-case-key-first", "feedback", func() []byte {
			return []byte("X-Upper: v\r\n" + c13Block(c13RefTrailerPairs(c13HistErr, false, false), ": "))
		}},
		{"mal:second-status-last", "feedback", func() []byte {
			return []byte(c13Block(c13RefTrailerPairs(c13HistErr, false, false), ": ") + "grpc-status: 5\r\n")
		}},
		{"mal:no-final-crlf", "feedback", func() []byte {
			return bytes.TrimSuffix([]byte(c13Block(c13RefTrailerPairs(c13HistErr, false, false), ": ")), []byte("\r\n"))
		}},
		{"mal:no-status", "feedback", func() []byte { return []byte("grpc-message: m\r\nx-a: b\r\n") }},
	},
}

var c13EncShapes = []string{"connect-unary", "connect-end-stream", "grpc-web-block"}

var c13EncContentCache = map[string][]byte{}

func c13EncContentDefOf(shape, name string) c13EncContentDef {
	for _, d := range c13EncContentDefs[shape] {
		if d.Name == name {
			return d
		}
	}
	panic("unknown encodings content " + shape + "/" + name)
}

func c13EncContent(shape, name string) []byte {
	key := shape + "/" + name
	if b, ok := c13EncContentCache[key]; ok {
		return b
	}
	b := c13EncContentDefOf(shape, name).Make()
	c13EncContentCache[key] = b
	return b
}

// ---------------------------------------------------------------- encoders (one per codec, variant by name)

var c13EncCodecs = []string{"gzip", "zstd", "deflate", "br", "snappy"}

func c13Pieces(data []byte, offs []int) [][]byte {
	var out [][]byte
	prev := 0
	for _, o := range offs {
		if o < prev || o > len(data) {
			panic(fmt.Sprintf("bad split offsets %v for %d bytes", offs, len(data)))
		}
		out = append(out, data[prev:o])
		prev = o
	}
	return append(out, data[prev:])
}

func c13ParseVariant(variant string) (kind string, offs []int, err error) {
	kind, rest, has := strings.Cut(variant, "@")
	if has {
		for _, s := range strings.Split(rest, ",") {
			n, err := strconv.Atoi(s)
			if err != nil {
				return "", nil, fmt.Errorf("bad variant %q", variant)
			}
			offs = append(offs, n)
		}
	}
	return kind, offs, nil
}

var c13GzipWriters = map[int]*gzip.Writer{}

// c13GzipMember: one gzip member of the given level with the given optional header fields.
func c13GzipMember(data []byte, level int, hdr string) []byte {
	var b bytes.Buffer
	w := c13GzipWriters[level]
	if w == nil {
		var err error
		if w, err = gzip.NewWriterLevel(&b, level); err != nil {
			panic(err)
		}
		c13GzipWriters[level] = w
	} else {
		w.Reset(&b)
	}
	switch hdr {
	case "", "hcrc", "text":
	case "name":
		w.Name = "end-stream.json"
	case "comment":
		w.Comment = "a comment, with blanks"
	case "extra":
		w.Extra = []byte{'A', 'p', 2, 0, 0xca, 0xfe}
	case "mtime-os":
		w.ModTime = time.Unix(1700000000, 0)
		w.OS = 3
	case "all":
		w.Name, w.Comment, w.Extra, w.ModTime, w.OS = "n", "c", []byte{'X', 'y', 0, 0}, time.Unix(1, 0), 0
	default:
		panic("bad gzip header variant " + hdr)
	}
	_, _ = w.Write(data)
	if err := w.Close(); err != nil {
		panic(err)
	}
	out := append([]byte(nil), b.Bytes()...)
	switch hdr {
	case "hcrc": // FHCRC: CRC16 (low half of the CRC-32) of the header, right after it (the header has no other optional field: 10 bytes)
		out[3] |= 2
		crc := crc32.ChecksumIEEE(out[:10])
		out = append(out[:10:10], append([]byte{byte(crc), byte(crc >> 8)}, out[10:]...)...)
	case "text": // FTEXT: "probably ASCII text", a hint
		out[3] |= 1
	}
	return out
}

var c13ZstdEncoders = map[string]*zstd.Encoder{}

func c13ZstdEncoder(opt string) *zstd.Encoder {
	if e := c13ZstdEncoders[opt]; e != nil {
		return e
	}
	opts := []zstd.EOption{zstd.WithEncoderConcurrency(1), zstd.WithZeroFrames(true)}
	switch opt {
	case "default":
	case "fastest":
		opts = append(opts, zstd.WithEncoderLevel(zstd.SpeedFastest))
	case "better":
		opts = append(opts, zstd.WithEncoderLevel(zstd.SpeedBetterCompression))
	case "best":
		opts = append(opts, zstd.WithEncoderLevel(zstd.SpeedBestCompression))
	case "crc-off":
		opts = append(opts, zstd.WithEncoderCRC(false))
	case "no-entropy":
		opts = append(opts, zstd.WithNoEntropyCompression(true))
	case "not-single-segment":
		opts = append(opts, zstd.WithSingleSegment(false), zstd.WithWindowSize(1<<10))
	case "padded": // the encoder itself appends a skippable frame so that the output is a multiple of 64 bytes
		opts = append(opts, zstd.WithEncoderPadding(64))
	default:
		panic("bad zstd option " + opt)
	}
	e, err := zstd.NewWriter(nil, opts...)
	if err != nil {
		panic(err)
	}
	c13ZstdEncoders[opt] = e
	return e
}

// c13ZstdStreamWriter: the streaming encoder (frames without a declared content size), re-used: a new one
// allocates its whole history window.
func c13ZstdStreamWriter(dst io.Writer) *zstd.Encoder {
	e := c13ZstdEncoders["stream"]
	if e == nil {
		var err error
		if e, err = zstd.NewWriter(dst, zstd.WithEncoderConcurrency(1), zstd.WithZeroFrames(true)); err != nil {
			panic(err)
		}
		c13ZstdEncoders["stream"] = e
		return e
	}
	e.Reset(dst)
	return e
}

var c13BrotliWriters = map[[2]int]*brotli.Writer{}

// c13BrotliWriter: re-used as well (the ring buffer is allocated per writer).
func c13BrotliWriter(dst io.Writer, quality, lgwin int) *brotli.Writer {
	w := c13BrotliWriters[[2]int{quality, lgwin}]
	if w == nil {
		w = brotli.NewWriterOptions(dst, brotli.WriterOptions{Quality: quality, LGWin: lgwin})
		c13BrotliWriters[[2]int{quality, lgwin}] = w
		return w
	}
	w.Reset(dst)
	return w
}

var c13FlateWriters = map[string]c13Flusher{}

func c13ZlibWriter(dst io.Writer, level int) *zlib.Writer {
	key := fmt.Sprint("zlib", level)
	if w, ok := c13FlateWriters[key]; ok {
		w.(*zlib.Writer).Reset(dst)
		return w.(*zlib.Writer)
	}
	w, err := zlib.NewWriterLevel(dst, level)
	if err != nil {
		panic(err)
	}
	c13FlateWriters[key] = w
	return w
}

func c13ZstdSkippable(id byte, payload []byte) []byte {
	n := len(payload)
	return append([]byte{0x50 | id&0xf, 0x2a, 0x4d, 0x18, byte(n), byte(n >> 8), byte(n >> 16), byte(n >> 24)}, payload...)
}

func c13SnappyChunk(typ byte, data []byte) []byte {
	var body []byte
	switch typ {
	case 0x00, 0x01:
		c := crc32.Checksum(data, crc32.MakeTable(crc32.Castagnoli))
		c = (c>>15 | c<<17) + 0xa282ead8
		body = []byte{byte(c), byte(c >> 8), byte(c >> 16), byte(c >> 24)}
		if typ == 0 {
			body = append(body, snappy.Encode(nil, data)...)
		} else {
			body = append(body, data...)
		}
	default: // padding / skippable: the data is the chunk body
		body = data
	}
	n := len(body)
	return append([]byte{typ, byte(n), byte(n >> 8), byte(n >> 16)}, body...)
}

const c13SnappyID = "\xff\x06\x00\x00sNaPpY"

func c13SnappyStream(data []byte) []byte {
	var b bytes.Buffer
	w := snappy.NewBufferedWriter(&b)
	_, _ = w.Write(data)
	if err := w.Close(); err != nil {
		panic(err)
	}
	return b.Bytes()
}

type c13Flusher interface {
	io.Writer
	Flush() error
	Close() error
}

// c13WriteFlushed: write the pieces with a flush between them (a new block / meta-block each).
func c13WriteFlushed(w c13Flusher, pieces [][]byte) {
	for i, p := range pieces {
		if i > 0 {
			if err := w.Flush(); err != nil {
				panic(err)
			}
		}
		if _, err := w.Write(p); err != nil {
			panic(err)
		}
	}
	if err := w.Close(); err != nil {
		panic(err)
	}
}

func c13Atoi(s string) int {
	n, err := strconv.Atoi(s)
	if err != nil {
		panic("bad number in variant: " + s)
	}
	return n
}

// c13EncodeVariant: the named legal encoding of the content.
func c13EncodeVariant(codec, variant string, content []byte) (out []byte, err error) {
	defer func() {
		if r := recover(); r != nil {
			err = fmt.Errorf("encoding %s/%s: %v", codec, variant, r)
		}
	}()
	kind, offs, err := c13ParseVariant(variant)
	if err != nil {
		return nil, err
	}
	name, arg, _ := strings.Cut(kind, ":")
	pieces := c13Pieces(content, offs)
	var b bytes.Buffer
	switch codec + "/" + name {
	// ---- gzip
	case "gzip/single":
		return c13GzipMember(content, gzip.DefaultCompression, ""), nil
	case "gzip/level":
		return c13GzipMember(content, c13Atoi(arg), ""), nil
	case "gzip/hdr":
		return c13GzipMember(content, gzip.DefaultCompression, arg), nil
	case "gzip/members", "gzip/stored-members", "gzip/members-hdr":
		for i, p := range pieces {
			level, hdr := gzip.DefaultCompression, ""
			if name == "stored-members" {
				level = gzip.NoCompression
			}
			if name == "members-hdr" {
				hdr = []string{"comment", "name", "extra", "hcrc"}[i%4]
			}
			b.Write(c13GzipMember(p, level, hdr))
		}
		return b.Bytes(), nil
	case "gzip/flush":
		w := c13GzipWriters[gzip.BestSpeed]
		if w == nil {
			w, _ = gzip.NewWriterLevel(&b, gzip.BestSpeed)
			c13GzipWriters[gzip.BestSpeed] = w
		} else {
			w.Reset(&b)
		}
		c13WriteFlushed(w, pieces)
		return b.Bytes(), nil
	// ---- zstd
	case "zstd/single":
		return c13ZstdEncoder("default").EncodeAll(content, nil), nil
	case "zstd/opt":
		return c13ZstdEncoder(arg).EncodeAll(content, nil), nil
	case "zstd/stream", "zstd/stream-flush":
		c13WriteFlushed(c13ZstdStreamWriter(&b), pieces)
		return b.Bytes(), nil
	case "zstd/frames":
		for _, p := range pieces {
			b.Write(c13ZstdEncoder("default").EncodeAll(p, nil))
		}
		return b.Bytes(), nil
	case "zstd/frames-mixed": // first frame by the streaming writer (no content size, checksum), the others one-shot without checksum
		for i, p := range pieces {
			if i == 0 {
				c13WriteFlushed(c13ZstdStreamWriter(&b), [][]byte{p})
			} else {
				b.Write(c13ZstdEncoder("crc-off").EncodeAll(p, nil))
			}
		}
		return b.Bytes(), nil
	case "zstd/skippable":
		skip := c13ZstdSkippable(3, []byte("skip me: \x28\xb5\x2f\xfd not a frame"))
		if arg == "empty" {
			skip = c13ZstdSkippable(0, nil)
		}
		for i, p := range pieces {
			if i > 0 || arg == "before" || arg == "empty" {
				b.Write(skip)
			}
			b.Write(c13ZstdEncoder("default").EncodeAll(p, nil))
		}
		if arg == "after" {
			b.Write(skip)
		}
		return b.Bytes(), nil
	// ---- deflate (zlib)
	case "deflate/single":
		c13WriteFlushed(c13ZlibWriter(&b, zlib.DefaultCompression), [][]byte{content})
		return b.Bytes(), nil
	case "deflate/level", "deflate/flush":
		level := flate.BestSpeed
		if name == "level" {
			level = c13Atoi(arg)
		}
		c13WriteFlushed(c13ZlibWriter(&b, level), pieces)
		return b.Bytes(), nil
	// ---- brotli
	case "br/single":
		c13WriteFlushed(c13BrotliWriter(&b, brotli.DefaultCompression, 0), [][]byte{content})
		return b.Bytes(), nil
	case "br/quality":
		c13WriteFlushed(c13BrotliWriter(&b, c13Atoi(arg), 0), [][]byte{content})
		return b.Bytes(), nil
	case "br/lgwin":
		c13WriteFlushed(c13BrotliWriter(&b, 5, c13Atoi(arg)), [][]byte{content})
		return b.Bytes(), nil
	case "br/flush":
		c13WriteFlushed(c13BrotliWriter(&b, 4, 0), pieces)
		return b.Bytes(), nil
	// ---- snappy (framing format)
	case "snappy/single":
		return c13SnappyStream(content), nil
	case "snappy/writes": // unbuffered writer: one chunk per Write
		w := snappy.NewWriter(&b)
		for _, p := range pieces {
			if _, err := w.Write(p); err != nil {
				return nil, err
			}
		}
		return b.Bytes(), nil
	case "snappy/streams": // concatenated streams: the stream identifier occurs again
		for _, p := range pieces {
			b.Write(c13SnappyStream(p))
		}
		return b.Bytes(), nil
	case "snappy/uncompressed":
		b.WriteString(c13SnappyID)
		for _, p := range pieces {
			b.Write(c13SnappyChunk(1, p))
		}
		return b.Bytes(), nil
	case "snappy/mixed":
		b.WriteString(c13SnappyID)
		for i, p := range pieces {
			b.Write(c13SnappyChunk(byte(i%2), p))
		}
		return b.Bytes(), nil
	case "snappy/skip": // arg: chunk type in hex (fe = padding, 80..fd = reserved skippable); after the identifier, between the chunks, at the end
		typ, err := strconv.ParseUint(arg, 16, 8)
		if err != nil || typ < 0x80 || typ > 0xfe {
			return nil, fmt.Errorf("bad snappy chunk type %q", arg)
		}
		skip := c13SnappyChunk(byte(typ), []byte("\x00\x00\x00\x00padding that looks like nothing"))
		b.WriteString(c13SnappyID)
		b.Write(skip)
		for i, p := range pieces {
			if i > 0 {
				b.Write(skip)
				b.Write(c13SnappyChunk(byte(typ), nil))
			}
			b.Write(c13SnappyChunk(0, p))
		}
		b.Write(skip)
		return b.Bytes(), nil
	}
	return nil, fmt.Errorf("unknown variant %s/%s", codec, variant)
}

var c13RefZstdDecoder *zstd.Decoder

// c13DecodeRef: the codec library's own verdict on the bytes (NOT internal/compression).
func c13DecodeRef(codec string, data []byte) ([]byte, error) {
	var rd io.Reader
	switch codec {
	case "gzip":
		z, err := gzip.NewReader(bytes.NewReader(data))
		if err != nil {
			return nil, err
		}
		rd = z
	case "zstd":
		if c13RefZstdDecoder == nil {
			d, err := zstd.NewReader(nil, zstd.WithDecoderConcurrency(1))
			if err != nil {
				return nil, err
			}
			c13RefZstdDecoder = d
		}
		if err := c13RefZstdDecoder.Reset(bytes.NewReader(data)); err != nil {
			return nil, err
		}
		rd = c13RefZstdDecoder
	case "deflate":
		z, err := zlib.NewReader(bytes.NewReader(data))
		if err != nil {
			return nil, err
		}
		rd = z
	case "br":
		rd = brotli.NewReader(bytes.NewReader(data))
	case "snappy":
		rd = snappy.NewReader(bytes.NewReader(data))
	default:
		return nil, fmt.Errorf("no reference decoder for %q", codec)
	}
	return io.ReadAll(rd)
}

// ---------------------------------------------------------------- enumeration

// c13EncOffsets: where a content of n bytes is split: every offset 0..n (an empty first / last piece included).
func c13EncOffsets(n int, _ bool) []int {
	out := make([]int, 0, n+1)
	for i := 0; i <= n; i++ {
		out = append(out, i)
	}
	return out
}

// c13EncPairs: representative offset pairs for three pieces.
func c13EncPairs(n int) [][2]int {
	set := []int{0, 1, n / 3, n / 2, 2 * n / 3, n - 1, n}
	var out [][2]int
	seen := map[[2]int]bool{}
	for _, i := range set {
		for _, j := range set {
			p := [2]int{i, j}
			if i < 0 || i > j || seen[p] {
				continue
			}
			seen[p] = true
			out = append(out, p)
		}
	}
	return out
}

// c13EncVariants: the variant names for a content of n bytes.
func c13EncVariants(codec string, n int, thorough bool) (fixed, split []string) {
	var everyOffset, pairs []string
	switch codec {
	case "gzip":
		fixed = []string{"single", "level:0", "level:1", "level:9", "level:-2",
			"hdr:name", "hdr:comment", "hdr:extra", "hdr:mtime-os", "hdr:all", "hdr:hcrc", "hdr:text"}
		everyOffset = []string{"members", "flush"}
		if thorough {
			everyOffset = append(everyOffset, "stored-members", "members-hdr")
		}
		pairs = []string{"members", "stored-members", "members-hdr", "flush"}
	case "zstd":
		fixed = []string{"single", "opt:fastest", "opt:better", "opt:best", "opt:crc-off", "opt:no-entropy", "opt:not-single-segment", "opt:padded",
			"stream", "skippable:before", "skippable:after", "skippable:empty"}
		everyOffset = []string{"frames", "stream-flush"}
		if thorough {
			everyOffset = append(everyOffset, "frames-mixed", "skippable:between")
		}
		pairs = []string{"frames", "frames-mixed", "skippable:between", "stream-flush"}
	case "deflate":
		fixed = []string{"single", "level:0", "level:1", "level:9", "level:-2"}
		everyOffset = []string{"flush"}
		pairs = []string{"flush", "level:0"}
	case "br":
		fixed = []string{"single", "quality:0", "quality:1", "quality:2", "quality:5", "quality:9", "quality:11", "lgwin:10", "lgwin:24"}
		everyOffset = []string{"flush"}
		pairs = []string{"flush"}
	case "snappy":
		fixed = []string{"single", "uncompressed", "skip:fe", "skip:80", "skip:fd"}
		everyOffset = []string{"streams", "writes"}
		if thorough {
			everyOffset = append(everyOffset, "mixed", "skip:fe")
		}
		pairs = []string{"streams", "writes", "mixed", "uncompressed", "skip:fe", "skip:a5"}
	default:
		panic("bad codec " + codec)
	}
	for _, k := range everyOffset {
		for _, o := range c13EncOffsets(n, thorough) {
			split = append(split, fmt.Sprintf("%s@%d", k, o))
		}
	}
	for _, k := range pairs {
		for _, p := range c13EncPairs(n) {
			split = append(split, fmt.Sprintf("%s@%d,%d", k, p[0], p[1]))
		}
		if !c13Contains(everyOffset, k) { // kinds that are not split at every offset: at least in the middle
			split = append(split, fmt.Sprintf("%s@%d", k, n/2))
		}
	}
	return fixed, split
}

func c13Contains(list []string, s string) bool {
	for _, x := range list {
		if x == s {
			return true
		}
	}
	return false
}

// c13EncCases: simplest first — per shape and content: the fixed variants of every codec (whole and byte by
// byte), "negotiated but sent uncompressed", then the split variants.
func c13EncCases(thorough bool) []c13EncCase {
	var out []c13EncCase
	for _, shape := range c13EncShapes {
		for _, def := range c13EncContentDefs[shape] {
			n := len(c13EncContent(shape, def.Name))
			for _, codec := range c13EncCodecs {
				fixed, _ := c13EncVariants(codec, n, thorough)
				for _, v := range fixed {
					out = append(out, c13EncCase{shape, def.Name, codec, v, 0}, c13EncCase{shape, def.Name, codec, v, 1})
				}
				if shape != "connect-unary" {
					out = append(out, c13EncCase{shape, def.Name, codec, "negotiated-not-compressed", 0})
				}
			}
		}
	}
	for _, shape := range c13EncShapes {
		for _, def := range c13EncContentDefs[shape] {
			n := len(c13EncContent(shape, def.Name))
			for _, codec := range c13EncCodecs {
				_, split := c13EncVariants(codec, n, thorough)
				for _, v := range split {
					out = append(out, c13EncCase{shape, def.Name, codec, v, 0})
				}
			}
		}
	}
	return out
}

// ---------------------------------------------------------------- script, oracle

// script: the response; the second result is the reference decoding of what was sent compressed (nil for
// identity / not compressed).
func (c c13EncCase) script() (sc *c13Script, err error) {
	content := c13EncContent(c.Shape, c.Content)
	data, compressed := content, false
	if c.Codec != "identity" && c.Variant != "negotiated-not-compressed" {
		if data, err = c13EncodeVariant(c.Codec, c.Variant, content); err != nil {
			return nil, err
		}
		compressed = true
		back, derr := c13DecodeRef(c.Codec, data)
		if derr != nil || !bytes.Equal(back, content) {
			return nil, fmt.Errorf("harness: variant %s is not a legal %s encoding of the content: the %s library itself gives %d bytes, error %v (content: %d bytes)",
				c.Variant, c.Codec, c.Codec, len(back), derr, len(content))
		}
	}
	flagBit := byte(0)
	if compressed {
		flagBit = 1
	}
	switch c.Shape {
	case "connect-unary":
		sc = &c13Script{Status: 500, Header: http.Header{"Content-Type": {"application/json"}}, Body: data}
		if c.Codec != "identity" {
			sc.Header.Set("Content-Encoding", c.Codec)
		}
	case "connect-end-stream":
		sc = c13StreamScript("connect", false, c13Envelope(0x02|flagBit, data))
		if c.Codec != "identity" {
			sc.Header.Set("Connect-Content-Encoding", c.Codec)
		}
	case "grpc-web-block":
		sc = c13StreamScript("grpcweb", false, c13Envelope(0x80|flagBit, data))
		if c.Codec != "identity" {
			sc.Header.Set("Grpc-Encoding", c.Codec)
		}
	default:
		return nil, fmt.Errorf("bad shape %q", c.Shape)
	}
	sc.End, sc.Chunk = "eof", c.Chunk
	return sc, nil
}

type c13EncRunner struct {
	pl     *c13Pipeline
	anchor map[string][]string // shape/content -> feedback of the plain rendering
}

func c13NewEncRunner() *c13EncRunner {
	return &c13EncRunner{pl: c13NewPipeline(), anchor: map[string][]string{}}
}

// anchorOf: the feedback of the content sent plainly (identity: no encoding header, flag clear); its
// plain verdict is checked on the way.
func (h *c13EncRunner) anchorOf(c c13EncCase) (msgs []string, verdicts []c13Verdict) {
	key := c.Shape + "/" + c.Content
	if m, ok := h.anchor[key]; ok {
		return m, nil
	}
	plain := c13EncCase{c.Shape, c.Content, "identity", "plain", 0}
	sc, err := plain.script()
	if err != nil {
		panic(err)
	}
	msgs, pk := h.pl.exchange(sc)
	h.anchor[key] = msgs
	def := c13EncContentDefOf(c.Shape, c.Content)
	switch {
	case pk != "":
		verdicts = append(verdicts, c13Verdict{"panic:" + c.format() + ":encodings", "capture pipeline panicked on " + plain.String() + "\n" + pk})
	case def.Expect == "silent" && len(msgs) > 0:
		verdicts = append(verdicts, c13Verdict{"false-feedback:" + c.format() + ":scripted-pipeline:" + c13Slug(c13Class(msgs[0])),
			fmt.Sprintf("well-formed content %s/%s, sent uncompressed through the capturing transport, drew feedback %q", c.Shape, c.Content, msgs)})
	case def.Expect == "feedback" && len(msgs) == 0:
		verdicts = append(verdicts, c13Verdict{"malformation-not-flagged:scripted-pipeline:" + c13Slug(c.Shape+"-"+c.Content),
			fmt.Sprintf("malformed content %s/%s, sent uncompressed through the capturing transport, drew no feedback", c.Shape, c.Content)})
	}
	return msgs, verdicts
}

func (h *c13EncRunner) judge(c c13EncCase) (verdicts []c13Verdict, outcome string, harnessErr string) {
	want, verdicts := h.anchorOf(c)
	sc, err := c.script()
	if err != nil {
		return verdicts, "", err.Error()
	}
	msgs, pk := h.pl.exchange(sc)
	if pk != "" {
		return append(verdicts, c13Verdict{"panic:" + c.format() + ":encodings:" + c.Codec, "capture pipeline panicked on " + c.String() + "\n" + pk}), "panic", ""
	}
	if c13SameMsgs(msgs, want) {
		if len(msgs) == 0 {
			return verdicts, "same-silent", ""
		}
		return verdicts, "same-flagged", ""
	}
	def := c13EncContentDefOf(c.Shape, c.Content)
	what := "well-formed"
	if def.Expect == "feedback" {
		what = "malformed"
	}
	outcome = "differs"
	if len(msgs) == 0 {
		outcome = "differs-silent"
	}
	verdicts = append(verdicts, c13Verdict{"encoding-dependent-feedback:" + c.format() + ":" + c.Codec + ":" + c.variantKind(),
		fmt.Sprintf("the %s content %s/%s (%d bytes), sent %s-encoded as variant %q (%d bytes on the wire; the %s library decodes them to exactly the content), drew feedback %s; "+
			"the same content sent uncompressed draws %s. Read through the capturing transport and examined by examineWireDetails.\ncontent: %s",
			what, c.Shape, c.Content, len(c13EncContent(c.Shape, c.Content)), c.Codec, c.Variant, len(sc.Body), c.Codec,
			c13Trunc(fmt.Sprintf("%q", msgs), 700), c13Trunc(fmt.Sprintf("%q", want), 400), c13Trunc(fmt.Sprintf("%q", c13EncContent(c.Shape, c.Content)), 500))})
	return verdicts, outcome, ""
}

func c13EncodingsPhase(x *c13Run_, thorough bool) {
	r := x.r
	if x.stopped {
		return
	}
	h := c13NewEncRunner()
	cases := c13EncCases(thorough)
	nContents := 0
	for _, s := range c13EncShapes {
		nContents += len(c13EncContentDefs[s])
	}
	r.Extra["encodings"] = map[string]any{"cases": len(cases), "contents": nContents, "codecs": c13EncCodecs}
	harnessErrs := 0
	for _, c := range cases {
		if !x.mine() {
			if x.stopped {
				return
			}
			continue
		}
		verdicts, outcome, herr := h.judge(c)
		for _, v := range verdicts {
			c := c
			r.Violate(v.Key, v.Detail, c13Replay{Enc: &c})
		}
		if herr != "" {
			if harnessErrs++; harnessErrs <= 5 {
				x.t.Errorf("encodings stage, %s: %s", c, herr)
			}
			continue
		}
		r.Eval(1)
		r.NonTrivial("")
		r.Count("cases:encodings", 1)
		r.Count("cases:encodings:"+c.Codec, 1)
		r.Outcome("encodings:" + c.Shape + ":" + c.Codec + ":" + outcome)
		if x.k%2503 == 1 {
			r.Sample(map[string]any{"phase": "encodings", "case": c.String(), "observed": outcome})
		}
	}
}

func c13ReplayEncoding(t interface{ Errorf(string, ...any) }, r *rep.Report, c c13EncCase) {
	h := c13NewEncRunner()
	verdicts, outcome, herr := h.judge(c)
	fmt.Fprintf(os.Stderr, "replay encodings case %s -> %s %s\nfeedback of the plain rendering: %q\n", c, outcome, herr, h.anchor[c.Shape+"/"+c.Content])
	if herr != "" {
		t.Errorf("%s", herr)
	}
	for _, v := range verdicts {
		fmt.Fprintf(os.Stderr, "  %s\n  %s\n", v.Key, strings.ReplaceAll(v.Detail, "\n", "\n  "))
		r.Violate(v.Key, v.Detail, c13Replay{Enc: &c})
	}
	r.Sample(c.String())
}
