package referenceclient

// C13 round 5 — stage "typeurls": the PREFIX of a protobuf type URL as an axis,
// wherever a rendering of an error contains a type URL:
//
//   - the "@type" of a detail's optional "debug" member when that member is the JSON
//     form of the detail's Any (what an encoder writes that marshals the Any, not the
//     message in it — the form the examiner explicitly accommodates),
//   - the Any values of grpc-status-details-bin (gRPC / gRPC-Web trailers),
//   - the Any handed to connect-go's ErrorWriter and to the repository's trailer
//     encoders (connect-go keeps a caller-supplied Any as it is),
//   - type URLs INSIDE detail messages (an Any detail; the details of a
//     google.rpc.Status detail), in the value and in both debug forms.
//
// google/protobuf/any.proto: the URL "must contain at least one '/' character. The
// last segment of the URL's path must represent the fully qualified name of the type";
// "type.googleapis.com/" is merely the default. So every prefix ending in '/' names
// the same type: the default one, another host, a host with a path, several path
// segments, a scheme, a bare '/'. (No prefix at all is accepted by the protobuf
// runtime but not allowed by that comment: such cases are run for robustness and for
// the agreement of the routes only.)
//
// Oracle, whatever the prefix:
//   - a rendering whose debug member agrees with type and value draws NO feedback,
//     on every route (examiner called directly, examineWireDetails with a hand-built
//     trace, the complete capture pipeline over the scripted transport; unary error
//     body AND end-of-stream message; trailers / trailer block for details-bin);
//   - a debug member in Any form that names a genuinely DIFFERENT message type, or
//     the right type with other content, draws feedback;
//   - the complete pipeline draws exactly what the direct call draws (two routes).

import (
	"fmt"
	"net/http"
	"os"
	"strings"

	"connectrpc.com/conformance/internal/verif/rep"
	"google.golang.org/protobuf/proto"
)

type c13TUPrefix struct {
	Name  string
	Field string // value of c13Err.URLPrefix / InnerPrefix
	Legal bool   // contains the '/' any.proto asks for
}

var c13TUPrefixes = []c13TUPrefix{
	{"default", "", true},
	{"other-host", "example.com/", true},
	{"host-with-path", "types.acme.io/v1/", true},
	{"path-segments", "x/y/", true},
	{"bare-slash", "/", true},
	{"scheme", "https://type.googleapis.com/", true},
	{"default-twice", "type.googleapis.com/type.googleapis.com/", true},
	{"none", "-", false},
}

func c13TUPrefixOf(name string) c13TUPrefix {
	for _, p := range c13TUPrefixes {
		if p.Name == name {
			return p
		}
	}
	panic("unknown type-URL prefix " + name)
}

// c13TUCase: one grid point (all its renderings / routes stay together).
type c13TUCase struct {
	Err    c13Err `json:"err"` // URLPrefix / InnerPrefix / DebugAny are filled in from the names below
	Prefix string `json:"prefix"`
	Inner  string `json:"inner"`
	Form   string `json:"form"` // direct | any | any-other-type | any-other-content
}

func (c c13TUCase) String() string {
	return fmt.Sprintf("prefix=%s inner=%s debug=%s %s", c.Prefix, c.Inner, c.Form, c.Err)
}

func (c c13TUCase) err() c13Err {
	e := c.Err
	e.URLPrefix = c13TUPrefixOf(c.Prefix).Field
	e.InnerPrefix = c13TUPrefixOf(c.Inner).Field
	e.DebugAny = c.Form != "direct"
	return e
}

// details whose own JSON form accepts arbitrary members ("@type" included) or is itself an Any: the examiner
// cannot tell a debug member in Any form from one in message form for them (see the NOTE in
// examineConnectErrorDetailDebugData); they are crossed with the message form only.
func c13TUAmbiguous(detail string) bool { return detail == "struct" || detail == "any" }

func c13TUHasInnerURLs(details []string) bool {
	for _, d := range details {
		if d == "any" || d == "status" {
			return true
		}
	}
	return false
}

// c13TUOther: a message of a genuinely different type than the named detail.
func c13TUOther(detail string) proto.Message {
	if detail == "string" {
		return c13Detail("header")
	}
	return c13Detail("string")
}

func c13TUCases(thorough bool) []c13TUCase {
	bases := []c13Err{{Code: 5, Msg: "a% é~b", Meta: "mixed"}, {Code: 13, Msg: "", Meta: "none"}}
	var lists [][]string
	for _, d := range c13DetailAlphabet {
		lists = append(lists, []string{d.Name})
	}
	lists = append(lists, []string{"header", "string"}, []string{"status", "reqinfo"})
	if thorough {
		for _, a := range []string{"header", "empty", "duration", "status", "bytes62"} {
			for _, b := range []string{"header", "string", "any", "status"} {
				lists = append(lists, []string{a, b})
			}
		}
	}
	var out []c13TUCase
	for bi, b := range bases {
		for _, dl := range lists {
			if !thorough && bi == 1 && len(dl) > 1 {
				continue
			}
			e := b
			e.Details = dl
			inners := []string{"default"}
			if c13TUHasInnerURLs(dl) {
				inners = nil
				for _, p := range c13TUPrefixes {
					inners = append(inners, p.Name)
				}
			}
			ambiguous := false
			for _, d := range dl {
				ambiguous = ambiguous || c13TUAmbiguous(d)
			}
			for _, p := range c13TUPrefixes {
				for _, in := range inners {
					if !thorough && p.Name != "default" && in != "default" && in != p.Name && in != "other-host" {
						continue // quick: the two prefixes vary one at a time, together, and against one fixed other
					}
					out = append(out, c13TUCase{e, p.Name, in, "direct"})
					if ambiguous {
						continue
					}
					out = append(out, c13TUCase{e, p.Name, in, "any"})
					if in == "default" {
						out = append(out, c13TUCase{e, p.Name, in, "any-other-type"})
						for _, d := range dl {
							if c13DetailDefOf(d).Alt != nil {
								out = append(out, c13TUCase{e, p.Name, in, "any-other-content"})
								break
							}
						}
					}
				}
			}
		}
	}
	return out
}

// c13TUMalformed: the error's JSON with the debug member of ONE detail (the last one that allows it) replaced by
// the Any form of another message: another type, or the right type with other content.
func (c c13TUCase) malformedTree() *c13J {
	e := c.err()
	t := c13ErrTree(e, true, false)
	prefix := c13URLPrefix(e.URLPrefix)
	dets := t.get("details").Elems
	for i := len(dets) - 1; i >= 0; i-- {
		def := c13DetailDefOf(e.Details[i])
		switch c.Form {
		case "any-other-type":
			dets[i].set("debug", c13ParseJSON(c13DebugJSON(c13AnyOf(c13TUOther(e.Details[i]), prefix))))
			return t
		case "any-other-content":
			if def.Alt != nil {
				dets[i].set("debug", c13ParseJSON(c13DebugJSON(c13AnyOf(def.Alt, prefix))))
				return t
			}
		}
	}
	panic("no detail to malform in " + c.String())
}

type c13TURunner struct {
	pl   *c13Pipeline
	herr func(string) // harness error
}

// cases: every rendering / route of the grid point as c13Case (judged by c13Judge), plus the pipeline scripts.
func (h *c13TURunner) run(c c13TUCase, each func(cc *c13Case, verdicts []c13Verdict, outcome string)) {
	e := c.err()
	legal := c13TUPrefixOf(c.Prefix).Legal && c13TUPrefixOf(c.Inner).Legal
	rekey := func(vs []c13Verdict) []c13Verdict {
		for i := range vs {
			parts := strings.SplitN(vs[i].Key, ":", 3)
			switch {
			case len(parts) == 3 && parts[0] == "false-feedback":
				vs[i].Key = parts[0] + ":" + parts[1] + ":type-url-prefix:" + parts[2]
			case len(parts) >= 2 && parts[0] == "malformation-not-flagged":
				vs[i].Key = "malformation-not-flagged:type-url-prefix:" + strings.Join(parts[1:], ":")
			}
			vs[i].Detail = "type-URL prefix " + fmt.Sprintf("%q (inside the detail messages %q), debug member in %s form: ", c13URLPrefix(e.URLPrefix), c13URLPrefix(e.InnerPrefix), c.Form) + vs[i].Detail
		}
		return vs
	}
	judge := func(cc *c13Case) {
		cc.Phase = "typeurls"
		if !legal {
			cc.Expect = "nopanic"
		}
		verdicts, outcome := c13Judge(cc)
		each(cc, rekey(verdicts), outcome)
	}
	// the complete capture pipeline; must agree with the direct call
	pipeline := func(format, class string, sc *c13Script, direct []string, expect string) {
		msgs, pk, unsteady := c13ExchangeSteady(h.pl, sc)
		if unsteady {
			h.herr(fmt.Sprintf("typeurls stage, %s: examineWireDetails did not find the trace in three attempts: %q", c, msgs))
			return
		}
		cc := &c13Case{Phase: "typeurls", Format: format, Class: class + ":pipeline", Expect: expect, Origin: e.String()}
		var vs []c13Verdict
		outcome := "silent"
		switch {
		case pk != "":
			vs = append(vs, c13Verdict{"panic:" + format + ":type-url-prefix", "capture pipeline panicked on " + c.String() + "\n" + pk})
			outcome = "panic"
		case !c13SameMsgs(msgs, direct):
			vs = append(vs, c13Verdict{"route-dependent-feedback:" + format + ":type-url-prefix",
				fmt.Sprintf("%s: the response %s (status %d, headers %v, body %s), read through the capturing transport and examined by examineWireDetails, drew %s; the same bytes given to the examiner directly draw %s",
					c, class, sc.Status, sc.Header, c13Trunc(fmt.Sprintf("%q", sc.Body), 700), c13Trunc(fmt.Sprintf("%q", msgs), 500), c13Trunc(fmt.Sprintf("%q", direct), 500))})
			outcome = "differs"
		case len(msgs) > 0:
			outcome = "flagged-as-direct"
		}
		each(cc, vs, outcome)
	}

	switch c.Form {
	case "direct", "any":
		var unary, endStream, block string
		c13WellFormedCases(e, true, func(cc *c13Case) {
			switch {
			case cc.Format == "connect-unary-error" && cc.Class == "ref-compact-debug":
				unary = string(cc.Input)
			case cc.Format == "connect-end-stream" && cc.Class == "ref-compact-canonical-keys":
				endStream = string(cc.Input)
			case cc.Format == "grpc-web-trailers" && cc.Class == "ref-block":
				block = string(cc.Input)
			}
			judge(cc)
		})
		// (that the direct call is silent is judged above; here the routes have to agree)
		du, _ := c13ExConnectError(unary)
		de, _ := c13ExEndStream(endStream)
		db, _ := c13ExBlock(block)
		pipeline("connect-unary-error", "ref-compact-debug", &c13Script{Status: 404, Header: http.Header{"Content-Type": {"application/json"}}, Body: []byte(unary), End: "eof"}, du, "silent")
		pipeline("connect-end-stream", "ref-compact-canonical-keys", c13StreamScript("connect", false, c13Envelope(2, []byte(endStream))), de, "silent")
		pipeline("grpc-web-trailers", "ref-block", c13StreamScript("grpcweb", false, c13Envelope(0x80, []byte(block))), db, "silent")
	default:
		t := c.malformedTree()
		class := "debug-names-other-type"
		if c.Form == "any-other-content" {
			class = "debug-any-disagrees-with-value"
		}
		unary := t.text(c13JStyle{})
		endStream := c13Obj("error", t, "metadata", c13MetaTree(c13Meta("lower"), true)).text(c13JStyle{Indent: true})
		mk := func(format, input string) *c13Case {
			return &c13Case{Format: format, Class: class, Expect: "feedback", Input: []byte(input), Origin: e.String()}
		}
		judge(mk("connect-unary-error", unary))
		judge(mk("connect-end-stream", endStream))
		du, _ := c13ExConnectError(unary)
		de, _ := c13ExEndStream(endStream)
		judge(&c13Case{Format: "wire", Class: class, Expect: "feedback", Origin: e.String(),
			Wire: &c13Wire{ContentType: "application/json", Status: 500, Body: unary}})
		judge(&c13Case{Format: "wire", Class: class, Expect: "feedback", Origin: e.String(),
			Wire: &c13Wire{ContentType: "application/connect+json", Status: 200, EndStream: &endStream, HasData: true}})
		pipeline("connect-unary-error", class, &c13Script{Status: 500, Header: http.Header{"Content-Type": {"application/json"}}, Body: []byte(unary), End: "eof"}, du, "feedback")
		pipeline("connect-end-stream", class, c13StreamScript("connect", false, c13Envelope(2, []byte(endStream))), de, "feedback")
	}
}

func c13TypeURLsPhase(x *c13Run_, thorough bool) {
	r := x.r
	if x.stopped {
		return
	}
	h := &c13TURunner{pl: c13NewPipeline(), herr: func(s string) { x.t.Errorf("%s", s) }}
	cases := c13TUCases(thorough)
	r.Extra["typeurls"] = map[string]any{"grid_points": len(cases), "prefixes": len(c13TUPrefixes)}
	for _, c := range cases {
		if !x.mine() {
			if x.stopped {
				return
			}
			continue
		}
		c := c
		n := 0
		h.run(c, func(cc *c13Case, verdicts []c13Verdict, outcome string) {
			n++
			r.Eval(1)
			r.NonTrivial("")
			r.Count("cases:typeurls", 1)
			verdict := "flagged"
			if outcome == "silent" || outcome == "panic" || outcome == "differs" {
				verdict = outcome
			}
			legal := "legal"
			if cc.Expect == "nopanic" {
				legal = "no-slash"
			}
			r.Outcome("typeurls:" + cc.keyFormat() + ":" + c.Form + ":" + legal + ":" + verdict)
			r.Count("typeurls:"+c.Prefix+":"+c.Form+":"+verdict, 1)
			if x.k%37 == 1 && n == 3 {
				r.Sample(map[string]any{"phase": "typeurls", "case": c.String(), "rendering": cc.Format + "/" + cc.Class,
					"input": c13Trunc(fmt.Sprintf("%q", cc.Input), 400), "observed": outcome})
			}
			for _, v := range verdicts {
				r.Violate(v.Key, v.Detail, c13Replay{TypeURL: &c})
			}
		})
		r.Count("grid-points:typeurls", 1)
	}
}

func c13ReplayTypeURL(t interface{ Errorf(string, ...any) }, r *rep.Report, c c13TUCase) {
	h := &c13TURunner{pl: c13NewPipeline(), herr: func(s string) { t.Errorf("%s", s) }}
	fmt.Fprintf(os.Stderr, "replay typeurls grid point %s\n", c)
	h.run(c, func(cc *c13Case, verdicts []c13Verdict, outcome string) {
		fmt.Fprintf(os.Stderr, "  %s/%s expect=%s -> %s\n", cc.Format, cc.Class, cc.Expect, outcome)
		for _, v := range verdicts {
			fmt.Fprintf(os.Stderr, "    %s\n    %s\n", v.Key, strings.ReplaceAll(c13Trunc(v.Detail, 1500), "\n", "\n    "))
			r.Violate(v.Key, v.Detail, c13Replay{TypeURL: &c})
		}
	})
	r.Sample(c.String())
}
