package referenceclient

// C13 — reference-client wire checks accept well-formed responses and flag
// malformed ones. Shared pieces: the error grid, the independent (spec-written)
// encoders, feedback capture with panic recovery and the hand-built trace that
// drives examineWireDetails without a network.

import (
	"bytes"
	"context"
	"encoding/base64"
	"encoding/json"
	"fmt"
	"net/http"
	"runtime/debug"
	"sort"
	"strconv"
	"strings"
	"unicode/utf8"

	"connectrpc.com/conformance/internal"
	conformancev1 "connectrpc.com/conformance/internal/gen/proto/go/connectrpc/conformance/v1"
	"connectrpc.com/conformance/internal/tracer"
	"connectrpc.com/connect"
	"google.golang.org/genproto/googleapis/rpc/status"
	"google.golang.org/protobuf/encoding/protojson"
	"google.golang.org/protobuf/proto"
	"google.golang.org/protobuf/reflect/protoreflect"
	"google.golang.org/protobuf/types/known/anypb"
	"google.golang.org/protobuf/types/known/durationpb"
	"google.golang.org/protobuf/types/known/emptypb"
	"google.golang.org/protobuf/types/known/structpb"
	"google.golang.org/protobuf/types/known/wrapperspb"
)

// ---------------------------------------------------------------- feedback

// c13Run calls fn with a fresh printer; a panic of the code under test is
// recovered and returned.
func c13Run(fn func(p internal.Printer)) (msgs []string, panicked string) {
	p := &internal.SimplePrinter{}
	func() {
		defer func() {
			if r := recover(); r != nil {
				panicked = fmt.Sprintf("%v\n%s", r, c13Trunc(string(debug.Stack()), 1500))
			}
		}()
		fn(p)
	}()
	return p.Messages, panicked
}

func c13Trunc(s string, n int) string {
	if len(s) <= n {
		return s
	}
	return s[:n] + "…"
}

// c13Class reduces a feedback message to a stable class (used for outcome
// statistics and for stable violation keys): text up to the first quote / digit
// run that depends on the input.
func c13Class(msg string) string {
	msg = strings.TrimSuffix(msg, "\n")
	if i := strings.IndexByte(msg, '\n'); i >= 0 {
		msg = msg[:i]
	}
	var out strings.Builder
	inQuote := byte(0)
	for i := 0; i < len(msg); i++ {
		ch := msg[i]
		if inQuote != 0 {
			if ch == '\\' && i+1 < len(msg) {
				i++
				continue
			}
			if ch == inQuote {
				inQuote = 0
				out.WriteByte('_')
			}
			continue
		}
		if ch == '"' {
			inQuote = ch
			continue
		}
		if ch >= '0' && ch <= '9' {
			if out.Len() == 0 || out.String()[out.Len()-1] != '#' {
				out.WriteByte('#')
			}
			continue
		}
		out.WriteByte(ch)
	}
	s := out.String()
	if len(s) > 90 {
		s = s[:90]
	}
	return s
}

// ---------------------------------------------------------------- error grid

type c13Err struct {
	Code    int      `json:"code"`
	Msg     string   `json:"msg"`     // always valid UTF-8
	Details []string `json:"details"` // names into c13DetailAlphabet
	Meta    string   `json:"meta"`    // name into c13MetaAlphabet
	// round 5: how type URLs are written wherever a rendering of the error contains one.
	// "" = the default prefix "type.googleapis.com/"; "-" = no prefix at all; anything else is the prefix itself.
	URLPrefix   string `json:"url_prefix,omitempty"`   // type URL of the details (Any in grpc-status-details-bin, Any handed to connect-go, "@type" of a debug member in Any form)
	InnerPrefix string `json:"inner_prefix,omitempty"` // type URLs INSIDE the detail messages (an Any detail, the details of a google.rpc.Status detail)
	DebugAny    bool   `json:"debug_any,omitempty"`    // the optional "debug" member is the JSON form of the detail's Any ("@type" present), not of the message
}

func (e c13Err) String() string {
	s := fmt.Sprintf("code=%d msg=%q details=%v meta=%s", e.Code, e.Msg, e.Details, e.Meta)
	if e.URLPrefix != "" || e.InnerPrefix != "" || e.DebugAny {
		s += fmt.Sprintf(" url-prefix=%q inner-prefix=%q debug-any=%v", c13URLPrefix(e.URLPrefix), c13URLPrefix(e.InnerPrefix), e.DebugAny)
	}
	return s
}

// c13URLPrefix: the prefix a c13Err field stands for.
func c13URLPrefix(field string) string {
	switch field {
	case "":
		return "type.googleapis.com/"
	case "-":
		return ""
	}
	return field
}

// c13AnyOf packs m into an Any whose type URL is prefix + full name (anypb.New always writes the default prefix).
func c13AnyOf(m proto.Message, prefix string) *anypb.Any {
	return &anypb.Any{TypeUrl: prefix + string(m.ProtoReflect().Descriptor().FullName()), Value: c13MustMarshal(m)}
}

// c13ReprefixAnys returns a copy of m in which every google.protobuf.Any reachable through message fields
// (m itself included) has the prefix of its type URL (everything up to the last '/') replaced.
func c13ReprefixAnys(m proto.Message, prefix string) proto.Message {
	out := proto.Clone(m)
	var walk func(pm protoreflect.Message)
	walk = func(pm protoreflect.Message) {
		if a, ok := pm.Interface().(*anypb.Any); ok {
			a.TypeUrl = prefix + a.TypeUrl[strings.LastIndexByte(a.TypeUrl, '/')+1:]
			return
		}
		pm.Range(func(fd protoreflect.FieldDescriptor, v protoreflect.Value) bool {
			switch {
			case fd.IsMap():
				if fd.MapValue().Message() != nil {
					v.Map().Range(func(_ protoreflect.MapKey, mv protoreflect.Value) bool { walk(mv.Message()); return true })
				}
			case fd.Message() == nil:
			case fd.IsList():
				for i := 0; i < v.List().Len(); i++ {
					walk(v.List().Get(i).Message())
				}
			default:
				walk(v.Message())
			}
			return true
		})
	}
	walk(out.ProtoReflect())
	return out
}

// detailMsg: the detail message as this error carries it (type URLs inside it rewritten when InnerPrefix is set).
func (e c13Err) detailMsg(name string) proto.Message {
	m := c13Detail(name)
	if e.InnerPrefix != "" {
		m = c13ReprefixAnys(m, c13URLPrefix(e.InnerPrefix))
	}
	return m
}

// Code names written from the Connect protocol specification (error codes
// table), NOT taken from connect.Code.String().
var c13CodeNames = []string{
	0: "", 1: "canceled", 2: "unknown", 3: "invalid_argument", 4: "deadline_exceeded",
	5: "not_found", 6: "already_exists", 7: "permission_denied", 8: "resource_exhausted",
	9: "failed_precondition", 10: "aborted", 11: "out_of_range", 12: "unimplemented",
	13: "internal", 14: "unavailable", 15: "data_loss", 16: "unauthenticated",
}

// Message alphabet: 12 symbols, simplest first; includes '%', space, DEL, the
// first code point of the 0x80 range and 2-, 3- and 4-byte UTF-8 sequences.
var c13MsgSyms = []string{"a", " ", "%", "~", "\x7f", "\x00", "\n", "\"", "\\", "\u0080", "€", "\U0001F600"}

// c13Messages: "", every single byte that is valid UTF-8 on its own (0..127),
// every pair over the alphabet, and (thorough) every triple over its first six
// symbols plus a few longer probes.
func c13Messages(thorough bool) []string {
	seen := map[string]bool{}
	var out []string
	add := func(s string) {
		if !seen[s] && utf8.ValidString(s) {
			seen[s] = true
			out = append(out, s)
		}
	}
	add("")
	for _, s := range c13MsgSyms {
		add(s)
	}
	for b := 0; b < 256; b++ {
		add(string([]byte{byte(b)})) // bytes >= 0x80 alone are not UTF-8: skipped ("where valid")
	}
	for _, a := range c13MsgSyms {
		for _, b := range c13MsgSyms {
			add(a + b)
		}
	}
	for _, s := range []string{"%41", "%zz", "100%", "a b", " a ", "\ta\t", "é%é", "+", "a+b", "%E2%82%AC", "oops: bad thing happened (x=1)"} {
		add(s)
	}
	if thorough {
		six := c13MsgSyms[:6]
		for _, a := range six {
			for _, b := range six {
				for _, c := range six {
					add(a + b + c)
				}
			}
		}
		add(strings.Repeat("a%€ ", 40))
	}
	return out
}

type c13DetailDef struct {
	Name string
	Msg  proto.Message
	Alt  proto.Message // same type, different content (for debug/value disagreement)
}

// Registered detail types (all linked into the reference client binary).
var c13DetailAlphabet = []c13DetailDef{
	{"header", &conformancev1.Header{Name: "x-k", Value: []string{"v1", "é%"}}, &conformancev1.Header{Name: "x-k", Value: []string{"v1"}}},
	{"empty", &emptypb.Empty{}, nil},
	{"string", wrapperspb.String("a \"q\" €"), wrapperspb.String("a")},
	{"reqinfo", &conformancev1.ConformancePayload_RequestInfo{
		RequestHeaders: []*conformancev1.Header{{Name: "a", Value: []string{"b"}}, {Name: "a", Value: []string{"c"}}},
		TimeoutMs:      proto.Int64(12),
	}, &conformancev1.ConformancePayload_RequestInfo{TimeoutMs: proto.Int64(13)}},
	{"duration", durationpb.New(3500 * 1000 * 1000), durationpb.New(1)},
	{"status", &status.Status{Code: 5, Message: "inner", Details: []*anypb.Any{c13MustAny(&emptypb.Empty{})}}, &status.Status{Code: 6}},
	{"any", c13MustAny(&conformancev1.Header{Name: "n"}), c13MustAny(&conformancev1.Header{Name: "m"})},
	{"struct", c13MustStruct(), &structpb.Struct{}},
	{"bytes62", wrapperspb.Bytes([]byte{0xfb, 0xff, 0xfe}), wrapperspb.Bytes([]byte{1})}, // base64 uses '+' and '/'
}

// c13PatternText: n characters running through the letters, digits and a few marks (deterministic, nothing JSON escapes).
func c13PatternText(n int) string {
	const unit = "abcdefghijklmnopqrstuvwxyz0123456789-_.~ ABCDEFGHIJKLMNOPQRSTUVWXYZ:;/"
	return strings.Repeat(unit, n/len(unit)+1)[:n]
}

func c13MustAny(m proto.Message) *anypb.Any {
	a, err := anypb.New(m)
	if err != nil {
		panic(err)
	}
	return a
}

func c13MustStruct() *structpb.Struct {
	s, err := structpb.NewStruct(map[string]any{"k": 1.5, "l": []any{"x", nil}})
	if err != nil {
		panic(err)
	}
	return s
}

func c13Detail(name string) proto.Message { return c13DetailDefOf(name).Msg }

func c13DetailDefOf(name string) c13DetailDef {
	// "big:<n>": a google.protobuf.StringValue of n characters (size-threshold stage). A string, not bytes:
	// the examiner compares value and debug with go-cmp, which walks a bytes field element by element
	// (about 0.6 s per 256 KiB) but treats a string as one value.
	if n, ok := strings.CutPrefix(name, "big:"); ok {
		size, err := strconv.Atoi(n)
		if err != nil || size < 0 {
			panic("bad detail name " + name)
		}
		return c13DetailDef{Name: name, Msg: wrapperspb.String(c13PatternText(size))}
	}
	for _, d := range c13DetailAlphabet {
		if d.Name == name {
			return d
		}
	}
	panic("unknown detail " + name)
}

// c13DetailLists: every list of 0..2 details over the first n alphabet entries.
func c13DetailLists(n int) [][]string {
	out := [][]string{{}}
	for i := 0; i < n; i++ {
		out = append(out, []string{c13DetailAlphabet[i].Name})
	}
	for i := 0; i < n; i++ {
		for j := 0; j < n; j++ {
			out = append(out, []string{c13DetailAlphabet[i].Name, c13DetailAlphabet[j].Name})
		}
	}
	return out
}

type c13MetaDef struct {
	Name string
	Hdrs []*conformancev1.Header
}

func c13B64(b []byte) string { return base64.RawStdEncoding.EncodeToString(b) }

// Metadata maps: lower/upper-case keys, -bin (unpadded base64, as the Header
// proto comment prescribes), repeated values, empty value, punctuation that is
// legal in HTTP field names and values.
var c13MetaAlphabet = []c13MetaDef{
	{"none", nil},
	{"lower", []*conformancev1.Header{{Name: "x-lower", Value: []string{"v"}}}},
	{"upper", []*conformancev1.Header{{Name: "X-Upper-CASE", Value: []string{"V1"}}}},
	{"bin", []*conformancev1.Header{{Name: "x-data-bin", Value: []string{c13B64([]byte{0, 255, 1, 254}), c13B64([]byte{0xfb, 0xff})}}}},
	{"repeated", []*conformancev1.Header{{Name: "x-rep", Value: []string{"a", "b", "a"}}}},
	{"mixed", []*conformancev1.Header{
		{Name: "x-lower", Value: []string{"with spaces, and commas"}},
		{Name: "X-Upper", Value: []string{"tilde~ {json} \"q\" 100%"}},
		{Name: "X-Data-Bin", Value: []string{c13B64([]byte("hello")), c13B64(nil)}},
		{Name: "x-empty", Value: []string{""}},
	}},
	{"punct", []*conformancev1.Header{{Name: "x-!#$%&'*+.^_`|~9", Value: []string{"!\"#$%&'()*+,-./:;<=>?@[\\]^_`{|}~"}}}},
	{"split", []*conformancev1.Header{{Name: "x-split", Value: []string{"a"}}, {Name: "x-other", Value: []string{"o"}}, {Name: "X-Split", Value: []string{"b"}}}},
}

func c13Meta(name string) []*conformancev1.Header {
	if name == "" {
		return nil
	}
	// "pad:<n>": one custom field "x-pad" whose value is n visible ASCII characters (size-threshold stage)
	if n, ok := strings.CutPrefix(name, "pad:"); ok {
		size, err := strconv.Atoi(n)
		if err != nil || size < 0 {
			panic("bad meta name " + name)
		}
		return []*conformancev1.Header{{Name: "x-pad", Value: []string{strings.Repeat("p", size)}}}
	}
	for _, m := range c13MetaAlphabet {
		if m.Name == name {
			return c13CloneHeaders(m.Hdrs)
		}
	}
	panic("unknown meta " + name)
}

func c13CloneHeaders(in []*conformancev1.Header) []*conformancev1.Header {
	out := make([]*conformancev1.Header, len(in))
	for i, h := range in {
		out[i] = proto.Clone(h).(*conformancev1.Header)
	}
	return out
}

func c13DetailAnys(e c13Err) []*anypb.Any {
	out := make([]*anypb.Any, len(e.Details))
	for i, d := range e.Details {
		out[i] = c13AnyOf(e.detailMsg(d), c13URLPrefix(e.URLPrefix))
	}
	return out
}

func c13ProtoError(e c13Err) *conformancev1.Error {
	return &conformancev1.Error{Code: conformancev1.Code(e.Code), Message: proto.String(e.Msg), Details: c13DetailAnys(e)}
}

func c13ConnectError(e c13Err) *connect.Error {
	return internal.ConvertProtoToConnectError(c13ProtoError(e))
}

// ---------------------------------------------------------------- reference encoders (from the specs)

// c13PctEncode: gRPC PROTOCOL-HTTP2 "Percent-Encoded": bytes outside
// %x20-%x7E and '%' itself become %XX.
func c13PctEncode(s string, lowerHex bool, encodeAll bool) string {
	hex := "0123456789ABCDEF"
	if lowerHex {
		hex = "0123456789abcdef"
	}
	var b strings.Builder
	for i := 0; i < len(s); i++ {
		ch := s[i]
		if encodeAll || ch < 0x20 || ch > 0x7e || ch == '%' {
			b.WriteByte('%')
			b.WriteByte(hex[ch>>4])
			b.WriteByte(hex[ch&15])
		} else {
			b.WriteByte(ch)
		}
	}
	return b.String()
}

// c13StatusBin: google.rpc.Status of the error, base64 without padding.
func c13StatusBin(code int, msg string, details []*anypb.Any) string {
	data, err := proto.Marshal(&status.Status{Code: int32(code), Message: msg, Details: details})
	if err != nil {
		panic(err)
	}
	return c13B64(data)
}

type c13KV struct{ K, V string }

// c13RefTrailerPairs: the trailer set a spec-conformant gRPC server sends for
// the error: grpc-status, grpc-message, grpc-status-details-bin (when there are
// details) and the custom metadata with lower-case names.
func c13RefTrailerPairs(e c13Err, lowerHex bool, alwaysBin bool) []c13KV {
	kv := []c13KV{{"grpc-status", fmt.Sprint(e.Code)}, {"grpc-message", c13PctEncode(e.Msg, lowerHex, false)}}
	if len(e.Details) > 0 || alwaysBin {
		kv = append(kv, c13KV{"grpc-status-details-bin", c13StatusBin(e.Code, e.Msg, c13DetailAnys(e))})
	}
	for _, h := range c13Meta(e.Meta) {
		for _, v := range h.Value {
			kv = append(kv, c13KV{strings.ToLower(h.Name), v})
		}
	}
	return kv
}

// c13Block renders a gRPC-Web trailer block: lower-case "name: value" lines, CRLF each.
func c13Block(kv []c13KV, sep string) string {
	var b strings.Builder
	for _, p := range kv {
		b.WriteString(p.K + sep + p.V + "\r\n")
	}
	return b.String()
}

func c13HeaderOf(kv []c13KV) http.Header {
	h := http.Header{}
	for _, p := range kv {
		h.Add(p.K, p.V)
	}
	return h
}

func c13ProtoHeaders(h http.Header) []*conformancev1.Header {
	keys := make([]string, 0, len(h))
	for k := range h {
		keys = append(keys, k)
	}
	sort.Strings(keys)
	out := make([]*conformancev1.Header, 0, len(keys))
	for _, k := range keys {
		out = append(out, &conformancev1.Header{Name: k, Value: h[k]})
	}
	return out
}

// ---- JSON (ordered tree, own serializer)

type c13J struct {
	Kind  byte // 'o' object, 'a' array, 's' string, 'r' raw literal
	Keys  []string
	Vals  []*c13J
	Elems []*c13J
	Str   string
}

func c13S(s string) *c13J   { return &c13J{Kind: 's', Str: s} }
func c13Raw(s string) *c13J { return &c13J{Kind: 'r', Str: s} }
func c13Arr(e ...*c13J) *c13J {
	return &c13J{Kind: 'a', Elems: e}
}
func c13Obj(kv ...any) *c13J {
	o := &c13J{Kind: 'o'}
	for i := 0; i+1 < len(kv); i += 2 {
		o.Keys = append(o.Keys, kv[i].(string))
		o.Vals = append(o.Vals, kv[i+1].(*c13J))
	}
	return o
}

func (j *c13J) clone() *c13J {
	c := &c13J{Kind: j.Kind, Str: j.Str, Keys: append([]string(nil), j.Keys...)}
	for _, v := range j.Vals {
		c.Vals = append(c.Vals, v.clone())
	}
	for _, v := range j.Elems {
		c.Elems = append(c.Elems, v.clone())
	}
	return c
}

func (j *c13J) get(k string) *c13J {
	for i, kk := range j.Keys {
		if kk == k {
			return j.Vals[i]
		}
	}
	return nil
}

func (j *c13J) set(k string, v *c13J) {
	for i, kk := range j.Keys {
		if kk == k {
			j.Vals[i] = v
			return
		}
	}
	j.Keys = append(j.Keys, k)
	j.Vals = append(j.Vals, v)
}

func (j *c13J) del(k string) {
	for i, kk := range j.Keys {
		if kk == k {
			j.Keys = append(j.Keys[:i:i], j.Keys[i+1:]...)
			j.Vals = append(j.Vals[:i:i], j.Vals[i+1:]...)
			return
		}
	}
}

type c13JStyle struct {
	Indent   bool // whitespace (incl. newlines and tabs) between all tokens
	EscapeNA bool // \uXXXX for every non-ASCII rune (surrogate pairs beyond the BMP)
	Reverse  bool // object members in reverse order
}

// c13JString: RFC 8259 string. Escapes '"', '\\' and control characters; DEL
// and non-ASCII are legal unescaped.
func c13JString(b *strings.Builder, s string, st c13JStyle) {
	b.WriteByte('"')
	for _, r := range s {
		switch {
		case r == '"':
			b.WriteString(`\"`)
		case r == '\\':
			b.WriteString(`\\`)
		case r < 0x20:
			fmt.Fprintf(b, `\u%04x`, r)
		case r >= 0x80 && st.EscapeNA:
			if r >= 0x10000 {
				r -= 0x10000
				fmt.Fprintf(b, `\u%04x\u%04x`, 0xd800+(r>>10), 0xdc00+(r&0x3ff))
			} else {
				fmt.Fprintf(b, `\u%04X`, r)
			}
		default:
			b.WriteRune(r)
		}
	}
	b.WriteByte('"')
}

func (j *c13J) write(b *strings.Builder, st c13JStyle, depth int) {
	nl := func(d int) {
		if st.Indent {
			b.WriteString("\r\n" + strings.Repeat("\t ", d))
		}
	}
	switch j.Kind {
	case 's':
		c13JString(b, j.Str, st)
	case 'r':
		b.WriteString(j.Str)
	case 'a':
		b.WriteByte('[')
		for i, e := range j.Elems {
			if i > 0 {
				b.WriteByte(',')
			}
			nl(depth + 1)
			e.write(b, st, depth+1)
		}
		if len(j.Elems) > 0 {
			nl(depth)
		}
		b.WriteByte(']')
	case 'o':
		b.WriteByte('{')
		n := len(j.Keys)
		for i := 0; i < n; i++ {
			k := i
			if st.Reverse {
				k = n - 1 - i
			}
			if i > 0 {
				b.WriteByte(',')
			}
			nl(depth + 1)
			c13JString(b, j.Keys[k], st)
			if st.Indent {
				b.WriteString(" : ")
			} else {
				b.WriteByte(':')
			}
			j.Vals[k].write(b, st, depth+1)
		}
		if n > 0 {
			nl(depth)
		}
		b.WriteByte('}')
	}
}

func (j *c13J) text(st c13JStyle) string {
	var b strings.Builder
	if st.Indent {
		b.WriteString(" \n\t")
	}
	j.write(&b, st, 0)
	if st.Indent {
		b.WriteString("\r\n ")
	}
	return b.String()
}

// c13DebugJSON: the canonical protobuf JSON form of a detail message, embedded
// verbatim as the optional "debug" member.
func c13DebugJSON(m proto.Message) string {
	data, err := protojson.Marshal(m)
	if err != nil {
		panic(err)
	}
	return string(data)
}

// c13ErrTree: Connect protocol "Error" JSON: {"code": name, "message": text,
// "details": [{"type": full name, "value": unpadded base64, "debug": any}]}.
// message and details are optional; emitMsg forces "message" even when empty.
func c13ErrTree(e c13Err, withDebug, emitMsg bool) *c13J {
	o := c13Obj("code", c13S(c13CodeNames[e.Code]))
	if e.Msg != "" || emitMsg {
		o.set("message", c13S(e.Msg))
	}
	if len(e.Details) > 0 {
		arr := c13Arr()
		for _, name := range e.Details {
			m := e.detailMsg(name)
			data, err := proto.Marshal(m)
			if err != nil {
				panic(err)
			}
			d := c13Obj("type", c13S(string(m.ProtoReflect().Descriptor().FullName())), "value", c13S(c13B64(data)))
			switch {
			case withDebug && e.DebugAny:
				// what an encoder writes that marshals the detail's Any (not the message in it) with protobuf JSON
				d.set("debug", c13ParseJSON(c13DebugJSON(c13AnyOf(m, c13URLPrefix(e.URLPrefix)))))
			case withDebug:
				d.set("debug", c13ParseJSON(c13DebugJSON(m)))
			}
			arr.Elems = append(arr.Elems, d)
		}
		o.set("details", arr)
	}
	return o
}

// c13MetaTree: end-stream "metadata": object of name -> array of strings. Names
// that differ only in case are merged (they are the same HTTP field).
func c13MetaTree(hdrs []*conformancev1.Header, canonical bool) *c13J {
	o := c13Obj()
	for _, h := range hdrs {
		name := strings.ToLower(h.Name)
		if canonical {
			name = http.CanonicalHeaderKey(h.Name)
		}
		arr := o.get(name)
		if arr == nil {
			arr = c13Arr()
			o.set(name, arr)
		}
		for _, v := range h.Value {
			arr.Elems = append(arr.Elems, c13S(v))
		}
	}
	return o
}

func c13EndStreamTree(e *c13Err, withDebug bool, meta []*conformancev1.Header, emitEmptyMeta, canonical bool) *c13J {
	o := c13Obj()
	if e != nil {
		o.set("error", c13ErrTree(*e, withDebug, false))
	}
	if len(meta) > 0 || emitEmptyMeta {
		o.set("metadata", c13MetaTree(meta, canonical))
	}
	return o
}

// ---------------------------------------------------------------- examiner entry points

func c13ExConnectError(body string) ([]string, string) {
	return c13Run(func(p internal.Printer) { examineConnectError([]byte(body), p) })
}

func c13ExEndStream(body string) ([]string, string) {
	return c13Run(func(p internal.Printer) { examineConnectEndStream([]byte(body), p) })
}

// c13ExBlock: what examineWireDetails + invoker.examineWireDetails do with a
// gRPC-Web trailer block: parse, check the status trio, check -bin metadata.
func c13ExBlock(block string) ([]string, string) {
	return c13Run(func(p internal.Printer) {
		h := examineGRPCEndStream(block, p)
		checkGRPCStatus(h, p)
		checkBinaryMetadata("trailers", c13ProtoHeaders(h), p)
	})
}

func c13ExTrailers(h http.Header) ([]string, string) {
	return c13Run(func(p internal.Printer) {
		checkGRPCStatus(h, p)
		checkBinaryMetadata("trailers", c13ProtoHeaders(h), p)
	})
}

// c13Wire describes one HTTP response as the client's tracer would record it.
type c13Wire struct {
	ContentType string      `json:"content_type"`
	Status      int         `json:"status"`
	Header      http.Header `json:"header"`
	Trailer     http.Header `json:"trailer"`
	Body        string      `json:"body"`       // unary body (as read by the client)
	EndStream   *string     `json:"end_stream"` // content of the end-stream envelope, if any
	HasData     bool        `json:"has_data"`   // a response message preceded the end of the body
}

// c13ExWire drives the real examineWireDetails with a hand-built trace.
func c13ExWire(w c13Wire) ([]string, string) {
	return c13Run(func(p internal.Printer) {
		ctx := withWireCapture(context.Background())
		wrapper, _ := ctx.Value(wireCtxKey{}).(*wireWrapper)
		wrapper.buf = bytes.NewBufferString(w.Body)
		req, _ := http.NewRequestWithContext(ctx, http.MethodPost, "http://127.0.0.1/x", nil)
		hdr := w.Header.Clone()
		if hdr == nil {
			hdr = http.Header{}
		}
		if w.ContentType != "" {
			hdr.Set("Content-Type", w.ContentType)
		}
		trace := tracer.Trace{TestName: "c13", Request: req, Response: &http.Response{StatusCode: w.Status, Header: hdr, Trailer: w.Trailer}}
		if w.HasData {
			trace.Events = append(trace.Events, &tracer.ResponseBodyData{Envelope: &tracer.Envelope{Len: 1}, Len: 1})
		}
		if w.EndStream != nil {
			trace.Events = append(trace.Events, &tracer.ResponseBodyEndStream{Content: *w.EndStream})
		}
		setWireTrace(ctx, trace)
		examineWireDetails(ctx, p)
	})
}

// ---------------------------------------------------------------- cases and verdicts

type c13HV struct {
	K string `json:"k"`
	V []byte `json:"v"`
}

// c13Case is one evaluation; it is also its own replay record (byte strings
// are []byte so that arbitrary bytes survive the JSON round trip).
type c13Case struct {
	Phase  string   `json:"phase"`  // wellformed | malformed | robust | typed
	Format string   `json:"format"` // connect-unary-error | connect-end-stream | grpc-web-trailers | grpc-trailers | binary-metadata | wire
	Class  string   `json:"class"`  // renderer, malformation class or robustness target
	Expect string   `json:"expect"` // silent | feedback | nopanic
	Input  []byte   `json:"input,omitempty"`
	Hdr    []c13HV  `json:"hdr,omitempty"`
	Wire   *c13Wire `json:"wire,omitempty"`
	WireB  []byte   `json:"wire_body,omitempty"` // overrides Wire.Body / *Wire.EndStream with raw bytes
	Origin string   `json:"origin"`
}

func c13Slug(s string) string {
	var b strings.Builder
	dash := false
	for i := 0; i < len(s); i++ {
		ch := s[i]
		if ch >= 'A' && ch <= 'Z' {
			ch += 'a' - 'A'
		}
		if (ch >= 'a' && ch <= 'z') || (ch >= '0' && ch <= '9') {
			b.WriteByte(ch)
			dash = false
		} else if !dash && b.Len() > 0 {
			b.WriteByte('-')
			dash = true
		}
	}
	return strings.TrimSuffix(b.String(), "-")
}

func (c *c13Case) header() http.Header {
	h := http.Header{}
	for _, p := range c.Hdr {
		h[p.K] = append(h[p.K], string(p.V))
	}
	return h
}

func c13HVOf(h http.Header) []c13HV {
	var out []c13HV
	keys := make([]string, 0, len(h))
	for k := range h {
		keys = append(keys, k)
	}
	sort.Strings(keys)
	for _, k := range keys {
		for _, v := range h[k] {
			out = append(out, c13HV{k, []byte(v)})
		}
	}
	return out
}

func (c *c13Case) describe() string {
	var b strings.Builder
	fmt.Fprintf(&b, "%s/%s class=%s expect=%s origin=%s", c.Phase, c.Format, c.Class, c.Expect, c.Origin)
	if c.Input != nil {
		fmt.Fprintf(&b, "\ninput: %s", c13Trunc(fmt.Sprintf("%q", c.Input), 1500))
	}
	if c.Hdr != nil {
		fmt.Fprintf(&b, "\nheaders:")
		for _, p := range c.Hdr {
			fmt.Fprintf(&b, " %s=%s", p.K, c13Trunc(fmt.Sprintf("%q", p.V), 400))
		}
	}
	if c.Wire != nil {
		fmt.Fprintf(&b, "\nwire: content-type=%q status=%d trailer=%v", c.Wire.ContentType, c.Wire.Status, c.Wire.Trailer)
		if c.Wire.EndStream != nil {
			fmt.Fprintf(&b, " end-stream=%s", c13Trunc(fmt.Sprintf("%q", *c.Wire.EndStream), 600))
		}
		if c.Wire.Body != "" {
			fmt.Fprintf(&b, " body=%s", c13Trunc(fmt.Sprintf("%q", c.Wire.Body), 600))
		}
	}
	return b.String()
}

func (c *c13Case) examine() ([]string, string) {
	switch c.Format {
	case "connect-unary-error":
		return c13ExConnectError(string(c.Input))
	case "connect-end-stream":
		return c13ExEndStream(string(c.Input))
	case "grpc-web-trailers":
		if c.Hdr != nil { // trailers-only response: the trio sits in the HTTP headers
			return c13ExTrailers(c.header())
		}
		return c13ExBlock(string(c.Input))
	case "grpc-trailers":
		return c13ExTrailers(c.header())
	case "json-dup-keys":
		return c13Run(func(p internal.Printer) {
			if _, err := checkNoDuplicateKeys("", json.NewDecoder(bytes.NewReader(c.Input))); err != nil {
				p.Printf("%v", err)
			}
		})
	case "binary-metadata":
		return c13Run(func(p internal.Printer) { checkBinaryMetadata("metadata", c13ProtoHeaders(c.header()), p) })
	case "wire":
		w := *c.Wire
		if c.WireB != nil {
			if w.EndStream != nil {
				s := string(c.WireB)
				w.EndStream = &s
			} else {
				w.Body = string(c.WireB)
			}
		}
		return c13ExWire(w)
	}
	panic("bad format " + c.Format)
}

// keyFormat: the wire format a verdict is about (cases that go through the
// dispatcher are attributed to the format their content type selects).
func (c *c13Case) keyFormat() string {
	if c.Format != "wire" || c.Wire == nil {
		return c.Format
	}
	ct := c.Wire.ContentType
	if ct == "" {
		ct = c.Wire.Header.Get("Content-Type")
	}
	switch {
	case c.Class == "http-trailers-outside-grpc":
		return "http-trailers"
	case ct == "application/json" && c.Wire.Status != 200:
		return "connect-unary-error"
	case strings.HasPrefix(ct, "application/connect+"):
		return "connect-end-stream"
	case strings.HasPrefix(ct, "application/grpc-web"):
		return "grpc-web-trailers"
	case strings.HasPrefix(ct, "application/grpc"):
		return "grpc-trailers"
	}
	return "http-trailers"
}

type c13Verdict struct {
	Key, Detail string
}

// c13Judge runs the examiner(s) on the case and applies the oracle.
func c13Judge(c *c13Case) (verdicts []c13Verdict, outcome string) {
	msgs, panicked := c.examine()
	if panicked != "" {
		verdicts = append(verdicts, c13Verdict{"panic:" + c.keyFormat(), "examiner panicked\n" + c.describe() + "\n" + panicked})
		return verdicts, "panic"
	}
	switch c.Expect {
	case "silent":
		seen := map[string]bool{}
		for _, m := range msgs {
			key := "false-feedback:" + c.keyFormat() + ":" + c13Slug(c13Class(m))
			if seen[key] {
				continue
			}
			seen[key] = true
			verdicts = append(verdicts, c13Verdict{key, fmt.Sprintf("well-formed input drew feedback %q\n%s", strings.TrimSuffix(m, "\n"), c.describe())})
		}
	case "feedback":
		if len(msgs) == 0 {
			verdicts = append(verdicts, c13Verdict{"malformation-not-flagged:" + c.Class,
				"malformed input (" + c.keyFormat() + ") drew no feedback at all\n" + c.describe()})
		}
	}
	if len(msgs) == 0 {
		return verdicts, "silent"
	}
	return verdicts, c13Slug(c13Class(msgs[0]))
}

// ---------------------------------------------------------------- JSON text -> ordered tree

func c13ParseJSON(text string) *c13J {
	dec := json.NewDecoder(strings.NewReader(text))
	dec.UseNumber()
	v, err := c13ParseValue(dec)
	if err != nil {
		panic(fmt.Sprintf("c13ParseJSON(%q): %v", text, err))
	}
	return v
}

func c13ParseValue(dec *json.Decoder) (*c13J, error) {
	tok, err := dec.Token()
	if err != nil {
		return nil, err
	}
	switch t := tok.(type) {
	case json.Delim:
		switch t {
		case '{':
			o := c13Obj()
			for dec.More() {
				kt, err := dec.Token()
				if err != nil {
					return nil, err
				}
				v, err := c13ParseValue(dec)
				if err != nil {
					return nil, err
				}
				o.Keys = append(o.Keys, kt.(string))
				o.Vals = append(o.Vals, v)
			}
			_, err := dec.Token()
			return o, err
		case '[':
			a := c13Arr()
			for dec.More() {
				v, err := c13ParseValue(dec)
				if err != nil {
					return nil, err
				}
				a.Elems = append(a.Elems, v)
			}
			_, err := dec.Token()
			return a, err
		}
		return nil, fmt.Errorf("unexpected delimiter %v", t)
	case string:
		return c13S(t), nil
	case json.Number:
		return c13Raw(t.String()), nil
	case bool:
		return c13Raw(fmt.Sprint(t)), nil
	case nil:
		return c13Raw("null"), nil
	}
	return nil, fmt.Errorf("unexpected token %T", tok)
}
