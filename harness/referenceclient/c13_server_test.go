package referenceclient

// C13 route (ii): the real reference server, started in-process through its
// exported entry point on loopback, queried by a plain net/http client (no
// connect-go, no tracer) that records the raw bytes the examiners are about.

import (
	"bytes"
	"context"
	"crypto/tls"
	"encoding/binary"
	"fmt"
	"io"
	"net"
	"net/http"
	"strings"
	"sync/atomic"
	"time"

	"connectrpc.com/conformance/internal"
	"connectrpc.com/conformance/internal/app/referenceserver"
	conformancev1 "connectrpc.com/conformance/internal/gen/proto/go/connectrpc/conformance/v1"
	"golang.org/x/net/http2"
	"google.golang.org/protobuf/proto"
)

type c13Server struct {
	HTTPVersion int
	Base        string
	plain       *http.Client // plain client
	traced      *http.Client // the reference client's wire-capturing transport on top of the same plain transport
	cancel      context.CancelFunc
	done        chan error
}

type c13NopWriteCloser struct{ io.Writer }

func (c13NopWriteCloser) Close() error { return nil }

func c13StartServer(httpVersion int) (*c13Server, error) {
	req := &conformancev1.ServerCompatRequest{
		Protocol:    conformancev1.Protocol_PROTOCOL_CONNECT,
		HttpVersion: conformancev1.HTTPVersion(httpVersion),
	}
	var in bytes.Buffer
	if err := internal.NewCodec(false).NewEncoder(&in).Encode(req); err != nil {
		return nil, err
	}
	outR, outW := io.Pipe()
	ctx, cancel := context.WithCancel(context.Background())
	s := &c13Server{HTTPVersion: httpVersion, cancel: cancel, done: make(chan error, 1)}
	go func() {
		err := referenceserver.RunInReferenceMode(ctx, []string{"referenceserver", "-bind", "127.0.0.1", "-port", "0"},
			io.NopCloser(&in), outW, c13NopWriteCloser{io.Discard}, nil)
		_ = outW.CloseWithError(fmt.Errorf("server returned: %v", err))
		s.done <- err
	}()
	resp := &conformancev1.ServerCompatResponse{}
	if err := internal.NewCodec(false).NewDecoder(outR).DecodeNext(resp); err != nil {
		cancel()
		return nil, fmt.Errorf("reading ServerCompatResponse: %w", err)
	}
	go func() { _, _ = io.Copy(io.Discard, outR) }()
	s.Base = fmt.Sprintf("http://%s", net.JoinHostPort(resp.Host, fmt.Sprint(resp.Port)))
	var rt http.RoundTripper
	if httpVersion == 1 {
		rt = &http.Transport{DisableCompression: true, MaxIdleConnsPerHost: 4, ForceAttemptHTTP2: false}
	} else {
		rt = &http2.Transport{
			AllowHTTP:          true,
			DisableCompression: true,
			DialTLSContext: func(ctx context.Context, network, addr string, _ *tls.Config) (net.Conn, error) {
				var d net.Dialer
				return d.DialContext(ctx, network, addr)
			},
		}
	}
	s.plain = &http.Client{Transport: rt, Timeout: 30 * time.Second}
	s.traced = &http.Client{Transport: newWireCaptureTransport(rt, nil), Timeout: 30 * time.Second}
	return s, nil
}

func (s *c13Server) stop() {
	s.cancel()
	select {
	case <-s.done:
	case <-time.After(10 * time.Second):
	}
}

// c13Shape: how the error is asked for.
type c13Shape struct {
	Protocol string `json:"protocol"` // connect | grpcweb | grpc
	RPC      string `json:"rpc"`      // unary | server | client
	NResp    int    `json:"nresp"`    // server stream: responses sent before the error
	Headers  bool   `json:"headers"`  // response definition carries response headers
	HTTP     int    `json:"http"`     // 1 | 2
}

func (s c13Shape) String() string {
	return fmt.Sprintf("%s/%s/n%d/h%v/http%d", s.Protocol, s.RPC, s.NResp, s.Headers, s.HTTP)
}

func c13Shapes() []c13Shape {
	var out []c13Shape
	for _, hv := range []int{1, 2} {
		for _, p := range []string{"connect", "grpcweb", "grpc"} {
			if p == "grpc" && hv == 1 {
				continue // gRPC needs HTTP/2
			}
			for _, hd := range []bool{false, true} {
				out = append(out, c13Shape{p, "unary", 0, hd, hv})
				out = append(out, c13Shape{p, "client", 0, hd, hv})
				out = append(out, c13Shape{p, "server", 0, hd, hv})
			}
			out = append(out, c13Shape{p, "server", 1, false, hv})
		}
	}
	return out
}

func c13Envelope(flags byte, data []byte) []byte {
	out := make([]byte, 5+len(data))
	out[0] = flags
	binary.BigEndian.PutUint32(out[1:5], uint32(len(data)))
	copy(out[5:], data)
	return out
}

var c13ReqSeq atomic.Int64

// c13BuildRequest: the HTTP request of a conformant client for the shape.
func c13BuildRequest(base string, sh c13Shape, e c13Err) (*http.Request, error) {
	var respHdrs []*conformancev1.Header
	if sh.Headers {
		respHdrs = []*conformancev1.Header{{Name: "x-resp-hdr", Value: []string{"h1"}}}
	}
	perr := c13ProtoError(e)
	var msg proto.Message
	var method string
	switch sh.RPC {
	case "unary":
		method = "Unary"
		msg = &conformancev1.UnaryRequest{ResponseDefinition: &conformancev1.UnaryResponseDefinition{
			ResponseHeaders: respHdrs, Response: &conformancev1.UnaryResponseDefinition_Error{Error: perr}, ResponseTrailers: c13Meta(e.Meta)}}
	case "client":
		method = "ClientStream"
		msg = &conformancev1.ClientStreamRequest{ResponseDefinition: &conformancev1.UnaryResponseDefinition{
			ResponseHeaders: respHdrs, Response: &conformancev1.UnaryResponseDefinition_Error{Error: perr}, ResponseTrailers: c13Meta(e.Meta)}}
	case "server":
		method = "ServerStream"
		def := &conformancev1.StreamResponseDefinition{ResponseHeaders: respHdrs, Error: perr, ResponseTrailers: c13Meta(e.Meta)}
		for i := 0; i < sh.NResp; i++ {
			def.ResponseData = append(def.ResponseData, []byte("d"))
		}
		msg = &conformancev1.ServerStreamRequest{ResponseDefinition: def}
	default:
		return nil, fmt.Errorf("bad rpc %q", sh.RPC)
	}
	data, err := proto.Marshal(msg)
	if err != nil {
		return nil, err
	}
	var body []byte
	var ct string
	proto_ := conformancev1.Protocol_PROTOCOL_CONNECT
	switch sh.Protocol {
	case "connect":
		if sh.RPC == "unary" {
			ct, body = "application/proto", data
		} else {
			ct, body = "application/connect+proto", c13Envelope(0, data)
		}
	case "grpcweb":
		ct, body = "application/grpc-web+proto", c13Envelope(0, data)
		proto_ = conformancev1.Protocol_PROTOCOL_GRPC_WEB
	case "grpc":
		ct, body = "application/grpc+proto", c13Envelope(0, data)
		proto_ = conformancev1.Protocol_PROTOCOL_GRPC
	default:
		return nil, fmt.Errorf("bad protocol %q", sh.Protocol)
	}
	req, err := http.NewRequest(http.MethodPost, base+"/connectrpc.conformance.v1.ConformanceService/"+method, bytes.NewReader(body))
	if err != nil {
		return nil, err
	}
	req.Header.Set("Content-Type", ct)
	if sh.Protocol == "connect" {
		req.Header.Set("Connect-Protocol-Version", "1")
	}
	if sh.Protocol == "grpc" {
		req.Header.Set("Te", "trailers")
	}
	req.Header.Set("X-Test-Case-Name", fmt.Sprintf("c13/%d", c13ReqSeq.Add(1)))
	req.Header.Set("X-Expect-Http-Version", fmt.Sprint(sh.HTTP))
	req.Header.Set("X-Expect-Protocol", fmt.Sprint(int(proto_)))
	req.Header.Set("X-Expect-Codec", fmt.Sprint(int(conformancev1.Codec_CODEC_PROTO)))
	req.Header.Set("X-Expect-Compression", fmt.Sprint(int(conformancev1.Compression_COMPRESSION_IDENTITY)))
	req.Header.Set("X-Expect-Tls", "false")
	req.Header.Set("X-Expect-Http-Method", http.MethodPost)
	return req, nil
}

// c13Capture: the raw response.
type c13Capture struct {
	Status    int         `json:"status"`
	Proto     string      `json:"proto"`
	Header    http.Header `json:"header"`
	Trailer   http.Header `json:"trailer"`
	Body      []byte      `json:"-"`
	BodyText  string      `json:"body"`
	EndStream *string     `json:"end_stream"` // payload of the end-stream envelope
	NData     int         `json:"ndata"`      // data envelopes
	Err       string      `json:"err,omitempty"`
}

func c13Do(client *http.Client, req *http.Request, enveloped bool, endFlag byte) *c13Capture {
	resp, err := client.Do(req)
	if err != nil {
		return &c13Capture{Err: err.Error()}
	}
	defer resp.Body.Close()
	body, err := io.ReadAll(resp.Body)
	c := &c13Capture{Status: resp.StatusCode, Proto: resp.Proto, Header: resp.Header.Clone(), Body: body, BodyText: string(body)}
	if err != nil {
		c.Err = "read body: " + err.Error()
		return c
	}
	c.Trailer = resp.Trailer.Clone()
	ct := resp.Header.Get("Content-Type")
	if enveloped && resp.StatusCode == 200 && !strings.HasPrefix(ct, "application/json") {
		rest := body
		for len(rest) >= 5 {
			flags := rest[0]
			n := int(binary.BigEndian.Uint32(rest[1:5]))
			if 5+n > len(rest) {
				c.Err = "truncated envelope"
				break
			}
			payload := string(rest[5 : 5+n])
			rest = rest[5+n:]
			if flags&endFlag != 0 {
				c.EndStream = &payload
			} else {
				c.NData++
			}
		}
		if len(rest) != 0 && c.Err == "" {
			c.Err = "trailing bytes after last envelope"
		}
	}
	return c
}

type c13Finding struct {
	Key    string
	Detail string
}

// c13JudgeCapture feeds the captured bytes to the examiners, exactly those the
// client would apply to such a response, and insists on silence. It also checks
// that the response really is the requested error (so the run is not vacuous).
func c13JudgeCapture(sh c13Shape, e c13Err, c *c13Capture) (findings []c13Finding, outcome string, harnessErr string) {
	if c.Err != "" {
		return nil, "", "request failed: " + c.Err
	}
	ct := c.Header.Get("Content-Type")
	report := func(format string, msgs []string, panicked string, input string) {
		if panicked != "" {
			findings = append(findings, c13Finding{"panic:" + format, fmt.Sprintf("examiner panicked on the reference server's own output\ninput: %q\n%s", input, panicked)})
		}
		for _, m := range msgs {
			findings = append(findings, c13Finding{"false-feedback:" + format + ":" + c13Slug(c13Class(m)),
				fmt.Sprintf("reference server response (%s, %s) drew feedback %q\nexamined bytes: %s", sh, e, strings.TrimSuffix(m, "\n"), c13Trunc(fmt.Sprintf("%q", input), 1200))})
		}
	}
	binMeta := func(h http.Header, what string) {
		msgs, pk := c13Run(func(p internal.Printer) { checkBinaryMetadata(what, c13ProtoHeaders(h), p) })
		report("binary-metadata", msgs, pk, fmt.Sprint(h))
	}
	wantCode := fmt.Sprint(e.Code)
	switch {
	case sh.Protocol == "connect" && sh.RPC == "unary":
		if ct != "application/json" || c.Status == 200 {
			return nil, "", fmt.Sprintf("expected a Connect unary error, got status %d content-type %q body %q", c.Status, ct, c13Trunc(c.BodyText, 300))
		}
		if !strings.Contains(c.BodyText, `"code":"`+c13CodeNames[e.Code]+`"`) {
			return nil, "", fmt.Sprintf("response is not the requested error: %q", c13Trunc(c.BodyText, 300))
		}
		msgs, pk := c13ExConnectError(c.BodyText)
		report("connect-unary-error", msgs, pk, c.BodyText)
		binMeta(c.Header, "metadata")
		outcome = "connect-unary-error-json"
	case sh.Protocol == "connect":
		if !strings.HasPrefix(ct, "application/connect+") || c.EndStream == nil {
			return nil, "", fmt.Sprintf("expected a Connect stream with end-stream message, got status %d content-type %q body %q", c.Status, ct, c13Trunc(c.BodyText, 300))
		}
		if !strings.Contains(*c.EndStream, `"code":"`+c13CodeNames[e.Code]+`"`) {
			return nil, "", fmt.Sprintf("end-stream is not the requested error: %q", c13Trunc(*c.EndStream, 300))
		}
		msgs, pk := c13ExEndStream(*c.EndStream)
		report("connect-end-stream", msgs, pk, *c.EndStream)
		binMeta(c.Header, "headers")
		outcome = "connect-end-stream"
	case sh.Protocol == "grpcweb":
		if !strings.HasPrefix(ct, "application/grpc-web") {
			return nil, "", fmt.Sprintf("expected gRPC-Web, got status %d content-type %q body %q", c.Status, ct, c13Trunc(c.BodyText, 300))
		}
		if c.EndStream != nil {
			if !strings.Contains(strings.ToLower(*c.EndStream), "grpc-status: "+wantCode+"\r\n") && !strings.Contains(strings.ToLower(*c.EndStream), "grpc-status:"+wantCode+"\r\n") {
				return nil, "", fmt.Sprintf("trailer block is not the requested error: %q", c13Trunc(*c.EndStream, 300))
			}
			msgs, pk := c13ExBlock(*c.EndStream)
			report("grpc-web-trailers", msgs, pk, *c.EndStream)
			outcome = "grpc-web-trailer-block"
		} else {
			if c.Header.Get("Grpc-Status") != wantCode {
				return nil, "", fmt.Sprintf("trailers-only response is not the requested error: %v", c.Header)
			}
			msgs, pk := c13ExTrailers(c.Header)
			report("grpc-web-trailers", msgs, pk, fmt.Sprint(c.Header))
			outcome = "grpc-web-trailers-only"
		}
		binMeta(c.Header, "headers")
	case sh.Protocol == "grpc":
		if !strings.HasPrefix(ct, "application/grpc") || strings.HasPrefix(ct, "application/grpc-web") {
			return nil, "", fmt.Sprintf("expected gRPC, got status %d content-type %q body %q", c.Status, ct, c13Trunc(c.BodyText, 300))
		}
		if c.Trailer.Get("Grpc-Status") != wantCode {
			return nil, "", fmt.Sprintf("trailers are not the requested error: %v (headers %v)", c.Trailer, c.Header)
		}
		msgs, pk := c13ExTrailers(c.Trailer)
		report("grpc-trailers", msgs, pk, fmt.Sprint(c.Trailer))
		binMeta(c.Header, "headers")
		outcome = "grpc-http-trailers"
	}
	// The same capture through the real dispatcher (hand-built trace).
	w := c13Wire{ContentType: ct, Status: c.Status, Header: c.Header, Trailer: c.Trailer, Body: c.BodyText, EndStream: c.EndStream, HasData: c.NData > 0}
	msgs, pk := c13ExWire(w)
	report(c13FormatOf(sh), msgs, pk, fmt.Sprintf("examineWireDetails on %+v", w))
	return findings, outcome, ""
}

// c13JudgeTraced repeats the request through the reference client's own
// wire-capturing transport (tracer included) and runs examineWireDetails.
func c13JudgeTraced(s *c13Server, sh c13Shape, e c13Err) (findings []c13Finding, harnessErr string) {
	req, err := c13BuildRequest(s.Base, sh, e)
	if err != nil {
		return nil, err.Error()
	}
	ctx := withWireCapture(context.Background())
	req = req.WithContext(ctx)
	resp, err := s.traced.Do(req)
	if err != nil {
		return nil, "traced request failed: " + err.Error()
	}
	_, _ = io.Copy(io.Discard, resp.Body)
	_ = resp.Body.Close()
	msgs, pk := c13Run(func(p internal.Printer) { examineWireDetails(ctx, p) })
	if pk != "" {
		findings = append(findings, c13Finding{"panic:" + c13FormatOf(sh), fmt.Sprintf("examineWireDetails behind the capturing transport: %s %s\n%s", sh, e, pk)})
	}
	for _, m := range msgs {
		if strings.HasPrefix(m, "unable to examine wire details") {
			return findings, "traced: " + m
		}
		findings = append(findings, c13Finding{"false-feedback:" + c13FormatOf(sh) + ":" + c13Slug(c13Class(m)),
			fmt.Sprintf("reference server response (%s, %s), read through the reference client's capturing transport, drew feedback %q", sh, e, strings.TrimSuffix(m, "\n"))})
	}
	return findings, ""
}

func c13FormatOf(sh c13Shape) string {
	switch {
	case sh.Protocol == "connect" && sh.RPC == "unary":
		return "connect-unary-error"
	case sh.Protocol == "connect":
		return "connect-end-stream"
	case sh.Protocol == "grpcweb":
		return "grpc-web-trailers"
	}
	return "grpc-trailers"
}

func c13ServerCase(s *c13Server, sh c13Shape, e c13Err) (findings []c13Finding, outcome, harnessErr string) {
	req, err := c13BuildRequest(s.Base, sh, e)
	if err != nil {
		return nil, "", err.Error()
	}
	endFlag := byte(2)
	if sh.Protocol != "connect" {
		endFlag = 0x80
	}
	c := c13Do(s.plain, req, !(sh.Protocol == "connect" && sh.RPC == "unary"), endFlag)
	findings, outcome, harnessErr = c13JudgeCapture(sh, e, c)
	if harnessErr != "" {
		return
	}
	f2, herr := c13JudgeTraced(s, sh, e)
	return append(findings, f2...), outcome, herr
}
