//go:build verif

package referenceserver

// C13 — mapped by bin/check (unit "extra_files") into
// internal/app/referenceserver in the overlay only. It gives the C13 harness
// (which lives in package referenceclient, next to the examiners) direct access
// to the reference server's own unexported encoders, so that the full error
// grid can be rendered by them without going through HTTP. Nothing here changes
// behaviour; /repo is never touched.

import (
	conformancev1 "connectrpc.com/conformance/internal/gen/proto/go/connectrpc/conformance/v1"
	"connectrpc.com/connect"
)

// VerifC13GRPCStatusTrailers is grpcStatusTrailers.
func VerifC13GRPCStatusTrailers(err *connect.Error) []*conformancev1.Header {
	return grpcStatusTrailers(err)
}

// VerifC13GRPCWebStatusEndStream is grpcWebStatusEndStream.
func VerifC13GRPCWebStatusEndStream(err *connect.Error, trailers []*conformancev1.Header) string {
	return grpcWebStatusEndStream(err, trailers)
}
