package referenceclient

// C13 round 5 — stage "statuses": the HTTP status of a Connect unary error as an axis.
//
// Connect protocol, "Unary-Response": a unary response is successful only with HTTP
// status 200; ANY other status is an error response, and with
// "Content-Type: application/json" its body is the Error JSON (that is how connect-go —
// hence the reference client itself — reads it). The code-to-status table of the
// specification only uses 4xx / 5xx, but proxies, frameworks and hand-written servers
// answer with whatever they like; the property speaks about "a Connect error body",
// not about "a Connect error body behind a 4xx / 5xx".
//
// Cases: status x body, through the complete capture pipeline
// (newWireCaptureTransport -> tracer -> body readers -> examineWireDetails) on two routes:
//   scripted  the scripted http.RoundTripper of the histories stage (no socket);
//   http      a REAL round trip: an httptest server on loopback answers with the status,
//             content type and body the request names; the reference client's capturing
//             transport sits on a plain http.Transport.
// Statuses: every value of 201..599 that can carry a body (net/http sends no body with
// 1xx, 204 and 304) — all of them on the scripted route for representatives of every body
// class, the class boundaries (201, 203, 299, 300, 302, 399, 400, 404, 499, 500, 503, 599
// and the statuses of the earlier stages) for every body and on the real route. No Location
// header is sent, so the HTTP client has nothing to follow on a 3xx.
// Bodies: well-formed error bodies (connect-go's ErrorWriter, the spec encoders incl. a debug
// member in Any form under a foreign type-URL prefix, code only) and EVERY single malformation
// of the malformed stage (all classes of c13JSONMutants for the unary error body).
//
// Oracle: the status does not matter — the feedback equals the feedback of the examiner
// called directly on the body; none for a well-formed body, >= 1 message for a malformed one.

import (
	"context"
	"fmt"
	"io"
	"net/http"
	"net/http/httptest"
	"os"
	"strconv"
	"strings"
	"time"

	"connectrpc.com/conformance/internal"
	"connectrpc.com/conformance/internal/verif/rep"
)

type c13StatCase struct {
	Status int    `json:"status"`
	Route  string `json:"route"` // scripted | http
	Chunk  int    `json:"chunk"` // scripted route: most bytes per Read (0 = all)
	Class  string `json:"class"` // malformation class, or "wellformed:<renderer>"
	Expect string `json:"expect"`
	Body   []byte `json:"body"`
	Origin string `json:"origin"`
}

func (c c13StatCase) String() string {
	return fmt.Sprintf("status=%d route=%s chunk=%d class=%s expect=%s origin=%s body=%s", c.Status, c.Route, c.Chunk, c.Class, c.Expect, c.Origin, c13Trunc(fmt.Sprintf("%q", c.Body), 500))
}

type c13StatBody struct {
	Class, Expect, Origin string
	Body                  []byte
}

// c13StatBodies: the well-formed bodies and every malformed one, grouped by class in generation order.
func c13StatBodies(thorough bool) (wellFormed []c13StatBody, malformed map[string][]c13StatBody, classes []string) {
	foreign := c13HistErr2
	foreign.URLPrefix, foreign.DebugAny = "example.com/pkg/", true
	errs := []c13Err{c13HistErr, c13HistErr2, foreign, {Code: 14, Msg: "", Meta: "none"}}
	for _, e := range errs {
		c13WellFormedCases(e, false, func(c *c13Case) {
			if c.Format == "connect-unary-error" {
				wellFormed = append(wellFormed, c13StatBody{"wellformed:" + c.Class, "silent", c.Origin, c.Input})
			}
		})
	}
	wellFormed = append(wellFormed, c13StatBody{"wellformed:code-only-indented", "silent", "fixed", []byte(" {\n \"code\" : \"unavailable\"\n}\n")})
	malformed = map[string][]c13StatBody{}
	for _, e := range c13MalformBases(thorough) {
		c13JSONMutants(e, "connect-unary-error", func(t *c13J) *c13J { return t }, func(c *c13Case) {
			if _, ok := malformed[c.Class]; !ok {
				classes = append(classes, c.Class)
			}
			malformed[c.Class] = append(malformed[c.Class], c13StatBody{c.Class, "feedback", c.Origin, c.Input})
		})
	}
	return wellFormed, malformed, classes
}

// statuses at the boundaries of the classes (and those the earlier stages use)
var c13StatBoundary = func() []int {
	out := []int{201, 202, 203, 205, 206, 226, 299, 300, 301, 302, 303, 305, 307, 308, 399, 400, 404, 418, 499, 500, 503, 599}
	seen := map[int]bool{}
	for _, s := range out {
		seen[s] = true
	}
	for _, s := range c13SpellStatuses {
		if !seen[s] {
			out = append(out, s)
		}
	}
	return out
}()

// c13StatAll: every status of 201..599 that can carry a body.
func c13StatAll() []int {
	var out []int
	for s := 201; s <= 599; s++ {
		if s == 204 || s == 304 {
			continue // net/http (server and client) allows no body here
		}
		out = append(out, s)
	}
	return out
}

func c13StatCases(thorough bool) []c13StatCase {
	wf, mal, classes := c13StatBodies(thorough)
	var out []c13StatCase
	add := func(b c13StatBody, status int, route string, chunk int) {
		out = append(out, c13StatCase{Status: status, Route: route, Chunk: chunk, Class: b.Class, Expect: b.Expect, Body: b.Body, Origin: b.Origin})
	}
	reps := func(list []c13StatBody, n int) []c13StatBody {
		if len(list) <= n {
			return list
		}
		var out []c13StatBody
		for i := 0; i < n; i++ {
			out = append(out, list[i*(len(list)-1)/(n-1)])
		}
		return out
	}
	all := c13StatAll()
	// (1) every class x EVERY status, scripted: 7 (thorough: all) well-formed bodies, malformed classes by 1 member changing with the status (thorough: 6 representatives)
	nRep, wfAll := 2, reps(wf, 7)
	if thorough {
		nRep, wfAll = 6, wf
	}
	for _, st := range all {
		for _, b := range wfAll {
			add(b, st, "scripted", 0)
		}
		for _, cl := range classes {
			if !thorough {
				// quick: one member of the class per status, another one each time (so all members get their turn)
				add(mal[cl][(st*7)%len(mal[cl])], st, "scripted", 0)
				continue
			}
			for _, b := range reps(mal[cl], nRep) {
				add(b, st, "scripted", 0)
			}
		}
	}
	// (2) EVERY body x boundary statuses, scripted (every malformed body meets every 6th of them, thorough every 2nd, cycling so that every class meets all)
	for i, b := range wf {
		for j, st := range c13StatBoundary {
			add(b, st, "scripted", (i+j)%2)
		}
	}
	for _, cl := range classes {
		for i, b := range mal[cl] {
			for j, st := range c13StatBoundary {
				if (thorough && (i+j)%2 == 0) || (i+j)%6 == 0 {
					add(b, st, "scripted", (i+j)%2)
				}
			}
		}
	}
	// (3) real HTTP round trips: every class x boundary statuses (thorough: x every status)
	sts := c13StatBoundary
	if thorough {
		sts = all
	}
	nRep = 2
	for _, st := range sts {
		for _, b := range wf {
			add(b, st, "http", 0)
		}
		for _, cl := range classes {
			for _, b := range reps(mal[cl], nRep) {
				add(b, st, "http", 0)
			}
		}
	}
	return out
}

// ---------------------------------------------------------------- the real route

type c13StatServer struct {
	srv    *httptest.Server
	client *http.Client
}

func c13StartStatServer() *c13StatServer {
	srv := httptest.NewServer(http.HandlerFunc(func(w http.ResponseWriter, req *http.Request) {
		body, _ := io.ReadAll(req.Body)
		status, err := strconv.Atoi(req.Header.Get("X-C13-Status"))
		if err != nil {
			status = 500
			body = []byte("bad X-C13-Status")
		}
		w.Header().Set("Content-Type", req.Header.Get("X-C13-Content-Type"))
		w.WriteHeader(status)
		_, _ = w.Write(body)
	}))
	rt := &http.Transport{DisableCompression: true, MaxIdleConnsPerHost: 2}
	return &c13StatServer{srv: srv, client: &http.Client{Transport: newWireCaptureTransport(rt, nil), Timeout: 30 * time.Second}}
}

func (s *c13StatServer) stop() {
	s.client.CloseIdleConnections()
	s.srv.Close()
}

// exchange: one unary call answered with (status, application/json, body); what the client saw and the feedback.
func (s *c13StatServer) exchange(c c13StatCase) (msgs []string, panicked string, harnessErr string) {
	ctx := withWireCapture(context.Background())
	req, err := http.NewRequestWithContext(ctx, http.MethodPost, s.srv.URL+"/connectrpc.conformance.v1.ConformanceService/Unary", strings.NewReader(string(c.Body)))
	if err != nil {
		return nil, "", err.Error()
	}
	req.Header.Set("Content-Type", "application/proto")
	req.Header.Set("X-Test-Case-Name", "c13/status") // without a test name nothing is traced
	req.Header.Set("X-C13-Status", fmt.Sprint(c.Status))
	req.Header.Set("X-C13-Content-Type", "application/json")
	resp, err := s.client.Do(req)
	if err != nil {
		return nil, "", "request failed: " + err.Error()
	}
	got, rerr := io.ReadAll(resp.Body)
	_ = resp.Body.Close()
	switch {
	case rerr != nil:
		return nil, "", "reading the response failed: " + rerr.Error()
	case resp.StatusCode != c.Status || string(got) != string(c.Body) || resp.Header.Get("Content-Type") != "application/json" || resp.Header.Get("Location") != "":
		return nil, "", fmt.Sprintf("the HTTP layer did not deliver the response as scripted: status %d, content type %q, body %q", resp.StatusCode, resp.Header.Get("Content-Type"), c13Trunc(string(got), 200))
	}
	msgs, panicked = c13Run(func(p internal.Printer) { examineWireDetails(ctx, p) })
	for _, m := range msgs {
		if strings.HasPrefix(m, "unable to examine wire details") {
			return nil, "", m
		}
	}
	return msgs, panicked, ""
}

// c13ExchangeSteady: pl.exchange, repeated (at most twice) when examineWireDetails gave up waiting for the trace.
// That message comes from a one-second wall-clock grace timer inside examineWireDetails; on a heavily loaded
// machine it has been seen to fire although the trace was delivered (2 of 350000 exchanges at load average 200,
// not reproducible by replay). A wall-clock effect is no verdict about the response: the exchange is repeated, and
// an exchange that keeps failing that way is a harness error, never silence.
func c13ExchangeSteady(pl *c13Pipeline, sc *c13Script) (msgs []string, panicked string, unsteady bool) {
	for attempt := 0; attempt < 3; attempt++ {
		msgs, panicked = pl.exchange(sc)
		unsteady = false
		for _, m := range msgs {
			unsteady = unsteady || strings.HasPrefix(m, "unable to examine wire details")
		}
		if !unsteady {
			break
		}
	}
	return msgs, panicked, unsteady
}

// ---------------------------------------------------------------- oracle

type c13StatRunner struct {
	pl  *c13Pipeline
	srv *c13StatServer
}

func (h *c13StatRunner) stop() {
	if h.srv != nil {
		h.srv.stop()
	}
}

func c13StatusClass(status int) string { return fmt.Sprintf("%dxx", status/100) }

func (h *c13StatRunner) judge(c c13StatCase) (verdicts []c13Verdict, outcome string, harnessErr string) {
	direct, dpk := c13ExConnectError(string(c.Body))
	var msgs []string
	var pk string
	switch c.Route {
	case "scripted":
		var unsteady bool
		msgs, pk, unsteady = c13ExchangeSteady(h.pl, &c13Script{Status: c.Status, Header: http.Header{"Content-Type": {"application/json"}}, Body: c.Body, Chunk: c.Chunk, End: "eof"})
		if unsteady {
			return nil, "", fmt.Sprintf("examineWireDetails did not find the trace in three attempts: %q", msgs)
		}
	case "http":
		if h.srv == nil {
			h.srv = c13StartStatServer()
		}
		for attempt := 0; attempt < 3; attempt++ {
			msgs, pk, harnessErr = h.srv.exchange(c)
			if !strings.HasPrefix(harnessErr, "unable to examine wire details") {
				break
			}
		}
		if harnessErr != "" {
			return nil, "", harnessErr
		}
	default:
		return nil, "", "bad route " + c.Route
	}
	sc := c13StatusClass(c.Status)
	what := fmt.Sprintf("Connect unary response with HTTP status %d, Content-Type application/json and the body %s (%s; %s), route %q through the capturing transport and examineWireDetails",
		c.Status, c13Trunc(fmt.Sprintf("%q", c.Body), 700), c.Class, c.Origin, c.Route)
	switch {
	case pk != "" || dpk != "":
		return []c13Verdict{{"panic:connect-unary-error:statuses", what + " panicked\n" + pk + dpk}}, "panic", ""
	case c.Expect == "silent" && len(msgs) > 0:
		verdicts = append(verdicts, c13Verdict{"false-feedback:connect-unary-error:at-status-" + sc + ":" + c13Slug(c13Class(msgs[0])),
			fmt.Sprintf("the well-formed %s drew feedback %q", what, msgs)})
		outcome = "flagged"
	case c.Expect == "feedback" && len(msgs) == 0:
		verdicts = append(verdicts, c13Verdict{"malformation-not-flagged:at-status-" + sc + ":" + c.Class,
			fmt.Sprintf("the malformed %s drew no feedback at all; the examiner called directly on the body reports %s", what, c13Trunc(fmt.Sprintf("%q", direct), 500))})
		outcome = "silent"
	case !c13SameMsgs(msgs, direct):
		verdicts = append(verdicts, c13Verdict{"status-dependent-feedback:connect-unary-error:at-status-" + sc,
			fmt.Sprintf("the %s drew %s; the examiner called directly on the body reports %s", what, c13Trunc(fmt.Sprintf("%q", msgs), 500), c13Trunc(fmt.Sprintf("%q", direct), 500))})
		outcome = "differs"
	case len(msgs) == 0:
		outcome = "silent"
	default:
		outcome = "flagged-as-direct"
	}
	// the direct verdict itself (so that the comparison is not between two wrong answers)
	if c.Expect == "feedback" && len(direct) == 0 {
		verdicts = append(verdicts, c13Verdict{"malformation-not-flagged:" + c.Class, "malformed input (connect-unary-error) drew no feedback at all from examineConnectError\n" + c.String()})
	}
	return verdicts, outcome, ""
}

func c13StatusesPhase(x *c13Run_, thorough bool) {
	r := x.r
	if x.stopped {
		return
	}
	h := &c13StatRunner{pl: c13NewPipeline()}
	defer h.stop()
	cases := c13StatCases(thorough)
	_, _, classes := c13StatBodies(thorough)
	r.Extra["statuses"] = map[string]any{"cases": len(cases), "statuses_all": len(c13StatAll()), "statuses_boundary": c13StatBoundary, "malformed_classes": len(classes)}
	harnessErrs := 0
	for _, c := range cases {
		if !x.mine() {
			if x.stopped {
				return
			}
			continue
		}
		verdicts, outcome, herr := h.judge(c)
		if herr != "" {
			harnessErrs++
			if harnessErrs <= 5 {
				x.t.Errorf("statuses stage, %s: %s", c, herr)
			}
			continue
		}
		r.Eval(1)
		r.NonTrivial("")
		r.Count("cases:statuses", 1)
		r.Count("cases:statuses:"+c.Route, 1)
		r.Outcome("statuses:" + c.Route + ":" + c13StatusClass(c.Status) + ":expect-" + c.Expect + ":" + outcome)
		if x.k%4001 == 1 {
			r.Sample(map[string]any{"phase": "statuses", "status": c.Status, "route": c.Route, "class": c.Class, "body": c13Trunc(fmt.Sprintf("%q", c.Body), 300), "observed": outcome})
		}
		for _, v := range verdicts {
			c := c
			r.Violate(v.Key, v.Detail, c13Replay{Stat: &c})
		}
	}
}

func c13ReplayStatus(t interface{ Errorf(string, ...any) }, r *rep.Report, c c13StatCase) {
	h := &c13StatRunner{pl: c13NewPipeline()}
	defer h.stop()
	verdicts, outcome, herr := h.judge(c)
	direct, _ := c13ExConnectError(string(c.Body))
	fmt.Fprintf(os.Stderr, "replay statuses case %s -> %s %s\nfeedback of the examiner called directly: %q\n", c, outcome, herr, direct)
	if herr != "" {
		t.Errorf("%s", herr)
	}
	for _, v := range verdicts {
		fmt.Fprintf(os.Stderr, "  %s\n  %s\n", v.Key, strings.ReplaceAll(v.Detail, "\n", "\n  "))
		r.Violate(v.Key, v.Detail, c13Replay{Stat: &c})
	}
	r.Sample(c.String())
}
