// C19 (b), side=server-get: the message arrives in the URL.
//
// The Connect protocol lets side-effect-free unary procedures (IdempotentUnary,
// idempotency_level = NO_SIDE_EFFECTS) be called with HTTP GET: the message is a
// query parameter,
//
//	GET /<service>/IdempotentUnary?connect=v1&encoding=<codec>[&base64=1]&message=<...>[&compression=<name>]
//
// base64 (URL alphabet) for binary or compressed messages, percent-escaped text
// otherwise. The receive limit is a property of the MESSAGE, not of the way it
// travels, so the truth table is the one of every other route: accepted with the
// request echoed iff its uncompressed encoded size is <= limit, otherwise
// resource_exhausted.
//
// The reference client never compresses a GET (it configures no maximum URL
// size), so the real-client route (side=server, shape idempotent-unary) only
// shows uncompressed URLs. Here a plain net/http client (HTTP/1.1 and HTTP/2
// cleartext) sends hand-built GET requests - uncompressed AND compressed - to the
// real reference server, which is started from its exported entry point
// (RunInReferenceMode -> run -> createServer -> newH1Server / newH2Server): every
// bound that the real binary puts in front of the handler (header / request-line
// size of the HTTP servers included) is in play.
//
// Limits: the unit's small limits plus the limit the RUNNER configures for the
// server under test (serverReceiveLimit = 200 KiB in
// internal/app/connectconformance/test_case_library.go): a URL of about 273 KB.
package referenceclient

import (
	"bytes"
	"encoding/base64"
	"encoding/json"
	"fmt"
	"hash/fnv"
	"io"
	"net"
	"net/http"
	"net/url"

	"connectrpc.com/conformance/internal"
	"connectrpc.com/conformance/internal/compression"
	conformancev1 "connectrpc.com/conformance/internal/gen/proto/go/connectrpc/conformance/v1"
	"google.golang.org/protobuf/proto"
)

// c19gRunnerServerLimit is what the test runner tells the server under test
// (serverReceiveLimit, unexported in package connectconformance).
const c19gRunnerServerLimit = 200 * 1024

// c19gFitsURL tells whether an uncompressed message of limit+1 bytes, base64
// encoded, still makes a request line below 1 MB - net/http's documented default
// bound for request line plus headers (http.DefaultMaxHeaderBytes), which the
// reference server does not change. Larger limits are only tried with messages
// that travel compressed (zero padding shrinks to a few hundred bytes).
func c19gFitsURL(limit int) bool {
	return (limit+1+2)/3*4+1024 <= http.DefaultMaxHeaderBytes
}

func c19gCompress(name string, data []byte) ([]byte, error) {
	compressor, err := compression.GetCompressor(c19sCompressions[name])
	if err != nil {
		return nil, err
	}
	var out bytes.Buffer
	compressor.Reset(&out)
	if _, err := compressor.Write(data); err != nil {
		return nil, err
	}
	if err := compressor.Close(); err != nil {
		return nil, err
	}
	return out.Bytes(), nil
}

func c19gDecompress(name string, data []byte) ([]byte, error) {
	enum, ok := c19sCompressions[name]
	if !ok {
		return nil, fmt.Errorf("unknown compression %q", name)
	}
	decompressor, err := compression.GetDecompressor(enum)
	if err != nil {
		return nil, err
	}
	if err := decompressor.Reset(bytes.NewReader(data)); err != nil {
		return nil, err
	}
	out, err := io.ReadAll(decompressor)
	_ = decompressor.Close()
	return out, err
}

// c19sGetSide: one IdempotentUnary call by GET; the message has tc.Limit+tc.K
// encoded bytes before compression.
func c19sGetSide(env *c19sEnv, tc c19sCase) (c19sVerdict, error) {
	if tc.Shape != "idempotent-unary" || tc.Protocol != "connect" {
		return c19sVerdict{}, fmt.Errorf("harness: GET is only defined for connect / idempotent-unary, not %s / %s", tc.Protocol, tc.Shape)
	}
	srv, err := env.server(tc.HTTP, tc.Limit)
	if err != nil {
		return c19sVerdict{}, err
	}
	target := tc.Limit + tc.K
	sizeCodec := "proto"
	if tc.Codec == "json" {
		sizeCodec = "json-stable"
	}
	msg := c19sSized(sizeCodec, tc.Shape, true, [][]byte{[]byte("ok")}, tc.Pad, target)
	if msg == nil {
		return c19sVerdict{Outcome: "size-unreachable"}, nil
	}
	var data []byte
	if tc.Codec == "json" {
		data, err = internal.StrictJSONCodec{}.MarshalStable(msg)
	} else {
		data, err = proto.Marshal(msg)
	}
	if err != nil {
		return c19sVerdict{}, err
	}
	if len(data) != target {
		return c19sVerdict{}, fmt.Errorf("harness: built a message of %d bytes, wanted %d", len(data), target)
	}
	onWire := data
	compressed := tc.Compression != "identity"
	if compressed {
		if onWire, err = c19gCompress(tc.Compression, data); err != nil {
			return c19sVerdict{}, fmt.Errorf("harness: compressing with %s: %w", tc.Compression, err)
		}
	}
	query := "connect=v1&encoding=" + tc.Codec
	if tc.Codec != "json" || compressed {
		query += "&base64=1&message=" + base64.RawURLEncoding.EncodeToString(onWire)
	} else {
		query += "&message=" + url.QueryEscape(string(onWire))
	}
	if compressed {
		query += "&compression=" + tc.Compression
	}
	fullURL := fmt.Sprintf("http://%s/%s/IdempotentUnary?%s", net.JoinHostPort(srv.host, fmt.Sprint(srv.port)), internal.ConformanceServiceName, query)
	req, err := http.NewRequest(http.MethodGet, fullURL, nil)
	if err != nil {
		return c19sVerdict{}, err
	}
	httpVersion, codec := conformancev1.HTTPVersion_HTTP_VERSION_1, conformancev1.Codec_CODEC_PROTO
	if tc.HTTP == 2 {
		httpVersion = conformancev1.HTTPVersion_HTTP_VERSION_2
	}
	if tc.Codec == "json" {
		codec = conformancev1.Codec_CODEC_JSON
	}
	nameHash := fnv.New32a()
	_, _ = nameHash.Write([]byte(tc.String()))
	req.Header.Set("X-Test-Case-Name", fmt.Sprintf("c19/%08x", nameHash.Sum32()))
	req.Header.Set("X-Expect-Http-Version", fmt.Sprint(int(httpVersion)))
	req.Header.Set("X-Expect-Http-Method", http.MethodGet)
	req.Header.Set("X-Expect-Protocol", fmt.Sprint(int(conformancev1.Protocol_PROTOCOL_CONNECT)))
	req.Header.Set("X-Expect-Codec", fmt.Sprint(int(codec)))
	req.Header.Set("X-Expect-Compression", fmt.Sprint(int(c19sCompressions[tc.Compression])))
	req.Header.Set("X-Expect-Tls", "false")

	// what the server answered (or made the HTTP client do: an HTTP/2 client refuses
	// to send a request whose header list is larger than the server advertises)
	class, message := "", ""
	var echoed proto.Message
	nEchoed := 0
	resp, err := env.httpClient(tc.HTTP).Do(req)
	if err != nil {
		class, message = "request-not-delivered", err.Error()
		if len(message) > 300 { // net/http quotes the whole URL
			message = message[:100] + " ... " + message[len(message)-180:]
		}
	} else {
		raw, readErr := io.ReadAll(resp.Body)
		_ = resp.Body.Close()
		switch {
		case readErr != nil:
			class, message = "response-broken", readErr.Error()
		case resp.StatusCode == http.StatusOK:
			// a server answers a compressed request in the same compression unless told otherwise
			if encoding := resp.Header.Get("Content-Encoding"); encoding != "" && encoding != "identity" {
				if raw, err = c19gDecompress(encoding, raw); err != nil {
					class, message = "malformed-response", "Content-Encoding "+encoding+": "+err.Error()
					break
				}
			}
			out := &conformancev1.IdempotentUnaryResponse{}
			if tc.Codec == "json" {
				err = internal.StrictJSONCodec{}.Unmarshal(raw, out)
			} else {
				err = proto.Unmarshal(raw, out)
			}
			if err != nil {
				class, message = "malformed-response", err.Error()
				break
			}
			class = "accepted"
			requests := out.GetPayload().GetRequestInfo().GetRequests()
			nEchoed = len(requests)
			if nEchoed == 1 {
				echoed, _ = requests[0].UnmarshalNew()
			}
		default:
			var wire struct {
				Code    string `json:"code"`
				Message string `json:"message"`
			}
			if json.Unmarshal(raw, &wire) == nil && wire.Code != "" {
				class, message = "error:"+wire.Code, wire.Message
			} else {
				class, message = fmt.Sprintf("http-status-%d", resp.StatusCode), string(raw[:min(len(raw), 200)])
			}
		}
	}

	urlLen := len(fullURL)
	describe := func(what string) string {
		return fmt.Sprintf("%s: %s: server message_receive_limit=%d; GET IdempotentUnary with a %s-encoded message of %d bytes (limit%+d) in the URL (%d bytes in the message parameter's source%s, URL %d bytes); observed %s %q",
			what, tc, tc.Limit, tc.Codec, target, tc.K, len(onWire), map[bool]string{true: " after " + tc.Compression, false: ""}[compressed], urlLen, class, message)
	}
	verdict := c19sVerdict{ReqEnc: compressed && class == "accepted"}
	wantAccept := tc.K <= 0
	switch {
	case class == "accepted" && wantAccept:
		if nEchoed != 1 || echoed == nil || !proto.Equal(echoed, msg) {
			verdict.Key = "accepted-but-incomplete:server"
			verdict.Detail = describe(fmt.Sprintf("RPC succeeded but the server echoes %d requests (want 1) or not the message that was sent", nEchoed))
			verdict.Outcome = "ACCEPTED-INCOMPLETE"
			return verdict, nil
		}
		verdict.Outcome = "accepted"
	case class == "error:resource_exhausted" && !wantAccept:
		verdict.Outcome = "resource_exhausted"
	case class == "accepted" && !wantAccept:
		verdict.Key = "limit-not-sharp:server:" + tc.Compression
		verdict.Detail = describe("a request one byte over the limit was accepted")
		verdict.Outcome = "OVER-LIMIT-ACCEPTED"
	case class == "error:resource_exhausted" && wantAccept:
		if c19sRejectedOnOtherSize(message, target, tc.Compression) {
			verdict.Key = "limit-measured-on-compressed:server:" + tc.Compression
			verdict.Detail = describe("a request within the limit (uncompressed size) was rejected because of its compressed size")
		} else {
			verdict.Key = "limit-not-sharp:server:" + tc.Compression
			verdict.Detail = describe("a request within the limit was rejected")
		}
		verdict.Outcome = "WITHIN-LIMIT-REJECTED"
	default:
		// neither success nor resource_exhausted: whatever stands in front of the
		// handler (or the handler itself) answered something else
		verdict.Key = "limit-wrong-code:server"
		want := "success"
		if !wantAccept {
			want = "resource_exhausted"
		}
		verdict.Detail = describe("expected " + want)
		verdict.Outcome = "WRONG-CODE/" + class
	}
	return verdict, nil
}

// c19gEnumerate: GET cases for one limit.
func c19gEnumerate(limit int, httpVersions []int, codecs, compressions, pads []string, ks []int, visit func(tc c19sCase) bool) bool {
	for _, httpVersion := range httpVersions {
		for _, comp := range compressions {
			if comp == "identity" && !c19gFitsURL(limit) {
				continue
			}
			for _, codec := range codecs {
				for _, pad := range pads {
					if pad == "noise" && (limit+1 > len(c19sNoise) || !c19gFitsURL(limit)) {
						continue // incompressible: the URL is as long as the message whatever the compression
					}
					for _, k := range ks {
						tc := c19sCase{Side: "server-get", HTTP: httpVersion, Protocol: "connect", Codec: codec, Compression: comp,
							Shape: "idempotent-unary", Pad: pad, Limit: limit, K: k}
						if !visit(tc) {
							return false
						}
					}
				}
			}
		}
	}
	return true
}
