package tracer

// C15 — HTTP/2 connection tracing is transparent and attributes frames to the
// right call.  Shared machinery: a scripted net.Conn, a frame/HPACK script
// builder (x/net/http2 Framer + one hpack.Encoder per direction, frames encoded
// in emission order), the executor that drives TracingHTTP2Conn call by call
// and compares every Read/Write with what the underlying conn did, and the
// reference model of the trace each call must yield (derived from the script,
// never from the implementation).

import (
	"bytes"
	"encoding/binary"
	"encoding/json"
	"errors"
	"fmt"
	"io"
	"net"
	"net/textproto"
	"reflect"
	"runtime"
	"sort"
	"strings"
	"sync"
	"time"

	"golang.org/x/net/http2"
	"golang.org/x/net/http2/hpack"
)

// ---------------------------------------------------------------------------
// scripted net.Conn

type c15Addr struct{}

func (c15Addr) Network() string { return "c15" }
func (c15Addr) String() string  { return "c15" }

// c15Conn is the underlying connection: Read hands out exactly the chunk and
// error armed for the next call, Write records what it is given and returns the
// armed (n, err).  Everything it did is kept so that the wrapper's results can
// be compared with it.
type c15Conn struct {
	rdData []byte
	rdErr  error
	wrN    int // -1 = len(p)
	wrErr  error
	clErr  error

	calls     int
	lastOp    byte
	lastLen   int    // len(p) seen by the underlying call
	lastBytes []byte // bytes returned by Read / presented to Write
	lastN     int
	lastErr   error
}

func (c *c15Conn) Read(p []byte) (int, error) {
	c.calls++
	c.lastOp = 'R'
	c.lastLen = len(p)
	n := copy(p, c.rdData)
	c.lastBytes = append(c.lastBytes[:0], p[:n]...)
	c.lastN, c.lastErr = n, c.rdErr
	return n, c.rdErr
}

func (c *c15Conn) Write(p []byte) (int, error) {
	c.calls++
	c.lastOp = 'W'
	c.lastLen = len(p)
	c.lastBytes = append(c.lastBytes[:0], p...)
	n := c.wrN
	if n < 0 || n > len(p) {
		n = len(p)
	}
	c.lastN, c.lastErr = n, c.wrErr
	return n, c.wrErr
}

func (c *c15Conn) Close() error {
	c.calls++
	c.lastOp = 'C'
	c.lastErr = c.clErr
	return c.clErr
}
func (c *c15Conn) LocalAddr() net.Addr              { return c15Addr{} }
func (c *c15Conn) RemoteAddr() net.Addr             { return c15Addr{} }
func (c *c15Conn) SetDeadline(time.Time) error      { return nil }
func (c *c15Conn) SetReadDeadline(time.Time) error  { return nil }
func (c *c15Conn) SetWriteDeadline(time.Time) error { return nil }

type c15TimeoutErr struct{}

func (c15TimeoutErr) Error() string   { return "c15: i/o timeout" }
func (c15TimeoutErr) Timeout() bool   { return true }
func (c15TimeoutErr) Temporary() bool { return true }

var (
	c15ErrTimeout net.Error = c15TimeoutErr{}
	c15ErrOther             = errors.New("c15: connection reset by peer")
	c15ErrClose             = errors.New("c15: close failed")
)

func c15ErrByName(s string) error {
	switch s {
	case "":
		return nil
	case "eof":
		return io.EOF
	case "timeout":
		return c15ErrTimeout
	case "other":
		return c15ErrOther
	case "close":
		return c15ErrClose
	}
	panic("c15: unknown error name " + s)
}

type c15Collector struct {
	mu     sync.Mutex
	traces []Trace
	at     []time.Time // when each trace was handed over (virtual time inside a synctest bubble)
}

func (c *c15Collector) Complete(t Trace) {
	c.mu.Lock()
	c.traces = append(c.traces, t)
	c.at = append(c.at, time.Now())
	c.mu.Unlock()
}

// ---------------------------------------------------------------------------
// executor

const (
	c15DirReq  = 0 // client -> server
	c15DirResp = 1 // server -> client
)

// c15Step is one call on the wrapped connection.
type c15Step struct {
	Dir  int    // direction of the bytes
	Data []byte // bytes the underlying Read returns / bytes given to Write
	Err  error  // error the underlying call returns
	N    int    // Write only: count the underlying Write returns; <0 = len(Data)
	// Sleep > 0: no call at all, this much (virtual) time passes (only inside a synctest bubble)
	Sleep time.Duration
}

const (
	c15FinClose    = 0 // Close()
	c15FinEOF      = 1 // Read -> (0, io.EOF), then Close()
	c15FinWait     = 2 // let (virtual) time pass beyond the retry wait, collect, then Close()
	c15FinCloseErr = 3 // Close() whose underlying Close fails
	// ending modes of the read side: {error in a call of its own | error together with the last chunk} x
	// {io.EOF | another non-timeout error}; c15FinEOF is (own call, io.EOF)
	c15FinEOFData = 4 // the script's last call, a Read, returns its bytes TOGETHER WITH io.EOF (as crypto/tls does); then Close()
	c15FinErr     = 5 // Read -> (0, connection reset), then Close()
	c15FinErrData = 6 // the script's last call, a Read, returns its bytes together with "connection reset"; then Close()
)

func c15FinName(fin int) string {
	return [...]string{"close", "eof-in-own-call", "wait", "close-fails", "eof-with-last-chunk", "error-in-own-call", "error-with-last-chunk"}[fin]
}

type c15Result struct {
	Panic      string // function (+ line offset in it) of package tracer that raised the first panic, "" if none
	PanicVal   string
	Opaque     string // first transparency difference, "" if none
	Traces     []Trace
	TraceAt    []time.Duration // when each trace was handed to the collector, since the start of the case
	EarlyCount int             // traces present before the final Close (FinWait only)
	BrokenReq  bool            // frame tracer of the request direction gave up
	BrokenResp bool
	Steps      int // calls made
}

var c15Scratch = make([]byte, 1<<16)

// c15PanicSite names the function of package tracer (not of this harness) in
// which the panic was raised.
func c15PanicSite() string {
	pcs := make([]uintptr, 64)
	n := runtime.Callers(2, pcs)
	frames := runtime.CallersFrames(pcs[:n])
	const pkg = "connectrpc.com/conformance/internal/tracer."
	seenPanic := false
	first := ""
	for {
		f, more := frames.Next()
		if strings.HasPrefix(f.Function, "runtime.") {
			if strings.Contains(f.Function, "panic") {
				seenPanic = true
			}
		} else if seenPanic && first == "" {
			first = f.Function
		}
		if seenPanic && strings.HasPrefix(f.Function, pkg) {
			name := strings.TrimPrefix(f.Function, pkg)
			if !strings.Contains(name, "c15") && !strings.Contains(name, "TestVerifC15") {
				// line relative to the start of the function: stable under edits elsewhere in the file
				if f.Func != nil {
					if _, start := f.Func.FileLine(f.Func.Entry()); start > 0 && f.Line >= start {
						return fmt.Sprintf("%s+%d", name, f.Line-start)
					}
				}
				return name
			}
		}
		if !more {
			break
		}
	}
	if first != "" {
		return first
	}
	return "unknown"
}

func c15Guard(op string, res *c15Result, f func()) (ok bool) {
	defer func() {
		if p := recover(); p != nil {
			if res.Panic == "" {
				res.Panic = c15PanicSite()
				res.PanicVal = fmt.Sprintf("%v (during %s)", p, op)
			}
			ok = false
		}
	}()
	f()
	return true
}

func c15Exec(isServer bool, steps []c15Step, fin int) (res c15Result) {
	under := &c15Conn{wrN: -1}
	col := &c15Collector{}
	start := time.Now()
	var conn net.Conn
	if !c15Guard("TracingHTTP2Conn", &res, func() { conn = TracingHTTP2Conn(under, isServer, col) }) {
		return res
	}
	note := func(format string, a ...any) {
		if res.Opaque == "" {
			res.Opaque = fmt.Sprintf(format, a...)
		}
	}
	doRead := func(i int, data []byte, rerr error) bool {
		under.rdData, under.rdErr = data, rerr
		if len(data)+8 > len(c15Scratch) {
			c15Scratch = make([]byte, 2*(len(data)+8))
		}
		buf := c15Scratch[:len(data)+4]
		for j := range buf {
			buf[j] = 0xA5
		}
		before := under.calls
		var n int
		var err error
		if !c15Guard("Read", &res, func() { n, err = conn.Read(buf) }) {
			return false
		}
		switch {
		case under.calls != before+1 || under.lastOp != 'R':
			note("step %d Read: %d underlying calls (last op %c), want exactly one Read", i, under.calls-before, under.lastOp)
		case n != under.lastN:
			note("step %d Read: n=%d, underlying returned %d", i, n, under.lastN)
		case err != under.lastErr:
			note("step %d Read: err=%v, underlying returned %v", i, err, under.lastErr)
		case !bytes.Equal(buf[:under.lastN], data) || !bytes.Equal(under.lastBytes, data):
			note("step %d Read: bytes %x, underlying delivered %x", i, buf[:under.lastN], data)
		default:
			for _, b := range buf[under.lastN:] {
				if b != 0xA5 {
					note("step %d Read: buffer modified beyond the %d bytes read", i, under.lastN)
					break
				}
			}
		}
		return true
	}
	doWrite := func(i int, data []byte, wn int, werr error) bool {
		under.wrN, under.wrErr = wn, werr
		given := append([]byte(nil), data...)
		before := under.calls
		var n int
		var err error
		if !c15Guard("Write", &res, func() { n, err = conn.Write(given) }) {
			return false
		}
		switch {
		case under.calls != before+1 || under.lastOp != 'W':
			note("step %d Write: %d underlying calls (last op %c), want exactly one Write", i, under.calls-before, under.lastOp)
		case !bytes.Equal(under.lastBytes, data):
			note("step %d Write: underlying conn received %x, caller wrote %x", i, under.lastBytes, data)
		case !bytes.Equal(given, data):
			note("step %d Write: caller's buffer was modified", i)
		case n != under.lastN:
			note("step %d Write: n=%d, underlying returned %d", i, n, under.lastN)
		case err != under.lastErr:
			note("step %d Write: err=%v, underlying returned %v", i, err, under.lastErr)
		}
		return true
	}
	alive := true
	for i, st := range steps {
		if st.Sleep > 0 {
			time.Sleep(st.Sleep)
			continue
		}
		res.Steps++
		isRead := (st.Dir == c15DirReq) == isServer
		if isRead {
			alive = doRead(i, st.Data, st.Err)
		} else {
			alive = doWrite(i, st.Data, st.N, st.Err)
		}
		if !alive {
			break
		}
	}
	doClose := func(cerr error) {
		under.clErr = cerr
		before := under.calls
		var err error
		if !c15Guard("Close", &res, func() { err = conn.Close() }) {
			return
		}
		if under.calls != before+1 || under.lastOp != 'C' {
			note("Close: %d underlying calls, want exactly one Close", under.calls-before)
		} else if err != cerr {
			note("Close: err=%v, underlying returned %v", err, cerr)
		}
	}
	if alive {
		switch fin {
		case c15FinClose, c15FinEOFData, c15FinErrData: // (the error of the last two is part of the steps)
			doClose(nil)
		case c15FinCloseErr:
			doClose(c15ErrClose)
		case c15FinEOF:
			if doRead(len(steps), nil, io.EOF) {
				doClose(nil)
			}
		case c15FinErr:
			if doRead(len(steps), nil, c15ErrOther) {
				doClose(nil)
			}
		case c15FinWait:
			// Only meaningful inside a synctest bubble: the retry collector's
			// timer fires in virtual time, no wall-clock time passes.
			time.Sleep(retryWait + time.Second)
			col.mu.Lock()
			res.EarlyCount = len(col.traces)
			col.mu.Unlock()
			doClose(nil)
		}
	}
	if tc, ok := conn.(*tracingHTTP2Conn); ok {
		r, w := tc.readTracer.broken, tc.writeTracer.broken
		if isServer {
			res.BrokenReq, res.BrokenResp = r, w
		} else {
			res.BrokenReq, res.BrokenResp = w, r
		}
	}
	col.mu.Lock()
	res.Traces = append([]Trace(nil), col.traces...)
	for _, at := range col.at {
		res.TraceAt = append(res.TraceAt, at.Sub(start))
	}
	col.mu.Unlock()
	return res
}

// ---------------------------------------------------------------------------
// frame scripts

// c15Item is one frame of a script before it is encoded.
type c15Item struct {
	Call      int  // 0 / 1 = call A / B, -1 = connection prologue
	Dir       int  // c15DirReq / c15DirResp
	Kind      byte // P preface, S settings, A settings ack, W window update, H headers, C continuation, D data, R rst_stream, G goaway, Y priority, X a frame of a type the protocol does not define (0xEE; must be ignored), N ping
	Stream    uint32
	Fields    []hpack.HeaderField
	Split     bool // H: the header block continues in the following C item(s)
	Frags     int  // H with Split: number of fragments of the header block (HEADERS + Frags-1 CONTINUATION), 0 = 2
	More      bool // C: not the last fragment (no END_HEADERS), another C item follows
	EndStream bool
	Data      []byte
	Code      http2.ErrCode
	LastID    uint32
	Opens     bool   // H that opens a stream
	Late      bool   // frame of the response direction that arrives after the stream was reset by the client / dropped by GOAWAY
	HasTab    bool   // S: the frame also carries SETTINGS_HEADER_TABLE_SIZE = TabSize
	TabSize   uint32 // (advertised by the decoder of the OTHER direction's header blocks)
	Padded    bool   // D, H: the frame carries the PADDED flag: a pad-length byte in front, PadLen zero bytes behind
	PadLen    int    // 0..255
	Prio      bool   // H: the frame carries the PRIORITY flag and its 5 bytes (stream dependency, weight)
}

func (it c15Item) String() string {
	d := "req"
	if it.Dir == c15DirResp {
		d = "resp"
	}
	s := fmt.Sprintf("%c/%s/s%d", it.Kind, d, it.Stream)
	if it.Split {
		s += "/split"
		if it.Frags > 2 {
			s += fmt.Sprintf("%d", it.Frags)
		}
	}
	if it.More {
		s += "/more"
	}
	if it.EndStream {
		s += "/ES"
	}
	if it.Late {
		s += "/late"
	}
	if it.Padded {
		s += fmt.Sprintf("/padded=%d", it.PadLen)
		if it.Kind == 'D' {
			s += fmt.Sprintf("/data=%d", len(it.Data))
		}
	}
	if it.Prio {
		s += "/priority"
	}
	if it.Kind == 'R' || it.Kind == 'G' {
		s += fmt.Sprintf("/code=%d", uint32(it.Code))
	}
	if it.Kind == 'S' && it.HasTab {
		s += fmt.Sprintf("/header-table-size=%d", it.TabSize)
	}
	return s
}

// c15Unit is one encoded frame (or the preface) in emission order.
type c15Unit struct {
	Call  int
	Dir   int
	Kind  byte
	Bytes []byte
}

type c15DirEnc struct {
	hbuf    bytes.Buffer
	henc    *hpack.Encoder
	fbuf    bytes.Buffer
	fr      *http2.Framer
	pending [][]byte // fragments of the open header block still to be sent in CONTINUATION frames

	sched        *c15TableSched // HPACK table-size history of this direction, nil = none
	blocks       int            // header blocks encoded so far
	limit        uint32         // table size the peer allows (4096 until its SETTINGS say otherwise)
	updates      int            // header blocks that started with a dynamic-table-size update
	updatesAbove int            // ... with an update to more than the 4096 bytes an endpoint starts with
	updateSplit  int            // ... whose update instruction(s) did not fit into the HEADERS frame (continued in CONTINUATION)
}

func c15NewDirEnc() *c15DirEnc { return c15NewDirEncSched(nil) }

func c15NewDirEncSched(sched *c15TableSched) *c15DirEnc {
	e := &c15DirEnc{sched: sched, limit: 4096}
	e.henc = hpack.NewEncoder(&e.hbuf)
	e.fr = http2.NewFramer(&e.fbuf, nil)
	if sched != nil && sched.Advertise >= 0 && sched.LateSettings < 0 {
		// the peer's SETTINGS of the connection prologue (acknowledged there) took effect before the first block
		e.allow(uint32(sched.Advertise))
	}
	return e
}

// allow: the peer's SETTINGS_HEADER_TABLE_SIZE has been received and acknowledged.  An encoder
// whose table is larger must shrink it (and says so at the start of its next block).
func (e *c15DirEnc) allow(v uint32) {
	e.limit = v
	e.henc.SetMaxDynamicTableSizeLimit(v)
}

// tableOps applies what the schedule says for the header block that is about to be encoded.
func (e *c15DirEnc) tableOps() {
	if e.sched == nil {
		return
	}
	if e.sched.Advertise >= 0 && e.sched.LateSettings == e.blocks {
		e.allow(uint32(e.sched.Advertise))
	}
	for _, op := range e.sched.Ops {
		if op.Block != e.blocks {
			continue
		}
		for _, size := range op.Sizes {
			if size > e.limit {
				panic(fmt.Sprintf("c15: schedule %s sets the table size to %d, the peer allows %d", e.sched.Name, size, e.limit))
			}
			e.henc.SetMaxDynamicTableSize(size)
		}
	}
}

// c15SizeUpdates parses the dynamic-table-size update instructions (RFC 7541 section 6.3: 001xxxxx,
// 5-bit prefix integer) a header block starts with: their total length and the largest size announced.
func c15SizeUpdates(block []byte) (n int, max uint64, count int) {
	for n < len(block) && block[n]&0xE0 == 0x20 {
		v := uint64(block[n] & 0x1F)
		n++
		if v == 0x1F {
			for shift := uint(0); n < len(block); shift += 7 {
				b := block[n]
				n++
				v += uint64(b&0x7F) << shift
				if b&0x80 == 0 {
					break
				}
			}
		}
		if v > max {
			max = v
		}
		count++
	}
	return n, max, count
}

func (e *c15DirEnc) encode(it *c15Item) []byte {
	e.fbuf.Reset()
	var err error
	switch it.Kind {
	case 'P':
		return []byte(clientPreface)
	case 'S':
		st := []http2.Setting{{ID: http2.SettingInitialWindowSize, Val: 65535}}
		if it.HasTab {
			st = append(st, http2.Setting{ID: http2.SettingHeaderTableSize, Val: it.TabSize})
		}
		err = e.fr.WriteSettings(st...)
	case 'A':
		err = e.fr.WriteSettingsAck()
	case 'W':
		err = e.fr.WriteWindowUpdate(it.Stream, 1000)
	case 'H':
		e.hbuf.Reset()
		e.tableOps()
		e.blocks++
		for _, f := range it.Fields {
			if werr := e.henc.WriteField(f); werr != nil {
				panic(werr)
			}
		}
		block := append([]byte(nil), e.hbuf.Bytes()...)
		first := block
		updLen, updMax, updCount := c15SizeUpdates(block)
		if updCount > 0 {
			e.updates++
			if updMax > 4096 {
				e.updatesAbove++
			}
		}
		if it.Split {
			// n fragments of (nearly) equal size: HEADERS carries the first, one
			// CONTINUATION each of the others; cuts fall anywhere, also inside a field
			n := it.Frags
			if n < 2 {
				n = 2
			}
			if len(block) < n {
				panic("c15: header block shorter than its number of fragments")
			}
			e.pending = nil
			for i := 1; i < n; i++ {
				e.pending = append(e.pending, block[len(block)*i/n:len(block)*(i+1)/n])
			}
			first = block[:len(block)/n]
			if updLen > len(first) {
				e.updateSplit++
			}
		}
		if it.Padded || it.Prio {
			// RFC 9113 section 6.2, written by hand (the library's writer cannot set PADDED with pad length 0):
			// [pad length] [E + stream dependency (31 bits), weight] fragment padding
			var flags http2.Flags
			var payload []byte
			if it.Padded {
				flags |= http2.FlagHeadersPadded
				payload = append(payload, byte(it.PadLen))
			}
			if it.Prio {
				flags |= http2.FlagHeadersPriority
				payload = append(payload, 0x80, 0, 0, 0, 200) // exclusive, depends on stream 0, weight 201
			}
			if it.EndStream {
				flags |= http2.FlagHeadersEndStream
			}
			if !it.Split {
				flags |= http2.FlagHeadersEndHeaders
			}
			payload = append(payload, first...)
			if it.Padded {
				payload = append(payload, make([]byte, it.PadLen)...)
			}
			err = e.fr.WriteRawFrame(http2.FrameHeaders, flags, it.Stream, payload)
			break
		}
		err = e.fr.WriteHeaders(http2.HeadersFrameParam{
			StreamID: it.Stream, BlockFragment: first, EndStream: it.EndStream, EndHeaders: !it.Split,
		})
	case 'C':
		if len(e.pending) == 0 || (len(e.pending) > 1) != it.More {
			panic("c15: CONTINUATION item does not match the open header block")
		}
		err = e.fr.WriteContinuation(it.Stream, !it.More, e.pending[0])
		e.pending = e.pending[1:]
	case 'D':
		if it.Padded {
			// RFC 9113 section 6.1: [pad length] data padding; "pad length" may be 0 and the data may be empty
			flags := http2.FlagDataPadded
			if it.EndStream {
				flags |= http2.FlagDataEndStream
			}
			payload := append([]byte{byte(it.PadLen)}, it.Data...)
			payload = append(payload, make([]byte, it.PadLen)...)
			err = e.fr.WriteRawFrame(http2.FrameData, flags, it.Stream, payload)
			break
		}
		err = e.fr.WriteData(it.Stream, it.EndStream, it.Data)
	case 'Y':
		err = e.fr.WritePriority(it.Stream, http2.PriorityParam{StreamDep: 0, Weight: 7})
	case 'X':
		// a frame type this version of the protocol does not define: "implementations MUST ignore and discard
		// frames of unknown types" (RFC 9113 section 4.1); its flag bits look like END_STREAM|END_HEADERS|PADDED
		err = e.fr.WriteRawFrame(http2.FrameType(0xEE), http2.Flags(0x0D), it.Stream, []byte{0xFF, 0x00, 0x07})
	case 'N':
		err = e.fr.WritePing(false, [8]byte{1, 2, 3, 4, 5, 6, 7, 8})
	case 'R':
		err = e.fr.WriteRSTStream(it.Stream, it.Code)
	case 'G':
		err = e.fr.WriteGoAway(it.LastID, it.Code, nil)
	default:
		panic("c15: unknown item kind")
	}
	if err != nil {
		panic(err)
	}
	return append([]byte(nil), e.fbuf.Bytes()...)
}

// c15Encode turns items (already in emission order) into wire units; the HPACK
// dynamic table of each direction evolves in exactly this order.
func c15Encode(items []c15Item) []c15Unit {
	units, _ := c15EncodeTab(items, c15Tab{})
	return units
}

// c15TabStats: what the table-size schedules really produced in one script.
type c15TabStats struct {
	Updates      [2]int // per direction: header blocks that start with a dynamic-table-size update
	UpdatesAbove [2]int // ... to more than 4096 bytes
	UpdateSplit  [2]int // ... with the update instruction(s) continued in a CONTINUATION frame
}

// c15EncodeTab encodes items that c15ApplyTab has prepared for tab: each direction's
// hpack.Encoder follows the table-size history of its schedule.
func c15EncodeTab(items []c15Item, tab c15Tab) ([]c15Unit, c15TabStats) {
	encs := [2]*c15DirEnc{c15NewDirEncSched(c15SchedByName(tab.Req)), c15NewDirEncSched(c15SchedByName(tab.Resp))}
	units := make([]c15Unit, len(items))
	for i := range items {
		it := &items[i]
		units[i] = c15Unit{Call: it.Call, Dir: it.Dir, Kind: it.Kind, Bytes: encs[it.Dir].encode(it)}
	}
	var st c15TabStats
	for d, e := range encs {
		st.Updates[d], st.UpdatesAbove[d], st.UpdateSplit[d] = e.updates, e.updatesAbove, e.updateSplit
	}
	return units, st
}

// ---------------------------------------------------------------------------
// HPACK dynamic-table-size history of a direction
//
// RFC 7541 sections 4.2 / 6.3, RFC 7540 section 6.5.2: the DEcoder of a direction advertises, in its
// SETTINGS frame, the largest table it is willing to keep (4096 until it says otherwise); once the
// encoder has acknowledged that, it may use any size up to it and announces every change with
// "dynamic table size update" instruction(s) at the start of its next header block (the smallest
// size reached since the last block, then the final one).  All of this is well-formed traffic:
// it must not change the trace of any call.

type c15TableOp struct {
	Block int      // before the Block-th header block (0-based, emission order) of the direction ...
	Sizes []uint32 // ... hpack.Encoder.SetMaxDynamicTableSize is called with these values, in order
}

type c15TableSched struct {
	Name string
	// value of SETTINGS_HEADER_TABLE_SIZE in the SETTINGS frame of the direction's receiver, -1 = the
	// setting is absent (4096 applies)
	Advertise int64
	// -1: that SETTINGS frame is the one of the connection prologue; k >= 0: a further SETTINGS frame
	// (and the acknowledgement) travels mid-connection, right before the k-th header block of the direction
	LateSettings int
	Ops          []c15TableOp
}

// c15Tab names the schedule of each direction ("" = none: no setting advertised, no update ever sent).
type c15Tab struct {
	Req  string `json:"req,omitempty"`
	Resp string `json:"resp,omitempty"`
}

func (t c15Tab) none() bool { return t.Req == "" && t.Resp == "" }
func (t c15Tab) String() string {
	if t.none() {
		return "none"
	}
	return "req=" + t.Req + ",resp=" + t.Resp
}

const c15K64 = 65536
const c15M1 = 1 << 20

// c15TableScheds: simplest first.  Sizes: 0 (table off: everything evicted, nothing indexed any more),
// 1 (a table that holds nothing), 128 (room for two of the ~60-byte entries of the scripts: entries are evicted as new ones come),
// 4095 / 4096 / 4097 (around the size an endpoint starts with), 16 KiB, 64 KiB, 1 MiB, 2^32-1 (the largest
// value the setting can carry).  Blocks: 0 (first block of the direction, table still empty),
// 1 (table holds the entries of block 0, the block refers to them), 2.
func c15TableScheds(thorough bool) []c15TableSched {
	ops := func(o ...c15TableOp) []c15TableOp { return o }
	at := func(block int, sizes ...uint32) c15TableOp { return c15TableOp{block, sizes} }
	out := []c15TableSched{
		{"grow64k@1", c15K64, -1, ops(at(1, c15K64))},                  // grow at the start of a later block
		{"zero@1", -1, -1, ops(at(1, 0))},                              // shrink to 0 and stay there
		{"zero-regrow@1", -1, -1, ops(at(1, 0, 4096))},                 // two instructions in one block: empty the table, back to 4096
		{"small@1", -1, -1, ops(at(1, 128))},                           // shrink to small
		{"zero@1-grow64k@2", c15K64, -1, ops(at(1, 0), at(2, c15K64))}, // shrink, then grow in the next block
		{"grow64k@0", c15K64, -1, ops(at(0, c15K64))},                  // grow in the very first block
		{"late-settings-grow64k@1", c15K64, 1, ops(at(1, c15K64))},     // the SETTINGS that allow it arrive mid-connection
		{"growmax@1", 0xFFFFFFFF, -1, ops(at(1, 0xFFFFFFFF))},          // the largest size there is
		{"grow4097@1", 4097, -1, ops(at(1, 4097))},                     // one byte more than an endpoint starts with
		{"one@1", -1, -1, ops(at(1, 1))},                               // a table no entry fits into
		{"grow1m@2", c15M1, -1, ops(at(2, c15M1))},                     // 1 MiB, announced in the block of a later stream
		{"zero@1-growmax@2", 0xFFFFFFFF, -1, ops(at(1, 0), at(2, 0xFFFFFFFF))}, // shrink to nothing, then to the maximum
	}
	if thorough {
		out = append(out,
			c15TableSched{"advertised64k-not-taken-up", c15K64, -1, nil},
			c15TableSched{"advertised0", 0, -1, nil},     // the peer wants no table: the encoder announces 0 in block 0
			c15TableSched{"advertised128", 128, -1, nil}, // ... a small one
			c15TableSched{"late-settings0@1", 0, 1, nil}, // mid-connection SETTINGS take the table away
			c15TableSched{"small@0", -1, -1, ops(at(0, 128))},
			c15TableSched{"zero@0-regrow@2", -1, -1, ops(at(0, 0), at(2, 4096))},
			c15TableSched{"zero@2", -1, -1, ops(at(2, 0))},
			c15TableSched{"same4096@1", -1, -1, ops(at(1, 4096))}, // an update that changes nothing
			c15TableSched{"shrink4095@1", -1, -1, ops(at(1, 4095))},
			c15TableSched{"one@0", -1, -1, ops(at(0, 1))},
			c15TableSched{"grow4097@0", 4097, -1, ops(at(0, 4097))},
			c15TableSched{"grow1m@0", c15M1, -1, ops(at(0, c15M1))},
			c15TableSched{"growmax@0", 0xFFFFFFFF, -1, ops(at(0, 0xFFFFFFFF))},
			c15TableSched{"shrink4095@1-grow4097@2", 4097, -1, ops(at(1, 4095), at(2, 4097))},
			c15TableSched{"one-regrow1m@1", c15M1, -1, ops(at(1, 1, c15M1))},
			c15TableSched{"advertisedmax-not-taken-up", 0xFFFFFFFF, -1, nil},
			c15TableSched{"late-settings-growmax@2", 0xFFFFFFFF, 2, ops(at(2, 0xFFFFFFFF))},
			c15TableSched{"grow16k@0-grow64k@2", c15K64, -1, ops(at(0, 16384), at(2, c15K64))},
			c15TableSched{"grow64k@2", c15K64, -1, ops(at(2, c15K64))},
			c15TableSched{"zero-regrow64k@1", c15K64, -1, ops(at(1, 0, c15K64))},
			c15TableSched{"grow64k@1-zero@2", c15K64, -1, ops(at(1, c15K64), at(2, 0))},
			c15TableSched{"grow64k@0-small@1-grow64k@2", c15K64, -1, ops(at(0, c15K64), at(1, 128), at(2, c15K64))},
			c15TableSched{"late-settings-grow64k@2", c15K64, 2, ops(at(2, c15K64))},
		)
	}
	return out
}

var c15SchedIndex map[string]*c15TableSched

func c15SchedByName(name string) *c15TableSched {
	if name == "" {
		return nil
	}
	if c15SchedIndex == nil {
		c15SchedIndex = map[string]*c15TableSched{}
		for _, s := range c15TableScheds(true) {
			s := s
			c15SchedIndex[s.Name] = &s
		}
	}
	s := c15SchedIndex[name]
	if s == nil {
		panic("c15: unknown table-size schedule " + name)
	}
	return s
}

// c15ApplyTab prepares a merged script (prologue + frames of the calls) for the table-size
// schedules: the SETTINGS frame that governs a direction's encoder is the one sent in the OTHER
// direction; it goes into the prologue, or (LateSettings = k) mid-connection: the SETTINGS frame as
// late as possible before the k-th header block of the direction without interrupting a header block
// of its own direction, the acknowledgement immediately before that block.
func c15ApplyTab(items []c15Item, tab c15Tab) []c15Item {
	if tab.none() {
		return items
	}
	for d, name := range [2]string{tab.Req, tab.Resp} {
		sc := c15SchedByName(name)
		if sc == nil || sc.Advertise < 0 {
			continue
		}
		if sc.LateSettings < 0 {
			for i := range items {
				if items[i].Call == -1 && items[i].Kind == 'S' && items[i].Dir == 1-d {
					items[i].HasTab, items[i].TabSize = true, uint32(sc.Advertise)
				}
			}
			continue
		}
		// position of the k-th header block of direction d
		at, seen := -1, 0
		for i := range items {
			if items[i].Kind == 'H' && items[i].Dir == d {
				if seen == sc.LateSettings {
					at = i
					break
				}
				seen++
			}
		}
		if at < 0 {
			continue // the direction has no such block in this script: nothing changes
		}
		// SETTINGS travel in direction 1-d: not inside a header block of that direction
		j := at
		for j > 0 {
			prev := -1
			for p := j - 1; p >= 0; p-- {
				if items[p].Dir == 1-d {
					prev = p
					break
				}
			}
			if prev < 0 || !((items[prev].Kind == 'H' && items[prev].Split) || (items[prev].Kind == 'C' && items[prev].More)) {
				break
			}
			j = prev // an open block: go before the frame that leaves it open (and check again)
		}
		out := make([]c15Item, 0, len(items)+2)
		out = append(out, items[:j]...)
		out = append(out, c15Item{Call: -1, Dir: 1 - d, Kind: 'S', HasTab: true, TabSize: uint32(sc.Advertise)})
		out = append(out, items[j:at]...)
		out = append(out, c15Item{Call: -1, Dir: d, Kind: 'A'})
		out = append(out, items[at:]...)
		items = out
	}
	return items
}

func c15Prologue() []c15Item {
	return []c15Item{
		{Call: -1, Dir: c15DirReq, Kind: 'P'},
		{Call: -1, Dir: c15DirReq, Kind: 'S'},
		{Call: -1, Dir: c15DirReq, Kind: 'W', Stream: 0},
		{Call: -1, Dir: c15DirResp, Kind: 'S'},
		{Call: -1, Dir: c15DirResp, Kind: 'A'},
		{Call: -1, Dir: c15DirReq, Kind: 'A'},
	}
}

// ---------------------------------------------------------------------------
// call shapes and the reference model

type c15Shape struct {
	Named       bool `json:"named"`
	Cont        bool `json:"cont,omitempty"`        // request HEADERS split: HEADERS + CONTINUATION
	ContN       int  `json:"contn,omitempty"`       // with Cont: number of CONTINUATION frames (0 = 1): the block has ContN+1 fragments
	NReq        int  `json:"nreq"`                  // request DATA frames carrying messages
	ReqEnd      int  `json:"reqend,omitempty"`      // 0: END_STREAM on the last request frame, 1: on an extra empty DATA
	MsgMode     int  `json:"msgmode,omitempty"`     // 0: one message per DATA; 1: first message spread over two DATA frames; 2: all messages in one DATA frame
	Resp        int  `json:"resp,omitempty"`        // 0: HEADERS, DATA*, trailers; 1: trailers-only
	NResp       int  `json:"nresp"`                 // response DATA frames
	RespCont    bool `json:"respcont,omitempty"`    // trailers (or the trailers-only HEADERS) split with CONTINUATION
	RespContN   int  `json:"respcontn,omitempty"`   // with RespCont: number of CONTINUATION frames (0 = 1)
	RespHdrCont int  `json:"resphdrcont,omitempty"` // number of CONTINUATION frames after the (non-final) response HEADERS
	Bidi        bool `json:"bidi,omitempty"`        // response HEADERS sent right after the request HEADERS
	ReqPieces   int  `json:"reqpieces,omitempty"`   // >= 3: the first request message is spread over that many DATA frames (overrides MsgMode)
	RespPieces  int  `json:"resppieces,omitempty"`  // >= 3: the first response message is spread over that many DATA frames
	Glue        bool `json:"glue,omitempty"`        // with ReqPieces / RespPieces: the second message starts in the DATA frame that carries the last piece of the first
	// request trailers (RFC 9113 section 8.1: a request may end with a trailer section): 0 none; 1: the request side ends with a
	// header block of its own (HEADERS with END_STREAM after the DATA frames, instead of END_STREAM on DATA / on the request
	// HEADERS); 2: that block as HEADERS + CONTINUATION.  Without Bidi the block travels BEFORE the response headers, with
	// Bidi after them.
	ReqTrail int  `json:"reqtrail,omitempty"`
	LateData bool `json:"latedata,omitempty"` // late variants: a response DATA frame (one more message) is among the late frames
	// padding and priority (RFC 9113 sections 6.1, 6.2, 6.3): legal on any DATA / HEADERS frame, never part of a message
	Pad     int  `json:"pad,omitempty"`     // 0: no padding; k+1: every DATA frame of the call carries the PADDED flag with pad length k (k = 0, 1, 7, 255)
	PadHdr  bool `json:"padhdr,omitempty"`  // with Pad: every HEADERS frame of the call is PADDED too
	PadOnly bool `json:"padonly,omitempty"` // with Pad: DATA frames of ZERO data bytes (pad length + padding, nothing else): one before the first DATA frame of each direction; the END_STREAM of the request's last DATA frame moves to one that follows it
	PadOne  bool `json:"padone,omitempty"`  // with Pad: the first byte of the first DATA frame of each direction travels in a DATA frame of its own
	Prio    bool `json:"prio,omitempty"`    // every HEADERS frame of the call carries the PRIORITY flag and fields
	Extra   bool `json:"extra,omitempty"`   // frames that carry nothing of a call in between: PRIORITY and an unknown frame type (0xEE) on the call's stream after the request header block, an unknown type on stream 0 and a PING after the response header block, PRIORITY for the stream after its end
	// "", rstc-early, rstc-mid, rsts-early, rsts-mid, refused-retry, goaway, and the late variants: the
	// server's frames were already in flight when the stream went away and arrive afterwards, each header
	// block adding entries to the HPACK dynamic table of the response direction:
	//   rstc-late-hdr   client RST_STREAM before any response; then response HEADERS [DATA] trailers
	//   rstc-late-trail response HEADERS, DATA*, client RST_STREAM; then [DATA] trailers
	//   goaway-late     GOAWAY(last-stream-id 1) drops the stream; then response HEADERS [DATA] trailers on it
	Variant string `json:"variant,omitempty"`
}

func (s c15Shape) String() string { b, _ := json.Marshal(s); return string(b) }

// number of CONTINUATION frames of the request header block / of the trailers
// (or trailers-only) block
func (s c15Shape) reqConts() int {
	switch {
	case !s.Cont:
		return 0
	case s.ContN > 0:
		return s.ContN
	}
	return 1
}

func (s c15Shape) trailerConts() int {
	switch {
	case !s.RespCont:
		return 0
	case s.RespContN > 0:
		return s.RespContN
	}
	return 1
}

func (s c15Shape) tag() string {
	v := s.Variant
	if v == "" {
		v = "plain"
	}
	if s.ReqPieces >= 3 || s.RespPieces >= 3 {
		v += "+message-in-3-or-more-data-frames"
	}
	if s.ReqTrail > 0 {
		v += "+request-trailers"
	}
	if s.padded() {
		v += "+padded-frames"
	}
	if s.Prio || s.Extra {
		v += "+priority-or-unknown-frames"
	}
	if !s.Named {
		v += "-nameless"
	}
	return v
}

func (s c15Shape) padded() bool { return s.Pad > 0 }

type c15Msg struct {
	Flags byte
	Len   uint32
}

// c15Want is what the property demands of the trace of one call.
type c15Want struct {
	Call     int
	Name     string // "" = no test name: no trace at all
	Method   string
	Scheme   string
	Host     string
	Path     string
	ReqHdr   map[string][]string
	ReqMsgs  []c15Msg
	ReqTrail map[string][]string // request trailers, nil = none sent
	HasResp  bool
	Status   int
	RespHdr  map[string][]string
	RespMsgs []c15Msg
	Trailers map[string][]string // nil = none sent
	Reset    bool                // true: the stream ends with a reset (trace error non-nil)
	Code     uint32              // error code of the reset
	ConnErr  bool                // reset by GOAWAY (connection error) rather than RST_STREAM
	// for refused-retry: the first, refused attempt (must NOT be the trace)
	RefusedHdr map[string][]string
}

func c15Canon(fields []hpack.HeaderField) map[string][]string {
	m := map[string][]string{}
	for _, f := range fields {
		if strings.HasPrefix(f.Name, ":") {
			continue
		}
		k := textproto.CanonicalMIMEHeaderKey(f.Name)
		m[k] = append(m[k], f.Value)
	}
	return m
}

func c15Envelope(flags byte, payload []byte) []byte {
	b := make([]byte, 5+len(payload))
	b[0] = flags
	binary.BigEndian.PutUint32(b[1:], uint32(len(payload)))
	copy(b[5:], payload)
	return b
}

var c15Letters = [2]string{"a", "b"}

func c15ReqFields(sh c15Shape, idx, attempt int) []hpack.HeaderField {
	f := []hpack.HeaderField{
		{Name: ":method", Value: "POST"},
		{Name: ":scheme", Value: "http"},
		{Name: ":path", Value: "/verif.v1.Svc/Call" + strings.ToUpper(c15Letters[idx])},
		{Name: ":authority", Value: "c15.test:80"},
		{Name: "content-type", Value: "application/grpc"},
		{Name: "te", Value: "trailers"},
		{Name: "x-shared", Value: "same-for-every-call"},
	}
	if sh.Named {
		f = append(f, hpack.HeaderField{Name: "x-test-case-name", Value: c15Name(idx)})
	}
	f = append(f,
		hpack.HeaderField{Name: "x-call", Value: c15Letters[idx]},
		hpack.HeaderField{Name: "x-multi", Value: "1" + c15Letters[idx]},
		hpack.HeaderField{Name: "x-multi", Value: "2" + c15Letters[idx]},
	)
	if attempt > 1 {
		f = append(f, hpack.HeaderField{Name: "x-attempt", Value: "2"})
	}
	return f
}

func c15Name(idx int) string { return "C15 Suite/case-" + c15Letters[idx] }

func c15RespFields(idx int) []hpack.HeaderField {
	return []hpack.HeaderField{
		{Name: ":status", Value: "200"},
		{Name: "content-type", Value: "application/grpc"},
		{Name: "x-shared", Value: "same-for-every-call"},
		{Name: "x-resp", Value: "resp-" + c15Letters[idx]},
	}
}

func c15TrailerFields(idx int) []hpack.HeaderField {
	return []hpack.HeaderField{
		{Name: "grpc-status", Value: "0"},
		{Name: "x-shared", Value: "same-for-every-call"},
		{Name: "x-trail", Value: "trail-" + c15Letters[idx]},
	}
}

func c15ReqTrailerFields(idx int) []hpack.HeaderField {
	return []hpack.HeaderField{
		{Name: "x-req-checksum", Value: "sum-" + c15Letters[idx]},
		{Name: "x-shared", Value: "same-for-every-call"},
	}
}

func c15TrailersOnlyFields(idx int) []hpack.HeaderField {
	return []hpack.HeaderField{
		{Name: ":status", Value: "200"},
		{Name: "content-type", Value: "application/grpc"},
		{Name: "grpc-status", Value: "3"},
		{Name: "grpc-message", Value: "refused-" + c15Letters[idx]},
	}
}

// message i of call idx: distinct sizes and flags per call and direction, one of them empty
func c15ReqMsg(idx, i int) (byte, []byte) {
	sizes := [2][2]int{{3, 1}, {4, 2}}
	return byte(i & 1), bytes.Repeat([]byte{byte(0x10*(idx+1) + i)}, sizes[idx][i])
}

// The payload bytes of responses are small and have neither bit 0x80 nor bit 0x02 set: should a
// tracer under test lose its place in the body and read payload as an envelope prefix, the
// bogus length stays below 2^28 and the bogus flags do not announce an end-stream message
// (for which dataTracer allocates a buffer of the announced length: gigabytes per case with
// bytes like 0x90).  Such a tracer is reported through its wrong messages, not through
// memory exhaustion of the harness.
func c15RespMsg(idx, i int) (byte, []byte) {
	sizes := [2][2]int{{5, 0}, {6, 7}}
	fill := [2][2]byte{{0x01, 0x05}, {0x04, 0x08}}
	return byte((i + 1) & 1), bytes.Repeat([]byte{fill[idx][i]}, sizes[idx][i])
}

// c15Pieces spreads one enveloped message over k DATA frames.  The payload is cut
// into min(k, len(payload)) non-empty pieces, the first of which travels with the
// (rest of the) 5-byte prefix; when the payload is shorter than k the prefix is
// cut as well, so that there are always k frames.
func c15Pieces(env []byte, k int) [][]byte {
	payload := env[5:]
	np := k
	if np > len(payload) {
		np = len(payload)
	}
	if np < 1 {
		np = 1
	}
	pf := k - np // frames that carry nothing but a part of the prefix
	if pf > 4 {
		pf = 4
	}
	var cuts []int // offsets in env where a new frame starts
	for i := 1; i <= pf; i++ {
		cuts = append(cuts, 5*i/(pf+1))
	}
	for i := 1; i < np; i++ {
		cuts = append(cuts, 5+len(payload)*i/np)
	}
	var out [][]byte
	prev := 0
	for _, c := range cuts {
		out = append(out, env[prev:c])
		prev = c
	}
	return append(out, env[prev:])
}

// c15AppendMsg adds the DATA frames of message i: message 0 in k pieces, the
// others whole; with glue message 1 starts in the frame of message 0's last piece.
func c15AppendMsg(frames [][]byte, env []byte, i, k int, glue bool) [][]byte {
	switch {
	case i == 0:
		return append(frames, c15Pieces(env, k)...)
	case i == 1 && glue:
		last := len(frames) - 1
		frames[last] = append(append([]byte(nil), frames[last]...), env...)
		return frames
	}
	return append(frames, env)
}

// c15CallItems builds the frame sequence of call idx (stream id 1+2*idx; a
// retry uses id+4) and, independently of any implementation, what its trace
// must contain.
func c15CallItems(sh c15Shape, idx int) ([]c15Item, c15Want) {
	items, want := c15CallItemsPlain(sh, idx)
	return c15ApplyPad(items, sh, idx), want
}

// c15ApplyPad adds what the padding / priority fields of the shape ask for to the frames of a call.
// Nothing of it belongs to a message or a header field: the demanded trace is that of the plain script.
func c15ApplyPad(items []c15Item, sh c15Shape, idx int) []c15Item {
	if !sh.padded() && !sh.Prio && !sh.Extra {
		return items
	}
	padLen := sh.Pad - 1
	firstD := [2]int{-1, -1}
	lastD := [2]int{-1, -1}
	for i, it := range items {
		if it.Kind == 'D' && !it.Late {
			if firstD[it.Dir] < 0 {
				firstD[it.Dir] = i
			}
			lastD[it.Dir] = i
		}
	}
	var out []c15Item
	seenReqBlock, seenRespBlock := false, false
	var lastStream uint32
	for i, it := range items {
		pad := func(d c15Item) c15Item {
			if sh.padded() {
				d.Padded, d.PadLen = true, padLen
			}
			return d
		}
		switch it.Kind {
		case 'H':
			it.Prio = sh.Prio
			if sh.padded() && sh.PadHdr {
				it.Padded, it.PadLen = true, padLen
			}
			lastStream = it.Stream
			out = append(out, it)
		case 'D':
			if it.Late {
				out = append(out, pad(it))
				break
			}
			if sh.padded() && sh.PadOnly && i == firstD[it.Dir] {
				out = append(out, pad(c15Item{Call: it.Call, Dir: it.Dir, Kind: 'D', Stream: it.Stream}))
			}
			moveEnd := sh.padded() && sh.PadOnly && i == lastD[it.Dir] && it.EndStream && len(it.Data) > 0
			if moveEnd {
				it.EndStream = false
			}
			if sh.padded() && sh.PadOne && i == firstD[it.Dir] && len(it.Data) > 1 {
				one := it
				one.Data, one.EndStream = it.Data[:1], false
				out = append(out, pad(one))
				it.Data = it.Data[1:]
			}
			out = append(out, pad(it))
			if moveEnd {
				out = append(out, pad(c15Item{Call: it.Call, Dir: it.Dir, Kind: 'D', Stream: it.Stream, EndStream: true}))
			}
		default:
			out = append(out, it)
		}
		if !sh.Extra {
			continue
		}
		blockEnds := (it.Kind == 'H' && !it.Split) || (it.Kind == 'C' && !it.More)
		switch {
		case blockEnds && it.Dir == c15DirReq && !seenReqBlock:
			seenReqBlock = true
			out = append(out,
				c15Item{Call: idx, Dir: c15DirReq, Kind: 'Y', Stream: it.Stream},
				c15Item{Call: idx, Dir: c15DirReq, Kind: 'X', Stream: it.Stream})
		case blockEnds && it.Dir == c15DirResp && !seenRespBlock && !it.Late:
			seenRespBlock = true
			out = append(out,
				c15Item{Call: idx, Dir: c15DirResp, Kind: 'X', Stream: 0},
				c15Item{Call: idx, Dir: c15DirResp, Kind: 'N'})
		}
	}
	if sh.Extra && lastStream != 0 {
		// PRIORITY may be sent for a stream in any state, also after it was closed (RFC 9113 section 6.3)
		out = append(out, c15Item{Call: idx, Dir: c15DirReq, Kind: 'Y', Stream: lastStream})
	}
	return out
}

func c15CallItemsPlain(sh c15Shape, idx int) ([]c15Item, c15Want) {
	id := uint32(1 + 2*idx)
	var items []c15Item
	want := c15Want{Call: idx}
	if sh.Named {
		want.Name = c15Name(idx)
	}
	add := func(it c15Item) { it.Call = idx; items = append(items, it) }
	// a header block: HEADERS followed by conts CONTINUATION frames, the last one with END_HEADERS
	addBlock := func(it c15Item, conts int) {
		it.Split, it.Frags = conts > 0, conts+1
		add(it)
		for i := 0; i < conts; i++ {
			add(c15Item{Dir: it.Dir, Kind: 'C', Stream: it.Stream, More: i < conts-1})
		}
	}

	attempt := 1
	if sh.Variant == "refused-retry" {
		first := c15ReqFields(sh, idx, 1)
		want.RefusedHdr = c15Canon(first)
		addBlock(c15Item{Dir: c15DirReq, Kind: 'H', Stream: id, Fields: first, Opens: true}, sh.reqConts())
		add(c15Item{Dir: c15DirResp, Kind: 'R', Stream: id, Code: http2.ErrCodeRefusedStream})
		id += 4
		attempt = 2
	}

	reqFields := c15ReqFields(sh, idx, attempt)
	want.Method, want.Scheme, want.Host = "POST", "http", "c15.test:80"
	want.Path = "/verif.v1.Svc/Call" + strings.ToUpper(c15Letters[idx])
	want.ReqHdr = c15Canon(reqFields)

	// request DATA frames
	var reqData [][]byte
	switch {
	case sh.NReq == 0:
	case sh.ReqPieces >= 3: // first message spread over ReqPieces DATA frames, others whole
		for i := 0; i < sh.NReq; i++ {
			fl, p := c15ReqMsg(idx, i)
			want.ReqMsgs = append(want.ReqMsgs, c15Msg{fl, uint32(len(p))})
			reqData = c15AppendMsg(reqData, c15Envelope(fl, p), i, sh.ReqPieces, sh.Glue)
		}
	case sh.MsgMode == 1: // first message spread over two DATA frames, others whole
		for i := 0; i < sh.NReq; i++ {
			fl, p := c15ReqMsg(idx, i)
			want.ReqMsgs = append(want.ReqMsgs, c15Msg{fl, uint32(len(p))})
			env := c15Envelope(fl, p)
			if i == 0 {
				reqData = append(reqData, env[:3], env[3:])
			} else {
				reqData = append(reqData, env)
			}
		}
	case sh.MsgMode == 2: // all messages in one DATA frame
		var all []byte
		for i := 0; i < sh.NReq; i++ {
			fl, p := c15ReqMsg(idx, i)
			want.ReqMsgs = append(want.ReqMsgs, c15Msg{fl, uint32(len(p))})
			all = append(all, c15Envelope(fl, p)...)
		}
		reqData = append(reqData, all)
	default:
		for i := 0; i < sh.NReq; i++ {
			fl, p := c15ReqMsg(idx, i)
			want.ReqMsgs = append(want.ReqMsgs, c15Msg{fl, uint32(len(p))})
			reqData = append(reqData, c15Envelope(fl, p))
		}
	}
	// response DATA frames and the messages they carry (all of them are sent before any reset in the middle)
	var respData [][]byte
	var respMsgs []c15Msg
	if sh.Resp == 0 {
		for i := 0; i < sh.NResp; i++ {
			fl, p := c15RespMsg(idx, i)
			respMsgs = append(respMsgs, c15Msg{fl, uint32(len(p))})
			if sh.RespPieces >= 3 {
				respData = c15AppendMsg(respData, c15Envelope(fl, p), i, sh.RespPieces, sh.Glue)
			} else {
				respData = append(respData, c15Envelope(fl, p))
			}
		}
	}

	// does the request side end the stream normally?
	reqEnds := true
	switch sh.Variant {
	case "rstc-early", "goaway", "rstc-late-hdr", "goaway-late":
		reqEnds = false
	}
	reqTrail := reqEnds && sh.ReqTrail > 0 // END_STREAM travels on a trailer block of the request
	endOnHeaders := reqEnds && len(reqData) == 0 && sh.ReqEnd == 0 && !reqTrail
	addBlock(c15Item{Dir: c15DirReq, Kind: 'H', Stream: id, Fields: reqFields, EndStream: endOnHeaders, Opens: true}, sh.reqConts())
	respHeaders := func() {
		want.HasResp, want.Status = true, 200
		f := c15RespFields(idx)
		want.RespHdr = c15Canon(f)
		addBlock(c15Item{Dir: c15DirResp, Kind: 'H', Stream: id, Fields: f}, sh.RespHdrCont)
	}
	respStarted := false
	wantsRespHeaders := sh.Resp == 0 && sh.Variant != "rstc-early" && sh.Variant != "rsts-early" && sh.Variant != "goaway" &&
		sh.Variant != "rstc-late-hdr" && sh.Variant != "goaway-late"
	// frames of the server that were in flight when the stream went away: they reach the tracer after the
	// RST_STREAM / GOAWAY, belong to no tracked stream and must change nothing but the HPACK state
	lateTrailers := func() {
		if sh.LateData {
			add(c15Item{Dir: c15DirResp, Kind: 'D', Stream: id, Data: c15Envelope(0, []byte{0x09, 0x09}), Late: true})
		}
		it := c15Item{Dir: c15DirResp, Kind: 'H', Stream: id, Fields: c15TrailerFields(idx), EndStream: true, Late: true}
		conts := sh.trailerConts()
		it.Split, it.Frags = conts > 0, conts+1
		add(it)
		for i := 0; i < conts; i++ {
			add(c15Item{Dir: c15DirResp, Kind: 'C', Stream: id, More: i < conts-1, Late: true})
		}
	}
	lateResponse := func() {
		it := c15Item{Dir: c15DirResp, Kind: 'H', Stream: id, Fields: c15RespFields(idx), Late: true}
		it.Split, it.Frags = sh.RespHdrCont > 0, sh.RespHdrCont+1
		add(it)
		for i := 0; i < sh.RespHdrCont; i++ {
			add(c15Item{Dir: c15DirResp, Kind: 'C', Stream: id, More: i < sh.RespHdrCont-1, Late: true})
		}
		lateTrailers()
	}
	if sh.Bidi && wantsRespHeaders {
		respHeaders()
		respStarted = true
	}
	for i, d := range reqData {
		last := i == len(reqData)-1
		add(c15Item{Dir: c15DirReq, Kind: 'D', Stream: id, Data: d, EndStream: reqEnds && last && sh.ReqEnd == 0 && !reqTrail})
	}
	if reqEnds && sh.ReqEnd == 1 {
		add(c15Item{Dir: c15DirReq, Kind: 'D', Stream: id, EndStream: !reqTrail})
	}
	if reqTrail {
		f := c15ReqTrailerFields(idx)
		want.ReqTrail = c15Canon(f)
		addBlock(c15Item{Dir: c15DirReq, Kind: 'H', Stream: id, Fields: f, EndStream: true}, sh.ReqTrail-1)
	}

	switch sh.Variant {
	case "rstc-early":
		add(c15Item{Dir: c15DirReq, Kind: 'R', Stream: id, Code: http2.ErrCodeCancel})
		want.Reset, want.Code = true, uint32(http2.ErrCodeCancel)
		return items, want
	case "rsts-early":
		add(c15Item{Dir: c15DirResp, Kind: 'R', Stream: id, Code: http2.ErrCodeInternal})
		want.Reset, want.Code = true, uint32(http2.ErrCodeInternal)
		return items, want
	case "goaway":
		add(c15Item{Dir: c15DirResp, Kind: 'G', LastID: 1, Code: http2.ErrCodeNo})
		want.Reset, want.ConnErr, want.Code = true, true, uint32(http2.ErrCodeNo)
		return items, want
	case "rstc-late-hdr":
		add(c15Item{Dir: c15DirReq, Kind: 'R', Stream: id, Code: http2.ErrCodeCancel})
		want.Reset, want.Code = true, uint32(http2.ErrCodeCancel)
		lateResponse()
		return items, want
	case "goaway-late":
		add(c15Item{Dir: c15DirResp, Kind: 'G', LastID: 1, Code: http2.ErrCodeNo})
		want.Reset, want.ConnErr, want.Code = true, true, uint32(http2.ErrCodeNo)
		lateResponse()
		return items, want
	}

	if sh.Resp == 1 {
		f := c15TrailersOnlyFields(idx)
		want.HasResp, want.Status, want.RespHdr = true, 200, c15Canon(f)
		addBlock(c15Item{Dir: c15DirResp, Kind: 'H', Stream: id, Fields: f, EndStream: true}, sh.trailerConts())
		return items, want
	}
	if !respStarted {
		respHeaders()
	}
	want.RespMsgs = respMsgs
	for _, d := range respData {
		add(c15Item{Dir: c15DirResp, Kind: 'D', Stream: id, Data: d})
	}
	switch sh.Variant {
	case "rstc-mid":
		add(c15Item{Dir: c15DirReq, Kind: 'R', Stream: id, Code: http2.ErrCodeCancel})
		want.Reset, want.Code = true, uint32(http2.ErrCodeCancel)
		return items, want
	case "rstc-late-trail":
		add(c15Item{Dir: c15DirReq, Kind: 'R', Stream: id, Code: http2.ErrCodeCancel})
		want.Reset, want.Code = true, uint32(http2.ErrCodeCancel)
		lateTrailers()
		return items, want
	case "rsts-mid":
		add(c15Item{Dir: c15DirResp, Kind: 'R', Stream: id, Code: http2.ErrCodeInternal})
		want.Reset, want.Code = true, uint32(http2.ErrCodeInternal)
		return items, want
	}
	tf := c15TrailerFields(idx)
	want.Trailers = c15Canon(tf)
	addBlock(c15Item{Dir: c15DirResp, Kind: 'H', Stream: id, Fields: tf, EndStream: true}, sh.trailerConts())
	return items, want
}

func c15HasCont(items []c15Item) (req, resp bool) {
	for _, it := range items {
		if it.Kind == 'C' {
			if it.Dir == c15DirReq {
				req = true
			} else {
				resp = true
			}
		}
	}
	return
}

// c15HasChain tells whether a direction carries a header block of three or
// more fragments (a CONTINUATION frame without END_HEADERS).
func c15HasChain(items []c15Item) (req, resp bool) {
	for _, it := range items {
		if it.Kind == 'C' && it.More {
			if it.Dir == c15DirReq {
				req = true
			} else {
				resp = true
			}
		}
	}
	return
}

// ---------------------------------------------------------------------------
// interleavings

// c15Interleavings calls f with every merge of a and b (as a sequence of 0/1
// picks) that keeps each call's own order and is well-formed HTTP/2: a
// header block (HEADERS and all its CONTINUATION frames) is not interrupted by
// another frame of the same direction, streams are opened in increasing id order, no stream is opened
// after a GOAWAY.  f must not retain the slice.
func c15Interleavings(a, b []c15Item, f func(order []byte)) {
	seq := [2][]c15Item{a, b}
	order := make([]byte, 0, len(a)+len(b))
	type state struct {
		pos       [2]int
		pendCont  [2]int    // per direction: call (1-based) whose header block is open
		maxOpened uint32    // highest stream id opened so far
		openedBy  [2]uint32 // highest stream id opened by each call
		goneAway  bool
	}
	var rec func(st state)
	rec = func(st state) {
		if st.pos[0] == len(a) && st.pos[1] == len(b) {
			f(order)
			return
		}
		for c := 0; c < 2; c++ {
			if st.pos[c] == len(seq[c]) {
				continue
			}
			it := seq[c][st.pos[c]]
			if pc := st.pendCont[it.Dir]; pc != 0 && pc != c+1 {
				continue
			}
			if it.Opens && (it.Stream < st.maxOpened || st.goneAway) {
				continue
			}
			if it.Kind == 'G' {
				// GOAWAY(last-stream-id) resets every open stream above it; the script
				// means that for the stream of its own call only, so the other call must
				// either use a lower id or be over (and must not open a stream later)
				o := 1 - c
				if st.openedBy[o] > it.LastID && st.pos[o] != len(seq[o]) {
					continue
				}
			}
			ns := st
			ns.pos[c]++
			switch {
			case it.Kind == 'H' && it.Split:
				ns.pendCont[it.Dir] = c + 1
			case it.Kind == 'C' && !it.More: // the CONTINUATION with END_HEADERS closes the block
				ns.pendCont[it.Dir] = 0
			}
			if it.Opens {
				ns.maxOpened = it.Stream
				ns.openedBy[c] = it.Stream
			}
			if it.Kind == 'G' {
				ns.goneAway = true
			}
			order = append(order, byte(c))
			rec(ns)
			order = order[:len(order)-1]
		}
	}
	rec(state{})
}

func c15Merge(a, b []c15Item, order []byte) []c15Item {
	out := c15Prologue()
	i, j := 0, 0
	for _, c := range order {
		if c == 0 {
			out = append(out, a[i])
			i++
		} else {
			out = append(out, b[j])
			j++
		}
	}
	return out
}

// ---------------------------------------------------------------------------
// partitions of the two byte streams into calls

type c15Part struct {
	Mode string `json:"mode"`          // whole | frame | byte | cut
	Dir  int    `json:"dir,omitempty"` // cut: direction
	Pos  int    `json:"pos,omitempty"` // cut: offset in that direction's byte stream
}

// c15Steps turns wire units into calls. Runs of consecutive units of the same
// direction are what one call can carry at most.
func c15Steps(units []c15Unit, part c15Part) []c15Step {
	var steps []c15Step
	switch part.Mode {
	case "frame":
		for _, u := range units {
			steps = append(steps, c15Step{Dir: u.Dir, Data: u.Bytes, N: -1})
		}
	case "byte":
		for _, u := range units {
			for i := range u.Bytes {
				steps = append(steps, c15Step{Dir: u.Dir, Data: u.Bytes[i : i+1], N: -1})
			}
		}
	case "whole", "cut":
		off := [2]int{}
		for i := 0; i < len(units); {
			j := i
			var run []byte
			for j < len(units) && units[j].Dir == units[i].Dir {
				run = append(run, units[j].Bytes...)
				j++
			}
			d := units[i].Dir
			if part.Mode == "cut" && part.Dir == d && part.Pos > off[d] && part.Pos < off[d]+len(run) {
				k := part.Pos - off[d]
				steps = append(steps, c15Step{Dir: d, Data: run[:k], N: -1}, c15Step{Dir: d, Data: run[k:], N: -1})
			} else {
				steps = append(steps, c15Step{Dir: d, Data: run, N: -1})
			}
			off[d] += len(run)
			i = j
		}
	default:
		panic("c15: unknown partition mode " + part.Mode)
	}
	return steps
}

func c15DirLen(units []c15Unit, dir int) int {
	n := 0
	for _, u := range units {
		if u.Dir == dir {
			n += len(u.Bytes)
		}
	}
	return n
}

// c15CutIsInterior tells whether offset pos of direction dir falls strictly
// inside a run (so that the cut really splits a call).
func c15CutPositions(units []c15Unit, dir int) []int {
	var out []int
	off := 0
	for i := 0; i < len(units); {
		j := i
		n := 0
		for j < len(units) && units[j].Dir == units[i].Dir {
			n += len(units[j].Bytes)
			j++
		}
		if units[i].Dir == dir {
			for p := off + 1; p < off+n; p++ {
				out = append(out, p)
			}
			off += n
		}
		i = j
	}
	return out
}

// ---------------------------------------------------------------------------
// oracle for the traces

type c15Verdict struct {
	Key    string
	Detail string
}

func c15HdrEqual(got map[string][]string, want map[string][]string) bool {
	if len(got) != len(want) {
		return false
	}
	for k, v := range want {
		g := got[k]
		if len(g) != len(v) {
			return false
		}
		for i := range v {
			if g[i] != v[i] {
				return false
			}
		}
	}
	return true
}

func c15ErrCode(err error) (kind string, code uint32) {
	var se http2.StreamError
	if errors.As(err, &se) {
		return "stream", uint32(se.Code)
	}
	var ce http2.ConnectionError
	if errors.As(err, &ce) {
		return "conn", uint32(ce)
	}
	return "other", 0
}

func c15DescribeTrace(t *Trace) string {
	var sb strings.Builder
	fmt.Fprintf(&sb, "name=%q err=%v", t.TestName, t.Err)
	if t.Request != nil {
		fmt.Fprintf(&sb, " req=%s %v hdr=%v", t.Request.Method, t.Request.URL, t.Request.Header)
	}
	if t.Response != nil {
		fmt.Fprintf(&sb, " resp=%d hdr=%v trailer=%v", t.Response.StatusCode, t.Response.Header, t.Response.Trailer)
	}
	sb.WriteString(" events=[")
	for i, ev := range t.Events {
		if i > 0 {
			sb.WriteString(" ")
		}
		switch e := ev.(type) {
		case *RequestStart:
			sb.WriteString("ReqStart")
		case *RequestBodyData:
			fmt.Fprintf(&sb, "ReqData#%d(env=%v,len=%d)", e.MessageIndex, c15Env(e.Envelope), e.Len)
		case *RequestBodyEnd:
			fmt.Fprintf(&sb, "ReqEnd(%v)", e.Err)
		case *ResponseStart:
			sb.WriteString("RespStart")
		case *ResponseBodyData:
			fmt.Fprintf(&sb, "RespData#%d(env=%v,len=%d)", e.MessageIndex, c15Env(e.Envelope), e.Len)
		case *ResponseBodyEnd:
			fmt.Fprintf(&sb, "RespEnd(%v)", e.Err)
		case *RequestCanceled:
			sb.WriteString("Canceled")
		default:
			fmt.Fprintf(&sb, "%T", ev)
		}
	}
	sb.WriteString("]")
	return sb.String()
}

func c15Env(e *Envelope) string {
	if e == nil {
		return "nil"
	}
	return fmt.Sprintf("{%d,%d}", e.Flags, e.Len)
}

func c15MsgsOf(t *Trace, request bool) (msgs []c15Msg, ok bool, why string) {
	ok = true
	idx := 0
	for _, ev := range t.Events {
		var env *Envelope
		var l uint64
		var mi int
		switch e := ev.(type) {
		case *RequestBodyData:
			if !request {
				continue
			}
			env, l, mi = e.Envelope, e.Len, e.MessageIndex
		case *ResponseBodyData:
			if request {
				continue
			}
			env, l, mi = e.Envelope, e.Len, e.MessageIndex
		default:
			continue
		}
		if env == nil {
			return msgs, false, fmt.Sprintf("message event %d has no envelope (partial, %d bytes)", idx, l)
		}
		if uint64(env.Len) != l {
			ok, why = false, fmt.Sprintf("message %d incomplete: %d of %d bytes", idx, l, env.Len)
		}
		if mi != idx {
			ok, why = false, fmt.Sprintf("message %d carries index %d", idx, mi)
		}
		msgs = append(msgs, c15Msg{env.Flags, env.Len})
		idx++
	}
	return msgs, ok, why
}

// c15Judge compares the delivered traces with what the scripts of the calls
// demand.  wants holds one entry per call.
func c15Judge(res *c15Result, wants []c15Want, shapes []c15Shape) []c15Verdict {
	var out []c15Verdict
	byName := map[string][]*Trace{}
	for i := range res.Traces {
		t := &res.Traces[i]
		byName[t.TestName] = append(byName[t.TestName], t)
	}
	known := map[string]bool{}
	for wi := range wants {
		w := &wants[wi]
		tag := shapes[wi].tag()
		if w.Name == "" {
			continue
		}
		known[w.Name] = true
		got := byName[w.Name]
		call := strings.ToUpper(c15Letters[w.Call])
		if len(got) == 0 {
			out = append(out, c15Verdict{"trace-missing:" + tag, fmt.Sprintf("call %s (%s): no completed trace was delivered", call, shapes[wi])})
			continue
		}
		if len(got) > 1 {
			out = append(out, c15Verdict{"trace-duplicate:" + tag, fmt.Sprintf("call %s: %d traces delivered: %s | %s", call, len(got), c15DescribeTrace(got[0]), c15DescribeTrace(got[1]))})
			continue
		}
		t := got[0]
		var other *c15Want
		for oi := range wants {
			if oi != wi {
				other = &wants[oi]
			}
		}
		bad := func(kind, what string) {
			out = append(out, c15Verdict{kind + ":" + tag, fmt.Sprintf("call %s (%s): %s; trace: %s", call, shapes[wi], what, c15DescribeTrace(t))})
		}
		// request line and headers
		if t.Request == nil || t.Request.URL == nil {
			bad("trace-wrong-request", "trace has no request")
			continue
		}
		rq := t.Request
		if len(t.Events) == 0 {
			bad("trace-wrong-request", "trace has no events")
			continue
		}
		if rs, ok := t.Events[0].(*RequestStart); !ok || rs.Request != rq {
			bad("trace-wrong-request", "first event is not the RequestStart of the trace's request")
			continue
		}
		if rq.Method != w.Method || rq.URL.Path != w.Path || rq.URL.Host != w.Host || rq.URL.Scheme != w.Scheme || rq.URL.RawQuery != "" {
			if other != nil && rq.URL.Path == other.Path {
				bad("trace-wrong-stream", fmt.Sprintf("request line is the other call's (%s)", other.Path))
			} else {
				bad("trace-wrong-request", fmt.Sprintf("request line: want %s %s://%s%s", w.Method, w.Scheme, w.Host, w.Path))
			}
			continue
		}
		if !c15HdrEqual(rq.Header, w.ReqHdr) {
			switch {
			case w.RefusedHdr != nil && c15HdrEqual(rq.Header, w.RefusedHdr):
				bad("retry-trace-is-refused-attempt", "the trace is the refused attempt's, not the retry's")
			default:
				bad("trace-wrong-request", fmt.Sprintf("request headers: want %v", w.ReqHdr))
			}
			continue
		}
		// messages
		reqMsgs, ok, why := c15MsgsOf(t, true)
		if !ok || !reflect.DeepEqual(reqMsgs, w.ReqMsgs) && !(len(reqMsgs) == 0 && len(w.ReqMsgs) == 0) {
			if ok && other != nil && len(reqMsgs) > 0 && reflect.DeepEqual(reqMsgs, other.ReqMsgs) {
				bad("trace-wrong-stream", "request messages are the other call's")
			} else {
				bad("trace-wrong-messages", fmt.Sprintf("request messages: got %v %s, want %v", reqMsgs, why, w.ReqMsgs))
			}
			continue
		}
		respMsgs, ok, why := c15MsgsOf(t, false)
		if !ok || !reflect.DeepEqual(respMsgs, w.RespMsgs) && !(len(respMsgs) == 0 && len(w.RespMsgs) == 0) {
			if ok && other != nil && len(respMsgs) > 0 && reflect.DeepEqual(respMsgs, other.RespMsgs) {
				bad("trace-wrong-stream", "response messages are the other call's")
			} else {
				bad("trace-wrong-messages", fmt.Sprintf("response messages: got %v %s, want %v", respMsgs, why, w.RespMsgs))
			}
			continue
		}
		// response status, headers
		if w.HasResp != (t.Response != nil) {
			bad("trace-wrong-response", fmt.Sprintf("response present=%v, want %v", t.Response != nil, w.HasResp))
			continue
		}
		if w.HasResp {
			if t.Response.StatusCode != w.Status || !c15HdrEqual(t.Response.Header, w.RespHdr) {
				if other != nil && other.HasResp && c15HdrEqual(t.Response.Header, other.RespHdr) {
					bad("trace-wrong-stream", "response headers are the other call's")
				} else {
					bad("trace-wrong-response", fmt.Sprintf("response: want %d %v", w.Status, w.RespHdr))
				}
				continue
			}
			hasStart := false
			for _, ev := range t.Events {
				if e, ok := ev.(*ResponseStart); ok && e.Response == t.Response {
					hasStart = true
				}
			}
			if !hasStart {
				bad("trace-wrong-response", "no ResponseStart event for the trace's response")
				continue
			}
			gotTr := map[string][]string(t.Response.Trailer)
			if !c15HdrEqual(gotTr, w.Trailers) {
				if other != nil && len(gotTr) > 0 && c15HdrEqual(gotTr, other.Trailers) {
					bad("trace-wrong-stream", "trailers are the other call's")
				} else {
					bad("trace-wrong-trailers", fmt.Sprintf("trailers: want %v", w.Trailers))
				}
				continue
			}
		}
		// request trailers
		if gotRT := map[string][]string(rq.Trailer); !c15HdrEqual(gotRT, w.ReqTrail) {
			if w.HasResp && c15HdrEqual(gotRT, w.RespHdr) || w.Trailers != nil && c15HdrEqual(gotRT, w.Trailers) {
				bad("trace-wrong-request-trailers", fmt.Sprintf("a header block of the response is recorded as the request's trailers %v, want %v", gotRT, w.ReqTrail))
			} else {
				bad("trace-wrong-request-trailers", fmt.Sprintf("request trailers %v, want %v", gotRT, w.ReqTrail))
			}
			continue
		}
		// order of the events: nothing of the response before the request started, no response message before the
		// response headers, nothing of a side after its end
		if why := c15EventOrder(t); why != "" {
			bad("trace-wrong-event-order", why)
			continue
		}
		// end or reset
		if w.Reset != (t.Err != nil) {
			bad("trace-wrong-end", fmt.Sprintf("trace error %v, want reset=%v", t.Err, w.Reset))
			continue
		}
		if w.Reset {
			kind, code := c15ErrCode(t.Err)
			if (kind == "stream" && (w.ConnErr || code != w.Code)) || (kind == "conn" && (!w.ConnErr || code != w.Code)) {
				bad("trace-wrong-end", fmt.Sprintf("reset reported as %s error code %d, script reset it with code %d (goaway=%v)", kind, code, w.Code, w.ConnErr))
				continue
			}
		} else {
			// a normal end: the last event is the end of the response body
			if e, ok := t.Events[len(t.Events)-1].(*ResponseBodyEnd); !ok || e.Err != nil {
				bad("trace-wrong-end", "stream ended normally but the trace does not end with a clean response end")
				continue
			}
		}
	}
	names := make([]string, 0, len(byName))
	for n := range byName {
		names = append(names, n)
	}
	sort.Strings(names)
	for _, n := range names {
		if !known[n] {
			out = append(out, c15Verdict{"trace-unexpected", fmt.Sprintf("trace for test name %q which no call carries: %s", n, c15DescribeTrace(byName[n][0]))})
		}
	}
	return out
}

// c15EventOrder: "request and response messages in order" — within a trace the request's events are RequestStart,
// messages, at most one end; the response's are ResponseStart, messages, one end; "" = in order.
func c15EventOrder(t *Trace) string {
	reqEnd, respStart, respEnd := false, false, false
	for i, ev := range t.Events {
		switch ev.(type) {
		case *RequestStart:
			if i != 0 {
				return fmt.Sprintf("event %d is a second RequestStart", i)
			}
		case *RequestBodyData:
			if reqEnd {
				return fmt.Sprintf("event %d: a request message after the end of the request body", i)
			}
		case *RequestBodyEnd:
			reqEnd = true
		case *ResponseStart:
			if respStart {
				return fmt.Sprintf("event %d is a second ResponseStart", i)
			}
			respStart = true
		case *ResponseBodyData:
			if respEnd {
				return fmt.Sprintf("event %d: a response message after the end of the response body", i)
			}
		case *ResponseBodyEnd:
			respEnd = true
		}
	}
	return ""
}

func c15OutcomeClass(res *c15Result) string {
	if res.Panic != "" {
		return "panic"
	}
	var parts []string
	for i := range res.Traces {
		t := &res.Traces[i]
		l := "?"
		if strings.HasSuffix(t.TestName, "-a") {
			l = "A"
		} else if strings.HasSuffix(t.TestName, "-b") {
			l = "B"
		}
		e := "end"
		if t.Err != nil {
			k, c := c15ErrCode(t.Err)
			e = fmt.Sprintf("%s%d", k, c)
		}
		r := "noresp"
		if t.Response != nil {
			r = "resp"
			if len(t.Response.Trailer) > 0 {
				r = "resp+trailers"
			}
		}
		parts = append(parts, l+":"+r+":"+e)
	}
	sort.Strings(parts)
	s := strings.Join(parts, ",")
	if s == "" {
		s = "no-trace"
	}
	if res.BrokenReq || res.BrokenResp {
		s += fmt.Sprintf("|gaveup(req=%v,resp=%v)", res.BrokenReq, res.BrokenResp)
	}
	return s
}
