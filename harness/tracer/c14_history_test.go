package tracer

// C14, stages H (histories) and S (shape / alphabet extension). Both are cheap
// and run before the heavy enumeration of c14_test.go (same unit, same report).
//
// Stage H — the property quantifies over every body on its own: what the trace
// says about one body must not depend on what the process traced before. A
// *history* is an ordered pair of cases (first, second) executed back to back
// through the real middleware on one goroutine, with the scheduler reduced to
// one P and the collector switched off for the duration of the pair, so that
// hand-off through process-wide state (package variables, sync.Pool, ...) is
// deterministic. first ranges over "bad" bodies: complete compressed end-stream
// envelopes (Connect 0x03, gRPC-Web 0x81) whose compressed payload is cut at
// every byte position (envelope length adjusted, so the envelope is complete),
// has one byte altered at every position, carries trailing garbage or is in
// another encoding than negotiated — for every supported encoding — plus every
// truncation of a valid stream under every ending (EOF, read error, early
// Close, failing Close, handler return, failing / short write, panic) on all
// four sides; and over valid bodies. second ranges over valid bodies (absent /
// identity / every supported encoding, compressed bit set and unset, Connect
// and gRPC-Web, client response and server response).
// Oracle: both bodies are judged by the reference model and against the run
// without tracing exactly like single cases, and the events of the second body
// must equal those the same body gave when traced in the fresh process state.
//
// Stage S — encoding names in every spelling: for every supported encoding (and
// identity) the header value in lower, UPPER, Title and mIXED case, in every
// header that carries it (Connect-Content-Encoding, Grpc-Encoding,
// Content-Encoding), on streams with a compressed and an uncompressed
// end-stream message, in a reduced chunking (<= 2 pieces, all-1-byte; in the
// quick tier only the mIXED spelling gets the two-piece compositions, the
// others are delivered in one call and byte by byte); plus
// every truncation of such streams for the encodings that part B of the main
// enumeration does not use (br, deflate, snappy). The oracle is the unchanged
// reference model, which treats coding names case-insensitively (RFC 9110 8.4.1).

import (
	"encoding/hex"
	"encoding/json"
	"errors"
	"fmt"
	"runtime"
	"runtime/debug"
	"sort"
	"strings"
	"syscall"
	"testing"
	"time"

	"connectrpc.com/conformance/internal/verif/rep"
	"github.com/klauspost/compress/zstd"
)

// ---------------------------------------------------------------------------
// stage H: histories

type c14HItem struct {
	Kind  string
	C     c14Case
	body  []byte
	ref   *c14Ref
	plain *c14Obs
	alone []c14Ev // seconds: events when traced in the fresh process state
}

// c14Chunks delivers n bytes in as few calls as the 64-byte application buffer allows.
func c14Chunks(n int) []int {
	var out []int
	for n > 0 {
		m := n
		if m > 64 {
			m = 64
		}
		out = append(out, m)
		n -= m
	}
	return out
}

func c14NewHItem(kind, side string, h c14Hdr, d []byte, ending string) *c14HItem {
	return &c14HItem{Kind: kind, body: d, C: c14Case{
		Part: "H-history", Side: side, Hdr: h, Body: hex.EncodeToString(d), Pieces: c14Chunks(len(d)), Ending: ending,
	}}
}

func (it *c14HItem) prepare() {
	if it.ref == nil {
		it.ref = c14Reference(it.C.Side, it.C.Hdr, it.body)
		p := c14Run(&it.C, it.body, false) // the run without tracing touches no tracer state
		it.plain = &p
	}
}

type c14HProto struct {
	name, ct, encKey string
	flag             byte
	texts            [2]string // [0] content of first bodies, [1] content of second bodies
}

var c14HProtos = []c14HProto{
	{"connect", "application/connect+proto", "Connect-Content-Encoding", 0x02,
		[2]string{`{"error":{"code":"internal"}}`, `{"metadata":{"x-second":["2"]}}`}},
	{"grpcweb", "application/grpc-web+proto", "Grpc-Encoding", 0x80,
		[2]string{"grpc-status: 13\r\ngrpc-message: first\r\n", "grpc-status: 0\r\nx-second: 2\r\n"}},
}

func c14NormalEnding(side string) string {
	if side == c14ServerResp {
		return "return"
	}
	return "eof"
}

var c14RespSides = []string{c14ClientResp, c14ServerResp}

// c14ZstdOversized tells whether a (damaged) zstd payload declares a decoded or
// window size above the reference decoder's 16 MiB cap. Such payloads are left
// out of the alphabet: the zstd decoder allocates the declared size up front
// (a 42-byte payload with one altered header byte can ask for 2 GiB), which
// says nothing about tracing and starves the machine the check runs on.
func c14ZstdOversized(payload []byte) bool {
	_, err := c14ZstdDec.DecodeAll(payload, nil)
	return errors.Is(err, zstd.ErrDecoderSizeExceeded) || errors.Is(err, zstd.ErrWindowSizeExceeded)
}

// c14HistoryFirsts: the bodies that may leave something behind.
func c14HistoryFirsts(thorough bool) (out []*c14HItem, oversized int) {
	allSides := []string{c14ClientResp, c14ServerResp, c14ServerReq, c14ClientReq}
	mutations := []func(byte) byte{
		func(b byte) byte { return b + 1 },
		func(b byte) byte { return b ^ 0xff },
	}
	if thorough {
		mutations = append(mutations,
			func(b byte) byte { return b ^ 0x01 },
			func(b byte) byte { return b ^ 0x80 },
		)
	}
	for _, p := range c14HProtos {
		text := []byte(p.texts[0])
		for _, enc := range c14SupportedEncodings {
			comp := c14Compress(enc, text)
			h := c14Hdr{CT: p.ct, EncKey: p.encKey, Enc: enc, Status: 200}
			add := func(kind string, payload []byte) {
				if enc == "zstd" && c14ZstdOversized(payload) {
					oversized++
					return
				}
				d := c14Envelope(p.flag|1, payload)
				for _, side := range c14RespSides {
					endings := []string{c14NormalEnding(side)}
					if thorough {
						if side == c14ServerResp {
							endings = append(endings, "werr0", "panic")
						} else {
							endings = append(endings, "err", "close")
						}
					}
					for _, ending := range endings {
						out = append(out, c14NewHItem(kind+"/"+enc, side, h, d, ending))
					}
				}
			}
			for i := 0; i < len(comp); i++ {
				add("payload-cut", comp[:i])
			}
			for i := range comp {
				for _, mut := range mutations {
					bad := append([]byte(nil), comp...)
					bad[i] = mut(bad[i])
					add("payload-altered", bad)
				}
			}
			add("payload-trailing-garbage", append(append([]byte(nil), comp...), 0x00))
			for _, other := range c14SupportedEncodings {
				if other != enc {
					add("payload-other-encoding", c14Compress(other, text))
				}
			}
		}
		// every truncation of a valid stream, every ending, every side
		for _, enc := range []string{"gzip", "zstd"} {
			if enc != "gzip" && !thorough {
				continue
			}
			h := c14Hdr{CT: p.ct, EncKey: p.encKey, Enc: enc, Status: 200}
			stream := append(c14Envelope(0, []byte{0x0a}), c14Envelope(p.flag|1, c14Compress(enc, text))...)
			for i := 0; i <= len(stream); i++ {
				kind := "stream-cut/" + enc
				if i == len(stream) {
					kind = "stream-whole/" + enc
				}
				for _, side := range allSides {
					for _, ending := range c14Endings(side, i, 1) {
						out = append(out, c14NewHItem(kind, side, h, stream[:i], ending))
					}
				}
			}
		}
	}
	return out, oversized
}

// c14HistoryValid: well-formed response bodies ending in an end-stream message.
func c14HistoryValid(which int, thorough bool) []*c14HItem {
	var out []*c14HItem
	encs := append([]string{"", "identity"}, c14SupportedEncodings...)
	for _, p := range c14HProtos {
		text := []byte(p.texts[which])
		for _, enc := range encs {
			for _, bit := range []byte{1, 0} {
				payload := text
				if bit == 1 {
					payload = c14Compress(enc, text)
				}
				leads := []bool{true}
				if thorough {
					leads = []bool{true, false}
				}
				for _, lead := range leads {
					var stream []byte
					if lead {
						stream = c14Envelope(0, []byte{0x0a})
					}
					stream = append(stream, c14Envelope(p.flag|bit, payload)...)
					h := c14Hdr{CT: p.ct, Status: 200}
					if enc != "" {
						h.EncKey, h.Enc = p.encKey, enc
					}
					for _, side := range c14RespSides {
						kind := "valid/" + enc
						if enc == "" {
							kind = "valid/absent"
						}
						out = append(out, c14NewHItem(kind, side, h, stream, c14NormalEnding(side)))
					}
				}
			}
		}
	}
	return out
}

// c14CPUMillis: CPU time of this process so far (the machine is shared; wall time says little).
func c14CPUMillis() int64 {
	var ru syscall.Rusage
	if syscall.Getrusage(syscall.RUSAGE_SELF, &ru) != nil {
		return 0
	}
	return (ru.Utime.Sec+ru.Stime.Sec)*1000 + int64(ru.Utime.Usec+ru.Stime.Usec)/1000
}

// c14Pinned runs fn with a single P, so that everything the code under test
// parks in per-P caches (sync.Pool) is found again by the next case, whichever
// thread the goroutine runs on. (The goroutine is deliberately not locked to
// its OS thread: per-P state does not depend on the thread, and every blocking
// runtime call of a locked goroutine - SetGCPercent, runtime.GC - costs OS
// thread hand-offs that take minutes in total on a heavily loaded machine.)
func c14Pinned(fn func()) {
	prev := runtime.GOMAXPROCS(1)
	defer runtime.GOMAXPROCS(prev)
	fn()
}

// c14RunHistory traces the given cases back to back without a collection in between.
func c14RunHistory(items ...*c14HItem) []c14Obs {
	old := debug.SetGCPercent(-1)
	defer debug.SetGCPercent(old)
	out := make([]c14Obs, len(items))
	for i, it := range items {
		out[i] = c14Run(&it.C, it.body, true)
	}
	return out
}

func c14JudgeHistory(items []*c14HItem, obs []c14Obs) (out []c14Finding) {
	last := len(items) - 1
	for i, it := range items {
		role := "first"
		if i == last {
			role = "second"
		}
		for _, f := range c14Judge(&it.C, it.ref, &obs[i], it.plain, nil) {
			out = append(out, c14Finding{"history:" + role + ":" + f.Key,
				fmt.Sprintf("%s body of the history: %s\n  case: %s\n  events: %s", role, f.Detail, c14CaseString(&it.C), c14EvString(obs[i].Events))})
		}
	}
	if it := items[last]; it.alone != nil && !c14SameEvents(it.alone, obs[last].Events) {
		out = append(out, c14Finding{"history:second:events-differ-from-fresh-run",
			fmt.Sprintf("the last body of the history gave events %s, the same body traced in the fresh process state gave %s\n  case: %s",
				c14EvString(obs[last].Events), c14EvString(it.alone), c14CaseString(&it.C))})
	}
	return out
}

func c14FindingKeys(fs []c14Finding) string {
	keys := make([]string, 0, len(fs))
	for _, f := range fs {
		keys = append(keys, f.Key)
	}
	sort.Strings(keys)
	return strings.Join(keys, ",")
}

type c14HistoryReplayVal struct {
	Stage string    `json:"stage"`
	Cases []c14Case `json:"cases"`
}

func c14EosCount(evs []c14Ev) int {
	n := 0
	for _, e := range evs {
		if e.K == 'S' {
			n++
		}
	}
	return n
}

func c14HistoryStage(r *rep.Report, deadline time.Time) bool {
	thorough := rep.Thorough()
	seconds := c14HistoryValid(1, thorough)
	bad, oversized := c14HistoryFirsts(thorough)
	firsts := append(append([]*c14HItem(nil), bad...), c14HistoryValid(0, thorough)...)
	if r.Shard == 0 {
		r.Count("history:first-bodies-bad", int64(len(bad)))
		r.Count("history:first-bodies-valid", int64(len(firsts)-len(bad)))
		r.Count("history:second-bodies", int64(len(seconds)))
		r.Count("history:zstd-payloads-left-out-declared-size-over-16MiB", int64(oversized))
		r.Count("planned-cases:H-history", int64(len(firsts))*int64(len(seconds)))
	}
	r.Note("stage H: %d first bodies (%d damaged/cut/failing, %d valid) x %d valid second bodies, each pair traced back to back on one P without GC",
		len(firsts), len(bad), len(firsts)-len(bad), len(seconds))
	ok := true
	start := time.Now()
	cpu := c14CPUMillis()
	defer func() { // informational only
		r.Count("stage-wall-ms:H-history", time.Since(start).Milliseconds())
		r.Count("stage-cpu-ms:H-history", c14CPUMillis()-cpu)
	}()
	// safety net only (never reached by the alphabet above): with the collector off for a pair, do not let
	// an allocation-happy decoder take the machine down; the runtime collects when the limit is approached
	defer debug.SetMemoryLimit(debug.SetMemoryLimit(2 << 30))
	// the unit runs with GOGC=800 for the heavy enumeration; the decoders created per body here (snappy, zstd)
	// are large, so collect at the default rate between pairs (performance / footprint only)
	defer debug.SetGCPercent(debug.SetGCPercent(100))
	c14Pinned(func() {
		// fresh process state: what every second body yields on its own
		for _, s := range seconds {
			s.prepare()
			obs := c14RunHistory(s)
			s.alone = append([]c14Ev(nil), obs[0].Events...)
			alone := *s
			alone.alone = nil
			for _, f := range c14JudgeHistory([]*c14HItem{&alone}, obs) {
				key := strings.TrimPrefix(f.Key, "history:second:")
				r.Violate(key, f.Detail, c14HistoryReplayVal{"history", []c14Case{s.C}})
			}
		}
		var executed []*c14HItem // everything this shard traced so far, in order
		confirmed := map[string]int{}
		var pairs int64
		for fi, f := range firsts {
			for si, s := range seconds {
				// every pair belongs to exactly one shard; the rotation lets every shard see every second body
				if !r.Mine(int64(fi + si)) {
					continue
				}
				if pairs&0x3ff == 0x3ff && !deadline.IsZero() && time.Now().After(deadline) {
					ok = false
					return
				}
				pairs++
				f.prepare()
				items := []*c14HItem{f, s}
				obs := c14RunHistory(items...)
				executed = append(executed, f, s)
				r.Eval(1)
				r.NonTrivial("")
				r.Count("nontrivial:H-history", 1)
				kind := f.Kind
				if i := strings.IndexByte(kind, '/'); i >= 0 {
					kind = kind[:i]
				}
				r.Outcome(fmt.Sprintf("history %s(%s, eos=%d) -> valid(%s, eos=%d)", kind, f.C.Side, c14EosCount(obs[0].Events), s.C.Side, c14EosCount(obs[1].Events)))
				if pairs%4096 == 1 {
					r.Sample(map[string]any{"first": f.C, "second": s.C, "first_events": c14EvString(obs[0].Events), "second_events": c14EvString(obs[1].Events)})
				}
				findings := c14JudgeHistory(items, obs)
				if len(findings) == 0 {
					continue
				}
				cases := []c14Case{f.C, s.C}
				note := ""
				keys := c14FindingKeys(findings)
				if confirmed[keys] < 3 {
					// Which part of the past is responsible? Drop whatever the pools hold and run the pair again;
					// if that does not reproduce the finding, run ever longer suffixes of what this shard traced.
					confirmed[keys]++
					for n := 2; ; n *= 2 {
						if n > len(executed) {
							n = len(executed)
						}
						suffix := executed[len(executed)-n:]
						runtime.GC()
						runtime.GC()
						again := c14RunHistory(suffix...)
						if c14FindingKeys(c14JudgeHistory(items, again[n-2:])) == keys {
							if n > 2 {
								cases = cases[:0]
								for _, it := range suffix {
									cases = append(cases, it.C)
								}
								note = fmt.Sprintf("\n  (not reproduced by the pair alone after emptying the pools; the replay carries the last %d cases of this shard)", n)
							}
							break
						}
						if n == len(executed) {
							note = "\n  (not reproduced by re-running everything this shard traced after emptying the pools)"
							break
						}
					}
				}
				for _, fd := range findings {
					r.Violate(fd.Key, fd.Detail+"\n  history: "+f.Kind+" -> "+s.Kind+note, c14HistoryReplayVal{"history", cases})
				}
			}
		}
	})
	return ok
}

// c14HistoryReplay re-runs a recorded history; false = the record is a single case of the other stages.
func c14HistoryReplay(t *testing.T, r *rep.Report, in []byte) bool {
	var rec struct {
		Replay c14HistoryReplayVal `json:"replay"`
	}
	if err := json.Unmarshal(in, &rec); err != nil || rec.Replay.Stage != "history" {
		return false
	}
	if len(rec.Replay.Cases) == 0 {
		t.Fatalf("bad replay file: empty history")
	}
	var items []*c14HItem
	for i := range rec.Replay.Cases {
		c := rec.Replay.Cases[i]
		body, err := hex.DecodeString(c.Body)
		if err != nil {
			t.Fatalf("bad replay body: %v", err)
		}
		it := &c14HItem{Kind: "replay", C: c, body: body}
		it.prepare()
		items = append(items, it)
	}
	c14Pinned(func() {
		last := items[len(items)-1]
		single := len(items) == 1
		if !single {
			obs := c14RunHistory(last)
			last.alone = append([]c14Ev(nil), obs[0].Events...)
			fmt.Printf("C14 replay: last body traced in the fresh process state: events %s\n", c14EvString(last.alone))
		}
		obs := c14RunHistory(items...)
		for i, it := range items {
			fmt.Printf("C14 replay: history[%d] case %s\n  reference: %+v\n  events: %s\n  completes=%d panic=%q\n",
				i, c14CaseString(&it.C), *it.ref, c14EvString(obs[i].Events), obs[i].Completes, obs[i].Panic)
		}
		r.Eval(1)
		r.NonTrivial("")
		r.Sample(rec.Replay)
		for _, f := range c14JudgeHistory(items, obs) {
			key := f.Key
			if single {
				key = strings.TrimPrefix(key, "history:second:")
			}
			fmt.Printf("C14 replay: still violates %s: %s\n", key, f.Detail)
			r.Violate(key, f.Detail, rec.Replay)
		}
	})
	return true
}

// ---------------------------------------------------------------------------
// stage S: spellings of encoding names, remaining encodings

func c14Spellings(enc string) []string {
	cands := []string{
		strings.ToLower(enc),
		strings.ToUpper(enc),
		strings.ToUpper(enc[:1]) + strings.ToLower(enc[1:]),
		strings.ToLower(enc[:1]) + strings.ToUpper(enc[1:]),
	}
	var out []string
	seen := map[string]bool{}
	for _, c := range cands {
		if !seen[c] {
			seen[c] = true
			out = append(out, c)
		}
	}
	return out
}

func c14ShapeUnits(thorough bool) []c14Unit {
	var units []c14Unit
	type protoCfg struct {
		ct, encKey string
		flag       byte
		text       string
	}
	protos := []protoCfg{
		{"application/connect+proto", "Connect-Content-Encoding", 0x02, `{"e":1}`},
		{"application/grpc-web+proto", "Grpc-Encoding", 0x80, "grpc-status: 0\r\n"},
		{"application/grpc+proto", "Grpc-Encoding", 0x80, "grpc-status: 0\r\n"}, // no end-stream message in gRPC: content unconstrained, framing judged
	}
	cuts := 1
	if thorough {
		cuts = 2
	}
	stream := func(p protoCfg, enc string, bit byte, lead bool) []byte {
		payload := []byte(p.text)
		if bit == 1 {
			payload = c14Compress(strings.ToLower(enc), payload)
		}
		var s []byte
		if lead {
			s = c14Envelope(0, []byte{0x0a})
		}
		return append(s, c14Envelope(p.flag|bit, payload)...)
	}
	// spellings: the whole stream and the stream short of its last byte
	for _, p := range protos {
		for _, enc := range append([]string{"identity"}, c14SupportedEncodings...) {
			for si, spelled := range c14Spellings(enc) {
				h := c14Hdr{CT: p.ct, EncKey: p.encKey, Enc: spelled, Status: 200}
				// quick tier: the spelling cannot interact with where a body is cut, so only the last (mIXED) spelling
				// gets every two-piece composition; the others are delivered in one call and byte by byte
				// (round 4: pays for stages M and P, which run in the same unit)
				cuts := cuts
				if !thorough && si != len(c14Spellings(enc))-1 {
					cuts = 0
				}
				for _, bit := range []byte{1, 0} {
					for _, lead := range []bool{false, true} {
						s := stream(p, enc, bit, lead)
						for _, d := range [][]byte{s, s[:len(s)-1]} {
							for _, side := range c14RespSides {
								units = append(units, c14Unit{"S-spelling", side, h, d, false, cuts})
							}
						}
						if bit == 1 && lead {
							// request bodies carry the header too (no end-stream event there; framing judged)
							units = append(units, c14Unit{"S-spelling", c14ServerReq, h, s, false, cuts})
							units = append(units, c14Unit{"S-spelling", c14ClientReq, h, s, false, cuts})
						}
					}
				}
			}
		}
	}
	// Content-Encoding (whole body encoded: no envelopes visible, whatever the spelling)
	p := protos[0]
	for _, enc := range []string{"identity", "gzip", "br"} {
		for _, spelled := range c14Spellings(enc) {
			h := c14Hdr{CT: p.ct, EncKey: "Content-Encoding", Enc: spelled, Status: 200}
			s := stream(p, "", 0, true)
			for _, side := range []string{c14ClientResp, c14ServerResp, c14ServerReq, c14ClientReq} {
				units = append(units, c14Unit{"S-spelling", side, h, s, false, cuts})
			}
		}
	}
	// every truncation for the encodings part B does not enumerate
	for _, p := range protos[:2] {
		for _, enc := range []string{"br", "deflate", "snappy"} {
			h := c14Hdr{CT: p.ct, EncKey: p.encKey, Enc: enc, Status: 200}
			for _, shape := range []struct {
				bit  byte
				lead bool
			}{{1, false}, {1, true}, {0, false}} {
				s := stream(p, enc, shape.bit, shape.lead)
				for _, d := range c14Prefixes([][]byte{s[:len(s)-1]}, nil) { // the whole stream is in the spelling set
					for _, side := range c14RespSides {
						units = append(units, c14Unit{"S-encodings", side, h, d, false, cuts})
					}
				}
			}
		}
	}
	sort.SliceStable(units, func(i, j int) bool { return len(units[i].D) < len(units[j].D) })
	return units
}

func c14ShapeStage(r *rep.Report, deadline time.Time) bool {
	units := c14ShapeUnits(rep.Thorough())
	if r.Shard == 0 {
		r.Count("shape:units-total", int64(len(units)))
		for k := range units {
			r.Count("planned-cases:"+units[k].Part, c14UnitSize(&units[k]))
		}
	}
	r.Note("stage S: %d units (encoding x spelling x header x compressed bit x leading message x side; truncations for br/deflate/snappy)", len(units))
	start := time.Now()
	cpu := c14CPUMillis()
	defer func() { // informational only
		r.Count("stage-wall-ms:S-shape", time.Since(start).Milliseconds())
		r.Count("stage-cpu-ms:S-shape", c14CPUMillis()-cpu)
	}()
	defer debug.SetGCPercent(debug.SetGCPercent(100)) // footprint only, see stage H
	for k := range units {
		if !r.Mine(int64(k)) {
			continue
		}
		if !deadline.IsZero() && time.Now().After(deadline) {
			return false
		}
		if !c14RunUnit(r, &units[k], deadline) {
			return false
		}
	}
	return true
}

// ---------------------------------------------------------------------------
// stage L: large end-stream content with extreme compression ratios
//
// The property says the trace shows the end-of-stream content, decompressed
// exactly when the compressed flag is set - whatever its size and however well
// it compresses: byte for byte what the peer compressed. A *case* is
//
//	(side in {client response, server response}, protocol (Connect 0x02 / gRPC-Web
//	 0x80), negotiated encoding (absent, identity, every supported one),
//	 compressed bit, content shape (all zero bytes | one repeated letter | a short
//	 repeated pattern | such a run inside the JSON / the trailer block an
//	 end-stream message really carries), size of the run: 2^k-1, 2^k, 2^k+1 up to
//	 1 MiB, leading message or none, size of the Read / Write calls)
//
// run through c14Run like every single-body case and judged by c14Judge
// (reference model, transparency against the untraced run), plus: the events of
// a second chunking equal those of the first. The reference content is checked
// against the generated text before use, so the oracle is the text itself.

type c14LargeCase struct {
	Stage string `json:"stage"` // "large"
	Part  string `json:"part"`
	Side  string `json:"side"`
	Hdr   c14Hdr `json:"hdr"`
	Flags byte   `json:"flags"` // of the end-stream envelope
	Shape string `json:"shape"`
	Size  int    `json:"size"`
	Lead  bool   `json:"lead"`
	Chunk string `json:"chunk"` // "64": calls of 64 bytes; "ragged": calls of 1, 7, 64, 13, 2, 31 bytes in turn
}

func (c *c14LargeCase) String() string {
	b, _ := json.Marshal(c)
	return string(b)
}

var c14LargeShapes = []string{"zeros", "letter", "pattern3", "wrapped"}

// c14LargeContent generates the end-stream content of a case.
func c14LargeContent(proto, shape string, n int) []byte {
	run := func(pat string) []byte {
		out := make([]byte, n)
		for i := range out {
			out[i] = pat[i%len(pat)]
		}
		return out
	}
	switch shape {
	case "zeros":
		return run("\x00")
	case "letter":
		return run("a")
	case "pattern3":
		return run("abc")
	case "pattern255":
		pat := make([]byte, 255)
		for i := range pat {
			pat[i] = byte(i + 1)
		}
		return run(string(pat))
	case "wrapped":
		if proto == "grpcweb" {
			return []byte("grpc-status: 13\r\ngrpc-message: " + string(run("a")) + "\r\nx-c14: v\r\n")
		}
		return []byte(`{"error":{"code":"internal","message":"` + string(run("a")) + `"},"metadata":{"x-c14":["v"]}}`)
	}
	panic("c14 harness: unknown content shape " + shape)
}

func c14LargePieces(n int, chunk string) []int {
	if chunk != "ragged" {
		return c14Chunks(n)
	}
	sizes := [...]int{1, 7, 64, 13, 2, 31}
	var out []int
	for i := 0; n > 0; i++ {
		m := sizes[i%len(sizes)]
		if m > n {
			m = n
		}
		out = append(out, m)
		n -= m
	}
	return out
}

// c14LargeSizes: 2^k-1, 2^k, 2^k+1 up to 1 MiB; the quick tier keeps only 2^k between 64 KiB and 1 MiB.
func c14LargeSizes(thorough bool) []int {
	var out []int
	for k := 0; k <= 20; k++ {
		for _, n := range []int{1<<k - 1, 1 << k, 1<<k + 1} {
			if !thorough && k > 16 && k < 20 && n != 1<<k {
				continue
			}
			if n > 0 && (len(out) == 0 || n > out[len(out)-1]) {
				out = append(out, n)
			}
		}
	}
	return out
}

// c14LargeBody builds the delivered bytes of a case; text is what the peer put into the end-stream message.
func c14LargeBody(c *c14LargeCase) (body, text []byte) {
	proto := c14Proto(c.Hdr)
	text = c14LargeContent(proto, c.Shape, c.Size)
	payload := text
	if c.Flags&1 != 0 {
		payload = c14Compress(strings.ToLower(c.Hdr.Enc), text) // identity / absent: sent as is
	}
	return c14LargeAssemble(c.Lead, c.Flags, payload), text
}

func c14LargeAssemble(lead bool, flags byte, payload []byte) []byte {
	var body []byte
	if lead {
		body = append(body, c14Envelope(0, []byte{0x0a})...)
	}
	return append(body, c14Envelope(flags, payload)...)
}

func c14Clip(s string, n int) string {
	if len(s) <= n {
		return s
	}
	return fmt.Sprintf("%s... (%d bytes in all)", s[:n], len(s))
}

// c14LargeRunCase runs one case (and, if base is nil, nothing else); findings come back with clipped details.
func c14LargeRunCase(c *c14LargeCase, body, text []byte, ref *c14Ref, base []c14Ev) (events []c14Ev, out []c14Finding) {
	cc := c14Case{Part: c.Part, Side: c.Side, Hdr: c.Hdr, Pieces: c14LargePieces(len(body), c.Chunk), Ending: c14NormalEnding(c.Side)}
	traced := c14Run(&cc, body, true)
	plain := c14Run(&cc, body, false)
	for _, f := range c14Judge(&cc, ref, &traced, &plain, base) {
		detail := c14Clip(f.Detail, 400)
		for _, e := range traced.Events {
			if e.K == 'S' && e.Content != string(text) {
				common := 0
				for common < len(e.Content) && common < len(text) && e.Content[common] == text[common] {
					common++
				}
				detail += fmt.Sprintf("\n  end-stream content in the trace: %d bytes; the peer sent %d bytes (%d on the wire); the first %d bytes agree", len(e.Content), len(text), len(body), common)
			}
		}
		out = append(out, c14Finding{"large:" + f.Key, detail})
	}
	return traced.Events, out
}

func c14LargeEvSummary(evs []c14Ev) string {
	parts := make([]string, len(evs))
	for i, e := range evs {
		if e.K == 'S' {
			parts[i] = fmt.Sprintf("endstream{%d bytes}", len(e.Content))
		} else {
			parts[i] = e.String()
		}
	}
	return "[" + strings.Join(parts, " ") + "]"
}

type c14LargeProto struct {
	name, ct, encKey string
	flag             byte
}

var c14LargeProtos = []c14LargeProto{
	{"connect", "application/connect+proto", "Connect-Content-Encoding", 0x02},
	{"grpcweb", "application/grpc-web+proto", "Grpc-Encoding", 0x80},
}

// c14LargeWireCap: in the quick tier, cases whose end-stream payload exceeds this many bytes on the wire
// (large content sent uncompressed, or marked compressed under identity) are left to the thorough tier.
const c14LargeWireCap = 1<<16 + 1

func c14LargeStage(r *rep.Report, deadline time.Time) bool {
	thorough := rep.Thorough()
	start := time.Now()
	cpu := c14CPUMillis()
	defer func() { // informational only
		r.Count("stage-wall-ms:L-large", time.Since(start).Milliseconds())
		r.Count("stage-cpu-ms:L-large", c14CPUMillis()-cpu)
	}()
	defer debug.SetGCPercent(debug.SetGCPercent(100)) // footprint only, see stage H
	shapes := c14LargeShapes
	if thorough {
		shapes = append(append([]string(nil), shapes...), "pattern255")
	}
	encs := append([]string{"", "identity"}, c14SupportedEncodings...)
	var group, evals, planned int64
	var rawText, rawPayload []byte // of the current group, shapes that do not depend on the protocol
	for _, size := range c14LargeSizes(thorough) {
		for _, shape := range shapes {
			for _, enc := range encs {
				group++
				mine := r.Mine(group)
				if mine && !deadline.IsZero() && time.Now().After(deadline) {
					return false
				}
				for pi, p := range c14LargeProtos {
					h := c14Hdr{CT: p.ct}
					if enc != "" {
						h.EncKey, h.Enc = p.encKey, enc
					}
					for _, bit := range []byte{1, 0} {
						wire := size
						if bit == 1 && c14KnownEncoding(enc) {
							wire = 0 // compressed: small
						}
						if !thorough && wire > c14LargeWireCap {
							continue
						}
						// quick: Connect on the client side, gRPC-Web on the server side; a leading message in every second group
						sides := []string{c14RespSides[pi]}
						leads := []bool{group%2 == 0}
						if thorough {
							sides, leads = c14RespSides, []bool{false, true}
						}
						// two chunkings of every body (the second compared with the first); quick: above 64 KiB one, in turn
						both := thorough || size <= c14LargeWireCap
						chunk1 := [2]string{"64", "ragged"}[group%2]
						if both {
							chunk1 = "64"
							planned += int64(len(sides) * len(leads))
						}
						planned += int64(len(sides) * len(leads))
						if !mine {
							continue
						}
						// content and compressed payload: built once per group unless the shape depends on the protocol
						var text, payload []byte
						if shape == "wrapped" || bit == 0 || pi == 0 {
							text = c14LargeContent(p.name, shape, size)
							payload = text
							if bit == 1 {
								payload = c14Compress(enc, text) // identity / absent: sent as is with the bit set
							}
							if bit == 1 {
								rawText, rawPayload = text, payload
							}
						} else {
							text, payload = rawText, rawPayload
						}
						for _, lead := range leads {
							body := c14LargeAssemble(lead, p.flag|bit, payload)
							ref := c14Reference(c14ClientResp, h, body)
							// the oracle is what the peer compressed: the reference decoder must give exactly that back
							if m := ref.Msgs[len(ref.Msgs)-1]; m.Cat != 'm' || m.Want != string(text) {
								panic(fmt.Sprintf("c14 harness: the reference model does not return the generated end-stream content (%s, %s, %d bytes, enc %q)", p.name, shape, size, enc))
							}
							for _, side := range sides {
								c := c14LargeCase{Stage: "large", Part: "L-large", Side: side, Hdr: h, Flags: p.flag | bit, Shape: shape, Size: size, Lead: lead, Chunk: chunk1}
								base, findings := c14LargeRunCase(&c, body, text, ref, nil)
								var more []c14Finding
								c2 := c
								c2.Chunk = "ragged"
								evals++
								r.NonTrivial("")
								if both {
									_, more = c14LargeRunCase(&c2, body, text, ref, base)
									evals++
									r.NonTrivial("")
								}
								if evals%64 <= 1 {
									r.Outcome(fmt.Sprintf("large %s/%s enc=%q bit=%d: %d events, end-stream content present=%v", side, p.name, enc, bit, len(base), c14EosCount(base) > 0))
								}
								if evals%512 <= 1 {
									r.Sample(map[string]any{"case": c, "wire_bytes": len(body), "content_bytes": len(text), "events": c14LargeEvSummary(base)})
								}
								for _, f := range findings {
									r.Violate(f.Key, f.Detail+"\n  events: "+c14LargeEvSummary(base)+"\n  case: "+c.String(), c)
								}
								for _, f := range more {
									r.Violate(f.Key, f.Detail+"\n  case: "+c2.String(), c2)
								}
							}
						}
					}
				}
			}
		}
	}
	r.Eval(evals)
	r.Count("nontrivial:L-large", evals)
	if r.Shard == 0 {
		r.Count("planned-cases:L-large", planned)
	}
	r.Note("stage L: %d groups (size x shape x encoding) of large, highly compressible end-stream content, %d cases (this shard ran %d)", group, planned, evals)
	return true
}

// c14LargeReplay re-runs a recorded case of stage L; false = the record belongs to another stage.
func c14LargeReplay(t *testing.T, r *rep.Report, in []byte) bool {
	var rec struct {
		Replay c14LargeCase `json:"replay"`
	}
	if err := json.Unmarshal(in, &rec); err != nil || rec.Replay.Stage != "large" {
		return false
	}
	c := rec.Replay
	body, text := c14LargeBody(&c)
	ref := c14Reference(c.Side, c.Hdr, body)
	c1 := c
	c1.Chunk = "64"
	base, _ := c14LargeRunCase(&c1, body, text, ref, nil)
	evs, findings := c14LargeRunCase(&c, body, text, ref, base)
	fmt.Printf("C14 replay: case %s\n  content %d bytes, %d bytes on the wire\n  calls of 64 bytes: events %s\n  this chunking:     events %s\n",
		c.String(), len(text), len(body), c14LargeEvSummary(base), c14LargeEvSummary(evs))
	r.Eval(1)
	r.NonTrivial("")
	r.Sample(c)
	for _, f := range findings {
		fmt.Printf("C14 replay: still violates %s: %s\n", f.Key, f.Detail)
		r.Violate(f.Key, f.Detail, c)
	}
	return true
}
