package tracer

// C15 (a) — transparency and robustness.  Whatever bytes travel through the
// wrapped connection, Read/Write/Close return exactly what the underlying conn
// returned and nothing panics: every short byte string after (or instead of)
// the client preface, every single-field corruption of every frame of
// well-formed exchanges (with the connection ending after any later frame),
// every composition of short exchanges into calls, every kind of I/O error at
// every call.

import (
	"encoding/hex"
	"encoding/json"
	"fmt"
	"io"
	"runtime/debug"
	"testing"
	"testing/synctest"
	"time"

	"connectrpc.com/conformance/internal/verif/rep"
)

type c15TranspCase struct {
	Kind   string `json:"kind"` // garbage | corrupt | compose | inject
	Server bool   `json:"server"`

	// garbage
	Dir      int    `json:"dir,omitempty"`
	Preface  bool   `json:"preface,omitempty"` // the valid client preface precedes the string (request direction only)
	Hex      string `json:"hex,omitempty"`
	raw      []byte // enumeration only: the string itself (Hex is filled in when the case is reported)
	Tail     bool   `json:"tail,omitempty"`     // a well-formed exchange follows the string
	Bytewise bool   `json:"bytewise,omitempty"` // the string arrives one byte per call

	// corrupt / inject: base script
	Script int    `json:"script,omitempty"`
	Unit   int    `json:"unit,omitempty"`  // corrupted wire unit (index in emission order)
	Field  string `json:"field,omitempty"` // type | flag | length | stream | payload-first | payload-last | preface
	Value  int64  `json:"value,omitempty"`
	Trunc  int    `json:"trunc,omitempty"` // the connection ends after this unit
	Part   string `json:"part,omitempty"`
	Fin    int    `json:"fin,omitempty"`

	// compose
	Exchange string `json:"exchange,omitempty"`
	Mask     uint32 `json:"mask,omitempty"` // bit i set: a call ends after byte i

	// inject
	Step     int    `json:"step,omitempty"`
	Err      string `json:"err,omitempty"`
	NKind    string `json:"nkind,omitempty"` // zero | partial | full
	Continue bool   `json:"continue,omitempty"`
}

// ---------------------------------------------------------------------------
// base scripts: every quick shape appears as call A and as call B, frames of
// the two calls interleaved (middle interleaving)

type c15Base struct {
	pair  c15Pair
	order []byte
	bt    *c15Built
	units []c15Unit
}

func c15BaseScripts() []c15Base {
	q := c15QuickShapes()
	var out []c15Base
	var pairs []c15Pair
	for i := range q {
		a, b := q[i], q[(i+3)%len(q)]
		if a.Variant == "goaway" {
			a, b = b, a
		}
		pairs = append(pairs, c15Pair{A: a, B: b})
	}
	// header blocks of 3 and 4 fragments (HEADERS + 2..3 CONTINUATION) in the request
	// headers, response headers, trailers and trailers-only block
	ch := c15ChainShapes(false)
	pairs = append(pairs, c15Pair{A: ch[0], B: ch[2]}, c15Pair{A: ch[3], B: ch[1]})
	// header blocks that start with HPACK dynamic-table-size updates (request direction: shrink to 0 in
	// block 1, grow to 64 KiB in block 2; response direction: grow to 64 KiB in block 0), SETTINGS frames
	// that carry SETTINGS_HEADER_TABLE_SIZE
	pairs = append(pairs, c15Pair{A: q[10], B: q[1], Tab: c15Tab{Req: "zero@1-grow64k@2", Resp: "grow64k@0"}})
	// PADDED DATA / HEADERS frames (pad length 7; DATA frames without any data byte), HEADERS with PRIORITY,
	// PRIORITY / PING / unknown-type frames in between: corrupting the first payload byte of a padded frame
	// makes its pad length exceed the frame
	pairs = append(pairs, c15Pair{
		A: c15Shape{Named: true, NReq: 1, NResp: 1, Pad: 7 + 1, PadOnly: true, PadHdr: true},
		B: c15Shape{Named: true, NReq: 1, NResp: 0, Prio: true, Extra: true}})
	for _, p := range pairs {
		bt := c15Build(p)
		var orders [][]byte
		c15Interleavings(bt.a, bt.b, func(o []byte) { orders = append(orders, append([]byte(nil), o...)) })
		o := orders[len(orders)/2]
		units, _ := bt.encode(o)
		out = append(out, c15Base{pair: p, order: o, bt: bt, units: units})
	}
	return out
}

type c15Corruption struct {
	Field string
	Value int64
}

func c15Corruptions(u c15Unit) []c15Corruption {
	var out []c15Corruption
	if u.Kind == 'P' {
		for i := range u.Bytes {
			out = append(out, c15Corruption{"preface", int64(i)})
		}
		return out
	}
	b := u.Bytes
	length := int64(b[0])<<16 | int64(b[1])<<8 | int64(b[2])
	for v := int64(0); v < 256; v++ {
		if byte(v) != b[3] {
			out = append(out, c15Corruption{"type", v})
		}
	}
	for bit := int64(0); bit < 8; bit++ {
		out = append(out, c15Corruption{"flag", bit})
	}
	out = append(out, c15Corruption{"length", length + 1})
	if length > 0 {
		out = append(out, c15Corruption{"length", length - 1})
	}
	sid := int64(b[5])<<24 | int64(b[6])<<16 | int64(b[7])<<8 | int64(b[8])
	for _, v := range []int64{0, 1, 3, 5, 9, sid | 0x80000000} {
		if v != sid {
			out = append(out, c15Corruption{"stream", v})
		}
	}
	if len(b) > 9 {
		out = append(out, c15Corruption{"payload-first", 0}, c15Corruption{"payload-last", 0})
	}
	return out
}

func c15Corrupt(b []byte, c c15Corruption) []byte {
	nb := append([]byte(nil), b...)
	switch c.Field {
	case "preface":
		nb[c.Value] ^= 0x01
	case "type":
		nb[3] = byte(c.Value)
	case "flag":
		nb[4] ^= 1 << uint(c.Value)
	case "length":
		nb[0], nb[1], nb[2] = byte(c.Value>>16), byte(c.Value>>8), byte(c.Value)
	case "stream":
		nb[5], nb[6], nb[7], nb[8] = byte(c.Value>>24), byte(c.Value>>16), byte(c.Value>>8), byte(c.Value)
	case "payload-first":
		nb[9] ^= 0xFF
	case "payload-last":
		nb[len(nb)-1] ^= 0xFF
	default:
		panic("c15: unknown corruption " + c.Field)
	}
	return nb
}

// ---------------------------------------------------------------------------
// short exchanges for the composition enumeration (hand-made, HPACK static
// table references only, no test name: they must yield no trace at all)

func c15Frame(typ, flags byte, stream uint32, payload ...byte) []byte {
	b := []byte{byte(len(payload) >> 16), byte(len(payload) >> 8), byte(len(payload)), typ, flags,
		byte(stream >> 24), byte(stream >> 16), byte(stream >> 8), byte(stream)}
	return append(b, payload...)
}

type c15Exchange struct {
	Dir     int
	Preface string // "", "whole" (one call before the composed bytes), "composed" (the preface itself is composed; Bytes follow as one call)
	Bytes   []byte
}

func c15Exchanges(thorough bool) map[string]c15Exchange {
	reqHeaders := c15Frame(1, 0x4, 1, 0x83, 0x86, 0x84)   // :method POST, :scheme http, :path /
	reqHeadersES := c15Frame(1, 0x5, 1, 0x83, 0x86, 0x84) // same + END_STREAM
	dataEmptyES := c15Frame(0, 0x1, 1)
	dataMsgES := c15Frame(0, 0x1, 1, 0, 0, 0, 0, 0)
	settings := c15Frame(4, 0, 0)
	respHeadersES := c15Frame(1, 0x5, 1, 0x88) // :status 200
	respHeaders := c15Frame(1, 0x4, 1, 0x88)
	cat := func(bs ...[]byte) []byte {
		var o []byte
		for _, b := range bs {
			o = append(o, b...)
		}
		return o
	}
	m := map[string]c15Exchange{
		"req:headers+data":       {Dir: c15DirReq, Preface: "whole", Bytes: cat(reqHeaders, dataEmptyES)},     // 21 bytes
		"resp:settings+headers":  {Dir: c15DirResp, Bytes: cat(settings, respHeadersES)},                      // 19 bytes
		"req:settings+headersES": {Dir: c15DirReq, Preface: "whole", Bytes: cat(settings, reqHeadersES)[:21]}, // 21 bytes = whole
	}
	if thorough {
		m["req:headers+data3"] = c15Exchange{Dir: c15DirReq, Preface: "whole", Bytes: cat(reqHeaders, c15Frame(0, 0x1, 1, 7, 8, 9))} // 24 bytes
		m["resp:headers+msg"] = c15Exchange{Dir: c15DirResp, Bytes: cat(respHeaders, dataMsgES)}                                     // 24 bytes
		m["req:preface"] = c15Exchange{Dir: c15DirReq, Preface: "composed", Bytes: reqHeadersES}                                     // 24 bytes composed
	}
	return m
}

func c15ExchangeNames(thorough bool) []string {
	names := []string{"resp:settings+headers", "req:headers+data", "req:settings+headersES"}
	if thorough {
		names = append(names, "resp:headers+msg", "req:preface", "req:headers+data3")
	}
	return names
}

// ---------------------------------------------------------------------------

func c15TranspSteps(cs *c15TranspCase, bases []c15Base, exch map[string]c15Exchange, tails *[2][]byte) (steps []c15Step, fin int) {
	switch cs.Kind {
	case "garbage":
		s := cs.raw
		if s == nil {
			var err error
			if s, err = hex.DecodeString(cs.Hex); err != nil {
				panic(err)
			}
		}
		if cs.Preface {
			steps = append(steps, c15Step{Dir: cs.Dir, Data: []byte(clientPreface), N: -1})
		}
		rest := s
		if cs.Bytewise {
			for i := range s {
				steps = append(steps, c15Step{Dir: cs.Dir, Data: s[i : i+1], N: -1})
			}
			rest = nil
		}
		if cs.Tail {
			rest = append(append([]byte(nil), rest...), tails[cs.Dir]...)
		}
		if len(rest) > 0 || len(steps) == 0 {
			steps = append(steps, c15Step{Dir: cs.Dir, Data: rest, N: -1})
		}
		return steps, c15FinClose
	case "corrupt":
		base := bases[cs.Script]
		units := append([]c15Unit(nil), base.units[:cs.Trunc+1]...)
		u := units[cs.Unit]
		u.Bytes = c15Corrupt(u.Bytes, c15Corruption{cs.Field, cs.Value})
		units[cs.Unit] = u
		return c15Steps(units, c15Part{Mode: cs.Part}), cs.Fin
	case "compose":
		ex := exch[cs.Exchange]
		composed := ex.Bytes
		if ex.Preface == "whole" {
			steps = append(steps, c15Step{Dir: ex.Dir, Data: []byte(clientPreface), N: -1})
		} else if ex.Preface == "composed" {
			composed = []byte(clientPreface)
		}
		start := 0
		for i := 0; i < len(composed); i++ {
			if i == len(composed)-1 || cs.Mask&(1<<uint(i)) != 0 {
				steps = append(steps, c15Step{Dir: ex.Dir, Data: composed[start : i+1], N: -1})
				start = i + 1
			}
		}
		if ex.Preface == "composed" {
			steps = append(steps, c15Step{Dir: ex.Dir, Data: ex.Bytes, N: -1})
		}
		return steps, c15FinClose
	case "inject":
		base := bases[cs.Script]
		all := c15Steps(base.units, c15Part{Mode: "frame"})
		steps = append(steps, all[:cs.Step]...)
		st := all[cs.Step]
		isRead := (st.Dir == c15DirReq) == cs.Server
		switch cs.NKind {
		case "zero":
			if isRead {
				st.Data = nil
			} else {
				st.N = 0
			}
		case "partial":
			if isRead {
				st.Data = st.Data[:len(st.Data)/2]
			} else {
				st.N = len(st.Data) / 2
			}
		}
		st.Err = c15ErrByName(cs.Err)
		steps = append(steps, st)
		if cs.Continue {
			steps = append(steps, all[cs.Step+1:]...)
		}
		return steps, c15FinClose
	}
	panic("c15: unknown transparency case kind " + cs.Kind)
}

type c15TranspRun struct {
	r     *rep.Report
	bases []c15Base
	exch  map[string]c15Exchange
	tails [2][]byte

	n        int64
	lastKind string
}

func c15NewTranspRun(r *rep.Report, thorough bool) *c15TranspRun {
	x := &c15TranspRun{r: r, bases: c15BaseScripts(), exch: c15Exchanges(true)}
	// tail: the frames of a complete named call (and the connection prologue) of each direction
	bt := c15Build(c15Pair{A: c15QuickShapes()[1], B: c15QuickShapes()[0]})
	var first []byte
	c15Interleavings(bt.a, bt.b, func(o []byte) {
		if first == nil {
			first = append([]byte(nil), o...)
		}
	})
	for _, u := range c15Encode(c15Merge(bt.a, bt.b, first)) {
		if u.Kind != 'P' {
			x.tails[u.Dir] = append(x.tails[u.Dir], u.Bytes...)
		}
	}
	return x
}

func (x *c15TranspRun) run(cs *c15TranspCase, nontrivial bool) {
	steps, fin := c15TranspSteps(cs, x.bases, x.exch, &x.tails)
	res := c15Exec(cs.Server, steps, fin)
	r := x.r
	r.Eval(1)
	if nontrivial {
		r.NonTrivial("")
	}
	r.Outcome(c15TranspOutcome(cs.Kind, &res))
	x.n++
	if x.n%40000 == 1 || x.lastKind != cs.Kind {
		x.lastKind = cs.Kind
		smp := *cs
		if smp.raw != nil {
			smp.Hex = hex.EncodeToString(smp.raw)
		}
		r.Sample(map[string]any{"case": smp, "calls": len(steps), "outcome": c15TranspOutcome(cs.Kind, &res)})
	}
	if res.Opaque == "" && res.Panic == "" && !(cs.Kind == "compose" && (res.BrokenReq || res.BrokenResp || len(res.Traces) != 0)) {
		return
	}
	if cs.raw != nil {
		cs.Hex = hex.EncodeToString(cs.raw)
	}
	where := fmt.Sprintf(" [case %s]", c15JSON(cs))
	if res.Opaque != "" {
		r.Violate("not-transparent", res.Opaque+where, *cs)
	}
	if res.Panic != "" {
		r.Violate("panic:"+res.Panic, "panic: "+res.PanicVal+where, *cs)
		return
	}
	if cs.Kind == "compose" {
		// well-formed traffic without a test name: the tracer must follow it and deliver nothing
		if res.BrokenReq || res.BrokenResp {
			r.Violate("tracer-gave-up", fmt.Sprintf("the frame tracer gave up on a well-formed exchange (req=%v resp=%v)%s", res.BrokenReq, res.BrokenResp, where), *cs)
		}
		if len(res.Traces) != 0 {
			r.Violate("trace-unexpected", fmt.Sprintf("%d trace(s) for an exchange without test name: %s%s", len(res.Traces), c15DescribeTrace(&res.Traces[0]), where), *cs)
		}
	}
}

var c15OutcomeCache = map[[5]int]string{}

func c15TranspOutcome(kind string, res *c15Result) string {
	b2i := func(b bool) int {
		if b {
			return 1
		}
		return 0
	}
	key := [5]int{int(kind[0])<<16 | int(kind[1])<<8 | int(kind[2]), b2i(res.BrokenReq), b2i(res.BrokenResp), len(res.Traces), b2i(res.Panic != "")}
	if s, ok := c15OutcomeCache[key]; ok {
		return s
	}
	s := fmt.Sprintf("%s:gaveup(req=%v,resp=%v):traces=%d:panic=%v", kind, res.BrokenReq, res.BrokenResp, len(res.Traces), res.Panic != "")
	c15OutcomeCache[key] = s
	return s
}

func c15JSON(v any) string { b, _ := json.Marshal(v); return string(b) }

func TestVerifC15Transp(t *testing.T) {
	r := rep.New("c15-transp")
	defer r.Write()
	r.Rule = "case = one sequence of Read/Write calls on the wrapped conn: (garbage) every byte string up to the bound, after the client preface / instead of it / in the response direction, alone or followed by a well-formed exchange, in one call or one byte per call; (corrupt) every single-field corruption (type: all 255 other values, each flag bit, length +-1, stream id 0/1/3/5/9/reserved bit, first/last payload byte, each preface byte) of every frame of 17 two-call exchanges (two of them with header blocks of 3-4 fragments, one with HPACK dynamic-table-size updates at the start of header blocks of both directions), the connection ending after the corrupted frame or any later one, whole runs | one byte per call, Close | EOF then Close; (compose) every composition of short exchanges into calls; (inject) every I/O outcome (n zero/partial/full x EOF/timeout/other error, short write) at every call; each as client and as server. Distinct by construction; non-trivial = the tracer has at least one complete frame header to parse"
	thorough := rep.Thorough()
	defer debug.SetGCPercent(debug.SetGCPercent(400))
	x := c15NewTranspRun(r, thorough)
	if in := rep.ReplayInput(); in != nil {
		var rec struct {
			Key    string        `json:"key"`
			Replay c15TranspCase `json:"replay"`
		}
		if err := json.Unmarshal(in, &rec); err != nil {
			t.Fatalf("replay file: %v", err)
		}
		synctest.Test(t, func(t *testing.T) {
			cs := rec.Replay
			steps, fin := c15TranspSteps(&cs, x.bases, x.exch, &x.tails)
			fmt.Printf("replay %s: %s fin=%d\n", rec.Key, c15JSON(cs), fin)
			for i, st := range steps {
				if i < 60 {
					fmt.Printf("  call %d dir=%d err=%v n=%d %x\n", i, st.Dir, st.Err, st.N, st.Data)
				}
			}
			res := c15Exec(cs.Server, steps, fin)
			fmt.Printf(" panic=%q (%s) opaque=%q gaveup(req=%v,resp=%v) traces=%d\n", res.Panic, res.PanicVal, res.Opaque, res.BrokenReq, res.BrokenResp, len(res.Traces))
			x.run(&cs, true)
		})
		return
	}
	deadline := rep.Deadline()
	over := func() bool {
		if !deadline.IsZero() && time.Now().After(deadline) {
			r.NotExhaustive("budget reached before the transparency enumeration was complete")
			return true
		}
		return false
	}
	var k int64
	stopped := false

	// ---- inject + corrupt, one bubble per base script
	for si := range x.bases {
		if stopped = stopped || over(); stopped {
			break
		}
		synctest.Test(t, func(t *testing.T) {
			base := x.bases[si]
			frameSteps := c15Steps(base.units, c15Part{Mode: "frame"})
			for step := range frameSteps {
				k++
				if !r.Mine(k) {
					continue
				}
				for s := 0; s < 2; s++ {
					server := s == 1
					isRead := (frameSteps[step].Dir == c15DirReq) == server
					type oc struct{ n, e string }
					var ocs []oc
					if isRead {
						ocs = []oc{{"zero", "eof"}, {"partial", "eof"}, {"full", "eof"}, {"zero", "timeout"}, {"partial", "timeout"}, {"full", "timeout"}, {"zero", "other"}, {"full", "other"}}
					} else {
						ocs = []oc{{"zero", "other"}, {"partial", "other"}, {"full", "other"}, {"partial", ""}, {"zero", "timeout"}}
					}
					for _, o := range ocs {
						for _, cont := range []bool{false, true} {
							x.run(&c15TranspCase{Kind: "inject", Server: server, Script: si, Step: step, Err: o.e, NKind: o.n, Continue: cont}, true)
						}
					}
				}
			}
			for ui, u := range base.units {
				for _, c := range c15Corruptions(u) {
					k++
					if !r.Mine(k) {
						continue
					}
					var truncs []int
					if thorough {
						for tr := ui; tr < len(base.units); tr++ {
							truncs = append(truncs, tr)
						}
					} else {
						truncs = []int{ui}
						if ui != len(base.units)-1 {
							truncs = append(truncs, len(base.units)-1)
						}
					}
					for _, tr := range truncs {
						for s := 0; s < 2; s++ {
							for _, part := range []string{"whole", "byte"} {
								for _, fin := range []int{c15FinClose, c15FinEOF} {
									x.run(&c15TranspCase{Kind: "corrupt", Server: s == 1, Script: si, Unit: ui, Field: c.Field, Value: c.Value, Trunc: tr, Part: part, Fin: fin}, true)
									r.Count(fmt.Sprintf("corrupt-cases:script-%02d", si), 1)
								}
							}
						}
					}
				}
			}
		})
	}

	// ---- compositions
	for _, name := range c15ExchangeNames(thorough) {
		if stopped = stopped || over(); stopped {
			break
		}
		ex := x.exch[name]
		n := len(ex.Bytes)
		if ex.Preface == "composed" {
			n = len(clientPreface)
		}
		total := uint32(1) << uint(n-1)
		if r.Shard == 0 { // counted once, not per shard
			r.Count("compositions:"+name, 2*int64(total))
		}
		const chunk = 1 << 14
		for lo := uint32(0); lo < total && !stopped; lo += chunk {
			k++
			if !r.Mine(k) {
				continue
			}
			if stopped = over(); stopped {
				break
			}
			synctest.Test(t, func(t *testing.T) {
				for m := lo; m < lo+chunk && m < total; m++ {
					for s := 0; s < 2; s++ {
						x.run(&c15TranspCase{Kind: "compose", Server: s == 1, Exchange: name, Mask: m}, true)
					}
				}
			})
		}
	}

	// ---- garbage
	maxLen := 2
	if thorough {
		maxLen = 3
	}
	type place struct {
		dir     int
		preface bool
	}
	places := []place{{c15DirReq, true}, {c15DirReq, false}, {c15DirResp, false}}
	for l := 0; l <= maxLen && !stopped; l++ {
		total := 1 << uint(8*l)
		const chunk = 1 << 12
		for lo := 0; lo < total && !stopped; lo += chunk {
			k++
			if !r.Mine(k) {
				continue
			}
			if stopped = over(); stopped {
				break
			}
			synctest.Test(t, func(t *testing.T) {
				buf := make([]byte, l)
				for v := lo; v < lo+chunk && v < total; v++ {
					for i := 0; i < l; i++ {
						buf[l-1-i] = byte(v >> uint(8*i))
					}
					for _, pl := range places {
						for s := 0; s < 2; s++ {
							for _, tail := range []bool{false, true} {
								x.run(&c15TranspCase{Kind: "garbage", Server: s == 1, Dir: pl.dir, Preface: pl.preface, raw: buf, Tail: tail}, tail)
								if l >= 2 && l <= 2 {
									x.run(&c15TranspCase{Kind: "garbage", Server: s == 1, Dir: pl.dir, Preface: pl.preface, raw: buf, Tail: tail, Bytewise: true}, tail)
								}
							}
						}
					}
				}
			})
		}
	}
	r.Extra["bound"] = fmt.Sprintf("garbage strings up to %d bytes (longer arbitrary inputs are outside the bound); corruptions: one field of one frame per case; compositions: exchanges of 19-24 bytes; %d base scripts", maxLen, len(x.bases))
	_ = io.EOF
}
