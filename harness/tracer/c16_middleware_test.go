package tracer

// C16 (d) — the glue that feeds the builder: TracingRoundTripper (client side)
// and TracingHandler (server side) under GATE, with a scripted transport /
// handler / response writer and an optional canceller. The builder and the
// Tracer are exercised on their own by units (a)-(c); here the question is what
// the two middlewares hand to the collector, when, and whether anything they
// handed over still changes afterwards.

import (
	"bytes"
	"context"
	"errors"
	"fmt"
	"io"
	"net/http"
	"sort"
	"strings"
	"sync"
	"testing"
	"testing/synctest"
	"time"

	"connectrpc.com/conformance/internal/verif/gate"
	"connectrpc.com/conformance/internal/verif/rep"
)

type c16MwScenario struct {
	Side string `json:"side"` // client | server
	// client side
	Transport string   `json:"transport,omitempty"` // error | ctxwait | resp
	Stream    bool     `json:"stream,omitempty"`    // enveloped (stream protocol) response body
	Chunks    []string `json:"chunks,omitempty"`    // response body reads (hex-free: raw bytes as string)
	BodyEnd   string   `json:"body_end,omitempty"`  // eof | err
	Caller    string   `json:"caller,omitempty"`    // readall | close0 | read1close
	ReqBody   string   `json:"req_body,omitempty"`  // "" | read | unread
	// server side
	Handler     []string `json:"handler,omitempty"`
	WriteFailAt int      `json:"write_fail_at,omitempty"` // index of the Write that fails (-1: none)
	// both
	Cancel bool `json:"cancel,omitempty"` // the caller's context is cancelled / the client disconnects at any time
	Waiter bool `json:"waiter,omitempty"` // a goroutine Awaits the trace on a real Tracer and reads it when woken
}

var (
	errC16Transport = errors.New("scripted: connection reset by peer")
	errC16Body      = errors.New("scripted: unexpected EOF in body")
	errC16Write     = errors.New("scripted: write on closed connection")
)

// c16Snap is a deep rendering of everything a trace exposes.
func c16Snap(tr *Trace) string {
	var sb strings.Builder
	fmt.Fprintf(&sb, "name=%s err=%v events=", tr.TestName, tr.Err)
	for _, ev := range tr.Events {
		sb.WriteString(c16EvString(ev))
		sb.WriteString(">")
	}
	if tr.Response != nil {
		fmt.Fprintf(&sb, " status=%d hdr=%s trl=%s", tr.Response.StatusCode, c16HeaderString(tr.Response.Header), c16HeaderString(tr.Response.Trailer))
	} else {
		sb.WriteString(" noresponse")
	}
	return sb.String()
}

func c16EvString(ev Event) string {
	k := strings.TrimPrefix(fmt.Sprintf("%T", ev), "*tracer.")
	switch e := ev.(type) {
	case *ResponseError:
		return fmt.Sprintf("%s(%v)", k, e.Err)
	case *ResponseBodyEnd:
		return fmt.Sprintf("%s(%v)", k, e.Err)
	case *RequestBodyEnd:
		return fmt.Sprintf("%s(%v)", k, e.Err)
	case *ResponseBodyData:
		return fmt.Sprintf("%s(#%d,%d)", k, e.MessageIndex, e.Len)
	case *RequestBodyData:
		return fmt.Sprintf("%s(#%d,%d)", k, e.MessageIndex, e.Len)
	case *ResponseBodyEndStream:
		return fmt.Sprintf("%s(%q)", k, e.Content)
	}
	return k
}

func c16HeaderString(h http.Header) string {
	if h == nil {
		return "<nil>"
	}
	keys := make([]string, 0, len(h))
	for k := range h {
		keys = append(keys, k)
	}
	sort.Strings(keys)
	var sb strings.Builder
	sb.WriteString("{")
	for _, k := range keys {
		if h[k] == nil {
			fmt.Fprintf(&sb, "%s:<nil>;", k)
		} else {
			fmt.Fprintf(&sb, "%s:%q;", k, h[k])
		}
	}
	sb.WriteString("}")
	return sb.String()
}

type c16MwCollector struct {
	mu         sync.Mutex // real mutex: never held across a gate
	traces     []Trace
	snaps      []string
	cancelled  []bool // had the external cancellation happened when the trace was completed?
	isCanceled func() bool
	forward    *Tracer
}

func (c *c16MwCollector) Complete(tr Trace) {
	c.mu.Lock()
	c.traces = append(c.traces, tr)
	c.snaps = append(c.snaps, c16Snap(&tr))
	c.cancelled = append(c.cancelled, c.isCanceled())
	c.mu.Unlock()
	if c.forward != nil {
		c.forward.Complete(tr)
	}
}

type c16ScriptBody struct {
	ctx    context.Context
	chunks []string
	end    string
	pos    int
	closed bool
}

func (b *c16ScriptBody) Read(p []byte) (int, error) {
	gate.Point("body.read")
	if b.closed {
		return 0, errors.New("read on closed body")
	}
	if err := b.ctx.Err(); err != nil {
		return 0, err
	}
	if b.pos < len(b.chunks) {
		n := copy(p, b.chunks[b.pos])
		if n < len(b.chunks[b.pos]) {
			b.chunks[b.pos] = b.chunks[b.pos][n:]
		} else {
			b.pos++
		}
		return n, nil
	}
	if b.end == "err" {
		return 0, errC16Body
	}
	return 0, io.EOF
}

func (b *c16ScriptBody) Close() error { b.closed = true; return nil }

type c16FakeWriter struct {
	hdr     http.Header
	code    int
	writes  int
	failAt  int
	flushes int
	body    bytes.Buffer
	hdrAtWH string
}

func (w *c16FakeWriter) Header() http.Header { return w.hdr }
func (w *c16FakeWriter) WriteHeader(code int) {
	if w.code == 0 {
		w.code = code
	}
}
func (w *c16FakeWriter) Write(p []byte) (int, error) {
	if w.code == 0 {
		w.code = 200
	}
	i := w.writes
	w.writes++
	if i == w.failAt {
		return 0, errC16Write
	}
	w.body.Write(p)
	return len(p), nil
}
func (w *c16FakeWriter) Flush() { w.flushes++ }

type c16MwResult struct {
	col             *c16MwCollector
	callerDone      bool
	rtErr           error
	readErr         error
	completedAtRet  int // server: completions when ServeHTTP returned
	panicked        any
	waiterSnap      string
	waiterErr       error
	waiterDone      bool
	cancelHappened  bool
	expectTrailer   http.Header
	expectHeader    http.Header
	expectStatus    int
	wroteBody       bool
	writeFailed     bool
	handlerPanicked bool
	teardown        func()
	cancelAll       func()
	mu              sync.Mutex
}

func c16Envelope(flags byte, payload string) string {
	n := len(payload)
	return string([]byte{flags, byte(n >> 24), byte(n >> 16), byte(n >> 8), byte(n)}) + payload
}

// c16MwRun starts the scenario's goroutines through spawn and returns the result record.
func c16MwRun(sc c16MwScenario, spawn func(name string, f func()), point func(string)) *c16MwResult {
	res := &c16MwResult{}
	var cancelFlag bool
	var cmu sync.Mutex
	col := &c16MwCollector{isCanceled: func() bool { cmu.Lock(); defer cmu.Unlock(); return cancelFlag }}
	res.col = col
	const name = "suite/case"
	if sc.Waiter {
		col.forward = &Tracer{}
		col.forward.Init(name)
		wctx, wcancel := context.WithCancel(context.Background())
		res.teardown = wcancel
		spawn("waiter", func() {
			tr, err := col.forward.Await(wctx, name)
			res.mu.Lock()
			defer res.mu.Unlock()
			res.waiterDone = true
			res.waiterErr = err
			if tr != nil {
				res.waiterSnap = c16Snap(tr)
			}
		})
	}
	outerCtx, outerCancel := context.WithCancel(context.Background())
	res.cancelAll = outerCancel
	if sc.Cancel {
		spawn("canceller", func() {
			point("external.cancel")
			cmu.Lock()
			cancelFlag = true
			cmu.Unlock()
			res.mu.Lock()
			res.cancelHappened = true
			res.mu.Unlock()
			outerCancel()
		})
	}
	switch sc.Side {
	case "client":
		rt := roundTripperFunc(func(req *http.Request) (*http.Response, error) {
			if sc.ReqBody == "read" && req.Body != nil {
				_, _ = io.ReadAll(req.Body)
				_ = req.Body.Close()
			}
			point("transport.answer")
			switch sc.Transport {
			case "error":
				return nil, errC16Transport
			case "ctxwait":
				<-req.Context().Done()
				return nil, req.Context().Err()
			}
			ct := "application/proto"
			if sc.Stream {
				ct = "application/connect+proto"
			}
			return &http.Response{
				Status: "200 OK", StatusCode: 200, Proto: "HTTP/1.1", ProtoMajor: 1, ProtoMinor: 1,
				Header:  http.Header{"Content-Type": {ct}},
				Trailer: http.Header{},
				Body:    &c16ScriptBody{ctx: req.Context(), chunks: append([]string(nil), sc.Chunks...), end: sc.BodyEnd},
				Request: req,
			}, nil
		})
		traced := TracingRoundTripper(rt, col)
		spawn("caller", func() {
			var body io.Reader = http.NoBody
			if sc.ReqBody != "" {
				body = strings.NewReader("request-bytes")
			}
			req, _ := http.NewRequestWithContext(outerCtx, http.MethodPost, "http://localhost/svc/Method", body)
			req.Header.Set(testCaseNameHeader, name)
			req.Header.Set("Content-Type", "application/proto")
			resp, err := traced.RoundTrip(req)
			var readErr error
			if err == nil {
				switch sc.Caller {
				case "readall":
					_, readErr = io.ReadAll(resp.Body)
					_ = resp.Body.Close()
				case "close0":
					_ = resp.Body.Close()
				case "read1close":
					buf := make([]byte, 64)
					_, readErr = resp.Body.Read(buf)
					_ = resp.Body.Close()
				}
			}
			res.mu.Lock()
			res.rtErr, res.readErr, res.callerDone = err, readErr, true
			res.mu.Unlock()
		})
	case "server":
		fw := &c16FakeWriter{hdr: http.Header{}, failAt: sc.WriteFailAt}
		res.expectHeader, res.expectTrailer = http.Header{}, http.Header{}
		res.expectStatus = 200
		handler := http.HandlerFunc(func(w http.ResponseWriter, r *http.Request) {
			started := false
			for _, op := range sc.Handler {
				switch op {
				case "readbody":
					_, _ = io.ReadAll(r.Body)
				case "hdr":
					w.Header().Set("X-H", "1")
					if !started {
						res.expectHeader.Set("X-H", "1")
					}
				case "declare":
					w.Header().Add("Trailer", "X-Decl")
					if !started {
						res.expectHeader.Add("Trailer", "X-Decl")
						res.expectTrailer["X-Decl"] = nil
					}
				case "wh500":
					if !started {
						res.expectStatus = 500
					}
					started = true
					w.WriteHeader(500)
				case "write":
					started = true
					if _, err := w.Write([]byte("response-bytes")); err != nil {
						res.writeFailed = true
					} else {
						res.wroteBody = true
					}
				case "flush":
					if f, ok := w.(http.Flusher); ok {
						f.Flush()
					}
				case "trl-decl":
					w.Header().Set("X-Decl", "v")
					if _, declared := res.expectTrailer["X-Decl"]; declared && !res.writeFailed {
						res.expectTrailer["X-Decl"] = []string{"v"}
					}
				case "trl-pfx":
					w.Header().Set(http.TrailerPrefix+"X-Pfx", "p")
					if !res.writeFailed {
						res.expectTrailer["X-Pfx"] = []string{"p"}
					}
				case "ctxwait":
					<-r.Context().Done()
				case "point":
					point("handler.step")
				case "hdr-late":
					w.Header().Set("X-Late", "1") // after the response started: not a header of the response any more
				case "panic":
					res.handlerPanicked = true
					panic("scripted handler panic")
				}
			}
		})
		traced := TracingHandler(handler, col)
		spawn("server", func() {
			req, _ := http.NewRequestWithContext(outerCtx, http.MethodPost, "http://localhost/svc/Method", strings.NewReader("request-bytes"))
			req.Header.Set(testCaseNameHeader, name)
			req.Header.Set("Content-Type", "application/proto")
			func() {
				defer func() {
					res.panicked = recover()
				}()
				traced.ServeHTTP(fw, req)
			}()
			col.mu.Lock()
			n := len(col.traces)
			col.mu.Unlock()
			res.mu.Lock()
			res.completedAtRet, res.callerDone = n, true
			res.mu.Unlock()
		})
	}
	return res
}

func outerTeardown(res *c16MwResult) {
	if res.teardown != nil {
		res.teardown()
	}
	if res.cancelAll != nil {
		res.cancelAll()
	}
}

func c16MwJudge(sc c16MwScenario, res *c16MwResult, parked func() []string) (verdicts []gateVerdict, outcome string) {
	add := func(key, format string, a ...any) {
		verdicts = append(verdicts, gateVerdict{key, fmt.Sprintf(format, a...)})
	}
	res.mu.Lock()
	defer res.mu.Unlock()
	col := res.col
	col.mu.Lock()
	defer col.mu.Unlock()
	if !res.callerDone {
		add("mw-deadlock", "the %s goroutine never finished; parked: %v", sc.Side, parked())
		return verdicts, "deadlock"
	}
	if len(col.traces) != 1 {
		add("mw-complete-count", "collector.Complete called %d time(s) for one named operation", len(col.traces))
		return verdicts, fmt.Sprintf("completed=%d", len(col.traces))
	}
	tr := &col.traces[0]
	now := c16Snap(tr)
	if now != col.snaps[0] {
		add("mw-trace-changed-after-completion", "the trace handed to the collector was later modified:\n at completion: %s\n afterwards:    %s", col.snaps[0], now)
	}
	last := tr.Events[len(tr.Events)-1]
	lastKind := strings.TrimPrefix(fmt.Sprintf("%T", last), "*tracer.")
	outcome = fmt.Sprintf("last=%s err=%v cancelled=%v", lastKind, tr.Err, col.cancelled[0])
	if _, ok := last.(*RequestCanceled); ok && !col.cancelled[0] {
		add("mw-canceled-by-own-cleanup", "the trace was completed by a RequestCanceled event although nobody had cancelled the operation (trace: %s)", col.snaps[0])
	}
	if sc.Waiter && res.waiterDone && res.waiterErr == nil && res.waiterSnap != now {
		add("mw-waiter-saw-unfinished-trace", "the waiter woken by the completion read %s\n but the final trace is %s", res.waiterSnap, now)
	}
	if sc.Waiter && !res.waiterDone {
		add("mw-waiter-stuck", "the trace was completed but the waiter never woke")
	}
	switch sc.Side {
	case "client":
		if !res.cancelHappened {
			// nobody interfered: the trace is determined by the script
			var want string
			switch {
			case sc.Transport == "error":
				want = fmt.Sprintf("ResponseError(%v)", errC16Transport)
				if res.rtErr != errC16Transport {
					add("mw-roundtrip-result", "RoundTrip returned %v, the transport returned %v", res.rtErr, errC16Transport)
				}
			case sc.Caller == "close0":
				want = "ResponseBodyEnd(closed before fully consumed)"
			case sc.Caller == "read1close" && len(sc.Chunks) > 0:
				want = "ResponseBodyEnd(closed before fully consumed)"
			case sc.BodyEnd == "err":
				want = fmt.Sprintf("ResponseBodyEnd(%v)", errC16Body)
			default:
				want = "ResponseBodyEnd(<nil>)"
			}
			if got := c16EvString(last); got != want {
				add("mw-terminal-event", "terminal event %s, expected %s (trace: %s)", got, want, col.snaps[0])
			}
			if sc.Transport == "resp" && tr.Response == nil {
				add("mw-no-response", "the transport answered but the trace has no response")
			}
		}
	case "server":
		// (when the client went away, the goroutine that watches the request context may be the one that
		// completes the trace and may still be inside Collector.Complete when the handler returns: the
		// statement asks for exactly one completion, not for it to precede the return)
		if res.completedAtRet != 1 && !res.cancelHappened {
			add("mw-not-complete-at-return", "the trace was not complete when the handler middleware returned (%d completions)", res.completedAtRet)
		}
		if !res.cancelHappened {
			got := c16EvString(last)
			want := "ResponseBodyEnd(<nil>)"
			if res.writeFailed {
				want = fmt.Sprintf("ResponseBodyEnd(%v)", errC16Write)
			} else if res.handlerPanicked {
				want = "ResponseBodyEnd(panic: scripted handler panic)"
			}
			if got != want {
				add("mw-terminal-event", "terminal event %s, expected %s (trace: %s)", got, want, col.snaps[0])
			}
			if tr.Response == nil {
				add("mw-no-response", "server trace without response")
			} else {
				if tr.Response.StatusCode != res.expectStatus {
					add("mw-status", "trace status %d, handler sent %d", tr.Response.StatusCode, res.expectStatus)
				}
				if g, w := c16HeaderString(tr.Response.Header), c16HeaderString(res.expectHeader); g != w {
					add("mw-headers", "trace response headers %s, handler had set %s before the response started", g, w)
				}
				if !res.writeFailed {
					if g, w := c16HeaderString(tr.Response.Trailer), c16HeaderString(res.expectTrailer); g != w {
						add("mw-trailers", "trace response trailers %s, handler set %s", g, w)
					}
				}
			}
		}
		if res.handlerPanicked != (res.panicked != nil) {
			add("mw-panic-propagation", "handler panicked=%v but the middleware surfaced panic value %v", res.handlerPanicked, res.panicked)
		}
	}
	return verdicts, outcome
}

func c16MwScenarios(thorough bool) []c16MwScenario {
	var out []c16MwScenario
	e := c16Envelope
	bodies := []struct {
		stream bool
		chunks []string
	}{
		{false, nil},
		{false, []string{"abc"}},
		{false, []string{"abc", "de"}},
		{true, []string{e(0, "abc")}},
		{true, []string{e(0, "abc")[:3], e(0, "abc")[3:] + e(2, "{}")}},
		{true, []string{e(0, "abc") + e(0, "x")[:4]}},
	}
	for _, cancel := range []bool{false, true} {
		for _, waiter := range []bool{false, true} {
			if waiter && cancel && !thorough {
				continue
			}
			for _, rb := range []string{"", "read", "unread"} {
				if rb == "unread" && !thorough {
					continue
				}
				out = append(out, c16MwScenario{Side: "client", Transport: "error", ReqBody: rb, Cancel: cancel, Waiter: waiter})
				if cancel {
					out = append(out, c16MwScenario{Side: "client", Transport: "ctxwait", ReqBody: rb, Cancel: cancel, Waiter: waiter})
				}
				for _, b := range bodies {
					for _, end := range []string{"eof", "err"} {
						for _, caller := range []string{"readall", "close0", "read1close"} {
							if !thorough && (rb != "" && caller != "readall") {
								continue
							}
							if !thorough && waiter && len(b.chunks) > 1 {
								continue
							}
							out = append(out, c16MwScenario{Side: "client", Transport: "resp", Stream: b.stream, Chunks: b.chunks, BodyEnd: end, Caller: caller, ReqBody: rb, Cancel: cancel, Waiter: waiter})
						}
					}
				}
			}
			handlers := [][]string{
				{},
				{"hdr", "write"},
				{"hdr", "wh500", "write"},
				{"declare", "hdr", "write", "trl-decl"},
				{"declare", "hdr", "write"},
				{"hdr", "write", "trl-pfx"},
				{"trl-pfx"},
				{"declare", "write", "flush", "write", "trl-decl", "trl-pfx"},
				{"readbody", "declare", "write", "trl-decl", "panic"},
				{"panic"},
				{"hdr", "write", "hdr-late", "trl-pfx"},
				{"readbody", "hdr", "point", "write", "point", "trl-pfx"},
			}
			for _, h := range handlers {
				out = append(out, c16MwScenario{Side: "server", Handler: h, WriteFailAt: -1, Cancel: cancel, Waiter: waiter})
				nw := 0
				for _, op := range h {
					if op == "write" {
						nw++
					}
				}
				for k := 0; k < nw; k++ {
					out = append(out, c16MwScenario{Side: "server", Handler: h, WriteFailAt: k, Cancel: cancel, Waiter: waiter})
				}
			}
			if cancel {
				out = append(out, c16MwScenario{Side: "server", Handler: []string{"hdr", "write", "ctxwait", "trl-pfx"}, WriteFailAt: -1, Cancel: true, Waiter: waiter})
				out = append(out, c16MwScenario{Side: "server", Handler: []string{"ctxwait"}, WriteFailAt: -1, Cancel: true, Waiter: waiter})
			}
		}
	}
	return out
}

func TestVerifC16Middleware(t *testing.T) {
	r := rep.New("c16-middleware")
	defer r.Write()
	r.Rule = "TracingRoundTripper over a scripted transport (error / waits for cancellation / response with every scripted body: unary and enveloped, 0-2 reads, ending in EOF or an error) with callers that read to the end, close at once or close after one read, with and without a request body; TracingHandler over scripted handlers (headers, declared and prefixed trailers, explicit status, flush, failing writes at every index, panic, waiting for disconnect) and a scripted response writer; each with and without an external cancellation at any moment and with and without a goroutine awaiting the trace on a real Tracer; every interleaving at lock/gate granularity (no preemption bound); oracle: exactly one completion, complete when the handler middleware returns, the completed trace never changes afterwards, a RequestCanceled event completes a trace only if somebody cancelled, otherwise terminal event / status / headers / trailers / message count are those of the script"
	gateExplore(t, r, c16MwScenarios(rep.Thorough()), -1, func(sc c16MwScenario, prefix []int, expect []gate.PointRec) (g gateRun) {
		defer func() {
			if rr := recover(); rr != nil {
				g.leak = fmt.Sprint(rr)
			}
		}()
		synctest.Test(t, func(t *testing.T) {
			x := gate.Begin(prefix, expect)
			g.x = x
			res := c16MwRun(sc, func(name string, f func()) { x.Go(name, f) }, func(l string) { gate.Point(l) })
			x.Run(time.Hour, nil)
			g.verdicts, g.outcome = c16MwJudge(sc, res, x.Waiting)
			x.End()
			outerTeardown(res)
			synctest.Wait()
		})
		return
	})
}

// TestVerifC16MiddlewareRace: the same scenarios free-running under the race detector; the
// waiter reads the trace (trailer map included) the moment it is woken.
func TestVerifC16MiddlewareRace(t *testing.T) {
	r := rep.New("c16-middleware-race")
	defer r.Write()
	r.Rule = "the middleware scenarios that have a waiter, executed free-running (real goroutines, real sync, no bubble) under the race detector, several times each, judged by the same oracle; non-trivial = distinct scenario"
	gate.SetFreeRunning(true)
	defer gate.SetFreeRunning(false)
	reps := 5
	if rep.Thorough() {
		reps = 25
	}
	var k int64
	for _, sc := range c16MwScenarios(rep.Thorough()) {
		if !sc.Waiter {
			continue
		}
		k++
		if !r.Mine(k) {
			continue
		}
		for i := 0; i < reps; i++ {
			var wg sync.WaitGroup
			res := c16MwRun(sc, func(name string, f func()) {
				wg.Add(1)
				go func() { defer wg.Done(); f() }()
			}, func(string) {})
			done := make(chan struct{})
			go func() { wg.Wait(); close(done) }()
			select {
			case <-done:
			case <-time.After(30 * time.Second):
				r.Violate("mw-deadlock", fmt.Sprintf("free-running scenario did not finish in 30 s: %+v", sc), map[string]any{"scenario": sc, "choices": []int{}})
				continue
			}
			// the own-clean-up RequestCanceled is added by a goroutine nobody joins: not an oracle here
			verdicts, outcome := c16MwJudge(sc, res, func() []string { return nil })
			r.Eval(1)
			r.Outcome(outcome)
			for _, v := range verdicts {
				r.Violate(v.key, v.detail+fmt.Sprintf(" | free-running, scenario=%+v", sc), map[string]any{"scenario": sc, "choices": []int{}})
			}
		}
		r.NonTrivial("")
		if k%25 == 1 {
			r.Sample(sc)
		}
	}
}
