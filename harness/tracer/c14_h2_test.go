package tracer

// C14, stage P (bodies through the HTTP/2 connection tracer). Cheap; runs
// before the heavy enumeration of c14_test.go (same unit, same report).
//
// The gRPC reference client and server are traced at the connection level
// (TracingHTTP2Conn / TracingHTTP2Listener): the body tracer of reader.go is
// fed by the frame tracer of http2.go. What the trace says about a body must
// not depend on how HTTP/2 happened to carry it. A *case* of this stage is one
// exchange on stream 1 of a scripted connection (hand-built frames, fake
// net.Conn), the same body D in both directions:
//
//	(conn side: server-side / client-side tracing conn,
//	 Content-Type and encoding headers, D,
//	 DATA framing: D cut into frames at the given offsets (frames without any
//	   data byte included), each frame unpadded or PADDED with a pad length
//	   of 0, 1, 7 or 255 (RFC 9113 section 6.1: pad-length byte, data, padding),
//	 end of stream: END_STREAM on the last DATA frame | on an extra empty DATA
//	   frame, unpadded or padded (a frame that carries nothing but padding and
//	   the flag) | on a trailers HEADERS block (plain, padded with priority,
//	   continued),
//	 shape of the HEADERS frames: plain | PADDED | PRIORITY | both | split over
//	   CONTINUATION frames (also padded, also with an empty last one),
//	 conn I/O: each direction in one Read/Write call, or in pieces of k bytes)
//
// Oracle: the body events of either direction (data events, end-stream
// content, body end) are identical to those of the canonical framing of the
// same bytes (one unpadded DATA frame carrying END_STREAM, plain HEADERS, one
// call per direction) and satisfy the C14 reference model (c14Reference /
// c14JudgeEvents of c14_test.go); exactly one trace is delivered; no panic.
//
// x/net/http2, net/http and grpc-go never pad, so only hand-built frames
// exercise this part of the wire format.

import (
	"bytes"
	"encoding/binary"
	"encoding/hex"
	"encoding/json"
	"fmt"
	"net"
	"runtime/debug"
	"strings"
	"sync"
	"testing"
	"time"

	"connectrpc.com/conformance/internal/verif/rep"
	"golang.org/x/net/http2/hpack"
)

// ---------------------------------------------------------------------------
// case description

type c14H2Frame struct {
	N   int `json:"n"`   // data bytes carried
	Pad int `json:"pad"` // -1 = PADDED flag not set, otherwise the pad length
}

type c14H2Case struct {
	Stage  string       `json:"stage"` // "h2"
	Part   string       `json:"part"`
	Server bool         `json:"server_conn"`
	Hdr    c14Hdr       `json:"hdr"`
	Body   string       `json:"body_hex"`
	Frames []c14H2Frame `json:"frames"`  // DATA frames carrying the body, in order
	Eos    string       `json:"eos"`     // flag | empty | empty-pad<N> | trailers | trailers-<shape>
	Hdrs   string       `json:"headers"` // shape of the HEADERS frames that open either direction
	IO     int          `json:"io"`      // conn Read/Write piece size, 0 = a whole direction per call
	// part P-h2-hpack: several exchanges one after the other on the connection (streams 1, 3, ...; 0 = one), all
	// header blocks of a direction from one HPACK encoder, and a dynamic-table-size schedule of either encoder
	// ("" none | "4096" | "65536" | "1048576" | "0" | "0+65536": SetMaxDynamicTableSize calls, i.e. the size
	// updates that open the next header block, RFC 7541 section 6.3) applied before the header block HpackAt
	// ("<exchange>h" headers, "<exchange>t" trailers; exchanges count from 1). The peer's SETTINGS frame
	// (SETTINGS_HEADER_TABLE_SIZE = the largest size of the schedule) and its acknowledgement precede that block.
	Streams   int    `json:"streams,omitempty"`
	HpackReq  string `json:"hpack_req,omitempty"`
	HpackResp string `json:"hpack_resp,omitempty"`
	HpackAt   string `json:"hpack_at,omitempty"`
}

func (c *c14H2Case) scripted() bool { return c.Streams > 1 || c.HpackReq != "" || c.HpackResp != "" }

func (c *c14H2Case) String() string {
	b, _ := json.Marshal(c)
	return string(b)
}

// ---------------------------------------------------------------------------
// hand-built frames

const (
	c14H2TypeData         = 0x0
	c14H2TypeHeaders      = 0x1
	c14H2TypeSettings     = 0x4
	c14H2TypeContinuation = 0x9

	c14H2FlagEndStream  = 0x1
	c14H2FlagEndHeaders = 0x4
	c14H2FlagPadded     = 0x8
	c14H2FlagPriority   = 0x20

	c14H2Preface = "PRI * HTTP/2.0\r\n\r\nSM\r\n\r\n"
)

func c14H2Raw(out []byte, typ, flags byte, stream uint32, payload []byte) []byte {
	n := len(payload)
	out = append(out, byte(n>>16), byte(n>>8), byte(n), typ, flags)
	out = binary.BigEndian.AppendUint32(out, stream&0x7fffffff)
	return append(out, payload...)
}

var c14H2Zeros [255]byte // padding octets are zero when sending (RFC 9113 section 6.1)

func c14H2Data(out []byte, stream uint32, data []byte, pad int, end bool) []byte {
	var flags byte
	if end {
		flags |= c14H2FlagEndStream
	}
	if pad < 0 {
		return c14H2Raw(out, c14H2TypeData, flags, stream, data)
	}
	payload := make([]byte, 0, 1+len(data)+pad)
	payload = append(payload, byte(pad))
	payload = append(payload, data...)
	payload = append(payload, c14H2Zeros[:pad]...)
	return c14H2Raw(out, c14H2TypeData, flags|c14H2FlagPadded, stream, payload)
}

// c14H2HdrShape: "plain", or '+'-joined: padded<N>, priority, cont<K> (K CONTINUATION frames), contempty (a last, empty CONTINUATION).
type c14H2HdrShape struct {
	pad       int
	prio      bool
	conts     int
	contEmpty bool
}

func c14H2ParseShape(s string) c14H2HdrShape {
	sh := c14H2HdrShape{pad: -1}
	for _, part := range strings.Split(s, "+") {
		switch {
		case part == "plain" || part == "":
		case part == "priority":
			sh.prio = true
		case part == "contempty":
			sh.contEmpty = true
		case strings.HasPrefix(part, "padded"):
			fmt.Sscanf(part, "padded%d", &sh.pad)
		case strings.HasPrefix(part, "cont"):
			fmt.Sscanf(part, "cont%d", &sh.conts)
		default:
			panic("c14 harness: unknown HEADERS shape " + s)
		}
	}
	return sh
}

func c14H2Headers(out []byte, stream uint32, block []byte, shape string, end bool) []byte {
	sh := c14H2ParseShape(shape)
	// fragments: the first one goes into the HEADERS frame
	frags := [][]byte{block}
	if sh.conts > 0 {
		frags = frags[:0]
		rest := block
		for i := sh.conts; i > 0; i-- {
			n := len(rest) / (i + 1)
			if i == sh.conts {
				n = 1 // a HEADERS frame with a single byte of the block
			}
			if n > len(rest) {
				n = len(rest)
			}
			frags = append(frags, rest[:n])
			rest = rest[n:]
		}
		frags = append(frags, rest)
	}
	if sh.contEmpty {
		frags = append(frags, nil)
	}
	var flags byte
	if end {
		flags |= c14H2FlagEndStream
	}
	if len(frags) == 1 {
		flags |= c14H2FlagEndHeaders
	}
	var payload []byte
	if sh.pad >= 0 {
		flags |= c14H2FlagPadded
		payload = append(payload, byte(sh.pad))
	}
	if sh.prio {
		flags |= c14H2FlagPriority
		payload = append(payload, 0, 0, 0, 0, 15) // depends on stream 0, weight 16
	}
	payload = append(payload, frags[0]...)
	if sh.pad >= 0 {
		payload = append(payload, c14H2Zeros[:sh.pad]...)
	}
	out = c14H2Raw(out, c14H2TypeHeaders, flags, stream, payload)
	for i, frag := range frags[1:] {
		var cf byte
		if i == len(frags)-2 {
			cf = c14H2FlagEndHeaders
		}
		out = c14H2Raw(out, c14H2TypeContinuation, cf, stream, frag)
	}
	return out
}

type c14H2Blocks struct{ reqHdr, reqTrailer, respHdr, respTrailer []byte }

var c14H2BlockCache = map[c14Hdr]*c14H2Blocks{}

func c14H2CommonFields(h c14Hdr) (common []string) {
	if h.CT != "" {
		common = append(common, "content-type", h.CT)
	}
	if h.EncKey != "" {
		common = append(common, strings.ToLower(h.EncKey), h.Enc)
	}
	return common
}

func c14H2ReqFields(h c14Hdr, testName string) []string {
	req := append([]string{":method", "POST", ":scheme", "http", ":authority", c14URL.Host, ":path", c14URL.Path}, c14H2CommonFields(h)...)
	return append(req, "te", "trailers", strings.ToLower(testCaseNameHeader), testName)
}

func c14H2RespFields(h c14Hdr) []string {
	return append([]string{":status", "200"}, c14H2CommonFields(h)...)
}

var (
	c14H2ReqTrailerFields  = []string{"x-c14-trailer", "t"}
	c14H2RespTrailerFields = []string{"grpc-status", "0", "x-c14-trailer", "t"}
)

func c14H2Encode(enc *hpack.Encoder, buf *bytes.Buffer, kv ...string) []byte {
	buf.Reset()
	for i := 0; i < len(kv); i += 2 {
		if err := enc.WriteField(hpack.HeaderField{Name: kv[i], Value: kv[i+1]}); err != nil {
			panic(err)
		}
	}
	return append([]byte(nil), buf.Bytes()...)
}

// c14H2TestName: the test name of the i-th exchange on a connection (from 0); it tells the traces apart.
func c14H2TestName(i int) string {
	if i == 0 {
		return "c14"
	}
	return fmt.Sprintf("c14-s%d", i+1)
}

// c14H2BlocksFor: the HPACK header blocks of a single exchange. Each direction has its own
// encoder (and, in the conn under test, its own fresh decoder), headers first, trailers second.
func c14H2BlocksFor(h c14Hdr) *c14H2Blocks {
	key := h
	key.Status = 0
	if b := c14H2BlockCache[key]; b != nil {
		return b
	}
	b := &c14H2Blocks{}
	var buf bytes.Buffer
	enc := hpack.NewEncoder(&buf)
	b.reqHdr = c14H2Encode(enc, &buf, c14H2ReqFields(h, c14H2TestName(0))...)
	b.reqTrailer = c14H2Encode(enc, &buf, c14H2ReqTrailerFields...)
	var buf2 bytes.Buffer
	enc = hpack.NewEncoder(&buf2)
	b.respHdr = c14H2Encode(enc, &buf2, c14H2RespFields(h)...)
	b.respTrailer = c14H2Encode(enc, &buf2, c14H2RespTrailerFields...)
	c14H2BlockCache[key] = b
	return b
}

func c14H2TrailersEos(eos string) bool {
	return eos == "trailers" || strings.HasPrefix(eos, "trailers-")
}

// c14H2Direction renders one direction of an exchange (without preface / SETTINGS) up to, but not including,
// a trailers block.
func c14H2Direction(out []byte, c *c14H2Case, stream uint32, body, hdrBlock []byte) []byte {
	out = c14H2Headers(out, stream, hdrBlock, c.Hdrs, false)
	pos := 0
	for i, f := range c.Frames {
		end := c.Eos == "flag" && i == len(c.Frames)-1
		out = c14H2Data(out, stream, body[pos:pos+f.N], f.Pad, end)
		pos += f.N
	}
	if pos != len(body) {
		panic("c14 harness: DATA frames do not add up to the body")
	}
	switch {
	case c.Eos == "flag", c14H2TrailersEos(c.Eos):
	case c.Eos == "empty":
		out = c14H2Data(out, stream, nil, -1, true)
	case strings.HasPrefix(c.Eos, "empty-pad"):
		pad := 0
		fmt.Sscanf(c.Eos, "empty-pad%d", &pad)
		out = c14H2Data(out, stream, nil, pad, true)
	default:
		panic("c14 harness: unknown end-of-stream carrier " + c.Eos)
	}
	return out
}

// c14H2Trailers renders the trailers block that ends a direction (nothing unless the case asks for one).
func c14H2Trailers(out []byte, c *c14H2Case, stream uint32, trailerBlock []byte) []byte {
	switch {
	case c.Eos == "trailers":
		out = c14H2Headers(out, stream, trailerBlock, "plain", true)
	case strings.HasPrefix(c.Eos, "trailers-"):
		out = c14H2Headers(out, stream, trailerBlock, strings.TrimPrefix(c.Eos, "trailers-"), true)
	}
	return out
}

// c14H2Seg: bytes that travel in one direction before the other side speaks again.
type c14H2Seg struct {
	client bool
	data   []byte
}

// c14H2Schedule parses a table-size schedule: the sizes in order and the largest of them.
func c14H2Schedule(s string) (sizes []uint32, limit uint32) {
	if s == "" {
		return nil, 0
	}
	for _, part := range strings.Split(s, "+") {
		var v uint32
		if _, err := fmt.Sscanf(part, "%d", &v); err != nil {
			panic("c14 harness: bad HPACK table-size schedule " + s)
		}
		sizes = append(sizes, v)
		if v > limit {
			limit = v
		}
	}
	return sizes, limit
}

func c14H2Settings(out []byte, tableSize int64) []byte {
	if tableSize < 0 {
		return c14H2Raw(out, c14H2TypeSettings, 0, 0, nil)
	}
	var p [6]byte
	binary.BigEndian.PutUint16(p[:2], 1) // SETTINGS_HEADER_TABLE_SIZE
	binary.BigEndian.PutUint32(p[2:], uint32(tableSize))
	return c14H2Raw(out, c14H2TypeSettings, 0, 0, p[:])
}

// c14H2Script renders the whole connection: who sends what, in order.
func c14H2Script(c *c14H2Case, body []byte) []c14H2Seg {
	if !c.scripted() {
		// one exchange, the client's bytes and then the server's
		blocks := c14H2BlocksFor(c.Hdr)
		client := make([]byte, 0, 256+2*len(body))
		client = append(client, c14H2Preface...)
		client = c14H2Raw(client, c14H2TypeSettings, 0, 0, nil)
		client = c14H2Direction(client, c, 1, body, blocks.reqHdr)
		client = c14H2Trailers(client, c, 1, blocks.reqTrailer)
		server := make([]byte, 0, 256+2*len(body))
		server = c14H2Raw(server, c14H2TypeSettings, 0, 0, nil)
		server = c14H2Direction(server, c, 1, body, blocks.respHdr)
		server = c14H2Trailers(server, c, 1, blocks.respTrailer)
		return []c14H2Seg{{true, client}, {false, server}}
	}
	var segs []c14H2Seg
	add := func(client bool, fn func(out []byte) []byte) {
		if n := len(segs); n == 0 || segs[n-1].client != client {
			segs = append(segs, c14H2Seg{client: client})
		}
		last := &segs[len(segs)-1]
		last.data = fn(last.data)
	}
	ack := func(out []byte) []byte { return c14H2Raw(out, c14H2TypeSettings, 0x1, 0, nil) }
	reqSizes, reqLimit := c14H2Schedule(c.HpackReq)
	respSizes, respLimit := c14H2Schedule(c.HpackResp)
	at := c.HpackAt
	if at == "" {
		at = "1h"
	}
	var reqBuf, respBuf bytes.Buffer
	reqEnc, respEnc := hpack.NewEncoder(&reqBuf), hpack.NewEncoder(&respBuf)
	// before the header block at position pos of a direction: the receiving side announces the table size it
	// allows (in its first SETTINGS frame if the block is the first of the connection), the sending side
	// acknowledges and its encoder takes the new size(s) up
	prepare := func(client bool, pos string, enc *hpack.Encoder, sizes []uint32, limit uint32) {
		if pos != at || sizes == nil {
			return
		}
		if pos != "1h" {
			add(!client, func(out []byte) []byte { return c14H2Settings(out, int64(limit)) })
			add(client, ack)
		}
		enc.SetMaxDynamicTableSizeLimit(limit)
		for _, v := range sizes {
			enc.SetMaxDynamicTableSize(v)
		}
	}
	first := func(sizes []uint32, limit uint32) int64 {
		if at == "1h" && sizes != nil {
			return int64(limit)
		}
		return -1
	}
	// a server sends its SETTINGS as soon as the connection is accepted (x/net/http2 does, before it reads the preface)
	add(false, func(out []byte) []byte { return c14H2Settings(out, first(reqSizes, reqLimit)) })
	add(true, func(out []byte) []byte {
		out = append(out, c14H2Preface...)
		return ack(c14H2Settings(out, first(respSizes, respLimit)))
	})
	streams := c.Streams
	if streams < 1 {
		streams = 1
	}
	for i := 0; i < streams; i++ {
		id := uint32(2*i + 1)
		prepare(true, fmt.Sprintf("%dh", i+1), reqEnc, reqSizes, reqLimit)
		block := c14H2Encode(reqEnc, &reqBuf, c14H2ReqFields(c.Hdr, c14H2TestName(i))...)
		add(true, func(out []byte) []byte { return c14H2Direction(out, c, id, body, block) })
		if c14H2TrailersEos(c.Eos) {
			prepare(true, fmt.Sprintf("%dt", i+1), reqEnc, reqSizes, reqLimit)
			block := c14H2Encode(reqEnc, &reqBuf, c14H2ReqTrailerFields...)
			add(true, func(out []byte) []byte { return c14H2Trailers(out, c, id, block) })
		}
		if i == 0 {
			add(false, ack) // of the client's first SETTINGS frame
		}
		prepare(false, fmt.Sprintf("%dh", i+1), respEnc, respSizes, respLimit)
		block = c14H2Encode(respEnc, &respBuf, c14H2RespFields(c.Hdr)...)
		add(false, func(out []byte) []byte { return c14H2Direction(out, c, id, body, block) })
		if c14H2TrailersEos(c.Eos) {
			prepare(false, fmt.Sprintf("%dt", i+1), respEnc, respSizes, respLimit)
			block := c14H2Encode(respEnc, &respBuf, c14H2RespTrailerFields...)
			add(false, func(out []byte) []byte { return c14H2Trailers(out, c, id, block) })
		}
	}
	return segs
}

// ---------------------------------------------------------------------------
// scripted connection

type c14H2Addr struct{}

func (c14H2Addr) Network() string { return "c14" }
func (c14H2Addr) String() string  { return "c14" }

type c14H2Conn struct {
	in    []byte
	chunk int
	wrote int
}

func (c *c14H2Conn) Read(p []byte) (int, error) {
	n := len(c.in)
	if n > len(p) {
		n = len(p)
	}
	if c.chunk > 0 && n > c.chunk {
		n = c.chunk
	}
	copy(p, c.in[:n])
	c.in = c.in[n:]
	return n, nil
}
func (c *c14H2Conn) Write(p []byte) (int, error)      { c.wrote += len(p); return len(p), nil }
func (c *c14H2Conn) Close() error                     { return nil }
func (c *c14H2Conn) LocalAddr() net.Addr              { return c14H2Addr{} }
func (c *c14H2Conn) RemoteAddr() net.Addr             { return c14H2Addr{} }
func (c *c14H2Conn) SetDeadline(time.Time) error      { return nil }
func (c *c14H2Conn) SetReadDeadline(time.Time) error  { return nil }
func (c *c14H2Conn) SetWriteDeadline(time.Time) error { return nil }

// c14H2Collector keeps every trace it is handed, in order.
type c14H2Collector struct {
	mu     sync.Mutex
	traces []Trace
}

func (c *c14H2Collector) Complete(t Trace) {
	c.mu.Lock()
	defer c.mu.Unlock()
	c.traces = append(c.traces, t)
}

type c14H2StreamObs struct {
	Req, Resp []c14Ev
	Completes int
}

type c14H2Obs struct {
	S      []c14H2StreamObs // per exchange of the script, in order
	Strays int              // traces that belong to none of them
	Panic  string
}

var c14H2Buf [2048]byte

func c14H2Run(c *c14H2Case, body []byte) (obs c14H2Obs) {
	segs := c14H2Script(c, body)
	coll := &c14H2Collector{}
	fake := &c14H2Conn{chunk: c.IO}
	func() {
		defer func() {
			if p := recover(); p != nil {
				obs.Panic = fmt.Sprint(p)
			}
		}()
		conn := TracingHTTP2Conn(fake, c.Server, coll)
		read := func(data []byte) {
			fake.in = data
			for len(fake.in) > 0 {
				if n, err := conn.Read(c14H2Buf[:]); n == 0 || err != nil {
					panic("c14 harness: scripted conn did not deliver")
				}
			}
		}
		write := func(data []byte) {
			for len(data) > 0 {
				n := len(data)
				if c.IO > 0 && n > c.IO {
					n = c.IO
				}
				if _, err := conn.Write(data[:n]); err != nil {
					panic("c14 harness: scripted conn refused a write")
				}
				data = data[n:]
			}
		}
		for _, seg := range segs {
			if seg.client == c.Server {
				read(seg.data)
			} else {
				write(seg.data)
			}
		}
		_ = conn.Close()
	}()
	streams := c.Streams
	if streams < 1 {
		streams = 1
	}
	obs.S = make([]c14H2StreamObs, streams)
	coll.mu.Lock()
	traces := coll.traces
	coll.mu.Unlock()
	for k := range traces {
		tr := &traces[k]
		found := false
		for i := range obs.S {
			if tr.TestName != c14H2TestName(i) {
				continue
			}
			found = true
			if obs.S[i].Completes++; obs.S[i].Completes == 1 {
				obs.S[i].Req, _ = c14Events(tr, true)
				obs.S[i].Resp, _ = c14Events(tr, false)
			}
		}
		if !found {
			obs.Strays++
		}
	}
	return obs
}

func c14H2Canonical(c *c14H2Case, n int) c14H2Case {
	return c14H2Case{Stage: "h2", Part: c.Part, Server: c.Server, Hdr: c.Hdr, Body: c.Body,
		Frames: []c14H2Frame{{n, -1}}, Eos: "flag", Hdrs: "plain"}
}

func c14H2Judge(c *c14H2Case, body []byte, obs, canon *c14H2Obs) (out []c14Finding) {
	if obs.Panic != "" {
		out = append(out, c14Finding{"h2:panic", "the tracing conn panicked: " + obs.Panic})
	}
	if obs.Strays != 0 {
		out = append(out, c14Finding{"h2:trace-delivered-twice", fmt.Sprintf("the collector received %d traces that belong to no exchange of the connection", obs.Strays)})
	}
	for i := range obs.S {
		out = append(out, c14H2JudgeStream(c, body, i, len(obs.S), &obs.S[i], &canon.S[0])...)
	}
	return out
}

// c14H2JudgeStream judges the i-th of n exchanges on the connection; canon is what the same body gave as
// the only exchange of a connection in the canonical framing.
func c14H2JudgeStream(c *c14H2Case, body []byte, i, n int, obs, canon *c14H2StreamObs) (out []c14Finding) {
	which := ""
	if n > 1 {
		which = fmt.Sprintf("exchange %d of %d on the connection (stream %d): ", i+1, n, 2*i+1)
	}
	switch {
	case obs.Completes == 0:
		out = append(out, c14Finding{"h2:trace-not-delivered", which + "the collector never received the trace"})
		return out
	case obs.Completes > 1:
		out = append(out, c14Finding{"h2:trace-delivered-twice", fmt.Sprintf("%sthe collector received %d traces", which, obs.Completes)})
	}
	for _, dir := range []string{"request", "response"} {
		var side, ending string
		evs, base := obs.Req, canon.Req
		switch {
		case dir == "request" && c.Server:
			side, ending = c14ServerReq, "eof"
		case dir == "request":
			side, ending = c14ClientReq, "eof"
		case c.Server:
			side, ending, evs, base = c14ServerResp, "return", obs.Resp, canon.Resp
		default:
			side, ending, evs, base = c14ClientResp, "eof", obs.Resp, canon.Resp
		}
		cc := c14Case{Side: side, Hdr: c.Hdr, Ending: ending}
		ref := c14Reference(side, c.Hdr, body)
		for _, f := range c14JudgeEvents(&cc, ref, evs) {
			out = append(out, c14Finding{"h2:" + dir + ":" + f.Key, fmt.Sprintf("%s%s body over the HTTP/2 conn tracer: %s\n  events: %s", which, dir, f.Detail, c14EvString(evs))})
		}
		if !c14SameEvents(base, evs) {
			out = append(out, c14Finding{"h2:" + dir + ":events-depend-on-http2-framing",
				fmt.Sprintf("%s%s body: events %s differ from %s obtained for the same bytes in one unpadded DATA frame on a connection of its own", which, dir, c14EvString(evs), c14EvString(base))})
		}
	}
	return out
}

// ---------------------------------------------------------------------------
// enumeration

type c14H2Body struct {
	Label string
	Hdr   c14Hdr
	D     []byte
}

func c14H2Bodies(thorough bool) (main, cut, short []c14H2Body) {
	connectGzip := c14Hdr{CT: "application/connect+proto", EncKey: "Connect-Content-Encoding", Enc: "gzip"}
	webZstd := c14Hdr{CT: "application/grpc-web+proto", EncKey: "Grpc-Encoding", Enc: "zstd"}
	grpcGzip := c14Hdr{CT: "application/grpc", EncKey: "Grpc-Encoding", Enc: "gzip"}
	connect := c14Hdr{CT: "application/connect+proto"}
	unary := c14Hdr{CT: "application/proto"}
	lead := c14Envelope(0, []byte{0x0a})
	cat := func(parts ...[]byte) []byte { return bytes.Join(parts, nil) }
	main = []c14H2Body{
		{"connect/gzip/compressed-endstream", connectGzip, cat(lead, c14Envelope(0x03, c14Compress("gzip", []byte(`{"e":1}`))))},
		{"grpcweb/zstd/compressed-endstream", webZstd, cat(lead, c14Envelope(0x81, c14Compress("zstd", []byte("grpc-status: 0\r\n"))))},
		{"connect/gzip/plain-endstream", connectGzip, cat(lead, c14Envelope(0x02, []byte(`{"e":1}`)))},
		{"grpc/gzip/two-messages", grpcGzip, cat(c14Envelope(0, []byte("abc")), c14Envelope(1, c14Compress("gzip", []byte("hello"))))},
		{"grpcweb/zstd/plain-endstream", webZstd, c14Envelope(0x80, []byte("grpc-status: 0\r\n"))},
		{"unary/no-envelopes", unary, []byte{0, 0, 0, 0, 2, 1, 2, 0x02, 0, 0}},
	}
	if thorough {
		connectBr := c14Hdr{CT: "application/connect+json", EncKey: "Connect-Content-Encoding", Enc: "br"}
		webSnappy := c14Hdr{CT: "application/grpc-web", EncKey: "Grpc-Encoding", Enc: "snappy"}
		main = append(main,
			c14H2Body{"connect/br/compressed-endstream", connectBr, cat(lead, lead, c14Envelope(0x03, c14Compress("br", []byte(`{"e":1}`))))},
			c14H2Body{"grpcweb/snappy/compressed-endstream", webSnappy, cat(c14Envelope(1, []byte{1, 2, 3}), c14Envelope(0x81, c14Compress("snappy", []byte("grpc-status: 0\r\n"))))},
		)
	}
	// the stream ends inside a message: every truncation of the first two bodies
	for _, m := range main[:2] {
		for i := 0; i < len(m.D); i++ {
			cut = append(cut, c14H2Body{m.Label + "/cut", m.Hdr, m.D[:i]})
		}
	}
	// the alphabet of part A: every stream of at most two envelopes up to 11 bytes (thorough 13)
	limit := 11
	if thorough {
		limit = 13
	}
	for _, s := range c14Streams() {
		if len(s) == 0 || len(s) > limit {
			continue
		}
		short = append(short, c14H2Body{"alphabet", connect, s})
	}
	return main, cut, short
}

var (
	c14H2Pads     = []int{-1, 0, 1, 7, 255}
	c14H2EosKinds = []string{"flag", "empty", "empty-pad0", "empty-pad1", "empty-pad7", "empty-pad255",
		"trailers", "trailers-padded7+priority", "trailers-cont1"}
	c14H2HdrShapes = []string{"plain", "padded0", "padded7", "priority", "padded255+priority", "cont1", "cont3",
		"padded7+cont2", "cont1+contempty"}
)

// c14H2ForEach enumerates the cases of the stage in a fixed order. fn must not retain c.
func c14H2ForEach(thorough bool, fn func(c *c14H2Case, body []byte) bool) {
	main, cut, short := c14H2Bodies(thorough)
	ok := true
	emit := func(part string, b *c14H2Body, bodyHex string, frames []c14H2Frame, eos, hdrs string, io int) {
		for _, server := range []bool{true, false} {
			if !ok {
				return
			}
			c := c14H2Case{Stage: "h2", Part: part, Server: server, Hdr: b.Hdr, Body: bodyHex, Frames: frames, Eos: eos, Hdrs: hdrs, IO: io}
			ok = fn(&c, b.D)
		}
	}
	type padPair struct{ a, b int }
	// allPairs: every pair; halfPairs: every padding in either position next to an unpadded frame or to itself
	var allPairs, halfPairs, fewPairs []padPair
	for _, a := range c14H2Pads {
		for _, b := range c14H2Pads {
			allPairs = append(allPairs, padPair{a, b})
			if a == b || a < 0 || b < 0 {
				halfPairs = append(halfPairs, padPair{a, b})
			}
		}
		fewPairs = append(fewPairs, padPair{a, a})
	}
	fewPairs = append(fewPairs, padPair{-1, 7}, padPair{7, -1}, padPair{255, 0}, padPair{0, 255})
	frames := make([]c14H2Frame, 0, 64)

	// P-h2-split: two DATA frames, cut at every offset, every pair of paddings; one DATA frame per byte
	split := func(b *c14H2Body, pairs []padPair, ios []int) {
		n := len(b.D)
		bodyHex := hex.EncodeToString(b.D)
		for s := 0; s <= n && ok; s++ {
			for _, pp := range pairs {
				for _, io := range ios {
					emit("P-h2-split", b, bodyHex, append(frames[:0], c14H2Frame{s, pp.a}, c14H2Frame{n - s, pp.b}), "flag", "plain", io)
				}
			}
		}
		for _, pad := range []int{-1, 0, 1, 255} {
			fs := frames[:0]
			for i := 0; i < n; i++ {
				fs = append(fs, c14H2Frame{1, pad})
			}
			if n == 0 {
				fs = append(fs, c14H2Frame{0, pad})
			}
			for _, io := range ios {
				emit("P-h2-split", b, bodyHex, fs, "flag", "plain", io)
			}
		}
	}
	for i := range main {
		split(&main[i], fewPairs, []int{0, 3})
	}
	for i := range short {
		if thorough {
			split(&short[i], allPairs, []int{0, 3})
		} else {
			split(&short[i], halfPairs, []int{(i % 2) * 3}) // conn I/O whole / in 3-byte pieces alternating over the alphabet
		}
	}
	for i := range cut {
		b := &cut[i]
		n := len(b.D)
		bodyHex := hex.EncodeToString(b.D)
		for _, s := range c14H2Dedup(0, n/2, n) {
			for _, pp := range []padPair{{7, 7}, {-1, 255}, {0, -1}} {
				emit("P-h2-split", b, bodyHex, append(frames[:0], c14H2Frame{s, pp.a}, c14H2Frame{n - s, pp.b}), "flag", "plain", 0)
			}
		}
	}
	if thorough {
		// three DATA frames at every pair of offsets
		for i := range main {
			b := &main[i]
			n := len(b.D)
			bodyHex := hex.EncodeToString(b.D)
			for s1 := 0; s1 <= n && ok; s1++ {
				for s2 := s1; s2 <= n; s2++ {
					for _, pad := range c14H2Pads {
						emit("P-h2-split", b, bodyHex, append(frames[:0], c14H2Frame{s1, pad}, c14H2Frame{s2 - s1, pad}, c14H2Frame{n - s2, pad}), "flag", "plain", 0)
					}
				}
			}
		}
	}

	// P-h2-shape: end-of-stream carrier x HEADERS shape x conn I/O, on a few cuts and paddings
	for i := range main {
		b := &main[i]
		n := len(b.D)
		bodyHex := hex.EncodeToString(b.D)
		cuts := c14H2Dedup(0, 8, n)
		if thorough {
			cuts = c14H2Dedup(0, 1, 8, n-1, n)
		}
		for _, s := range cuts {
			for _, pad := range []int{-1, 0, 7, 255} {
				for _, eos := range c14H2EosKinds {
					for _, hdrs := range c14H2HdrShapes {
						for _, io := range []int{0, 1, 13} {
							if !ok {
								return
							}
							emit("P-h2-shape", b, bodyHex, append(frames[:0], c14H2Frame{s, pad}, c14H2Frame{n - s, pad}), eos, hdrs, io)
						}
					}
				}
			}
		}
	}

	// P-h2-hpack: several exchanges on one connection, every header block of a direction from one HPACK
	// encoder (later blocks refer to the dynamic table), and a table-size schedule per direction applied
	// before the first block of the connection or before a later one
	last := 2
	hdrShapes := []string{"plain", "cont1"}
	if thorough {
		last = 3
		hdrShapes = []string{"plain", "cont1", "padded7+cont2", "priority"}
	}
	for i := range main {
		b := &main[i]
		n := len(b.D)
		bodyHex := hex.EncodeToString(b.D)
		s := 8
		if s > n {
			s = n
		}
		k := 0
		for _, eos := range []string{"flag", "trailers-cont1"} {
			ats := []string{"1h", fmt.Sprintf("%dh", last)}
			if thorough {
				ats = []string{"1h", "2h", "3h"}
				if c14H2TrailersEos(eos) {
					ats = append(ats, "1t", "2t", "3t")
				}
			}
			for _, hdrs := range hdrShapes {
				for _, req := range c14H2Schedules {
					for _, resp := range c14H2Schedules {
						for _, at := range ats {
							if req == "" && resp == "" && at != "1h" {
								continue // nothing to place
							}
							ios := []int{(k % 2) * 3}
							if thorough {
								ios = []int{0, 3}
							}
							k++
							for _, io := range ios {
								for _, server := range []bool{true, false} {
									if !ok {
										return
									}
									c := c14H2Case{Stage: "h2", Part: "P-h2-hpack", Server: server, Hdr: b.Hdr, Body: bodyHex,
										Frames: append(frames[:0], c14H2Frame{s, -1}, c14H2Frame{n - s, 7}), Eos: eos, Hdrs: hdrs, IO: io,
										Streams: last, HpackReq: req, HpackResp: resp, HpackAt: at}
									ok = fn(&c, b.D)
								}
							}
						}
					}
				}
			}
		}
	}
}

// c14H2Schedules: what an HPACK encoder may do to its dynamic table once the peer allows the size (RFC 7541
// section 4.2): nothing; restate the default; grow to 64 KiB (what browsers advertise) or 1 MiB; drop the
// table; drop it and grow.
var c14H2Schedules = []string{"", "4096", "65536", "1048576", "0", "0+65536"}

func c14H2Dedup(vals ...int) []int {
	var out []int
	for _, v := range vals {
		dup := v < 0
		for _, o := range out {
			dup = dup || o == v
		}
		if !dup {
			out = append(out, v)
		}
	}
	return out
}

func c14H2Outcome(c *c14H2Case, obs *c14H2Obs) string {
	padded := "unpadded"
	for _, f := range c.Frames {
		if f.Pad >= 0 {
			padded = "padded"
		}
	}
	side := "client-conn"
	if c.Server {
		side = "server-conn"
	}
	eos := c.Eos
	if i := strings.IndexByte(eos, '-'); i >= 0 {
		eos = eos[:i]
	}
	count := func(evs []c14Ev) (d, s int) {
		for _, e := range evs {
			switch e.K {
			case 'D':
				d++
			case 'S':
				s++
			}
		}
		return
	}
	last := &obs.S[len(obs.S)-1]
	qd, _ := count(last.Req)
	rd, rs := count(last.Resp)
	if c.scripted() {
		return fmt.Sprintf("h2 %s %s eos=%s, exchange %d with table-size updates req=%q resp=%q: req data=%d, resp data=%d eos=%d",
			side, padded, eos, len(obs.S), c.HpackReq, c.HpackResp, qd, rd, rs)
	}
	return fmt.Sprintf("h2 %s %s eos=%s: req data=%d, resp data=%d eos=%d", side, padded, eos, qd, rd, rs)
}

func c14H2Stage(r *rep.Report, deadline time.Time) bool {
	thorough := rep.Thorough()
	start := time.Now()
	cpu := c14CPUMillis()
	defer func() { // informational only
		r.Count("stage-wall-ms:P-h2", time.Since(start).Milliseconds())
		r.Count("stage-cpu-ms:P-h2", c14CPUMillis()-cpu)
	}()
	defer debug.SetGCPercent(debug.SetGCPercent(100)) // footprint only, see stage H
	type canonKey struct {
		server bool
		hdr    c14Hdr
		body   string
	}
	canon := map[canonKey]*c14H2Obs{}
	var k, evals int64
	planned := map[string]int64{}
	ok := true
	// A tracer that misreads frames may take body bytes for envelope prefixes and allocate what they "declare"
	// (up to 4 GiB per end-stream message); do not go on doing that on a shared machine once the point is made.
	const maxViolating = 64
	violating := 0
	c14H2ForEach(thorough, func(c *c14H2Case, body []byte) bool {
		k++
		if r.Shard == 0 {
			planned[c.Part]++
		}
		if !r.Mine(k) {
			return true
		}
		if evals&0xff == 0xff && !deadline.IsZero() && time.Now().After(deadline) {
			ok = false
			return false
		}
		key := canonKey{c.Server, c.Hdr, c.Body}
		base := canon[key]
		if base == nil {
			cc := c14H2Canonical(c, len(body))
			o := c14H2Run(&cc, body)
			base = &o
			canon[key] = base
			// the canonical framing itself is judged by the reference model
			for _, f := range c14H2Judge(&cc, body, base, base) {
				r.Violate(f.Key, f.Detail+"\n  case: "+cc.String(), cc)
			}
		}
		obs := c14H2Run(c, body)
		evals++
		r.NonTrivial("")
		if evals%64 == 1 {
			r.Outcome(c14H2Outcome(c, &obs))
		}
		findings := c14H2Judge(c, body, &obs, base)
		if evals%4096 == 1 || len(findings) > 0 {
			cp := *c
			cp.Frames = append([]c14H2Frame(nil), c.Frames...)
			if len(findings) == 0 {
				last := &obs.S[len(obs.S)-1]
				r.Sample(map[string]any{"case": cp, "request_events": c14EvString(last.Req), "response_events": c14EvString(last.Resp)})
			}
			for _, f := range findings {
				r.Violate(f.Key, f.Detail+"\n  case: "+cp.String(), cp)
			}
			if len(findings) > 0 {
				if violating++; violating >= maxViolating {
					r.NotExhaustive(fmt.Sprintf("stage P stopped after %d violating exchanges in this shard", violating))
					r.Note("stage P stopped after %d violating exchanges in this shard", violating)
					return false
				}
			}
		}
		return true
	})
	r.Eval(evals)
	r.Count("nontrivial:P-h2", evals)
	if r.Shard == 0 && ok && violating < maxViolating {
		for part, n := range planned {
			r.Count("planned-cases:"+part, n)
		}
	}
	r.Note("stage P: %d exchanges over the HTTP/2 conn tracer enumerated (this shard ran %d)", k, evals)
	return ok
}

// c14H2Replay re-runs a recorded case of stage P; false = the record belongs to another stage.
func c14H2Replay(t *testing.T, r *rep.Report, in []byte) bool {
	var rec struct {
		Replay c14H2Case `json:"replay"`
	}
	if err := json.Unmarshal(in, &rec); err != nil || rec.Replay.Stage != "h2" {
		return false
	}
	c := rec.Replay
	body, err := hex.DecodeString(c.Body)
	if err != nil {
		t.Fatalf("bad replay body: %v", err)
	}
	total := 0
	for _, f := range c.Frames {
		total += f.N
	}
	if total != len(body) || len(c.Frames) == 0 {
		t.Fatalf("bad replay file: DATA frames do not add up to the body")
	}
	cc := c14H2Canonical(&c, len(body))
	base := c14H2Run(&cc, body)
	obs := c14H2Run(&c, body)
	fmt.Printf("C14 replay: case %s\n  one unpadded DATA frame: request events %s, response events %s\n", c.String(), c14EvString(base.S[0].Req), c14EvString(base.S[0].Resp))
	for i := range obs.S {
		fmt.Printf("  this framing, exchange %d: request events %s, response events %s, completes=%d\n", i+1, c14EvString(obs.S[i].Req), c14EvString(obs.S[i].Resp), obs.S[i].Completes)
	}
	fmt.Printf("  stray traces=%d panic=%q\n", obs.Strays, obs.Panic)
	r.Eval(1)
	r.NonTrivial("")
	r.Sample(c)
	for _, f := range c14H2Judge(&c, body, &obs, &base) {
		fmt.Printf("C14 replay: still violates %s: %s\n", f.Key, f.Detail)
		r.Violate(f.Key, f.Detail, c)
	}
	return true
}
