package tracer

// C15 (c) — what becomes of the calls of a connection when the connection goes away at ANY point, and
// what the retry collector hands over for histories of attempts spread over (virtual) time.
//
// Family "endings" (also run as unit c16-conn of property C16): two calls on one traced connection, every
// well-formed interleaving; the script is cut after every frame (and in the middle of the next one) and the
// connection ends there in every way a socket can: Close, a Close that fails, the peer closing (io.EOF) or
// resetting, in a Read of its own or together with the last bytes, a Write that fails.  Once the
// connection is gone every named stream that was opened must have yielded exactly one completed trace: the
// complete one if the call was over, otherwise one that ends in an error and holds what had been
// transferred (request line and headers of the last attempt, the complete messages, the response
// headers if they had arrived); calls that never opened a stream and nameless calls yield none.
//
// Family "retries": one test name, histories of 1..4 attempts (refused by the server, succeeds, cancelled by
// the client, reset by the server), the time between the end of one attempt and the start of the next
// taken from {0, 1 s, 2.9 s, 3.1 s, 5 s} — around retryWait — optionally next to another call that is
// refused and never retried; the connection ends right away, 5 s later, or with io.EOF.  Everything
// runs in a testing/synctest bubble: no wall-clock time passes.  Reference model (from the property and the
// documentation of retryWait): a refused attempt is held back; an attempt of the same name that starts
// before the wait has run out replaces it for good, otherwise it is handed over when the wait runs
// out (or when the connection goes away); every other attempt is handed over when it ends.

//
// Family "listener": 2-3 connections accepted from ONE TracingHTTP2Listener (the entry point of the servers),
// histories of refusals / retries / other calls / connections going away / time passing spread over them; see
// the comment of that family below.

import (
	"bytes"
	"encoding/binary"
	"encoding/json"
	"errors"
	"fmt"
	"io"
	"net"
	"os"
	"reflect"
	"runtime/debug"
	"sort"
	"strings"
	"testing"
	"testing/synctest"
	"time"

	"connectrpc.com/conformance/internal/verif/rep"
	"golang.org/x/net/http2"
	"golang.org/x/net/http2/hpack"
)

type c15ConnCase struct {
	Kind   string `json:"kind"` // "ending" | "retry"
	Server bool   `json:"server"`
	// ending
	A      c15Shape `json:"a"`
	B      c15Shape `json:"b"`
	Order  []int    `json:"order,omitempty"`
	Prefix int      `json:"prefix,omitempty"` // frames of the merged script (prologue included) that travel completely
	Half   bool     `json:"half,omitempty"`   // ... and the first half of the next frame
	Part   string   `json:"part,omitempty"`   // frame | whole
	End    string   `json:"end,omitempty"`    // see c15ConnEndings
	// retry
	Hist  string `json:"hist,omitempty"`  // one letter per attempt: R refused, S succeeds, A cancelled by the client, E reset by the server
	Gaps  []int  `json:"gaps,omitempty"`  // milliseconds between the end of attempt i and the start of attempt i+1
	Other bool   `json:"other,omitempty"` // another call (other test name) is refused at time 0 and never retried
	Fin   string `json:"fin,omitempty"`   // close | wait-close | eof
	// listener: operations on the connections accepted from one traced listener, see c15LstOps
	Ops     []string `json:"ops,omitempty"`
	NConn   int      `json:"nconn,omitempty"`
	EndKind string   `json:"endkind,omitempty"` // how an "e" operation ends its connection: eof | close | write-fails
}

// ---------------------------------------------------------------------------
// family "endings"

var c15ConnEndings = []string{"close", "close-fails", "eof", "reset", "eof-with-last-bytes", "reset-with-last-bytes", "write-fails"}

func c15ConnPairs(thorough bool) []c15Pair {
	plain := c15Shape{Named: true, NReq: 1, NResp: 1}
	out := []c15Pair{
		{A: plain, B: plain},
		{A: c15Shape{Named: true, NReq: 2, NResp: 2}, B: c15Shape{Named: true, NReq: 0, Resp: 1}},
		{A: c15Shape{Named: true, NReq: 1, NResp: 1, Bidi: true}, B: c15Shape{Named: true, Cont: true, NReq: 1, ReqEnd: 1, NResp: 0}},
		{A: c15Shape{Named: true, NReq: 1, NResp: 1, Variant: "refused-retry"}, B: plain},
		{A: plain, B: c15Shape{Named: true, NReq: 1, NResp: 1, Variant: "rsts-mid"}},
		{A: c15Shape{Named: true, NReq: 1, NResp: 1, Variant: "rstc-mid"}, B: c15Shape{Named: false, NReq: 1, NResp: 1}},
		{A: plain, B: c15Shape{Named: true, NReq: 1, Variant: "goaway"}},
		{A: c15Shape{Named: true, NReq: 1, NResp: 0, RespCont: true}, B: c15Shape{Named: true, NReq: 1, Variant: "rstc-early"}},
		{A: c15Shape{Named: true, NReq: 1, NResp: 1, Pad: 7 + 1, PadOnly: true}, B: c15Shape{Named: true, NReq: 0, NResp: 1}},
		{A: c15Shape{Named: true, NReq: 1, NResp: 1, ReqTrail: 1}, B: c15Shape{Named: true, NReq: 1, NResp: 0, Bidi: true, ReqTrail: 2}},
	}
	if thorough {
		seen := map[string]bool{}
		for _, p := range out {
			seen[p.A.String()+"|"+p.B.String()] = true
		}
		add := func(a, b c15Shape) {
			if a.Variant == "goaway" || a.Variant == "goaway-late" || seen[a.String()+"|"+b.String()] {
				return
			}
			seen[a.String()+"|"+b.String()] = true
			out = append(out, c15Pair{A: a, B: b})
		}
		q := c15QuickShapes()
		for _, a := range q {
			for _, b := range q {
				add(a, b)
			}
		}
		for _, x := range c15LateShapes(false) {
			add(x, plain)
			add(plain, x)
		}
		for _, x := range c15ChainShapes(false)[:4] {
			add(x, plain)
		}
		wide, _ := c15PieceShapes(false)
		for _, x := range wide {
			add(plain, x)
		}
	}
	return out
}

// c15ConnAttempt: what the script has done to one attempt (one stream) of a call within the prefix.
type c15ConnAttempt struct {
	stream    uint32
	fields    []hpack.HeaderField
	opened    bool // the header block that opens the stream is complete
	reqEnded  bool
	respHdr   bool // the response header block (or the trailers-only block) is complete
	respField []hpack.HeaderField
	refused   bool
	reqData   []byte
	respData  []byte
}

// c15ConnExpect: what the property demands for one call when the connection goes away after the prefix.
type c15ConnExpect struct {
	Traces   int    // 0 or 1
	Complete bool   // the call was over: the trace is the one the whole script demands
	State    string // for the keys
	att      *c15ConnAttempt
}

// c15ConnModel walks the frames that travelled completely (items[:prefix]) — script-derived, independent
// of the implementation.
func c15ConnModel(bt *c15Built, items []c15Item, prefix int) [2]c15ConnExpect {
	var out [2]c15ConnExpect
	var atts [2][]*c15ConnAttempt
	lastEffective := [2]int{-1, -1}
	for i, it := range items {
		if it.Call >= 0 && !it.Late && it.Kind != 'Y' && it.Kind != 'X' && it.Kind != 'N' {
			lastEffective[it.Call] = i
		}
	}
	find := func(call int, stream uint32) *c15ConnAttempt {
		for _, a := range atts[call] {
			if a.stream == stream {
				return a
			}
		}
		return nil
	}
	type open struct {
		it  c15Item
		att *c15ConnAttempt
	}
	var blocks [2]*open // per direction: the header block that is open
	endBlock := func(o *open) {
		it, a := o.it, o.att
		switch {
		case it.Late || a == nil:
		case it.Opens:
			a.opened = true
			a.reqEnded = it.EndStream
		case it.Dir == c15DirReq: // trailers of the request
			a.reqEnded = a.reqEnded || it.EndStream
		case it.Dir == c15DirResp && !a.respHdr:
			a.respHdr, a.respField = true, it.Fields
		}
	}
	for i := 0; i < prefix && i < len(items); i++ {
		it := items[i]
		if it.Call < 0 {
			continue
		}
		switch it.Kind {
		case 'H':
			var a *c15ConnAttempt
			if it.Opens {
				a = &c15ConnAttempt{stream: it.Stream, fields: it.Fields}
				atts[it.Call] = append(atts[it.Call], a)
			} else {
				a = find(it.Call, it.Stream)
			}
			o := &open{it: it, att: a}
			if it.Split {
				blocks[it.Dir] = o
			} else {
				endBlock(o)
			}
		case 'C':
			if !it.More && blocks[it.Dir] != nil {
				endBlock(blocks[it.Dir])
				blocks[it.Dir] = nil
			}
		case 'D':
			a := find(it.Call, it.Stream)
			if a == nil || it.Late {
				break
			}
			if it.Dir == c15DirReq {
				a.reqData = append(a.reqData, it.Data...)
				a.reqEnded = a.reqEnded || it.EndStream
			} else {
				a.respData = append(a.respData, it.Data...)
			}
		case 'R':
			if a := find(it.Call, it.Stream); a != nil {
				a.refused = it.Code == http2.ErrCodeRefusedStream
			}
		}
	}
	for call := 0; call < 2; call++ {
		e := &out[call]
		if bt.wants[call].Name == "" {
			e.State = "nameless"
			continue
		}
		var last *c15ConnAttempt
		for _, a := range atts[call] {
			if a.opened {
				last = a
			}
		}
		switch {
		case last == nil:
			e.State = "not-opened"
		case prefix > lastEffective[call]:
			e.Traces, e.Complete, e.State = 1, true, "call-over"
		default:
			e.Traces, e.att = 1, last
			switch {
			case last.refused:
				e.State = "refused-awaiting-retry"
			case last.reqEnded && last.respHdr:
				e.State = "request-sent-mid-response"
			case last.reqEnded:
				e.State = "request-sent-awaiting-response"
			case last.respHdr:
				e.State = "request-open-mid-response"
			default:
				e.State = "request-open"
			}
		}
	}
	return out
}

// c15ConnEnvelopes: the complete enveloped messages at the start of a body.
func c15ConnEnvelopes(body []byte) []c15Msg {
	var out []c15Msg
	for len(body) >= 5 {
		l := binary.BigEndian.Uint32(body[1:5])
		if uint32(len(body)-5) < l {
			break
		}
		out = append(out, c15Msg{body[0], l})
		body = body[5+l:]
	}
	return out
}

// c15ConnCompleteMsgs: the complete messages a trace reports for one direction; an incomplete one (cut
// by the end of the connection) is tolerated as the last message event of the direction only.
func c15ConnCompleteMsgs(t *Trace, request bool) (msgs []c15Msg, why string) {
	partial := false
	idx := 0
	for _, ev := range t.Events {
		var env *Envelope
		var l uint64
		var mi int
		switch e := ev.(type) {
		case *RequestBodyData:
			if !request {
				continue
			}
			env, l, mi = e.Envelope, e.Len, e.MessageIndex
		case *ResponseBodyData:
			if request {
				continue
			}
			env, l, mi = e.Envelope, e.Len, e.MessageIndex
		default:
			continue
		}
		if partial {
			return msgs, "a message event follows an incomplete message"
		}
		if mi != idx {
			return msgs, fmt.Sprintf("message %d carries index %d", idx, mi)
		}
		idx++
		if env == nil || uint64(env.Len) != l {
			partial = true
			continue
		}
		msgs = append(msgs, c15Msg{env.Flags, env.Len})
	}
	return msgs, ""
}

func c15MsgsEqual(a, b []c15Msg) bool {
	return (len(a) == 0 && len(b) == 0) || reflect.DeepEqual(a, b)
}

// c15ConnJudge: the traces of a case against the model.
func c15ConnJudge(res *c15Result, bt *c15Built, exp [2]c15ConnExpect, side string) []c15Verdict {
	var out []c15Verdict
	if res.Opaque != "" {
		out = append(out, c15Verdict{"not-transparent", res.Opaque})
	}
	if res.Panic != "" {
		return append(out, c15Verdict{"panic:" + res.Panic, "panic on well-formed traffic: " + res.PanicVal})
	}
	if res.BrokenReq || res.BrokenResp {
		return append(out, c15Verdict{"tracer-gave-up", fmt.Sprintf("the frame tracer gave up on well-formed traffic (request direction=%v, response direction=%v)", res.BrokenReq, res.BrokenResp)})
	}
	byName := map[string][]Trace{}
	for _, t := range res.Traces {
		byName[t.TestName] = append(byName[t.TestName], t)
	}
	known := map[string]bool{}
	for call := 0; call < 2; call++ {
		w := &bt.wants[call]
		e := exp[call]
		if w.Name == "" {
			continue
		}
		known[w.Name] = true
		got := byName[w.Name]
		letter := strings.ToUpper(c15Letters[call])
		where := side + ":" + e.State
		switch {
		case len(got) < e.Traces:
			out = append(out, c15Verdict{"conn-end:trace-never-completed:" + where, fmt.Sprintf(
				"call %s (%s) had opened its stream (state when the connection went away: %s) but no completed trace was ever delivered for it, although the connection is gone and nothing can complete it any more",
				letter, bt.shapes[call], e.State)})
			continue
		case len(got) > e.Traces && e.Traces == 0:
			out = append(out, c15Verdict{"conn-end:trace-for-unopened-stream:" + where, fmt.Sprintf("call %s (%s) never opened a stream, yet a trace was delivered: %s", letter, bt.shapes[call], c15DescribeTrace(&got[0]))})
			continue
		case len(got) > e.Traces:
			out = append(out, c15Verdict{"conn-end:trace-completed-twice:" + where, fmt.Sprintf("call %s (%s, state %s): %d traces delivered: %s | %s", letter, bt.shapes[call], e.State, len(got), c15DescribeTrace(&got[0]), c15DescribeTrace(&got[1]))})
			continue
		case e.Traces == 0:
			continue
		}
		if e.Complete {
			// the call was over before the connection went away: the full oracle of the attribution unit
			one := c15Result{Traces: got}
			for _, v := range c15Judge(&one, []c15Want{*w}, []c15Shape{bt.shapes[call]}) {
				out = append(out, c15Verdict{"conn-end:" + v.Key, v.Detail + " (the call was over before the connection went away)"})
			}
			continue
		}
		t := &got[0]
		a := e.att
		bad := func(kind, what string) {
			out = append(out, c15Verdict{"conn-end:" + kind + ":" + where, fmt.Sprintf("call %s (%s, state %s): %s; trace: %s", letter, bt.shapes[call], e.State, what, c15DescribeTrace(t))})
		}
		if t.Request == nil || t.Request.URL == nil || len(t.Events) == 0 {
			bad("trace-wrong-request", "trace has no request")
			continue
		}
		if rs, ok := t.Events[0].(*RequestStart); !ok || rs.Request != t.Request {
			bad("trace-wrong-request", "first event is not the RequestStart of the trace's request")
			continue
		}
		if t.Request.Method != w.Method || t.Request.URL.Path != w.Path || t.Request.URL.Host != w.Host || t.Request.URL.Scheme != w.Scheme {
			bad("trace-wrong-request", fmt.Sprintf("request line: want %s %s://%s%s", w.Method, w.Scheme, w.Host, w.Path))
			continue
		}
		if !c15HdrEqual(t.Request.Header, c15Canon(a.fields)) {
			bad("trace-wrong-request", fmt.Sprintf("request headers: want those of the last attempt that opened a stream: %v", c15Canon(a.fields)))
			continue
		}
		if t.Err == nil {
			bad("trace-wrong-end", "the stream was cut by the end of the connection, but the trace reports a clean end")
			continue
		}
		if a.refused {
			if kind, code := c15ErrCode(t.Err); kind != "stream" || code != uint32(http2.ErrCodeRefusedStream) {
				bad("trace-wrong-end", "the attempt was refused (RST_STREAM REFUSED_STREAM) and no retry opened a stream: the trace must report that reset")
				continue
			}
		}
		reqMsgs, why := c15ConnCompleteMsgs(t, true)
		if wantMsgs := c15ConnEnvelopes(a.reqData); why != "" || !c15MsgsEqual(reqMsgs, wantMsgs) {
			bad("trace-wrong-messages", fmt.Sprintf("complete request messages: got %v %s, transferred %v", reqMsgs, why, wantMsgs))
			continue
		}
		if a.respHdr != (t.Response != nil) {
			bad("trace-wrong-response", fmt.Sprintf("response present=%v, response header block had arrived=%v", t.Response != nil, a.respHdr))
			continue
		}
		if a.respHdr {
			if t.Response.StatusCode != 200 || !c15HdrEqual(t.Response.Header, c15Canon(a.respField)) {
				bad("trace-wrong-response", fmt.Sprintf("response: want 200 %v", c15Canon(a.respField)))
				continue
			}
			respMsgs, why := c15ConnCompleteMsgs(t, false)
			if wantMsgs := c15ConnEnvelopes(a.respData); why != "" || !c15MsgsEqual(respMsgs, wantMsgs) {
				bad("trace-wrong-messages", fmt.Sprintf("complete response messages: got %v %s, transferred %v", respMsgs, why, wantMsgs))
				continue
			}
		}
	}
	names := make([]string, 0, len(byName))
	for n := range byName {
		names = append(names, n)
	}
	sort.Strings(names)
	for _, n := range names {
		if !known[n] {
			out = append(out, c15Verdict{"conn-end:trace-unexpected", fmt.Sprintf("trace for test name %q which no call carries: %s", n, c15DescribeTrace(&byName[n][0]))})
		}
	}
	return out
}

// c15ConnEndingSteps builds the calls of an "ending" case.  ok = false: the case does not exist (the
// ending needs the last call to be a Read of this side with bytes / a frame boundary in the write direction).
func c15ConnEndingSteps(cs *c15ConnCase, items []c15Item, units []c15Unit) (steps []c15Step, fin int, ok bool) {
	if cs.Prefix > len(units) || (cs.Half && cs.Prefix >= len(units)) {
		return nil, 0, false
	}
	played := units[:cs.Prefix:cs.Prefix]
	if cs.Half {
		u := units[cs.Prefix]
		if len(u.Bytes) < 2 {
			return nil, 0, false
		}
		u.Bytes = u.Bytes[:len(u.Bytes)/2]
		played = append(played, u)
	}
	steps = c15Steps(played, c15Part{Mode: cs.Part})
	rd, wr := c15DirResp, c15DirReq
	if cs.Server {
		rd, wr = c15DirReq, c15DirResp
	}
	lastIsReadWithBytes := len(steps) > 0 && steps[len(steps)-1].Dir == rd && len(steps[len(steps)-1].Data) > 0
	switch cs.End {
	case "close":
		return steps, c15FinClose, true
	case "close-fails":
		return steps, c15FinCloseErr, true
	case "eof":
		return steps, c15FinEOF, true
	case "reset":
		return steps, c15FinErr, true
	case "eof-with-last-bytes", "reset-with-last-bytes":
		if !lastIsReadWithBytes {
			return nil, 0, false
		}
		steps = append([]c15Step(nil), steps...)
		if cs.End == "eof-with-last-bytes" {
			steps[len(steps)-1].Err = c15ErrByName("eof")
			return steps, c15FinEOFData, true
		}
		steps[len(steps)-1].Err = c15ErrOther
		return steps, c15FinErrData, true
	case "write-fails":
		// the side writes a PING frame and the socket fails: only at a frame boundary of the write
		// direction, outside a header block of that direction
		if cs.Half && units[cs.Prefix].Dir == wr {
			return nil, 0, false
		}
		for i := cs.Prefix - 1; i >= 0; i-- {
			if items[i].Dir != wr {
				continue
			}
			if (items[i].Kind == 'H' && items[i].Split) || (items[i].Kind == 'C' && items[i].More) {
				return nil, 0, false
			}
			break
		}
		ping := c15Frame(6, 0, 0, 1, 2, 3, 4, 5, 6, 7, 8)
		steps = append(append([]c15Step(nil), steps...), c15Step{Dir: wr, Data: ping, Err: c15ErrOther, N: 0})
		return steps, c15FinClose, true
	}
	panic("c15: unknown ending " + cs.End)
}

func c15ConnRunEnding(cs *c15ConnCase, bt *c15Built, items []c15Item, units []c15Unit) (res c15Result, vs []c15Verdict, exp [2]c15ConnExpect, ok bool) {
	steps, fin, exists := c15ConnEndingSteps(cs, items, units)
	if !exists {
		return res, nil, exp, false
	}
	res = c15Exec(cs.Server, steps, fin)
	exp = c15ConnModel(bt, items, cs.Prefix)
	return res, c15ConnJudge(&res, bt, exp, c15Side(cs.Server)), exp, true
}

type c15ConnRun struct {
	r        *rep.Report
	k        int64
	deadline time.Time
	stopped  bool
}

func (x *c15ConnRun) over() bool {
	if x.stopped {
		return true
	}
	if !x.deadline.IsZero() && time.Now().After(x.deadline) {
		x.r.NotExhaustive("budget reached before the enumeration was complete")
		x.stopped = true
	}
	return x.stopped
}

func (x *c15ConnRun) endingsOfPair(p c15Pair) {
	bt := c15Build(p)
	var orders [][]byte
	c15Interleavings(bt.a, bt.b, func(o []byte) { orders = append(orders, append([]byte(nil), o...)) })
	if x.r.Shard == 0 {
		x.r.Count("endings:interleavings", int64(len(orders)))
	}
	nPro := len(c15Prologue())
	canonical := map[int]bool{0: true, len(orders) / 2: true, len(orders) - 1: true}
	for oi, order := range orders {
		x.k++
		if !x.r.Mine(x.k) {
			continue
		}
		if x.over() {
			return
		}
		items := c15Merge(bt.a, bt.b, order)
		units := c15Encode(items)
		oints := c15OrderInts(order)
		parts := []string{"frame"}
		if canonical[oi] {
			parts = append(parts, "whole")
		}
		for s := 0; s < 2; s++ {
			for prefix := nPro; prefix < len(units); prefix++ {
				for _, half := range []bool{false, true} {
					for _, part := range parts {
						for _, end := range c15ConnEndings {
							cs := &c15ConnCase{Kind: "ending", Server: s == 1, A: p.A, B: p.B, Order: oints, Prefix: prefix, Half: half, Part: part, End: end}
							res, vs, exp, ok := c15ConnRunEnding(cs, bt, items, units)
							if !ok {
								continue
							}
							x.r.Eval(1)
							if exp[0].Traces+exp[1].Traces > 0 {
								x.r.NonTrivial("")
							}
							x.r.Outcome("ending:" + end + ":" + exp[0].State + "/" + exp[1].State)
							if exp[0].att != nil || exp[1].att != nil {
								x.r.Count("endings:cases-with-a-stream-cut-by-the-end-of-the-connection", 1)
							}
							if x.k%499 == 1 && prefix == nPro+3 && !half && end == "eof" && s == 0 {
								x.r.Sample(map[string]any{"case": cs, "frames-travelled": c15ItemNames(items[:prefix]), "states": []string{exp[0].State, exp[1].State}, "traces": len(res.Traces)})
							}
							for _, v := range vs {
								x.r.Violate(v.Key, fmt.Sprintf("%s [side=%s A=%s B=%s order=%v frames travelled=%d (+half of the next=%v) %v partition=%s connection ends by: %s]",
									v.Detail, c15Side(cs.Server), cs.A, cs.B, cs.Order, prefix-nPro, half, c15ItemNames(items[nPro:prefix]), part, end), cs)
							}
						}
					}
				}
			}
		}
	}
}

func c15ItemNames(items []c15Item) []string {
	out := make([]string, len(items))
	for i, it := range items {
		c := "conn"
		if it.Call >= 0 {
			c = strings.ToUpper(c15Letters[it.Call])
		}
		out[i] = c + ":" + it.String()
	}
	return out
}

// ---------------------------------------------------------------------------
// family "retries"

var c15RetryGapsMs = []int{0, 1000, 2900, 3100, 5000}

const c15RetryOutcomes = "RSAE"

func c15RetryName(other bool) string {
	if other {
		return c15Name(1)
	}
	return c15Name(0)
}

func c15AttemptFields(other bool, attempt int) []hpack.HeaderField {
	idx := 0
	if other {
		idx = 1
	}
	f := c15ReqFields(c15Shape{Named: true}, idx, 1)
	return append(f, hpack.HeaderField{Name: "x-attempt-number", Value: fmt.Sprint(attempt)})
}

// c15AttemptItems: the frames of one attempt; they take no time.
func c15AttemptItems(other bool, attempt int, stream uint32, outcome byte) []c15Item {
	idx := 0
	if other {
		idx = 1
	}
	h := c15Item{Call: idx, Dir: c15DirReq, Kind: 'H', Stream: stream, Fields: c15AttemptFields(other, attempt), Opens: true}
	fl, p := c15ReqMsg(idx, 0)
	reqMsg := c15Envelope(fl, p)
	fl, p = c15RespMsg(idx, 0)
	respMsg := c15Envelope(fl, p)
	respH := c15Item{Call: idx, Dir: c15DirResp, Kind: 'H', Stream: stream, Fields: c15RespFields(idx)}
	switch outcome {
	case 'R': // the server refuses the stream as soon as it sees it
		return []c15Item{h, {Call: idx, Dir: c15DirResp, Kind: 'R', Stream: stream, Code: http2.ErrCodeRefusedStream}}
	case 'G': // graceful shutdown: GOAWAY(NO_ERROR) whose last-stream-id is below the stream: not processed, may be retried
		last := uint32(0)
		if stream > 2 {
			last = stream - 2
		}
		return []c15Item{h, {Call: idx, Dir: c15DirResp, Kind: 'G', LastID: last, Code: http2.ErrCodeNo}}
	case 'S':
		return []c15Item{h,
			{Call: idx, Dir: c15DirReq, Kind: 'D', Stream: stream, Data: reqMsg, EndStream: true},
			respH,
			{Call: idx, Dir: c15DirResp, Kind: 'D', Stream: stream, Data: respMsg},
			{Call: idx, Dir: c15DirResp, Kind: 'H', Stream: stream, Fields: c15TrailerFields(idx), EndStream: true}}
	case 'A': // the client gives up
		return []c15Item{h,
			{Call: idx, Dir: c15DirReq, Kind: 'D', Stream: stream, Data: reqMsg},
			{Call: idx, Dir: c15DirReq, Kind: 'R', Stream: stream, Code: http2.ErrCodeCancel}}
	case 'E': // the server fails mid-response
		return []c15Item{h,
			{Call: idx, Dir: c15DirReq, Kind: 'D', Stream: stream, Data: reqMsg, EndStream: true},
			respH,
			{Call: idx, Dir: c15DirResp, Kind: 'R', Stream: stream, Code: http2.ErrCodeInternal}}
	}
	panic("c15: unknown attempt outcome")
}

// c15RetryDelivery: one trace the model hands over.
type c15RetryDelivery struct {
	Attempt int           // 1-based
	Outcome byte          //
	By      time.Duration // no later than this (since the start of the case)
}

// c15RetryModel: reference model of what the collector must receive for the test name of the history.
func c15RetryModel(hist string, gaps []int, fin string) (deliveries []c15RetryDelivery, end time.Duration) {
	var now time.Duration
	pending := -1 // index of the refused attempt that is held back
	var deadline time.Duration
	for i := 0; i < len(hist); i++ {
		if i > 0 {
			now += time.Duration(gaps[i-1]) * time.Millisecond
		}
		if pending >= 0 {
			if now > deadline { // the wait ran out before this attempt began: the refused one was handed over then
				deliveries = append(deliveries, c15RetryDelivery{pending + 1, 'R', deadline})
			}
			pending = -1 // otherwise it is replaced for good
		}
		if hist[i] == 'R' {
			pending, deadline = i, now+retryWait
		} else {
			deliveries = append(deliveries, c15RetryDelivery{i + 1, hist[i], now})
		}
	}
	if fin == "wait-close" {
		now += 5 * time.Second
	}
	if pending >= 0 {
		by := now // handed over when the connection goes away ...
		if deadline < now {
			by = deadline // ... unless the wait ran out first
		}
		deliveries = append(deliveries, c15RetryDelivery{pending + 1, 'R', by})
	}
	return deliveries, now
}

func c15RetrySteps(cs *c15ConnCase) (steps []c15Step, fin int) {
	items := c15Prologue()
	stream := uint32(1)
	if cs.Other {
		items = append(items, c15AttemptItems(true, 1, stream, 'R')...)
		stream += 2
	}
	// the gaps are the positions (in items) before which time passes
	sleepBefore := map[int]time.Duration{}
	for i := 0; i < len(cs.Hist); i++ {
		if i > 0 && cs.Gaps[i-1] > 0 {
			sleepBefore[len(items)] = time.Duration(cs.Gaps[i-1]) * time.Millisecond
		}
		items = append(items, c15AttemptItems(false, i+1, stream, cs.Hist[i])...)
		stream += 2
	}
	units := c15Encode(items)
	for i, u := range units {
		if d := sleepBefore[i]; d > 0 {
			steps = append(steps, c15Step{Sleep: d})
		}
		steps = append(steps, c15Step{Dir: u.Dir, Data: u.Bytes, N: -1})
	}
	switch cs.Fin {
	case "close":
		return steps, c15FinClose
	case "wait-close":
		return append(steps, c15Step{Sleep: 5 * time.Second}), c15FinClose
	case "eof":
		return steps, c15FinEOF
	}
	panic("c15: unknown fin " + cs.Fin)
}

func c15RetryOutcomeOf(t *Trace) byte {
	if t.Err == nil {
		return 'S'
	}
	kind, code := c15ErrCode(t.Err)
	switch {
	case kind == "stream" && code == uint32(http2.ErrCodeRefusedStream):
		return 'R'
	case kind == "stream" && code == uint32(http2.ErrCodeCancel):
		return 'A'
	case kind == "stream" && code == uint32(http2.ErrCodeInternal):
		return 'E'
	case kind == "conn" && code == uint32(http2.ErrCodeNo):
		return 'G'
	}
	return '?'
}

// c15RetryGot: one trace the collector received, as the retry oracle sees it.
type c15RetryGot struct {
	attempt string
	outcome byte
	at      time.Duration
}

func c15RetryGots(res *c15Result) map[string][]c15RetryGot {
	byName := map[string][]c15RetryGot{}
	for i := range res.Traces {
		t := &res.Traces[i]
		g := c15RetryGot{outcome: c15RetryOutcomeOf(t), at: res.TraceAt[i]}
		if t.Request != nil {
			g.attempt = t.Request.Header.Get("X-Attempt-Number")
		}
		byName[t.TestName] = append(byName[t.TestName], g)
	}
	return byName
}

func c15RetryDescribe(gs []c15RetryGot) string {
	var parts []string
	for _, g := range gs {
		parts = append(parts, fmt.Sprintf("attempt %s (%c) at %v", g.attempt, g.outcome, g.at))
	}
	return "[" + strings.Join(parts, ", ") + "]"
}

func c15RetryDescribeModel(ds []c15RetryDelivery) string {
	var parts []string
	for _, d := range ds {
		parts = append(parts, fmt.Sprintf("attempt %d (%c) by %v", d.Attempt, d.Outcome, d.By))
	}
	return "[" + strings.Join(parts, ", ") + "]"
}

// c15RetryCheck compares what the collector received for one test name with the reference model:
// the same attempts in the same order, the same outcomes, none later than the model says.
// key "" = as demanded.
func c15RetryCheck(gs []c15RetryGot, what string, model []c15RetryDelivery) (key, ctx string) {
	ctx = fmt.Sprintf("%s: delivered %s, reference model %s (R = refused, G = dropped by a graceful GOAWAY, S = succeeded, A = cancelled by the client, E = reset by the server; retryWait = %v)", what, c15RetryDescribe(gs), c15RetryDescribeModel(model), retryWait)
	same := len(gs) == len(model)
	for i := 0; same && i < len(gs); i++ {
		same = gs[i].attempt == fmt.Sprint(model[i].Attempt)
	}
	if !same {
		inModel := map[string]bool{}
		for _, d := range model {
			inModel[fmt.Sprint(d.Attempt)] = true
		}
		key = "wrong-traces"
		for _, g := range gs {
			if !inModel[g.attempt] && (g.outcome == 'R' || g.outcome == 'G') {
				key = "refused-attempt-delivered-although-retried-in-time"
			}
		}
		if len(gs) < len(model) && key == "wrong-traces" {
			key = "trace-missing"
		}
		return key, ctx
	}
	for i, g := range gs {
		if g.outcome != model[i].Outcome {
			return "wrong-outcome", ctx
		}
		if g.at > model[i].By {
			return "trace-late", ctx
		}
	}
	return "", ctx
}

// must be called inside a synctest bubble
func c15RunRetryCase(cs *c15ConnCase) (res c15Result, vs []c15Verdict) {
	steps, fin := c15RetrySteps(cs)
	res = c15Exec(cs.Server, steps, fin)
	if res.Opaque != "" {
		vs = append(vs, c15Verdict{"not-transparent", res.Opaque})
	}
	if res.Panic != "" {
		return res, append(vs, c15Verdict{"panic:" + res.Panic, "panic on well-formed traffic: " + res.PanicVal})
	}
	if res.BrokenReq || res.BrokenResp {
		return res, append(vs, c15Verdict{"tracer-gave-up", fmt.Sprintf("the frame tracer gave up on well-formed traffic (request direction=%v, response direction=%v)", res.BrokenReq, res.BrokenResp)})
	}
	model, end := c15RetryModel(cs.Hist, cs.Gaps, cs.Fin)
	byName := c15RetryGots(&res)
	check := func(name, what string, model []c15RetryDelivery) {
		if key, ctx := c15RetryCheck(byName[name], what, model); key != "" {
			vs = append(vs, c15Verdict{"retry-history:" + key, ctx})
		}
	}
	check(c15RetryName(false), "attempts "+cs.Hist, model)
	if cs.Other {
		by := retryWait
		if end < by {
			by = end
		}
		check(c15RetryName(true), "the other call, refused at time 0 and never retried", []c15RetryDelivery{{1, 'R', by}})
	}
	for n := range byName {
		if n != c15RetryName(false) && !(cs.Other && n == c15RetryName(true)) {
			vs = append(vs, c15Verdict{"retry-history:trace-unexpected", fmt.Sprintf("trace for test name %q which no call carries", n)})
		}
	}
	return res, vs
}

func c15RetryDetail(cs *c15ConnCase, v c15Verdict) string {
	return fmt.Sprintf("%s [side=%s history=%s gaps(ms)=%v other-call=%v connection ends by: %s]", v.Detail, c15Side(cs.Server), cs.Hist, cs.Gaps, cs.Other, cs.Fin)
}

func c15RetryHistories(maxLen int) []string {
	var out []string
	level := []string{""}
	for n := 1; n <= maxLen; n++ {
		var next []string
		for _, h := range level {
			for _, o := range c15RetryOutcomes {
				next = append(next, h+string(o))
			}
		}
		out = append(out, next...)
		level = next
	}
	return out
}

func (x *c15ConnRun) retries(t *testing.T, thorough bool) {
	maxLen := 4
	for _, hist := range c15RetryHistories(maxLen) {
		if x.over() {
			return
		}
		// gaps only matter after a refusal; after any other outcome the quick tier takes 0 and 3.1 s
		var gapSets [][]int
		var rec func(prefix []int)
		rec = func(prefix []int) {
			if len(prefix) == len(hist)-1 {
				gapSets = append(gapSets, append([]int(nil), prefix...))
				return
			}
			choices := c15RetryGapsMs
			if hist[len(prefix)] != 'R' && !thorough {
				choices = []int{0, 3100}
			}
			for _, g := range choices {
				rec(append(prefix, g))
			}
		}
		rec(nil)
		synctest.Test(t, func(t *testing.T) {
			for _, gaps := range gapSets {
				x.k++
				if !x.r.Mine(x.k) {
					continue
				}
				for _, other := range []bool{false, true} {
					for _, fin := range []string{"close", "wait-close", "eof"} {
						for s := 0; s < 2; s++ {
							cs := &c15ConnCase{Kind: "retry", Server: s == 1, Hist: hist, Gaps: gaps, Other: other, Fin: fin}
							res, vs := c15RunRetryCase(cs)
							x.r.Eval(1)
							x.r.NonTrivial("")
							x.r.Outcome(fmt.Sprintf("retry:%d-attempts:%d-traces", len(hist), len(res.Traces)))
							if strings.Contains(hist, "RR") {
								x.r.Count("retries:cases-with-a-refused-retry", 1)
							}
							if x.k%211 == 1 && s == 0 && fin == "wait-close" && !other {
								m, _ := c15RetryModel(hist, gaps, fin)
								x.r.Sample(map[string]any{"case": cs, "model": fmt.Sprint(m), "traces": len(res.Traces)})
							}
							for _, v := range vs {
								x.r.Violate(v.Key, c15RetryDetail(cs, v), cs)
							}
						}
					}
				}
			}
		})
	}
}

// ---------------------------------------------------------------------------
// family "listener": several connections accepted from ONE TracingHTTP2Listener
//
// The server-side entry point of the reference servers is TracingHTTP2Listener(l, collector).Accept.  A
// scripted net.Listener hands out scripted connections; a history is a sequence of operations, each on
// one of the connections, in virtual time:
//
//	r<c>  an attempt of test name A on connection c which the server refuses (RST_STREAM REFUSED_STREAM)
//	g<c>  ... which the server drops by a graceful GOAWAY(NO_ERROR) with a lower last-stream-id
//	      (no further stream on that connection afterwards)
//	s<c>  an attempt of test name A on connection c that succeeds
//	n<c>  a call of ANOTHER test name on connection c that succeeds (at most once per history)
//	e<c>  connection c goes away (EndKind: the peer closes = io.EOF on Read then Close | Close | a Write fails then Close)
//	w     2 s pass (one: still within retryWait; two: beyond it)
//
// At the end the connections still open are closed in order.  Reference model (same rules as the family
// "retries", per connection because "the connection going away" is an event of ONE connection): a refused
// attempt is held back; an attempt of the same name that starts ON THE SAME CONNECTION before retryWait has
// passed replaces it for good; otherwise it is handed over when the wait runs out or when ITS connection goes
// away; whatever happens to another connection changes nothing.  The property says nothing about a retry that
// travels on another connection while the refused attempt is still held back: for such histories only "no
// panic, the tracer does not give up, every successful attempt's trace is handed over, the other name exactly
// once" is demanded.

type c15Listener struct {
	conns  []*c15Conn
	next   int
	closed bool
}

var c15ErrAccept = errors.New("c15: accept failed")

func (l *c15Listener) Accept() (net.Conn, error) {
	if l.next >= len(l.conns) {
		return nil, c15ErrAccept
	}
	c := l.conns[l.next]
	l.next++
	return c, nil
}
func (l *c15Listener) Close() error   { l.closed = true; return nil }
func (l *c15Listener) Addr() net.Addr { return c15Addr{} }

func c15LstOpConn(op string) int { return int(op[1] - '0') }

// c15LstHistories: every well-formed history of 2..maxLen operations that contains a refusal, the first
// refusal on connection 0 (the connections are interchangeable), at most three attempts of name A.
func c15LstHistories(nconn, maxLen int) [][]string {
	var alphabet []string
	for _, k := range "rgsne" {
		for c := 0; c < nconn; c++ {
			alphabet = append(alphabet, fmt.Sprintf("%c%d", k, c))
		}
	}
	alphabet = append(alphabet, "w")
	var out [][]string
	var rec func(h []string)
	rec = func(h []string) {
		if len(h) >= 2 {
			refusal := false
			for _, op := range h {
				refusal = refusal || op[0] == 'r' || op[0] == 'g'
			}
			if refusal && !(h[len(h)-1] == "w" && h[len(h)-2] == "w" && len(h) >= 3 && h[len(h)-3] == "w") {
				out = append(out, append([]string(nil), h...))
			}
		}
		if len(h) == maxLen {
			return
		}
		ended := make([]bool, nconn)
		noStreams := make([]bool, nconn)
		attempts, others, refusals, trailingW := 0, 0, 0, 0
		for _, op := range h {
			if op == "w" {
				trailingW++
				continue
			}
			trailingW = 0
			c := c15LstOpConn(op)
			switch op[0] {
			case 'r', 'g', 's':
				attempts++
				if op[0] != 's' {
					refusals++
				}
				if op[0] == 'g' {
					noStreams[c] = true
				}
			case 'n':
				others++
			case 'e':
				ended[c] = true
			}
		}
		for _, op := range alphabet {
			if op == "w" {
				if len(h) == 0 || trailingW >= 2 {
					continue
				}
				rec(append(h, op))
				continue
			}
			c := c15LstOpConn(op)
			if ended[c] {
				continue
			}
			switch op[0] {
			case 'r', 'g', 's':
				if noStreams[c] || attempts >= 3 {
					continue
				}
				if refusals == 0 && op[0] != 's' && c != 0 { // the first refusal happens on connection 0
					continue
				}
			case 'n':
				if noStreams[c] || others >= 1 {
					continue
				}
			}
			rec(append(h, op))
		}
	}
	rec(nil)
	return out
}

type c15LstExpect struct {
	A      []c15RetryDelivery // deliveries of test name A (strict unless Cross)
	Cross  bool               // an attempt of A started on one connection while a refused one was held back on another
	Succ   []int              // attempts of A that succeeded
	Other  bool               // the other test name occurs (exactly one trace, a success)
	OtherT time.Duration
	End    time.Duration
}

func c15LstModel(ops []string, nconn int) c15LstExpect {
	var e c15LstExpect
	type held struct {
		attempt  int
		outcome  byte
		deadline time.Duration
	}
	pending := make([]*held, nconn)
	var now time.Duration
	expire := func() { // waits that have run out, in the order of their deadlines
		for {
			best := -1
			for c, p := range pending {
				if p != nil && p.deadline < now && (best < 0 || p.deadline < pending[best].deadline) {
					best = c
				}
			}
			if best < 0 {
				return
			}
			e.A = append(e.A, c15RetryDelivery{pending[best].attempt, pending[best].outcome, pending[best].deadline})
			pending[best] = nil
		}
	}
	gone := func(c int) {
		expire()
		if p := pending[c]; p != nil {
			e.A = append(e.A, c15RetryDelivery{p.attempt, p.outcome, now})
			pending[c] = nil
		}
	}
	ended := make([]bool, nconn)
	attempt := 0
	for _, op := range ops {
		if op == "w" {
			now += 2 * time.Second
			continue
		}
		c := c15LstOpConn(op)
		switch op[0] {
		case 'r', 'g', 's':
			attempt++
			expire()
			pending[c] = nil // replaced for good
			for d, p := range pending {
				if d != c && p != nil {
					e.Cross = true
				}
			}
			if op[0] == 's' {
				e.A = append(e.A, c15RetryDelivery{attempt, 'S', now})
				e.Succ = append(e.Succ, attempt)
			} else {
				pending[c] = &held{attempt, byte(op[0] - 'a' + 'A'), now + retryWait}
			}
		case 'n':
			e.Other, e.OtherT = true, now
		case 'e':
			gone(c)
			ended[c] = true
		}
	}
	for c := 0; c < nconn; c++ {
		if !ended[c] {
			gone(c)
		}
	}
	e.End = now
	return e
}

// must be called inside a synctest bubble
func c15RunLstCase(cs *c15ConnCase) (res c15Result, vs []c15Verdict) {
	nconn := cs.NConn
	unders := make([]*c15Conn, nconn)
	for i := range unders {
		unders[i] = &c15Conn{wrN: -1}
	}
	lst := &c15Listener{conns: unders}
	col := &c15Collector{}
	start := time.Now()
	var traced net.Listener
	if !c15Guard("TracingHTTP2Listener", &res, func() { traced = TracingHTTP2Listener(lst, col) }) {
		return res, []c15Verdict{{"panic:" + res.Panic, res.PanicVal}}
	}
	conns := make([]net.Conn, nconn)
	encs := make([][2]*c15DirEnc, nconn)
	streams := make([]uint32, nconn)
	note := func(format string, a ...any) {
		if res.Opaque == "" {
			res.Opaque = fmt.Sprintf(format, a...)
		}
	}
	alive := true
	send := func(c int, items []c15Item) {
		for i := range items {
			if !alive {
				return
			}
			it := &items[i]
			data := encs[c][it.Dir].encode(it)
			under := unders[c]
			res.Steps++
			if it.Dir == c15DirReq { // the server reads what the client sent
				under.rdData, under.rdErr = data, nil
				buf := make([]byte, len(data)+4)
				alive = c15Guard("Read", &res, func() {
					if n, err := conns[c].Read(buf); n != len(data) || err != nil || !bytes.Equal(buf[:n], data) {
						note("connection %d Read: (%d, %v), underlying returned (%d, nil)", c, n, err, len(data))
					}
				})
			} else {
				under.wrN, under.wrErr = -1, nil
				alive = c15Guard("Write", &res, func() {
					if n, err := conns[c].Write(data); n != len(data) || err != nil || !bytes.Equal(under.lastBytes, data) {
						note("connection %d Write: (%d, %v), underlying returned (%d, nil)", c, n, err, len(data))
					}
				})
			}
		}
	}
	for c := 0; c < nconn && alive; c++ {
		alive = c15Guard("Accept", &res, func() {
			conn, err := traced.Accept()
			if err != nil || conn == nil {
				note("Accept %d: (%v, %v), the underlying listener returned a connection", c, conn, err)
				conn = unders[c]
			}
			conns[c] = conn
		})
		encs[c] = [2]*c15DirEnc{c15NewDirEnc(), c15NewDirEnc()}
		streams[c] = 1
		if alive {
			send(c, c15Prologue())
		}
	}
	if alive { // once its connections are handed out the listener reports its own errors unchanged
		c15Guard("Accept", &res, func() {
			if conn, err := traced.Accept(); conn != nil || err != c15ErrAccept {
				note("Accept after the last connection: (%v, %v), the underlying listener returned (nil, %v)", conn, err, c15ErrAccept)
			}
		})
	}
	closeConn := func(c int) {
		unders[c].clErr = nil
		if !c15Guard("Close", &res, func() { _ = conns[c].Close() }) {
			alive = false
		}
	}
	ended := make([]bool, nconn)
	attempt := 0
	for _, op := range cs.Ops {
		if !alive {
			break
		}
		if op == "w" {
			time.Sleep(2 * time.Second)
			continue
		}
		c := c15LstOpConn(op)
		switch op[0] {
		case 'r', 'g', 's':
			attempt++
			send(c, c15AttemptItems(false, attempt, streams[c], byte(op[0]-'a'+'A')))
			streams[c] += 2
		case 'n':
			send(c, c15AttemptItems(true, 1, streams[c], 'S'))
			streams[c] += 2
		case 'e':
			ended[c] = true
			switch cs.EndKind {
			case "eof":
				unders[c].rdData, unders[c].rdErr = nil, io.EOF
				alive = c15Guard("Read", &res, func() {
					if n, err := conns[c].Read(make([]byte, 16)); n != 0 || err != io.EOF {
						note("connection %d Read: (%d, %v), underlying returned (0, EOF)", c, n, err)
					}
				})
			case "write-fails":
				ping := encs[c][c15DirResp].encode(&c15Item{Kind: 'N', Dir: c15DirResp})
				unders[c].wrN, unders[c].wrErr = 0, c15ErrOther
				alive = c15Guard("Write", &res, func() {
					if n, err := conns[c].Write(ping); n != 0 || err != c15ErrOther {
						note("connection %d Write: (%d, %v), underlying returned (0, %v)", c, n, err, c15ErrOther)
					}
				})
			case "close":
			default:
				panic("c15: unknown end kind " + cs.EndKind)
			}
			if alive {
				closeConn(c)
			}
		}
	}
	for c := 0; c < nconn && alive; c++ {
		if !ended[c] {
			closeConn(c)
		}
	}
	for c := 0; c < nconn; c++ {
		if tc, ok := conns[c].(*tracingHTTP2Conn); ok {
			res.BrokenReq = res.BrokenReq || tc.readTracer.broken
			res.BrokenResp = res.BrokenResp || tc.writeTracer.broken
		}
	}
	col.mu.Lock()
	res.Traces = append([]Trace(nil), col.traces...)
	for _, at := range col.at {
		res.TraceAt = append(res.TraceAt, at.Sub(start))
	}
	col.mu.Unlock()

	if res.Opaque != "" {
		vs = append(vs, c15Verdict{"listener:not-transparent", res.Opaque})
	}
	if res.Panic != "" {
		return res, append(vs, c15Verdict{"panic:" + res.Panic, "panic on well-formed traffic: " + res.PanicVal})
	}
	if res.BrokenReq || res.BrokenResp {
		return res, append(vs, c15Verdict{"tracer-gave-up", fmt.Sprintf("the frame tracer of a connection gave up on well-formed traffic (request direction=%v, response direction=%v)", res.BrokenReq, res.BrokenResp)})
	}
	exp := c15LstModel(cs.Ops, nconn)
	byName := c15RetryGots(&res)
	gsA := byName[c15RetryName(false)]
	if !exp.Cross {
		if key, ctx := c15RetryCheck(gsA, "test name A over the connections of one listener", exp.A); key != "" {
			vs = append(vs, c15Verdict{"listener:" + key, ctx})
		}
	} else {
		for _, a := range exp.Succ {
			n := 0
			for _, g := range gsA {
				if g.attempt == fmt.Sprint(a) && g.outcome == 'S' {
					n++
				}
			}
			if n != 1 {
				vs = append(vs, c15Verdict{"listener:trace-of-successful-attempt-missing", fmt.Sprintf("attempt %d of test name A succeeded (on another connection than the one that holds back a refused attempt): its trace was handed over %d times; delivered %s", a, n, c15RetryDescribe(gsA))})
				break
			}
		}
	}
	gsB := byName[c15RetryName(true)]
	if exp.Other {
		if key, ctx := c15RetryCheck(gsB, "the call of the other test name", []c15RetryDelivery{{1, 'S', exp.OtherT}}); key != "" {
			vs = append(vs, c15Verdict{"listener:other-call:" + key, ctx})
		}
	}
	for n := range byName {
		if n != c15RetryName(false) && !(exp.Other && n == c15RetryName(true)) {
			vs = append(vs, c15Verdict{"listener:trace-unexpected", fmt.Sprintf("trace for test name %q which no call carries", n)})
		}
	}
	return res, vs
}

func c15LstDetail(cs *c15ConnCase, v c15Verdict) string {
	return fmt.Sprintf("%s [TracingHTTP2Listener, %d connections accepted; operations %v (r<c> / g<c> = attempt of A on connection c refused by RST_STREAM / dropped by GOAWAY, s<c> = attempt of A succeeds, n<c> = call of another name, e<c> = connection c goes away by %s, w = 2 s pass); remaining connections closed at the end]", v.Detail, cs.NConn, cs.Ops, cs.EndKind)
}

var c15LstEndKinds = []string{"eof", "close", "write-fails"}

func c15LstBounds(thorough bool) (bounds [][2]int) { // (connections, longest history)
	if thorough {
		return [][2]int{{2, 6}, {3, 5}}
	}
	return [][2]int{{2, 5}, {3, 4}}
}

func (x *c15ConnRun) listeners(t *testing.T, thorough bool) {
	for _, b := range c15LstBounds(thorough) {
		hists := c15LstHistories(b[0], b[1])
		if x.r.Shard == 0 {
			x.r.Count(fmt.Sprintf("listener:histories-%d-connections", b[0]), int64(len(hists)))
		}
		const batch = 64
		for lo := 0; lo < len(hists); lo += batch {
			if x.over() {
				return
			}
			hi := min(lo+batch, len(hists))
			x.k++
			if !x.r.Mine(x.k) {
				continue
			}
			synctest.Test(t, func(t *testing.T) {
				for _, ops := range hists[lo:hi] {
					for _, kind := range c15LstEndKinds {
						hasEnd := false
						for _, op := range ops {
							hasEnd = hasEnd || op[0] == 'e'
						}
						if !hasEnd && kind != "close" {
							continue
						}
						cs := &c15ConnCase{Kind: "listener", Server: true, Ops: ops, NConn: b[0], EndKind: kind}
						res, vs := c15RunLstCase(cs)
						exp := c15LstModel(ops, b[0])
						x.r.Eval(1)
						x.r.NonTrivial("")
						x.r.Outcome(fmt.Sprintf("listener:%d-connections:%d-traces", b[0], len(res.Traces)))
						if exp.Cross {
							x.r.Count("listener:cases-with-a-retry-on-another-connection(weak-oracle)", 1)
						} else {
							x.r.Count("listener:cases-strict-oracle", 1)
						}
						if x.k%97 == 1 && kind == "eof" && len(ops) == b[1] {
							x.r.Sample(map[string]any{"case": cs, "model": c15RetryDescribeModel(exp.A), "cross": exp.Cross, "traces": len(res.Traces)})
						}
						for _, v := range vs {
							x.r.Violate(v.Key, c15LstDetail(cs, v), cs)
						}
					}
				}
			})
		}
	}
}

// ---------------------------------------------------------------------------

func c15ConnFamilies() map[string]bool {
	sel := os.Getenv("VERIF_C15_CONN")
	if sel == "" {
		sel = "endings,retries,listener"
	}
	m := map[string]bool{}
	for _, f := range strings.Split(sel, ",") {
		m[strings.TrimSpace(f)] = true
	}
	return m
}

func TestVerifC15Conn(t *testing.T) {
	r := rep.New("c15-conn")
	defer r.Write()
	fam := c15ConnFamilies()
	var rules []string
	if fam["endings"] {
		rules = append(rules, "ending case = (ordered pair of call shapes on streams 1 and 3, one well-formed interleaving of their frames, side client|server, number of frames that travel completely (every prefix of the script, optionally plus the first half of the next frame), partition per frame | whole runs, way the connection goes away there: Close | Close fails | io.EOF | reset in a Read of its own | io.EOF / reset together with the last bytes | a Write (PING) fails); non-trivial = at least one named stream had been opened, so exactly one completed trace is demanded")
	}
	if fam["retries"] {
		rules = append(rules, "retry case = (history of 1..4 attempts of one test name, each refused | succeeds | cancelled by the client | reset by the server, time between the end of one attempt and the start of the next from {0, 1 s, 2.9 s, 3.1 s, 5 s} (virtual), with or without another call that is refused and never retried, connection ends at once | 5 s later | with io.EOF, side); cases distinct by construction, each demands at least one trace")
	}
	if fam["listener"] {
		rules = append(rules, "listener case = (2 or 3 connections accepted from one TracingHTTP2Listener, history of operations {attempt of name A on connection c refused by RST_STREAM | dropped by graceful GOAWAY | succeeds, call of another name on c, connection c goes away, 2 s pass} that contains a refusal (first refusal on connection 0), way a connection goes away: io.EOF | Close | failing Write); distinct by construction, each demands at least one trace")
	}
	r.Rule = strings.Join(rules, " || ")
	if in := rep.ReplayInput(); in != nil {
		c15ReplayConn(t, r, in)
		return
	}
	thorough := rep.Thorough()
	defer debug.SetGCPercent(debug.SetGCPercent(1000))
	x := &c15ConnRun{r: r, deadline: rep.Deadline()}
	if fam["retries"] {
		x.retries(t, thorough)
	}
	if fam["listener"] {
		x.listeners(t, thorough)
	}
	if fam["endings"] {
		pairs := c15ConnPairs(thorough)
		if r.Shard == 0 {
			r.Count("endings:shape-pairs", int64(len(pairs)))
		}
		for _, p := range pairs {
			if x.over() {
				break
			}
			synctest.Test(t, func(t *testing.T) { x.endingsOfPair(p) })
		}
	}
	r.Extra["bound"] = fmt.Sprintf("endings: %d quick / %d thorough shape pairs, all interleavings, every prefix of the script and every prefix plus half a frame, %d ways for the connection to go away, both sides; retries: histories of up to 4 attempts with 4 outcomes each, gaps from %v ms after a refusal (quick: {0, 3100} after another outcome), 2 x 3 x 2 surroundings; listener: histories of 2..5 operations over 2 connections and 2..4 over 3 (thorough 6 / 5), at most 3 attempts of the retried name, 3 ways for a connection to go away",
		len(c15ConnPairs(false)), len(c15ConnPairs(true)), len(c15ConnEndings), c15RetryGapsMs)
}

func c15ReplayConn(t *testing.T, r *rep.Report, in []byte) {
	var rec struct {
		Key    string          `json:"key"`
		Replay json.RawMessage `json:"replay"`
	}
	if err := json.Unmarshal(in, &rec); err != nil {
		t.Fatalf("replay file: %v", err)
	}
	var cs c15ConnCase
	if err := json.Unmarshal(rec.Replay, &cs); err != nil {
		t.Fatalf("replay case: %v", err)
	}
	synctest.Test(t, func(t *testing.T) {
		var res c15Result
		var vs []c15Verdict
		switch cs.Kind {
		case "ending":
			bt := c15Build(c15Pair{A: cs.A, B: cs.B})
			items := c15Merge(bt.a, bt.b, c15OrderBytes(cs.Order))
			units := c15Encode(items)
			var exp [2]c15ConnExpect
			var ok bool
			res, vs, exp, ok = c15ConnRunEnding(&cs, bt, items, units)
			fmt.Printf("replay %s: side=%s ending=%s prefix=%d half=%v exists=%v\n frames travelled: %v\n model: A %s (%d trace), B %s (%d trace)\n", rec.Key, c15Side(cs.Server), cs.End, cs.Prefix, cs.Half, ok,
				c15ItemNames(items[:min(cs.Prefix, len(items))]), exp[0].State, exp[0].Traces, exp[1].State, exp[1].Traces)
			for i := range vs {
				vs[i].Detail = fmt.Sprintf("%s [side=%s A=%s B=%s order=%v prefix=%d half=%v partition=%s connection ends by: %s]", vs[i].Detail, c15Side(cs.Server), cs.A, cs.B, cs.Order, cs.Prefix, cs.Half, cs.Part, cs.End)
			}
		case "retry":
			res, vs = c15RunRetryCase(&cs)
			m, end := c15RetryModel(cs.Hist, cs.Gaps, cs.Fin)
			fmt.Printf("replay %s: side=%s history=%s gaps=%v other=%v fin=%s\n model: %v, connection gone at %v\n", rec.Key, c15Side(cs.Server), cs.Hist, cs.Gaps, cs.Other, cs.Fin, m, end)
			for i := range vs {
				vs[i].Detail = c15RetryDetail(&cs, vs[i])
			}
		case "listener":
			res, vs = c15RunLstCase(&cs)
			exp := c15LstModel(cs.Ops, cs.NConn)
			fmt.Printf("replay %s: listener with %d connections, operations %v, connections end by %s\n model for name A: %s (retry on another connection while a refused attempt is held back: %v), connections gone at %v\n", rec.Key, cs.NConn, cs.Ops, cs.EndKind, c15RetryDescribeModel(exp.A), exp.Cross, exp.End)
			for i := range vs {
				vs[i].Detail = c15LstDetail(&cs, vs[i])
			}
		default:
			t.Fatalf("replay case of unknown kind %q", cs.Kind)
		}
		fmt.Printf(" panic=%q (%s) opaque=%q gaveup(req=%v,resp=%v) traces=%d\n", res.Panic, res.PanicVal, res.Opaque, res.BrokenReq, res.BrokenResp, len(res.Traces))
		for i := range res.Traces {
			fmt.Printf("  trace at %v: %s\n", res.TraceAt[i], c15DescribeTrace(&res.Traces[i]))
		}
		r.Eval(1)
		r.NonTrivial("")
		for _, v := range vs {
			fmt.Printf(" verdict %s: %s\n", v.Key, v.Detail)
			r.Violate(v.Key, v.Detail, cs)
		}
	})
}
