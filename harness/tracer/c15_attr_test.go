package tracer

// C15 (b) — attribution.  Two calls (stream ids 1 and 3, retries 5 and 7) on one
// traced connection; every well-formed interleaving of their frame sequences,
// several partitions of the two byte streams into Read/Write calls, as client
// and as server.  Each case is judged against the trace the scripts demand.

import (
	"encoding/json"
	"fmt"
	"io"
	"os"
	"runtime/debug"
	"sort"
	"strings"
	"testing"
	"testing/synctest"
	"time"

	"connectrpc.com/conformance/internal/verif/rep"
)

type c15AttrCase struct {
	Kind      string   `json:"kind"` // "attr"
	Server    bool     `json:"server"`
	A         c15Shape `json:"a"`
	B         c15Shape `json:"b"`
	Order     []int    `json:"order"` // which call emits the next frame
	Part      c15Part  `json:"part"`
	Fin       int      `json:"fin"`
	TimeoutAt int      `json:"timeout_at"` // >=0: a Read returning (0, timeout) is inserted before this step; -1 none
	// with TimeoutAt >= 0: nothing is inserted; the call at that step, a Read, returns its bytes TOGETHER WITH the timeout error
	TimeoutData bool   `json:"timeout_data,omitempty"`
	Tab         c15Tab `json:"tab"` // HPACK dynamic-table-size history of each direction
}

func c15QuickShapes() []c15Shape {
	return []c15Shape{
		{Named: true, NReq: 0, Resp: 1},
		{Named: true, NReq: 1, NResp: 1},
		{Named: true, Cont: true, NReq: 1, ReqEnd: 1, NResp: 0},
		{Named: true, NReq: 2, NResp: 2},
		{Named: true, NReq: 1, NResp: 1, Bidi: true},
		{Named: true, NReq: 1, NResp: 0, RespCont: true},
		{Named: true, NReq: 1, Variant: "rstc-early"},
		{Named: true, NReq: 1, NResp: 1, Variant: "rstc-mid"},
		{Named: true, NReq: 1, Variant: "rsts-early"},
		{Named: true, NReq: 1, NResp: 1, Variant: "rsts-mid"},
		{Named: true, NReq: 1, NResp: 1, Variant: "refused-retry"},
		{Named: true, NReq: 1, Variant: "goaway"},
		{Named: false, NReq: 1, NResp: 1},
		{Named: false, NReq: 1, Resp: 1},
	}
}

// c15ChainShapes: header blocks of three and four fragments (HEADERS + 2..3
// CONTINUATION frames) in the request header block, the response header block,
// the trailers and the trailers-only block, alone and combined, named and not.
func c15ChainShapes(thorough bool) []c15Shape {
	out := []c15Shape{
		{Named: true, Cont: true, ContN: 2, NReq: 1, NResp: 1},
		{Named: true, Cont: true, ContN: 3, NReq: 0, Resp: 1, RespCont: true, RespContN: 2},
		{Named: true, NReq: 1, NResp: 1, RespHdrCont: 2, RespCont: true, RespContN: 3},
		{Named: true, NReq: 1, ReqEnd: 1, NResp: 0, Bidi: true, RespHdrCont: 3},
		{Named: true, Cont: true, ContN: 2, NReq: 1, NResp: 1, RespCont: true, RespContN: 2, Variant: "refused-retry"},
		{Named: false, Cont: true, ContN: 2, NReq: 1, NResp: 1, RespHdrCont: 2, RespCont: true, RespContN: 2},
	}
	if thorough {
		for n := 2; n <= 3; n++ {
			out = append(out,
				c15Shape{Named: true, Cont: true, ContN: n, NReq: 0, NResp: 1},
				c15Shape{Named: true, Cont: true, ContN: n, NReq: 2, ReqEnd: 1, NResp: 0},
				c15Shape{Named: true, NReq: 1, NResp: 1, RespHdrCont: n},
				c15Shape{Named: true, NReq: 1, NResp: 2, RespCont: true, RespContN: n},
				c15Shape{Named: true, NReq: 1, Resp: 1, RespCont: true, RespContN: n},
				c15Shape{Named: true, Cont: true, ContN: n, NReq: 1, NResp: 1, RespHdrCont: 5 - n, RespCont: true, RespContN: n},
				c15Shape{Named: true, Cont: true, ContN: n, NReq: 1, Variant: "rstc-early"},
				c15Shape{Named: true, NReq: 1, NResp: 1, RespHdrCont: n, Variant: "rsts-mid"},
				c15Shape{Named: true, NReq: 1, NResp: 1, Bidi: true, RespHdrCont: n, Variant: "rstc-mid"},
				c15Shape{Named: true, Cont: true, ContN: n, NReq: 1, Variant: "goaway"},
			)
		}
		out = append(out,
			c15Shape{Named: true, Cont: true, ContN: 3, NReq: 1, Resp: 1, Variant: "refused-retry"},
			c15Shape{Named: false, Cont: true, ContN: 3, NReq: 0, Resp: 1, RespCont: true, RespContN: 3},
		)
	}
	return out
}

// c15ChainPartners: the calls a chain shape shares the connection with (besides
// every chain shape): single-frame blocks, HEADERS + one CONTINUATION on either
// side, a reset, a call without test name.
func c15ChainPartners() []c15Shape {
	return []c15Shape{
		{Named: true, NReq: 1, NResp: 1},
		{Named: true, Cont: true, NReq: 1, ReqEnd: 1, NResp: 0},
		{Named: true, NReq: 1, NResp: 0, RespCont: true},
		{Named: true, NReq: 1, NResp: 1, Variant: "rsts-mid"},
		{Named: false, NReq: 1, NResp: 1},
	}
}

// c15LateShapes: the stream goes away (client RST_STREAM, or GOAWAY) while frames
// of the server are still in flight; they arrive afterwards.  Each late header
// block carries fields that are new to the HPACK dynamic table of the response
// direction (x-resp / x-trail of that call, and content-type / x-shared /
// grpc-status when it is the first block of the connection that carries them), and the
// response blocks of the other call, sent later, refer to the table by index.
func c15LateShapes(thorough bool) []c15Shape {
	out := []c15Shape{
		{Named: true, NReq: 1, Variant: "rstc-late-hdr"},
		{Named: true, NReq: 1, NResp: 1, Variant: "rstc-late-trail"},
		{Named: true, NReq: 1, Variant: "goaway-late"},
		{Named: false, NReq: 0, LateData: true, Variant: "rstc-late-hdr"},
	}
	if thorough {
		out = append(out,
			c15Shape{Named: true, NReq: 0, LateData: true, Variant: "rstc-late-hdr"},
			c15Shape{Named: true, NReq: 1, RespHdrCont: 1, Variant: "rstc-late-hdr"},
			c15Shape{Named: true, Cont: true, NReq: 1, RespHdrCont: 2, RespCont: true, RespContN: 2, Variant: "rstc-late-hdr"},
			c15Shape{Named: true, NReq: 2, NResp: 2, LateData: true, Variant: "rstc-late-trail"},
			c15Shape{Named: true, NReq: 1, NResp: 0, Bidi: true, Variant: "rstc-late-trail"},
			c15Shape{Named: true, NReq: 1, NResp: 1, RespCont: true, Variant: "rstc-late-trail"},
			c15Shape{Named: true, NReq: 0, LateData: true, Variant: "goaway-late"},
			c15Shape{Named: true, NReq: 1, RespHdrCont: 1, RespCont: true, Variant: "goaway-late"},
			c15Shape{Named: false, NReq: 1, NResp: 1, Variant: "rstc-late-trail"},
			c15Shape{Named: false, NReq: 1, Variant: "goaway-late"},
		)
	}
	return out
}

// c15LatePartners: the other call of a connection with a late shape; its response
// header blocks (headers, trailers, trailers-only, with and without CONTINUATION)
// repeat fields of the late blocks and are encoded after them in part of the interleavings.
func c15LatePartners(thorough bool) []c15Shape {
	out := []c15Shape{
		{Named: true, NReq: 1, NResp: 1},
		{Named: true, NReq: 1, NResp: 0, RespCont: true},
		{Named: false, NReq: 1, NResp: 1},
	}
	if thorough {
		out = append(out,
			c15Shape{Named: true, NReq: 0, Resp: 1},
			c15Shape{Named: true, Cont: true, NReq: 1, ReqEnd: 1, NResp: 0},
			c15Shape{Named: true, NReq: 1, NResp: 1, Bidi: true},
			c15Shape{Named: true, NReq: 1, NResp: 1, Variant: "rsts-mid"},
			c15Shape{Named: true, NReq: 1, NResp: 1, Variant: "refused-retry"},
			c15Shape{Named: true, NReq: 1, NResp: 1, RespHdrCont: 2},
		)
	}
	return out
}

// c15PieceShapes: one enveloped message spread over three and four DATA frames of
// its stream (request side, response side, both), alone and followed by a second
// message that travels in its own DATA frame or starts in the frame of the last piece.
func c15PieceShapes(thorough bool) (wide, narrow []c15Shape) {
	// wide: paired with every piece partner; narrow (more frames): with the first partner only
	wide = []c15Shape{
		{Named: true, NReq: 1, ReqPieces: 3, NResp: 0},
		{Named: true, NReq: 0, NResp: 1, RespPieces: 3},
		{Named: true, NReq: 2, ReqPieces: 4, NResp: 0, Glue: true},
	}
	narrow = []c15Shape{
		{Named: true, NReq: 0, NResp: 2, RespPieces: 4},
		{Named: true, NReq: 2, ReqPieces: 3, NResp: 2, RespPieces: 3, Glue: true},
	}
	if thorough {
		wide = append(wide,
			c15Shape{Named: true, NReq: 1, ReqPieces: 4, NResp: 0},
			c15Shape{Named: true, NReq: 2, ReqPieces: 3, NResp: 0},
			c15Shape{Named: true, NReq: 2, ReqPieces: 3, NResp: 0, Glue: true},
			c15Shape{Named: true, NReq: 2, ReqPieces: 3, ReqEnd: 1, NResp: 0},
			c15Shape{Named: true, NReq: 0, NResp: 1, RespPieces: 4},
			c15Shape{Named: true, NReq: 0, NResp: 2, RespPieces: 3},
			c15Shape{Named: true, NReq: 0, NResp: 2, RespPieces: 3, Glue: true},
			c15Shape{Named: true, NReq: 1, ReqPieces: 3, NResp: 1, Bidi: true},
			c15Shape{Named: true, NReq: 1, ReqPieces: 3, Variant: "rstc-early"},
			c15Shape{Named: true, NReq: 1, NResp: 1, RespPieces: 3, Variant: "rsts-mid"},
			c15Shape{Named: false, NReq: 1, ReqPieces: 3, NResp: 1, RespPieces: 3},
		)
		narrow = append(narrow,
			c15Shape{Named: true, NReq: 2, ReqPieces: 4, NResp: 0},
			c15Shape{Named: true, NReq: 0, NResp: 2, RespPieces: 4, Glue: true},
			c15Shape{Named: true, NReq: 1, ReqPieces: 4, NResp: 1, RespPieces: 4},
			c15Shape{Named: true, NReq: 2, ReqPieces: 3, NResp: 2, RespPieces: 3},
		)
	}
	return wide, narrow
}

// c15PadShapes: padding and priority as an axis of the frame scripts.  DATA frames with the PADDED flag and
// pad lengths 0, 1, 7, 255 that carry no data byte at all (also as the frame with END_STREAM), one data byte,
// a whole message; HEADERS frames with PADDED and / or PRIORITY (alone and followed by CONTINUATION);
// PRIORITY frames, PING and frames of an unknown type between the frames of a call.  The demanded traces are
// those of the same calls without any of it.
func c15PadShapes(thorough bool) []c15Shape {
	var out []c15Shape
	for _, k := range []int{0, 1, 7, 255} {
		out = append(out, c15Shape{Named: true, NReq: 1, NResp: 1, Pad: k + 1, PadOnly: true})
	}
	out = append(out,
		c15Shape{Named: true, NReq: 1, ReqEnd: 1, NResp: 1, Pad: 7 + 1, PadHdr: true},
		c15Shape{Named: true, NReq: 2, NResp: 1, Pad: 1 + 1, PadOne: true},
		c15Shape{Named: true, Cont: true, NReq: 1, NResp: 0, RespCont: true, Pad: 255 + 1, PadHdr: true, Prio: true},
		c15Shape{Named: true, NReq: 1, NResp: 1, Prio: true, Extra: true},
		c15Shape{Named: false, NReq: 1, NResp: 1, Pad: 0 + 1, PadOnly: true, PadHdr: true},
	)
	if thorough {
		for _, k := range []int{0, 1, 7, 255} {
			out = append(out,
				c15Shape{Named: true, NReq: 1, ReqEnd: 1, NResp: 0, Pad: k + 1},
				c15Shape{Named: true, NReq: 1, NResp: 1, Pad: k + 1, PadOne: true, PadHdr: true},
				c15Shape{Named: true, NReq: 2, NResp: 2, Pad: k + 1, PadOnly: true, PadOne: true},
				c15Shape{Named: true, NReq: 0, Resp: 1, RespCont: true, Pad: k + 1, PadHdr: true, Prio: true},
				c15Shape{Named: true, Cont: true, ContN: 2, NReq: 1, NResp: 1, RespHdrCont: 1, Pad: k + 1, PadHdr: true},
				c15Shape{Named: true, NReq: 1, NResp: 1, Pad: k + 1, PadOnly: true, PadHdr: true, Variant: "refused-retry"},
				c15Shape{Named: true, NReq: 1, NResp: 1, Pad: k + 1, PadOnly: true, Variant: "rsts-mid"},
				c15Shape{Named: true, NReq: 1, NResp: 1, Bidi: true, Pad: k + 1, PadOnly: true, Variant: "rstc-mid"},
				c15Shape{Named: true, NReq: 2, ReqPieces: 3, NResp: 0, Pad: k + 1},
			)
		}
		out = append(out,
			c15Shape{Named: true, NReq: 1, NResp: 1, Pad: 7 + 1, PadOnly: true, PadHdr: true, Prio: true, Extra: true},
			c15Shape{Named: true, NReq: 1, Extra: true, Variant: "rstc-early"},
			c15Shape{Named: true, NReq: 1, NResp: 1, Extra: true, Variant: "refused-retry"},
			c15Shape{Named: true, NReq: 1, LateData: true, Pad: 1 + 1, PadHdr: true, Variant: "rstc-late-hdr"},
			c15Shape{Named: false, NReq: 1, NResp: 1, Prio: true, Extra: true},
		)
	}
	return out
}

// c15ReqTrailShapes: the request ends with a trailer block of its own (the fourth kind of header block a stream
// can carry): after 0-2 DATA frames, as HEADERS alone or HEADERS + CONTINUATION, before the response headers
// (the usual order for a request that is complete before the server answers) or after them (Bidi), with a
// full response, a trailers-only response, a refused first attempt, resets; one call without test name.
func c15ReqTrailShapes(thorough bool) []c15Shape {
	out := []c15Shape{
		{Named: true, NReq: 1, NResp: 1, ReqTrail: 1},
		{Named: true, NReq: 1, NResp: 1, Bidi: true, ReqTrail: 1},
		{Named: true, NReq: 0, NResp: 1, ReqTrail: 2},
		{Named: true, NReq: 2, Resp: 1, ReqTrail: 1},
		{Named: true, NReq: 1, NResp: 1, ReqTrail: 1, Variant: "refused-retry"},
		{Named: false, NReq: 1, NResp: 1, ReqTrail: 1},
	}
	if thorough {
		for rt := 1; rt <= 2; rt++ {
			for nreq := 0; nreq <= 2; nreq++ {
				out = append(out,
					c15Shape{Named: true, NReq: nreq, NResp: 2, ReqTrail: rt},
					c15Shape{Named: true, NReq: nreq, NResp: 0, Bidi: true, ReqTrail: rt},
					c15Shape{Named: true, NReq: nreq, Resp: 1, RespCont: true, ReqTrail: rt},
				)
			}
			out = append(out,
				c15Shape{Named: true, Cont: true, ContN: 2, NReq: 1, NResp: 1, RespHdrCont: 1, RespCont: true, ReqTrail: rt},
				c15Shape{Named: true, NReq: 1, ReqEnd: 1, NResp: 1, ReqTrail: rt},
				c15Shape{Named: true, NReq: 1, NResp: 1, ReqTrail: rt, Variant: "rsts-mid"},
				c15Shape{Named: true, NReq: 1, ReqTrail: rt, Variant: "rsts-early"},
				c15Shape{Named: true, NReq: 1, NResp: 1, Bidi: true, ReqTrail: rt, Variant: "rstc-mid"},
				c15Shape{Named: true, NReq: 1, ReqPieces: 3, NResp: 1, ReqTrail: rt},
				c15Shape{Named: false, NReq: 0, Resp: 1, ReqTrail: rt},
			)
		}
	}
	return out
}

func c15ReqTrailPartners(thorough bool) []c15Shape {
	out := []c15Shape{
		{Named: true, NReq: 1, NResp: 1},
		{Named: false, NReq: 1, NResp: 1},
	}
	if thorough {
		out = append(out, c15Shape{Named: true, NReq: 1, NResp: 0, RespCont: true}, c15Shape{Named: true, NReq: 1, NResp: 1, Variant: "rstc-mid"})
	}
	return out
}

func c15PadPartners(thorough bool) []c15Shape {
	out := []c15Shape{{Named: true, NReq: 1, NResp: 1}}
	if thorough {
		out = append(out, c15Shape{Named: true, NReq: 0, Resp: 1}, c15Shape{Named: false, NReq: 1, NResp: 1})
	}
	return out
}

func c15PiecePartners() []c15Shape {
	return []c15Shape{
		{Named: true, NReq: 1, NResp: 1},
		{Named: false, NReq: 1, NResp: 1},
	}
}

// c15MiniShapes: pairs of these get every single cut under every interleaving (thorough).
func c15MiniShapes() []c15Shape {
	return []c15Shape{
		{Named: true, NReq: 1, NResp: 1},
		{Named: true, Cont: true, NReq: 1, ReqEnd: 1, NResp: 0},
		{Named: true, NReq: 1, NResp: 1, Variant: "rstc-mid"},
		{Named: true, NReq: 1, NResp: 1, Variant: "refused-retry"},
		{Named: true, NReq: 1, Variant: "goaway"},
		{Named: false, NReq: 1, NResp: 1},
	}
}

func c15ThoroughShapes() []c15Shape {
	var out []c15Shape
	for _, cont := range []bool{false, true} {
		for nreq := 0; nreq <= 2; nreq++ {
			for reqend := 0; reqend <= 1; reqend++ {
				for nresp := 0; nresp <= 2; nresp++ {
					out = append(out, c15Shape{Named: true, Cont: cont, NReq: nreq, ReqEnd: reqend, NResp: nresp})
				}
				out = append(out, c15Shape{Named: true, Cont: cont, NReq: nreq, ReqEnd: reqend, Resp: 1})
			}
		}
	}
	for nreq := 1; nreq <= 2; nreq++ {
		for nresp := 1; nresp <= 2; nresp++ {
			out = append(out, c15Shape{Named: true, NReq: nreq, NResp: nresp, Bidi: true})
		}
	}
	out = append(out,
		c15Shape{Named: true, Cont: true, NReq: 1, NResp: 1, Bidi: true},
		c15Shape{Named: true, NReq: 1, MsgMode: 1, NResp: 1},
		c15Shape{Named: true, NReq: 2, MsgMode: 1, NResp: 1},
		c15Shape{Named: true, NReq: 2, MsgMode: 2, NResp: 1},
		c15Shape{Named: true, NReq: 1, NResp: 0, RespCont: true},
		c15Shape{Named: true, NReq: 1, NResp: 2, RespCont: true},
		c15Shape{Named: true, NReq: 1, Resp: 1, RespCont: true},
		c15Shape{Named: true, Cont: true, NReq: 1, NResp: 1, RespCont: true},
	)
	for _, cont := range []bool{false, true} {
		for nreq := 0; nreq <= 2; nreq++ {
			out = append(out, c15Shape{Named: true, Cont: cont, NReq: nreq, Variant: "rstc-early"})
			out = append(out, c15Shape{Named: true, Cont: cont, NReq: nreq, Variant: "goaway"})
			out = append(out, c15Shape{Named: true, Cont: cont, NReq: nreq, NResp: 1, Variant: "refused-retry"})
		}
		for nresp := 0; nresp <= 2; nresp++ {
			out = append(out, c15Shape{Named: true, Cont: cont, NReq: 1, NResp: nresp, Variant: "rsts-mid"})
		}
	}
	out = append(out, c15Shape{Named: true, NReq: 1, Resp: 1, Variant: "refused-retry"})
	for reqend := 0; reqend <= 1; reqend++ {
		for nresp := 0; nresp <= 2; nresp++ {
			out = append(out, c15Shape{Named: true, NReq: 1, ReqEnd: reqend, NResp: nresp, Variant: "rstc-mid"})
		}
		for nreq := 0; nreq <= 2; nreq++ {
			out = append(out, c15Shape{Named: true, NReq: nreq, ReqEnd: reqend, Variant: "rsts-early"})
		}
	}
	out = append(out, c15Shape{Named: true, NReq: 1, NResp: 1, Bidi: true, Variant: "rstc-mid"})
	for nreq := 0; nreq <= 1; nreq++ {
		for nresp := 0; nresp <= 2; nresp++ {
			out = append(out, c15Shape{Named: false, NReq: nreq, NResp: nresp})
		}
		out = append(out, c15Shape{Named: false, NReq: nreq, Resp: 1})
	}
	out = append(out,
		c15Shape{Named: false, NReq: 1, Variant: "rstc-early"},
		c15Shape{Named: false, NReq: 1, NResp: 1, Variant: "rsts-mid"},
		c15Shape{Named: false, NReq: 1, NResp: 1, Variant: "refused-retry"},
		c15Shape{Named: false, NReq: 1, Variant: "goaway"},
		c15Shape{Named: false, Cont: true, NReq: 1, NResp: 1, RespCont: true},
	)
	return out
}

type c15Pair struct {
	A, B c15Shape
	Tab  c15Tab
}

// c15TabPairs: the HPACK table-size histories (c15TableScheds) crossed with call shapes: two plain
// calls (2 request blocks, 4 response blocks) with every schedule in the request direction only and in
// the response direction only (thorough: also in both, and two different ones); with the same schedule
// in both directions: every block HEADERS + CONTINUATION next to a trailers-only call, REFUSED_STREAM +
// retry (3 request blocks), late response blocks for a stream that is gone (the update may travel in a
// block that belongs to no traced stream), a nameless call next to blocks of 3-4 fragments (the update
// instruction may be continued in a CONTINUATION frame).
func c15TabPairs(thorough bool) []c15Pair {
	plain := c15Shape{Named: true, NReq: 1, NResp: 1}
	var scheds []string
	for _, sc := range c15TableScheds(thorough) {
		scheds = append(scheds, sc.Name)
	}
	var out []c15Pair
	for _, sc := range scheds {
		out = append(out, c15Pair{A: plain, B: plain, Tab: c15Tab{Req: sc}}, c15Pair{A: plain, B: plain, Tab: c15Tab{Resp: sc}})
	}
	others := []c15Pair{
		{A: c15Shape{Named: true, Cont: true, NReq: 1, NResp: 1, RespHdrCont: 1, RespCont: true}, B: c15Shape{Named: true, NReq: 0, Resp: 1}},
		{A: c15Shape{Named: true, NReq: 1, NResp: 1, Variant: "refused-retry"}, B: plain},
		{A: c15Shape{Named: true, NReq: 1, Variant: "rstc-late-hdr"}, B: plain},
		{A: c15Shape{Named: false, NReq: 1, NResp: 1}, B: c15Shape{Named: true, Cont: true, ContN: 2, NReq: 1, NResp: 0, RespHdrCont: 2, RespCont: true, RespContN: 3}},
	}
	if thorough {
		others = append(others,
			c15Pair{A: plain, B: c15Shape{Named: true, NReq: 1, Variant: "goaway-late"}},
			c15Pair{A: c15Shape{Named: true, NReq: 1, NResp: 1, Variant: "rsts-mid"}, B: c15Shape{Named: true, NReq: 1, NResp: 1, Bidi: true}},
			c15Pair{A: c15Shape{Named: true, NReq: 1, NResp: 1, Variant: "rstc-late-trail"}, B: c15Shape{Named: true, NReq: 1, NResp: 0, RespCont: true}},
		)
	}
	quick := map[string]bool{"grow64k@1": true, "zero@1-grow64k@2": true, "small@1": true, "late-settings-grow64k@1": true}
	for _, sc := range scheds {
		if !thorough && !quick[sc] {
			continue
		}
		for _, o := range others {
			out = append(out, c15Pair{A: o.A, B: o.B, Tab: c15Tab{Req: sc, Resp: sc}})
		}
	}
	if thorough {
		for i, sc := range scheds {
			out = append(out,
				c15Pair{A: plain, B: plain, Tab: c15Tab{Req: sc, Resp: sc}},
				c15Pair{A: plain, B: plain, Tab: c15Tab{Req: sc, Resp: scheds[(i+3)%len(scheds)]}})
		}
	}
	return out
}

// c15Pairs lists the shape pairs family by family (basic x basic, late frames,
// message pieces, CONTINUATION chains, thorough shapes) and then merges the families
// proportionally, so that a budget that ends the enumeration early (a loaded machine)
// cuts the tail of every family instead of dropping the last families altogether.
func c15Pairs(thorough bool) []c15Pair {
	q := c15QuickShapes()
	var pairs []c15Pair
	var families [][]c15Pair
	endFamily := func() {
		families = append(families, pairs)
		pairs = nil
	}
	seen := map[string]bool{}
	addTab := func(a, b c15Shape, tab c15Tab) {
		if a.Variant == "goaway" || a.Variant == "goaway-late" { // GOAWAY(last-stream-id 1) is part of the script of stream 3
			return
		}
		key := a.String() + "|" + b.String() + "|" + tab.String()
		if seen[key] {
			return
		}
		seen[key] = true
		pairs = append(pairs, c15Pair{A: a, B: b, Tab: tab})
	}
	add := func(a, b c15Shape) { addTab(a, b, c15Tab{}) }
	for _, a := range q {
		for _, b := range q {
			add(a, b)
		}
	}
	endFamily()
	// late frames for a stream that is gone: every late shape with every late partner (both
	// orders), and the late shapes with each other
	late := c15LateShapes(thorough)
	for _, x := range late {
		for _, y := range c15LatePartners(thorough) {
			add(x, y)
			add(y, x)
		}
	}
	for xi, x := range late { // quick: the first three with each other; thorough: every late shape with the four quick ones
		for yi, y := range late {
			if (xi < 3 && yi < 3) || (thorough && (xi < 4 || yi < 4)) {
				add(x, y)
			}
		}
	}
	endFamily()
	// one message in 3 and 4 DATA frames
	wide, narrow := c15PieceShapes(thorough)
	pp := c15PiecePartners()
	for _, x := range wide {
		for _, y := range pp {
			add(x, y)
			add(y, x)
		}
	}
	for _, x := range narrow {
		add(x, pp[0])
		add(pp[0], x)
	}
	add(wide[0], wide[1]) // pieces of both calls interleaved
	add(wide[1], wide[0])
	if thorough {
		add(wide[2], wide[0])
		add(wide[1], wide[2])
		add(late[0], wide[1])
		add(wide[0], late[2])
	}
	endFamily()
	// header blocks of 3 and 4 fragments: every chain shape with every partner (both
	// orders); the quick chain shapes with each other, the thorough-only ones with two of them
	qc := c15ChainShapes(false)
	for xi, x := range c15ChainShapes(thorough) {
		for _, y := range c15ChainPartners() {
			add(x, y)
			add(y, x)
		}
		if xi >= len(qc) { // thorough-only shape: two chains on one connection with two of the quick chain shapes
			qc = qc[:2]
		}
		for _, y := range qc {
			add(x, y)
			add(y, x)
		}
	}
	endFamily()
	// padding and priority: every pad shape with every pad partner (both orders); two padded calls together
	pads := c15PadShapes(thorough)
	for _, x := range pads {
		for _, y := range c15PadPartners(thorough) {
			add(x, y)
			add(y, x)
		}
	}
	add(pads[0], pads[3])
	add(pads[4], pads[1])
	if thorough {
		add(pads[2], pads[5])
		add(pads[7], pads[6])
	}
	endFamily()
	// request trailers: every such shape with every partner (both orders), the quick ones with each other
	rts := c15ReqTrailShapes(thorough)
	for _, x := range rts {
		for _, y := range c15ReqTrailPartners(thorough) {
			add(x, y)
			add(y, x)
		}
	}
	add(rts[0], rts[1])
	add(rts[1], rts[0])
	add(rts[2], rts[0])
	if thorough {
		for _, x := range rts[:6] {
			for _, y := range rts[:6] {
				add(x, y)
			}
		}
	}
	endFamily()
	// HPACK dynamic-table-size histories
	for _, p := range c15TabPairs(thorough) {
		addTab(p.A, p.B, p.Tab)
	}
	endFamily()
	if thorough {
		t := c15ThoroughShapes()
		for _, x := range t {
			for _, y := range q {
				add(x, y)
				add(y, x)
			}
		}
		endFamily()
	}
	// proportional merge: always continue the family of which the smallest fraction has been taken
	pos := make([]int, len(families))
	for {
		best := -1
		for f := range families {
			if pos[f] == len(families[f]) {
				continue
			}
			if best < 0 || pos[f]*len(families[best]) < pos[best]*len(families[f]) {
				best = f
			}
		}
		if best < 0 {
			return pairs
		}
		pairs = append(pairs, families[best][pos[best]])
		pos[best]++
	}
}

// ---------------------------------------------------------------------------

type c15Built struct {
	shapes           []c15Shape
	a, b             []c15Item
	wants            []c15Want
	contReq, contR   bool
	chainReq, chainR bool    // a header block of >= 3 fragments in that direction
	late             bool    // response-direction frames arrive for a stream that is gone already
	padded           [2]bool // per direction: PADDED frames
	extra            [2]bool // per direction: PRIORITY / PING / unknown-type frames, HEADERS with PRIORITY
	tab              c15Tab
}

// encode: the frames of the two calls merged in the given order behind the connection prologue, the
// SETTINGS of the table-size schedules added, HPACK encoded in emission order.
func (bt *c15Built) encode(order []byte) ([]c15Unit, c15TabStats) {
	return c15EncodeTab(c15ApplyTab(c15Merge(bt.a, bt.b, order), bt.tab), bt.tab)
}

func c15Build(p c15Pair) *c15Built {
	bt := &c15Built{shapes: []c15Shape{p.A, p.B}, tab: p.Tab}
	var wa, wb c15Want
	bt.a, wa = c15CallItems(p.A, 0)
	bt.b, wb = c15CallItems(p.B, 1)
	bt.wants = []c15Want{wa, wb}
	r1, s1 := c15HasCont(bt.a)
	r2, s2 := c15HasCont(bt.b)
	bt.contReq, bt.contR = r1 || r2, s1 || s2
	r1, s1 = c15HasChain(bt.a)
	r2, s2 = c15HasChain(bt.b)
	bt.chainReq, bt.chainR = r1 || r2, s1 || s2
	for _, it := range append(append([]c15Item(nil), bt.a...), bt.b...) {
		bt.late = bt.late || it.Late
		bt.padded[it.Dir] = bt.padded[it.Dir] || it.Padded
		bt.extra[it.Dir] = bt.extra[it.Dir] || it.Prio || it.Kind == 'Y' || it.Kind == 'X' || it.Kind == 'N'
	}
	return bt
}

func c15OrderBytes(order []int) []byte {
	b := make([]byte, len(order))
	for i, o := range order {
		b[i] = byte(o)
	}
	return b
}

func c15OrderInts(order []byte) []int {
	o := make([]int, len(order))
	for i, b := range order {
		o[i] = int(b)
	}
	return o
}

// c15AttrVerdicts: root cause first — an opaque wrapper, a panic, a frame
// tracer that gave up on well-formed traffic; only then the traces.
func c15AttrVerdicts(res *c15Result, bt *c15Built, st c15TabStats) []c15Verdict {
	var out []c15Verdict
	if res.Opaque != "" {
		out = append(out, c15Verdict{"not-transparent", res.Opaque})
	}
	if res.Panic != "" {
		return append(out, c15Verdict{"panic:" + res.Panic, "panic on well-formed traffic: " + res.PanicVal})
	}
	if res.BrokenReq || res.BrokenResp {
		if (res.BrokenReq && st.Updates[c15DirReq] > 0) || (res.BrokenResp && st.Updates[c15DirResp] > 0) {
			return append(out, c15Verdict{"gave-up-after-table-size-update", fmt.Sprintf(
				"the frame tracer gave up (request direction=%v, response direction=%v) on well-formed traffic in which header blocks start with HPACK dynamic-table-size updates (RFC 7541 section 6.3; blocks with an update: request direction %d, of them to more than 4096 bytes %d; response direction %d, of them to more than 4096 bytes %d; every size is within what the receiver's SETTINGS_HEADER_TABLE_SIZE allows); table-size history %s; %d trace(s) delivered",
				res.BrokenReq, res.BrokenResp, st.Updates[0], st.UpdatesAbove[0], st.Updates[1], st.UpdatesAbove[1], bt.tab, len(res.Traces))})
		}
		if (res.BrokenReq && bt.padded[c15DirReq]) || (res.BrokenResp && bt.padded[c15DirResp]) {
			return append(out, c15Verdict{"gave-up-after-padded-frame", fmt.Sprintf(
				"the frame tracer gave up (request direction=%v, response direction=%v) on well-formed traffic in which DATA / HEADERS frames carry the PADDED flag (RFC 9113 sections 6.1, 6.2: a pad-length byte, then the data or header block fragment, then that many zero bytes; pad length 0 and frames with no data byte at all are legal); %d trace(s) delivered",
				res.BrokenReq, res.BrokenResp, len(res.Traces))})
		}
		if (res.BrokenReq && bt.extra[c15DirReq]) || (res.BrokenResp && bt.extra[c15DirResp]) {
			return append(out, c15Verdict{"gave-up-after-priority-or-unknown-frame", fmt.Sprintf(
				"the frame tracer gave up (request direction=%v, response direction=%v) on well-formed traffic that contains HEADERS with the PRIORITY flag, PRIORITY frames, PING or frames of a type the protocol does not define (which must be ignored, RFC 9113 section 4.1); %d trace(s) delivered",
				res.BrokenReq, res.BrokenResp, len(res.Traces))})
		}
		if res.BrokenResp && !res.BrokenReq && bt.late {
			return append(out, c15Verdict{"gave-up-after-late-frames", fmt.Sprintf(
				"the frame tracer of the response direction gave up on well-formed traffic in which response HEADERS / DATA / trailers arrive for a stream that was already reset by the client or dropped by GOAWAY (frames that were in flight; their header blocks still update the HPACK dynamic table every later block of the direction refers to); %d trace(s) delivered",
				len(res.Traces))})
		}
		if (res.BrokenReq && bt.chainReq) || (res.BrokenResp && bt.chainR) {
			return append(out, c15Verdict{"continuation-chain-lost", fmt.Sprintf(
				"the frame tracer gave up on well-formed traffic that contains a header block of three or more fragments (HEADERS + 2..3 CONTINUATION; request direction gave up=%v, response direction=%v); %d trace(s) delivered instead of those of the named calls",
				res.BrokenReq, res.BrokenResp, len(res.Traces))})
		}
		if (res.BrokenReq && bt.contReq) || (res.BrokenResp && bt.contR) {
			return append(out, c15Verdict{"continuation-lost", fmt.Sprintf(
				"the frame tracer gave up on well-formed traffic that contains a HEADERS+CONTINUATION header block (request direction gave up=%v, response direction=%v); %d trace(s) delivered instead of those of the named calls",
				res.BrokenReq, res.BrokenResp, len(res.Traces))})
		}
		return append(out, c15Verdict{"tracer-gave-up", fmt.Sprintf(
			"the frame tracer gave up on well-formed traffic (request direction=%v, response direction=%v)", res.BrokenReq, res.BrokenResp)})
	}
	return append(out, c15Judge(res, bt.wants, bt.shapes)...)
}

// c15CachedSteps: the whole / frame / byte partitions of the script that was asked for last are kept
// (many cases of one interleaving share them; callers do not modify the slice).
var c15StepCache struct {
	first *c15Unit
	n     int
	steps map[string][]c15Step
}

func c15CachedSteps(units []c15Unit, part c15Part) []c15Step {
	if part.Mode == "cut" || len(units) == 0 {
		return c15Steps(units, part)
	}
	if c15StepCache.first != &units[0] || c15StepCache.n != len(units) {
		c15StepCache.first, c15StepCache.n, c15StepCache.steps = &units[0], len(units), map[string][]c15Step{}
	}
	st, ok := c15StepCache.steps[part.Mode]
	if !ok {
		st = c15Steps(units, part)
		c15StepCache.steps[part.Mode] = st
	}
	return st
}

// c15CutStep: index of the call that ends at offset pos of direction dir, -1 if none does.
func c15CutStep(steps []c15Step, dir, pos int) int {
	off := 0
	for i, st := range steps {
		if st.Dir != dir {
			continue
		}
		off += len(st.Data)
		if off == pos {
			return i
		}
		if off > pos {
			break
		}
	}
	return -1
}

// c15RunAttrUnits runs one case.  ok = false: the case does not exist (its ending mode needs the
// script's last call to be a Read of this side / its timeout needs that call to be a Read with bytes).
func c15RunAttrUnits(cs *c15AttrCase, bt *c15Built, units []c15Unit, st c15TabStats) (res c15Result, vs []c15Verdict, ok bool) {
	steps := c15CachedSteps(units, cs.Part)
	rd := c15DirResp
	if cs.Server {
		rd = c15DirReq
	}
	if cs.Fin == c15FinEOFData || cs.Fin == c15FinErrData {
		last := len(steps) - 1
		if last < 0 || steps[last].Dir != rd || len(steps[last].Data) == 0 {
			return res, nil, false
		}
		steps = append([]c15Step(nil), steps...)
		steps[last].Err = io.EOF
		if cs.Fin == c15FinErrData {
			steps[last].Err = c15ErrOther
		}
	}
	if cs.TimeoutAt >= 0 && cs.TimeoutData {
		at := cs.TimeoutAt
		if at >= len(steps) || steps[at].Dir != rd || len(steps[at].Data) == 0 || steps[at].Err != nil {
			return res, nil, false
		}
		steps = append([]c15Step(nil), steps...)
		steps[at].Err = c15ErrTimeout
	} else if cs.TimeoutAt >= 0 {
		at := cs.TimeoutAt
		if at > len(steps) {
			at = len(steps)
		}
		ns := make([]c15Step, 0, len(steps)+1)
		ns = append(ns, steps[:at]...)
		ns = append(ns, c15Step{Dir: rd, Data: nil, Err: c15ErrTimeout, N: -1})
		ns = append(ns, steps[at:]...)
		steps = ns
	}
	res = c15Exec(cs.Server, steps, cs.Fin)
	return res, c15AttrVerdicts(&res, bt, st), true
}

func c15RunAttrCase(cs *c15AttrCase) (c15Result, []c15Verdict, []c15Unit) {
	bt := c15Build(c15Pair{A: cs.A, B: cs.B, Tab: cs.Tab})
	units, st := bt.encode(c15OrderBytes(cs.Order))
	res, v, _ := c15RunAttrUnits(cs, bt, units, st)
	return res, v, units
}

// c15RefClean: the reference case exists and no verdict is raised for it.
func c15RefClean(ref *c15AttrCase) bool {
	bt := c15Build(c15Pair{A: ref.A, B: ref.B, Tab: ref.Tab})
	units, st := bt.encode(c15OrderBytes(ref.Order))
	_, vs, ok := c15RunAttrUnits(ref, bt, units, st)
	return ok && len(vs) == 0
}

// c15ErrorWithData: the case delivers an error together with bytes in one Read.
func (cs *c15AttrCase) errorWithData() bool {
	return cs.Fin == c15FinEOFData || cs.Fin == c15FinErrData || (cs.TimeoutAt >= 0 && cs.TimeoutData)
}

// c15SeparateError: the same case with the error in a Read call of its own, after the bytes.
func (cs *c15AttrCase) separateError() c15AttrCase {
	ref := *cs
	switch {
	case cs.Fin == c15FinEOFData:
		ref.Fin = c15FinEOF
	case cs.Fin == c15FinErrData:
		ref.Fin = c15FinErr
	case cs.TimeoutAt >= 0 && cs.TimeoutData:
		ref.TimeoutData = false
		ref.TimeoutAt = cs.TimeoutAt + 1 // (0, timeout) inserted right after that call
	}
	return ref
}

func c15Keys(vs []c15Verdict) map[string]bool {
	m := map[string]bool{}
	for _, v := range vs {
		m[v.Key] = true
	}
	return m
}

type c15AttrRun struct {
	r        *rep.Report
	k        int64
	deadline time.Time
	stopped  bool
}

func (x *c15AttrRun) over() bool {
	if x.stopped {
		return true
	}
	if !x.deadline.IsZero() && time.Now().After(x.deadline) {
		x.r.NotExhaustive("budget reached before all shape pairs were enumerated")
		x.stopped = true
	}
	return x.stopped
}

// report one evaluated case
func (x *c15AttrRun) judge(cs *c15AttrCase, bt *c15Built, res *c15Result, vs []c15Verdict, wholeKeys, baseKeys map[string]bool) {
	r := x.r
	r.Eval(1)
	if bt.wants[0].Name != "" || bt.wants[1].Name != "" {
		r.NonTrivial("")
	}
	r.Outcome(c15OutcomeClass(res))
	if len(vs) == 0 {
		return
	}
	cp := *cs
	cp.Order = append([]int(nil), cs.Order...)
	// dependence on something is only claimed against a reference case (same scripts) that is
	// entirely clean; the references for the error-with-bytes endings and for the table-size
	// histories are run here, on demand
	sepClean, tabClean := false, false
	if cs.errorWithData() {
		ref := cs.separateError()
		sepClean = c15RefClean(&ref)
	}
	if !cs.Tab.none() {
		ref := *cs
		ref.Tab = c15Tab{}
		tabClean = c15RefClean(&ref)
	}
	for _, v := range vs {
		detail := fmt.Sprintf("%s [side=%s A=%s B=%s table-size-history=%s order=%v part=%+v ending=%s timeout_at=%d timeout_with_data=%v]", v.Detail, c15Side(cs.Server), cs.A, cs.B, cs.Tab, cs.Order, cs.Part, c15FinName(cs.Fin), cs.TimeoutAt, cs.TimeoutData)
		r.Violate(v.Key, detail, cp)
		if tabClean {
			r.Violate("trace-depends-on-table-size-update", "same scripts, interleaving, partition and ending are traced correctly when no HPACK dynamic-table-size update is ever sent, but not with this table-size history (legal HPACK: sizes within the advertised SETTINGS_HEADER_TABLE_SIZE, announced at the start of a header block): "+v.Key+": "+detail, cp)
		}
		switch {
		case sepClean:
			r.Violate("trace-depends-on-error-with-data", "same scripts, interleaving and partition are traced correctly when the read error comes in a Read call of its own, but not when the underlying Read returns its last bytes together with the error (n > 0 and err != nil in one call, as io.Reader allows and crypto/tls does): "+v.Key+": "+detail, cp)
		case wholeKeys != nil && len(wholeKeys) == 0 && cs.TimeoutAt >= 0:
			r.Violate("trace-depends-on-read-timeout", "same scripts and interleaving are traced correctly without it, but not when one Read returns (0, timeout) between two frames: "+v.Key+": "+detail, cp)
		case wholeKeys != nil && len(wholeKeys) == 0 && cs.Fin != c15FinClose:
			r.Violate("trace-depends-on-connection-end", "same scripts and interleaving are traced correctly when the connection is simply closed, but not with this ending: "+v.Key+": "+detail, cp)
		case wholeKeys != nil && len(wholeKeys) == 0:
			r.Violate("trace-depends-on-partition", "same scripts and interleaving are traced correctly when every run of frames is one call, but not with this partition: "+v.Key+": "+detail, cp)
		case baseKeys != nil && len(baseKeys) == 0 && (wholeKeys == nil || len(wholeKeys) > 0):
			r.Violate("trace-depends-on-interleaving", "same scripts are traced correctly when call A runs as early as HTTP/2 allows, but not with this interleaving: "+v.Key+": "+detail, cp)
		}
	}
}

func c15Side(server bool) string {
	if server {
		return "server"
	}
	return "client"
}

func (x *c15AttrRun) pair(pi int, p c15Pair, thorough bool, mini bool) {
	bt := c15Build(p)
	var orders [][]byte
	c15Interleavings(bt.a, bt.b, func(o []byte) { orders = append(orders, append([]byte(nil), o...)) })
	if x.r.Shard == 0 { // every shard enumerates all of them; count once
		x.r.Count("interleavings", int64(len(orders)))
	}
	if len(orders) == 0 {
		return
	}
	if x.r.Shard == 0 {
		c15CountSpecial(x.r, bt, orders)
	}
	// baseline per side: first interleaving (A as early as allowed), whole runs
	var baseKeys [2]map[string]bool
	baseUnits, baseSt := bt.encode(orders[0])
	for s := 0; s < 2; s++ {
		cs := c15AttrCase{Kind: "attr", Server: s == 1, A: p.A, B: p.B, Tab: p.Tab, Order: c15OrderInts(orders[0]), Part: c15Part{Mode: "whole"}, TimeoutAt: -1}
		_, vs, _ := c15RunAttrUnits(&cs, bt, baseUnits, baseSt)
		baseKeys[s] = c15Keys(vs)
	}
	canonical := map[int]bool{0: true, len(orders) / 2: true, len(orders) - 1: true}
	// endRep[side][oi]: interleaving oi is the first one that ends with its particular run of frames in
	// the side's read direction (the bytes an underlying Read can return together with the final error)
	var endRep [2][]bool
	for s := 0; s < 2; s++ {
		rd := c15DirResp
		if s == 1 {
			rd = c15DirReq
		}
		endRep[s] = make([]bool, len(orders))
		seen := map[string]bool{}
		for oi, order := range orders {
			i, j, n := len(bt.a), len(bt.b), len(order)
			for n > 0 {
				var it *c15Item
				if order[n-1] == 0 {
					it = &bt.a[i-1]
				} else {
					it = &bt.b[j-1]
				}
				if it.Dir != rd {
					break
				}
				if order[n-1] == 0 {
					i--
				} else {
					j--
				}
				n--
			}
			if sig := string(order[n:]); n < len(order) && !seen[sig] {
				seen[sig] = true
				endRep[s][oi] = true
			}
		}
	}

	for oi, order := range orders {
		x.k++
		if !x.r.Mine(x.k) {
			continue
		}
		units, st := bt.encode(order)
		if !p.Tab.none() {
			for d, name := range [2]string{"request", "response"} {
				if st.Updates[d] > 0 {
					x.r.Count("interleavings:table-size-update-in-"+name+"-direction", 1)
				}
				if st.UpdatesAbove[d] > 0 {
					x.r.Count("interleavings:table-size-update-above-4096-in-"+name+"-direction", 1)
				}
				if st.UpdateSplit[d] > 0 {
					x.r.Count("interleavings:table-size-update-continued-in-continuation-frame", 1)
				}
			}
		}
		oints := c15OrderInts(order)
		for s := 0; s < 2; s++ {
			server := s == 1
			mk := func(part c15Part, fin, timeoutAt int) *c15AttrCase {
				return &c15AttrCase{Kind: "attr", Server: server, A: p.A, B: p.B, Tab: p.Tab, Order: oints, Part: part, Fin: fin, TimeoutAt: timeoutAt}
			}
			var wholeKeys map[string]bool
			// run evaluates a case that exists and judges it
			run := func(cs *c15AttrCase, ref map[string]bool) bool {
				res, vs, ok := c15RunAttrUnits(cs, bt, units, st)
				if ok {
					x.judge(cs, bt, &res, vs, ref, baseKeys[s])
				}
				return ok
			}
			// phase 1: whole / per frame / per byte
			cs := mk(c15Part{Mode: "whole"}, c15FinClose, -1)
			res, vs, _ := c15RunAttrUnits(cs, bt, units, st)
			wholeKeys = c15Keys(vs)
			x.judge(cs, bt, &res, vs, nil, baseKeys[s])
			if x.k%997 == 1 && s == 0 {
				x.r.Sample(map[string]any{"case": cs, "frames": c15UnitNames(bt, order), "traces": len(res.Traces), "outcome": c15OutcomeClass(&res)})
			}
			for _, mode := range []string{"frame", "byte"} {
				run(mk(c15Part{Mode: mode}, c15FinClose, -1), wholeKeys)
			}
			// phase 1b: the script's last call is a Read of this side and returns its bytes together with
			// an error (the whole last run / the last frame with io.EOF, the last byte with a reset): every
			// interleaving that is the first to end with its particular run of frames in the read direction
			if endRep[s][oi] || canonical[oi] {
				for _, mf := range []struct {
					mode string
					fin  int
				}{{"whole", c15FinEOFData}, {"frame", c15FinEOFData}, {"byte", c15FinErrData}} {
					if run(mk(c15Part{Mode: mf.mode}, mf.fin, -1), wholeKeys) {
						x.r.Count("cases:last-bytes-together-with-read-error", 1)
					}
				}
			}
			// phase 2: every single cut (canonical interleavings; all interleavings for the mini pairs in the thorough tier)
			if canonical[oi] || (thorough && mini) {
				rd := c15DirResp
				if server {
					rd = c15DirReq
				}
				for dir := 0; dir < 2; dir++ {
					for _, pos := range c15CutPositions(units, dir) {
						part := c15Part{Mode: "cut", Dir: dir, Pos: pos}
						run(mk(part, c15FinClose, -1), wholeKeys)
						// the Read that ends at the cut (anywhere inside a frame) returns its bytes together with
						// a timeout error; the rest follows in the next Read
						if dir == rd && oi == 0 {
							cs := mk(part, c15FinClose, c15CutStep(c15Steps(units, part), dir, pos))
							cs.TimeoutData = true
							if cs.TimeoutAt >= 0 && run(cs, wholeKeys) {
								x.r.Count("cases:bytes-together-with-read-timeout", 1)
							}
						}
					}
				}
				x.r.Count("interleavings-with-every-cut", 1)
			}
			// phase 3: other ways for the connection to end; a read timeout at every call boundary
			if canonical[oi] {
				for _, fin := range []int{c15FinWait, c15FinCloseErr} {
					run(mk(c15Part{Mode: "whole"}, fin, -1), wholeKeys)
				}
				// ending modes of the read side: {error in its own call | with the last chunk} x {EOF | reset}
				// under every partition (three of the combinations ran in phase 1b) ...
				for _, mode := range []string{"whole", "frame", "byte"} {
					for _, fin := range []int{c15FinEOF, c15FinErr, c15FinEOFData, c15FinErrData} {
						if (fin == c15FinEOFData && mode != "byte") || (fin == c15FinErrData && mode == "byte") {
							continue
						}
						if run(mk(c15Part{Mode: mode}, fin, -1), wholeKeys) && (fin == c15FinEOFData || fin == c15FinErrData) {
							x.r.Count("cases:last-bytes-together-with-read-error", 1)
						}
					}
				}
				// ... and with the last run cut at every interior offset (the last chunk is any proper suffix
				// of it; io.EOF and reset alternate)
				rd := c15DirResp
				if server {
					rd = c15DirReq
				}
				if units[len(units)-1].Dir == rd {
					lastRun := 0
					for i := len(units) - 1; i >= 0 && units[i].Dir == rd; i-- {
						lastRun += len(units[i].Bytes)
					}
					total := c15DirLen(units, rd)
					for pos := total - lastRun + 1; pos < total; pos++ {
						fin := c15FinEOFData
						if pos%2 == 1 {
							fin = c15FinErrData
						}
						if run(mk(c15Part{Mode: "cut", Dir: rd, Pos: pos}, fin, -1), wholeKeys) {
							x.r.Count("cases:last-bytes-together-with-read-error", 1)
						}
					}
				}
				// a read timeout at every call boundary, and every Read returning its bytes together with a
				// timeout error (the connection goes on: nothing may be lost)
				nsteps := len(c15CachedSteps(units, c15Part{Mode: "frame"}))
				for at := 0; at <= nsteps; at++ {
					run(mk(c15Part{Mode: "frame"}, c15FinClose, at), wholeKeys)
				}
				for _, mode := range []string{"whole", "frame"} {
					nsteps := len(c15CachedSteps(units, c15Part{Mode: mode}))
					for at := 0; at < nsteps; at++ {
						cs := mk(c15Part{Mode: mode}, c15FinClose, at)
						cs.TimeoutData = true
						if run(cs, wholeKeys) {
							x.r.Count("cases:bytes-together-with-read-timeout", 1)
						}
					}
				}
			}
		}
	}
}

// c15CountSpecial counts (once, on shard 0) the interleavings in which the
// situations the late / piece shapes exist for really occur.
func c15CountSpecial(r *rep.Report, bt *c15Built, orders [][]byte) {
	pieces := false
	for _, sh := range bt.shapes {
		if sh.ReqPieces >= 3 || sh.RespPieces >= 3 {
			pieces = true
		}
	}
	if pieces {
		r.Count("interleavings:message-in-3-or-4-data-frames", int64(len(orders)))
	}
	if !bt.late {
		return
	}
	var n int64
	for _, order := range orders {
		// a late header block, later a response header block of the other call
		lateOf := -1
		hit := false
		i, j := 0, 0
		for _, c := range order {
			var it c15Item
			if c == 0 {
				it = bt.a[i]
				i++
			} else {
				it = bt.b[j]
				j++
			}
			if it.Kind != 'H' || it.Dir != c15DirResp {
				continue
			}
			if it.Late && lateOf < 0 {
				lateOf = it.Call
			} else if !it.Late && lateOf >= 0 && it.Call != lateOf {
				hit = true
			}
		}
		if hit {
			n++
		}
	}
	r.Count("interleavings:late-header-block-then-response-block-of-other-call", n)
}

func c15UnitNames(bt *c15Built, order []byte) []string {
	items := c15ApplyTab(c15Merge(bt.a, bt.b, order), bt.tab)
	out := make([]string, len(items))
	for i, it := range items {
		c := "conn"
		if it.Call >= 0 {
			c = strings.ToUpper(c15Letters[it.Call])
		}
		out[i] = c + ":" + it.String()
	}
	return out
}

func TestVerifC15Attr(t *testing.T) {
	r := rep.New("c15-attr")
	defer r.Write()
	r.Rule = "case = (ordered pair of call shapes on streams 1 and 3, one well-formed interleaving of their frame sequences with HPACK encoded in emission order, side client|server, HPACK dynamic-table-size history of each direction: none | a schedule of SETTINGS_HEADER_TABLE_SIZE advertisements and size updates at the start of the k-th header block, partition of the byte streams into Read/Write calls: whole runs | per frame | per byte | one cut at every interior offset, way the connection ends: Close | Close fails | virtual time passes | read error {io.EOF, reset} x {in a Read call of its own, together with the last chunk}, optional read timeout: (0, timeout) at a call boundary | (n>0, timeout) on a Read that carries bytes); cases are distinct by construction; non-trivial = at least one of the two calls carries a test name, so at least one complete trace is demanded"
	if in := rep.ReplayInput(); in != nil {
		c15ReplayAttr(t, r, in)
		return
	}
	thorough := rep.Thorough()
	defer debug.SetGCPercent(debug.SetGCPercent(1000))
	pairs := c15Pairs(thorough)
	mini := map[string]bool{}
	for _, a := range c15MiniShapes() {
		for _, b := range c15MiniShapes() {
			mini[a.String()+"|"+b.String()] = true
		}
	}
	if r.Shard == 0 {
		r.Count("shape-pairs", int64(len(pairs)))
	}
	if os.Getenv("VERIF_C15_COUNT") != "" { // development aid: size of the enumeration, nothing is run
		var total, units, maxN int64
		for _, p := range pairs {
			bt := c15Build(p)
			var n int64
			c15Interleavings(bt.a, bt.b, func([]byte) { n++ })
			total += n
			units += n * int64(len(bt.a)+len(bt.b))
			if n > maxN {
				maxN = n
			}
		}
		fmt.Printf("C15 COUNT pairs=%d interleavings=%d frame-slots=%d max-per-pair=%d\n", len(pairs), total, units, maxN)
		r.Count("count-only:interleavings", total)
		r.Count("count-only:frame-slots", units)
		r.Count("count-only:max-per-pair", maxN)
		r.Eval(1)
		return
	}
	x := &c15AttrRun{r: r, deadline: rep.Deadline()}
	for pi, p := range pairs {
		if x.over() {
			break
		}
		synctest.Test(t, func(t *testing.T) {
			x.pair(pi, p, thorough, p.Tab.none() && mini[p.A.String()+"|"+p.B.String()])
		})
	}
	r.Extra["bound"] = fmt.Sprintf("two calls per connection; call shapes: %d quick / %d thorough (0-2 DATA frames per direction, request / response / trailer header blocks of 1-2 fragments, and %d quick / %d thorough chain shapes with blocks of 3-4 fragments (HEADERS + 2..3 CONTINUATION) paired with %d partner shapes and each other, END_STREAM on last frame or on an empty DATA, trailers or trailers-only, RST_STREAM by either side early/mid, REFUSED_STREAM+retry, GOAWAY(last-stream-id 1), no test name; %d quick / %d thorough late shapes (response HEADERS / DATA / trailers arriving after the client's RST_STREAM or after the GOAWAY that dropped the stream) with %d / %d partners; %d quick / %d thorough shapes with one message in 3-4 DATA frames); all interleavings; every single cut only for the first/middle/last interleaving of a pair (thorough: all interleavings for %d mini shapes squared); %d quick / %d thorough HPACK table-size schedules per direction (SETTINGS_HEADER_TABLE_SIZE 0 / 128 / 4097 / 64 KiB / 2^32-1 in the prologue or mid-connection; size updates to 0, 128, 4095-4097, 16 KiB, 64 KiB, 2^32-1 at the start of header block 0, 1 or 2, one or two instructions per block) in %d / %d shape pairs; endings with the last chunk (whole last run, last frame, last byte, every proper suffix of the last run) returned together with io.EOF / a reset: all partitions for the first/middle/last interleaving, three combinations for every interleaving that is the first to end with its run of frames; (n>0, timeout) at every Read of the whole and frame partitions for the first/middle/last interleaving and at every cut of the read direction for the first interleaving", len(c15QuickShapes()), len(c15ThoroughShapes()), len(c15ChainShapes(false)), len(c15ChainShapes(true)), len(c15ChainPartners()),
		len(c15LateShapes(false)), len(c15LateShapes(true)), len(c15LatePartners(false)), len(c15LatePartners(true)), c15NPieceShapes(false), c15NPieceShapes(true),
		len(c15MiniShapes()), len(c15TableScheds(false)), len(c15TableScheds(true)), len(c15TabPairs(false)), len(c15TabPairs(true)))
}

func c15NPieceShapes(thorough bool) int {
	w, n := c15PieceShapes(thorough)
	return len(w) + len(n)
}

func c15ReplayAttr(t *testing.T, r *rep.Report, in []byte) {
	var rec struct {
		Key    string          `json:"key"`
		Replay json.RawMessage `json:"replay"`
	}
	if err := json.Unmarshal(in, &rec); err != nil {
		t.Fatalf("replay file: %v", err)
	}
	var cs c15AttrCase
	if err := json.Unmarshal(rec.Replay, &cs); err != nil {
		t.Fatalf("replay case: %v", err)
	}
	synctest.Test(t, func(t *testing.T) {
		res, vs, units := c15RunAttrCase(&cs)
		bt := c15Build(c15Pair{A: cs.A, B: cs.B, Tab: cs.Tab})
		fmt.Printf("replay %s: side=%s table-size-history=%s ending=%s timeout_at=%d timeout_with_data=%v\n frames: %v\n", rec.Key, c15Side(cs.Server), cs.Tab, c15FinName(cs.Fin), cs.TimeoutAt, cs.TimeoutData, c15UnitNames(bt, c15OrderBytes(cs.Order)))
		for i, st := range c15Steps(units, cs.Part) {
			if i < 40 {
				fmt.Printf("  call %d dir=%d %x\n", i, st.Dir, st.Data)
			}
		}
		fmt.Printf(" panic=%q (%s) opaque=%q gaveup(req=%v,resp=%v) traces=%d\n", res.Panic, res.PanicVal, res.Opaque, res.BrokenReq, res.BrokenResp, len(res.Traces))
		for i := range res.Traces {
			fmt.Printf("  trace: %s\n", c15DescribeTrace(&res.Traces[i]))
		}
		r.Eval(1)
		r.NonTrivial("")
		keys := []string{}
		for _, v := range vs {
			keys = append(keys, v.Key)
			fmt.Printf(" verdict %s: %s\n", v.Key, v.Detail)
			r.Violate(v.Key, v.Detail, cs)
		}
		sort.Strings(keys)
		// the dependence keys are re-derived from their reference case
		if rec.Key == "trace-depends-on-error-with-data" || rec.Key == "trace-depends-on-table-size-update" {
			ref := cs
			if rec.Key == "trace-depends-on-error-with-data" {
				ref = cs.separateError()
			} else {
				ref.Tab = c15Tab{}
			}
			clean := c15RefClean(&ref)
			fmt.Printf(" reference case (ending=%s timeout_at=%d timeout_with_data=%v table-size-history=%s): clean=%v\n", c15FinName(ref.Fin), ref.TimeoutAt, ref.TimeoutData, ref.Tab, clean)
			if clean {
				for _, v := range vs {
					fmt.Printf(" reference case is clean where this one reports %s\n", v.Key)
					r.Violate(rec.Key, v.Key+": "+v.Detail, cs)
				}
			}
		}
		// the dependence keys are re-derived from the whole-run partition / first interleaving
		if rec.Key == "trace-depends-on-partition" || rec.Key == "trace-depends-on-interleaving" {
			ref := cs
			ref.Part = c15Part{Mode: "whole"}
			ref.TimeoutAt, ref.Fin = -1, c15FinClose
			if rec.Key == "trace-depends-on-interleaving" {
				var first []byte
				c15Interleavings(bt.a, bt.b, func(o []byte) {
					if first == nil {
						first = append([]byte(nil), o...)
					}
				})
				ref.Order = c15OrderInts(first)
			}
			_, rvs, _ := c15RunAttrCase(&ref)
			if len(rvs) == 0 {
				for _, v := range vs {
					fmt.Printf(" reference case is clean where this one reports %s\n", v.Key)
					r.Violate(rec.Key, v.Key+": "+v.Detail, cs)
				}
			}
		}
	})
}
