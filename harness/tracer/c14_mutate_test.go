package tracer

// C14, stage M (late mutation of the live header map). Cheap; runs before the
// heavy enumeration of c14_test.go (same unit, same report).
//
// The encoding of a body is what the headers that went over the wire say. The
// map those headers were read from stays in the hands of its owner:
//
//   - server response: http.ResponseWriter.Header(). net/http ignores whatever
//     the handler does to it after WriteHeader (other than trailers), and
//     handlers do edit it (they empty it so that it only holds trailers, they
//     delete negotiation headers, they set trailers);
//   - client response: resp.Header belongs to the caller as soon as RoundTrip
//     has returned; layers above a round tripper strip or rewrite negotiation
//     headers before handing the response on;
//   - server request: the *http.Request a handler receives (the middleware
//     passes on its own clone); middlewares delete and rewrite request headers
//     while the body is still being read.
//
// (The client request is left out: a caller must not touch the request before
// the response body is closed, and by then the trace is complete.)
//
// A *case* of this stage is a single-body case of the main enumeration plus a
// mutation (delete / set / add a value of Connect-Content-Encoding,
// Grpc-Encoding, Content-Encoding or Content-Type) applied by the owner of the
// map before the At-th Read / Write call of the body: before any byte (but
// after WriteHeader / after RoundTrip returned), at every byte offset of the
// body (between the messages, inside the end-stream message's prefix and
// payload), and after the last byte before the EOF read / the handler's return.
// The wire is identical to the run without the mutation, hence the oracle:
// the events equal those of the same case without the mutation, the reference
// model (computed from the headers that went out) is satisfied, and the
// application and its peer observe the same as without tracing.

import (
	"encoding/hex"
	"encoding/json"
	"fmt"
	"net/http"
	"runtime/debug"
	"testing"
	"time"

	"connectrpc.com/conformance/internal/verif/rep"
)

type c14Mut struct {
	At  int    `json:"at"` // applied before the At-th Read/Write call of the body (len(pieces) = after the last one)
	Op  string `json:"op"` // del | set | add
	Key string `json:"key"`
	Val string `json:"val,omitempty"`
}

func (m *c14Mut) applyAt(i int, h http.Header) {
	if m == nil || i != m.At {
		return
	}
	switch m.Op {
	case "del":
		h.Del(m.Key)
	case "set":
		h.Set(m.Key, m.Val)
	case "add":
		h.Add(m.Key, m.Val)
	}
}

func (m c14Mut) String() string {
	if m.Op == "del" {
		return "del " + m.Key
	}
	return fmt.Sprintf("%s %s=%q", m.Op, m.Key, m.Val)
}

// c14MutChanges tells whether the mutation changes the map built from h at all.
func c14MutChanges(h c14Hdr, m c14Mut) bool {
	cur, present := "", false
	switch {
	case m.Key == "Content-Type":
		cur, present = h.CT, h.CT != ""
	case m.Key == h.EncKey:
		cur, present = h.Enc, true
	}
	switch m.Op {
	case "del":
		return present
	case "set":
		return !present || cur != m.Val
	}
	return true
}

type c14MutBase struct {
	Hdr   c14Hdr
	D     []byte
	Label string
}

// c14MutBases: a leading message and an end-stream message, for every protocol
// that carries enveloped bodies, encoding absent / identity / supported ones,
// compressed bit set and unset.
func c14MutBases(thorough bool) []c14MutBase {
	type protoCfg struct {
		name, ct, encKey string
		flag             byte
		text             string
	}
	protos := []protoCfg{
		{"connect", "application/connect+proto", "Connect-Content-Encoding", 0x02, `{"e":1}`},
		{"grpcweb", "application/grpc-web+proto", "Grpc-Encoding", 0x80, "grpc-status: 0\r\n"},
		{"grpc", "application/grpc+proto", "Grpc-Encoding", 0x80, "grpc-status: 0\r\n"}, // no end-stream message in gRPC: content unconstrained, framing judged
	}
	encs := []string{"gzip", "zstd", "", "identity"}
	if thorough {
		encs = append([]string{"gzip", "zstd", "br", "deflate", "snappy"}, "", "identity")
	}
	var out []c14MutBase
	for _, p := range protos {
		for _, enc := range encs {
			for _, bit := range []byte{1, 0} {
				payload := []byte(p.text)
				if bit == 1 {
					payload = c14Compress(enc, payload)
				}
				d := append(c14Envelope(0, []byte{0x0a}), c14Envelope(p.flag|bit, payload)...)
				h := c14Hdr{CT: p.ct, Status: 200}
				if enc != "" {
					h.EncKey, h.Enc = p.encKey, enc
				}
				label := enc
				if label == "" {
					label = "absent"
				}
				out = append(out, c14MutBase{h, d, fmt.Sprintf("%s/%s/bit%d", p.name, label, bit)})
			}
		}
	}
	return out
}

// c14Mutations: what the owner of the map may do to it afterwards (At is filled in by the caller).
func c14Mutations(h c14Hdr) []c14Mut {
	var out []c14Mut
	add := func(m c14Mut) {
		if c14MutChanges(h, m) {
			out = append(out, m)
		}
	}
	for _, key := range []string{"Connect-Content-Encoding", "Grpc-Encoding", "Content-Encoding"} {
		add(c14Mut{Op: "del", Key: key})
		for _, v := range []string{"identity", "gzip", "zstd", "c14-unknown"} {
			add(c14Mut{Op: "set", Key: key, Val: v})
		}
		if key == h.EncKey {
			add(c14Mut{Op: "add", Key: key, Val: "identity"}) // second value: Get keeps answering the first
		}
	}
	add(c14Mut{Op: "del", Key: "Content-Type"})
	for _, v := range []string{"application/json", "application/connect+proto", "application/grpc-web+proto", "application/grpc+proto"} {
		add(c14Mut{Op: "set", Key: "Content-Type", Val: v})
	}
	return out
}

type c14MutChunking struct {
	Pieces []int
	Ats    []int
}

// c14MutChunkings: where in the body the mutation happens. Bodies are delivered
// either in two calls with the mutation between them (every offset), in one call
// with the mutation before it or after it, or byte by byte with the mutation
// before every call and after the last one.
func c14MutChunkings(n int, implicitHeader bool) []c14MutChunking {
	first := 0
	if implicitHeader {
		first = 1 // the headers only go out with the first Write: a mutation before it is not a late one
	}
	var out []c14MutChunking
	one := c14MutChunking{Pieces: []int{n}}
	for at := first; at <= 1; at++ {
		one.Ats = append(one.Ats, at)
	}
	out = append(out, one)
	for p := 1; p < n; p++ {
		out = append(out, c14MutChunking{Pieces: []int{p, n - p}, Ats: []int{1}})
	}
	bytewise := c14MutChunking{}
	for i := 0; i < n; i++ {
		bytewise.Pieces = append(bytewise.Pieces, 1)
	}
	for at := first; at <= n; at++ {
		bytewise.Ats = append(bytewise.Ats, at)
	}
	return append(out, bytewise)
}

type c14MutGroup struct {
	Base  *c14MutBase
	Side  string
	Hdr   c14Hdr
	Chunk c14MutChunking
}

func c14MutGroups(thorough bool) (groups []c14MutGroup, cases int64) {
	bases := c14MutBases(thorough)
	for bi := range bases {
		b := &bases[bi]
		muts := int64(len(c14Mutations(b.Hdr)))
		for _, side := range []string{c14ClientResp, c14ServerResp, c14ServerReq} {
			statuses := []int{200}
			if side == c14ServerResp {
				statuses = []int{200, 0} // explicit WriteHeader / headers sent by the first Write
			}
			for _, status := range statuses {
				h := b.Hdr
				h.Status = status
				for _, ch := range c14MutChunkings(len(b.D), side == c14ServerResp && status == 0) {
					if side == c14ServerReq && len(ch.Pieces) == 2 && ch.Pieces[0]%4 != 1 && !thorough {
						continue // request bodies have no end-stream event: every fourth offset in the quick tier
					}
					groups = append(groups, c14MutGroup{b, side, h, ch})
					cases += muts * int64(len(ch.Ats))
				}
			}
		}
	}
	return groups, cases
}

// c14JudgeMutated: the whole oracle for one mutated case; base = events of the same case without the mutation.
func c14JudgeMutated(c *c14Case, ref *c14Ref, traced, plain *c14Obs, base []c14Ev) (out []c14Finding) {
	for _, f := range c14Judge(c, ref, traced, plain, nil) {
		out = append(out, c14Finding{"mutate:" + f.Key, f.Detail})
	}
	if !c14SameEvents(base, traced.Events) {
		out = append(out, c14Finding{"mutate:events-differ-from-unmutated-run",
			fmt.Sprintf("with the header map edited after the headers went out (%s before call %d) the events are %s; without the edit (identical wire) they are %s",
				*c.Mut, c.Mut.At, c14EvString(traced.Events), c14EvString(base))})
	}
	return out
}

func c14MutateStage(r *rep.Report, deadline time.Time) bool {
	groups, planned := c14MutGroups(rep.Thorough())
	if r.Shard == 0 {
		r.Count("mutate:groups-total", int64(len(groups)))
		r.Count("planned-cases:M-mutate", planned)
	}
	r.Note("stage M: %d groups (body x side x explicit/implicit WriteHeader x chunking), %d cases (x mutation x point of the body)", len(groups), planned)
	start := time.Now()
	cpu := c14CPUMillis()
	defer func() { // informational only
		r.Count("stage-wall-ms:M-mutate", time.Since(start).Milliseconds())
		r.Count("stage-cpu-ms:M-mutate", c14CPUMillis()-cpu)
	}()
	defer debug.SetGCPercent(debug.SetGCPercent(100)) // footprint only, see stage H
	var evals int64
	defer func() {
		r.Eval(evals)
		r.Count("nontrivial:M-mutate", evals)
	}()
	for k := range groups {
		if !r.Mine(int64(k)) {
			continue
		}
		if !deadline.IsZero() && time.Now().After(deadline) {
			return false
		}
		g := &groups[k]
		ending := "eof"
		if g.Side == c14ServerResp {
			ending = "return"
		}
		c := c14Case{Part: "M-mutate", Side: g.Side, Hdr: g.Hdr, Body: hex.EncodeToString(g.Base.D), Pieces: g.Chunk.Pieces, Ending: ending}
		ref := c14Reference(g.Side, g.Hdr, g.Base.D)
		unmutated := c14Run(&c, g.Base.D, true)
		for _, m := range c14Mutations(g.Hdr) {
			for _, at := range g.Chunk.Ats {
				m.At = at
				mc := c
				mc.Mut = &m
				traced := c14Run(&mc, g.Base.D, true)
				plain := c14Run(&mc, g.Base.D, false)
				evals++
				r.NonTrivial("")
				findings := c14JudgeMutated(&mc, ref, &traced, &plain, unmutated.Events)
				if evals%512 == 1 {
					r.Outcome(fmt.Sprintf("mutate %s %s %s: eos=%d", g.Side, g.Base.Label, m.Op, c14EosCount(traced.Events)))
				}
				if evals%8192 == 1 {
					mm := m
					mc.Mut = &mm
					r.Sample(map[string]any{"case": mc, "events": c14EvString(traced.Events)})
				}
				if len(findings) > 0 {
					mm := m
					mc.Mut = &mm
					mc.Pieces = append([]int(nil), mc.Pieces...)
					for _, f := range findings {
						r.Violate(f.Key, fmt.Sprintf("%s\n  case: %s\n  events: %s", f.Detail, c14CaseString(&mc), c14EvString(traced.Events)), mc)
					}
				}
			}
		}
	}
	return true
}

// c14MutateReplay re-runs a recorded case of stage M; false = the record belongs to another stage.
func c14MutateReplay(t *testing.T, r *rep.Report, in []byte) bool {
	var rec struct {
		Replay c14Case `json:"replay"`
	}
	if err := json.Unmarshal(in, &rec); err != nil || rec.Replay.Mut == nil {
		return false
	}
	c := rec.Replay
	body, err := hex.DecodeString(c.Body)
	if err != nil {
		t.Fatalf("bad replay body: %v", err)
	}
	ref := c14Reference(c.Side, c.Hdr, body)
	un := c
	un.Mut = nil
	unmutated := c14Run(&un, body, true)
	traced := c14Run(&c, body, true)
	plain := c14Run(&c, body, false)
	fmt.Printf("C14 replay: case %s\n  reference: %+v\n  events without the mutation: %s\n  events: %s\n  completes=%d foreign=%d panic=%q\n  traced log: %x\n  plain log:  %x\n",
		c14CaseString(&c), *ref, c14EvString(unmutated.Events), c14EvString(traced.Events), traced.Completes, traced.Foreign, traced.Panic, traced.Log, plain.Log)
	r.Eval(1)
	r.NonTrivial("")
	r.Sample(c)
	for _, f := range c14JudgeMutated(&c, ref, &traced, &plain, unmutated.Events) {
		fmt.Printf("C14 replay: still violates %s: %s\n", f.Key, f.Detail)
		r.Violate(f.Key, f.Detail, c)
	}
	return true
}
