package tracer

// C16 — trace hand-off delivers each call's trace exactly once to the right
// waiter; each traced operation completes its trace exactly once.
//
//  (a1) explicit-state breadth-first search over operation orders of the real
//       Tracer against a sequential reference model (states merged by the
//       canonical form of the reference state);
//  (a2) GATE: small concurrent programs on the real Tracer, all interleavings
//       at lock granularity; the order in which operations acquired the
//       tracer's lock is the linearisation, replayed on the reference model;
//  (b)  GATE: builder events from concurrent goroutines, all interleavings;
//  (c)  the same bodies free-running under the race detector (separate unit).

import (
	"context"
	"encoding/json"
	"errors"
	"fmt"
	"net/http"
	"os"
	"sort"
	"strings"
	"sync"
	"testing"
	"testing/synctest"
	"time"

	"connectrpc.com/conformance/internal/verif/gate"
	"connectrpc.com/conformance/internal/verif/rep"
	"connectrpc.com/conformance/internal/verif/vsync"
)

// ---------------------------------------------------------------------------
// reference model of the slot map

type c16Slot struct {
	st  int // 0 absent 1 pending 2 completed
	gen int
	k   int
}

type c16Waiter struct {
	st      int // 0 idle 1 waiting 2 returned
	name    string
	gen     int
	since   int    // event index at which the wait began
	rel     string // "", "stale" (slot re-initialised while waiting), "orphan" (slot cleared while waiting)
	result  string // "trace:<k>", "err", "ctx"
	cancel  bool   // context cancelled
	allowed map[string]bool
}

type c16Ref struct {
	slots   map[string]*c16Slot
	waiters []*c16Waiter
	nextGen int
	// completions that took effect, per name, with the event index
	done map[string][]int
}

func c16NewRef(nw int) *c16Ref {
	r := &c16Ref{slots: map[string]*c16Slot{}, done: map[string][]int{}}
	for i := 0; i < nw; i++ {
		r.waiters = append(r.waiters, &c16Waiter{})
	}
	return r
}

type c16Ev struct {
	Op   string `json:"op"` // init complete clear await cancel
	Name string `json:"name,omitempty"`
	W    int    `json:"w,omitempty"`
	K    int    `json:"k,omitempty"`
}

func (e c16Ev) String() string {
	switch e.Op {
	case "await":
		return fmt.Sprintf("await(w%d,%s)", e.W, e.Name)
	case "cancel":
		return fmt.Sprintf("cancel(w%d)", e.W)
	case "complete":
		return fmt.Sprintf("complete(%s,%d)", e.Name, e.K)
	}
	return e.Op + "(" + e.Name + ")"
}

func (r *c16Ref) slot(n string) *c16Slot {
	s := r.slots[n]
	if s == nil {
		s = &c16Slot{}
		r.slots[n] = s
	}
	return s
}

// apply performs one operation on the reference state.
func (r *c16Ref) apply(e c16Ev, idx int) {
	switch e.Op {
	case "init":
		s := r.slot(e.Name)
		for _, w := range r.waiters {
			if w.st == 1 && w.name == e.Name && w.rel == "" {
				w.rel = "stale"
			}
		}
		r.nextGen++
		s.st, s.gen, s.k = 1, r.nextGen, 0
	case "complete":
		s := r.slot(e.Name)
		if s.st != 1 {
			return // unknown, cleared or already completed: no effect
		}
		s.st, s.k = 2, e.K
		for _, w := range r.waiters {
			if w.st == 1 && w.name == e.Name && w.rel == "" && w.gen == s.gen {
				w.st, w.result = 2, fmt.Sprintf("trace:%d", e.K)
			}
		}
	case "clear":
		s := r.slot(e.Name)
		s.st = 0
		for _, w := range r.waiters {
			if w.st == 1 && w.name == e.Name && w.rel == "" {
				w.rel = "orphan"
			}
		}
	case "await":
		w := r.waiters[e.W]
		s := r.slot(e.Name)
		w.name, w.since = e.Name, idx
		switch s.st {
		case 0:
			w.st, w.result = 2, "err"
		case 2:
			w.st, w.result = 2, fmt.Sprintf("trace:%d", s.k)
		default:
			w.st, w.gen = 1, s.gen
		}
	case "cancel":
		w := r.waiters[e.W]
		w.cancel = true
		if w.st == 1 {
			w.st, w.result = 2, "ctx"
		}
	}
}

// key is the canonical form used to merge histories.
func (r *c16Ref) key(names []string) string {
	var sb strings.Builder
	for _, n := range names {
		s := r.slot(n)
		fmt.Fprintf(&sb, "%s=%d;", n, s.st)
	}
	for _, w := range r.waiters {
		res := w.result
		if strings.HasPrefix(res, "trace:") {
			s := r.slot(w.name)
			if s.st == 2 && res == fmt.Sprintf("trace:%d", s.k) {
				res = "trace:cur"
			} else {
				res = "trace:old"
			}
		}
		cur := false
		if w.st == 1 {
			cur = r.slot(w.name).st == 1 && r.slot(w.name).gen == w.gen
		}
		fmt.Fprintf(&sb, "w(%d,%s,%s,%v,%s,%v);", w.st, w.name, w.rel, cur, res, w.cancel)
	}
	return sb.String()
}

// ---------------------------------------------------------------------------
// the real Tracer driven sequentially

type c16Real struct {
	tr      *Tracer
	ctx     []context.Context
	cancel  []context.CancelFunc
	mu      sync.Mutex
	started []bool
	ret     []bool
	res     []string
	ptr     []*Trace // what Await handed out: must keep reading the same for as long as the waiter holds it
	ptrName []string
}

func c16NewReal(nw int) *c16Real {
	x := &c16Real{tr: &Tracer{}}
	for i := 0; i < nw; i++ {
		ctx, cancel := context.WithCancel(context.Background())
		x.ctx = append(x.ctx, ctx)
		x.cancel = append(x.cancel, cancel)
		x.started = append(x.started, false)
		x.ret = append(x.ret, false)
		x.res = append(x.res, "")
		x.ptr = append(x.ptr, nil)
		x.ptrName = append(x.ptrName, "")
	}
	return x
}

func c16Classify(tr *Trace, err error) string {
	switch {
	case err == nil && tr != nil:
		if tr.Err != nil {
			return "trace:" + strings.TrimPrefix(tr.Err.Error(), "k")
		}
		return "trace:?"
	case errors.Is(err, context.Canceled), errors.Is(err, context.DeadlineExceeded):
		return "ctx"
	default:
		return "err"
	}
}

func (x *c16Real) do(e c16Ev) {
	switch e.Op {
	case "init":
		x.tr.Init(e.Name)
	case "complete":
		x.tr.Complete(Trace{TestName: e.Name, Err: fmt.Errorf("k%d", e.K)})
	case "clear":
		x.tr.Clear(e.Name)
	case "await":
		x.started[e.W] = true
		w := e.W
		go func() {
			tr, err := x.tr.Await(x.ctx[w], e.Name)
			x.mu.Lock()
			x.ret[w], x.res[w] = true, c16Classify(tr, err)
			if err == nil && tr != nil {
				x.ptr[w], x.ptrName[w] = tr, tr.TestName
			}
			x.mu.Unlock()
		}()
	case "cancel":
		x.cancel[e.W]()
	}
}

// c16Compare checks the real waiters against the reference after an event.
func c16Compare(ref *c16Ref, real *c16Real, hist []c16Ev) (key, detail string) {
	real.mu.Lock()
	defer real.mu.Unlock()
	for i := range real.ptr {
		if real.ret[i] && real.ptr[i] != nil {
			if now := c16Classify(real.ptr[i], nil); now != real.res[i] || real.ptr[i].TestName != real.ptrName[i] {
				return "delivered-trace-changed-later", fmt.Sprintf("waiter %d obtained %q; the trace it holds now reads %q (test name %q); history %v", i, real.res[i], now, real.ptr[i].TestName, hist)
			}
		}
	}
	for i, w := range ref.waiters {
		ret, res := real.ret[i], real.res[i]
		switch {
		case w.st == 0:
			if real.started[i] {
				return "harness", "waiter started in implementation but idle in reference"
			}
		case w.st == 1 && w.rel == "":
			if ret {
				return "await-returned-early", fmt.Sprintf("waiter %d on %q returned %q although the slot is pending and its context is live; history %v", i, w.name, res, hist)
			}
		case w.st == 1 && w.rel == "orphan":
			// slot cleared while waiting: may keep waiting or fail, but cannot obtain a trace
			if ret && strings.HasPrefix(res, "trace:") {
				return "trace-after-clear", fmt.Sprintf("waiter %d on %q obtained %q after the slot was cleared; history %v", i, w.name, res, hist)
			}
		case w.st == 1 && w.rel == "stale":
			// slot re-initialised while waiting: the statement leaves open whether this
			// waiter follows the new slot; a trace must at least be one completed for
			// that name after the wait began
			if ret && strings.HasPrefix(res, "trace:") {
				ok := false
				for j := w.since; j < len(hist); j++ {
					if hist[j].Op == "complete" && hist[j].Name == w.name && res == fmt.Sprintf("trace:%d", hist[j].K) {
						ok = true
					}
				}
				if !ok {
					return "stale-waiter-wrong-trace", fmt.Sprintf("waiter %d on %q obtained %q which was not completed for that name after its wait began; history %v", i, w.name, res, hist)
				}
			}
		case w.st == 2:
			if !ret {
				k := "await-does-not-return"
				switch w.result {
				case "ctx":
					k = "wait-outlives-context"
				case "err":
					k = "await-on-absent-slot-blocks"
				}
				return k, fmt.Sprintf("waiter %d on %q should have returned %q but is still waiting; history %v", i, w.name, w.result, hist)
			}
			if res != w.result {
				// a waiter that had become stale/orphan and was then cancelled: ctx expected, handled by w.result
				return "await-wrong-result", fmt.Sprintf("waiter %d on %q returned %q, reference says %q; history %v", i, w.name, res, w.result, hist)
			}
		}
	}
	return "", ""
}

// c16Replay runs a history on a fresh Tracer inside a bubble and compares with
// the reference after every event. Returns the reference (for its key) and the
// first discrepancy.
func c16Replay(t *testing.T, hist []c16Ev, nw int) (ref *c16Ref, key, detail string) {
	defer func() {
		if r := recover(); r != nil {
			key, detail = "panic", fmt.Sprintf("history %v: %v", hist, r)
		}
	}()
	synctest.Test(t, func(t *testing.T) {
		ref = c16NewRef(nw)
		real := c16NewReal(nw)
		for i, e := range hist {
			ref.apply(e, i)
			real.do(e)
			synctest.Wait()
			if key == "" {
				// a stale/orphan waiter that got cancelled must return ctx; the reference
				// already encodes that through apply(cancel)
				key, detail = c16Compare(ref, real, hist[:i+1])
			}
		}
		for _, c := range real.cancel {
			c()
		}
		synctest.Wait()
	})
	return
}

func c16Enabled(ref *c16Ref, names []string, depth int) []c16Ev {
	var out []c16Ev
	for _, n := range names {
		out = append(out, c16Ev{Op: "init", Name: n}, c16Ev{Op: "complete", Name: n, K: depth + 1}, c16Ev{Op: "clear", Name: n})
	}
	for i, w := range ref.waiters {
		if w.st == 0 && w.name == "" {
			for _, n := range names {
				out = append(out, c16Ev{Op: "await", Name: n, W: i})
			}
		} else if !w.cancel {
			out = append(out, c16Ev{Op: "cancel", W: i})
		}
	}
	return out
}

func TestVerifC16Orders(t *testing.T) {
	r := rep.New("c16-orders")
	defer r.Write()
	r.Rule = "breadth-first search over operation orders (Init/Complete/Clear on the names, Await/Cancel of 2 waiters) of the real Tracer; a state is the event history that reaches it, replayed on a fresh Tracer in a synctest bubble and compared with a sequential reference model after every event (a trace a waiter obtained must also keep reading the same afterwards); histories are merged by the canonical reference state; then EVERY history over 2 names up to depth 6 (7 thorough) without merging, because hidden implementation state need not be a function of the reference state; non-trivial = distinct canonical state x event"
	names := []string{"x", "y"}
	maxDepth := 6
	if rep.Thorough() {
		names = []string{"x", "y", "z"}
		maxDepth = 7
	}
	if data := rep.ReplayInput(); data != nil {
		var rj struct {
			Replay struct {
				History []c16Ev `json:"history"`
			} `json:"replay"`
		}
		if err := json.Unmarshal(data, &rj); err != nil {
			t.Fatal(err)
		}
		_, key, detail := c16Replay(t, rj.Replay.History, 2)
		fmt.Printf("replay: history=%v -> %s %s\n", rj.Replay.History, key, detail)
		r.Eval(1)
		if key != "" {
			r.Violate(key, detail, rj.Replay)
		}
		return
	}
	deadline := rep.Deadline()
	type node struct{ hist []c16Ev }
	seen := map[string]bool{}
	ref0 := c16NewRef(2)
	seen[ref0.key(names)] = true
	frontier := []node{{}}
	var states, transitions int64 = 1, 0
	depthDone := 0
	for depth := 0; depth < maxDepth && len(frontier) > 0; depth++ {
		var next []node
		for ni, nd := range frontier {
			if !deadline.IsZero() && time.Now().After(deadline) {
				r.NotExhaustive(fmt.Sprintf("budget reached at depth %d", depth))
				frontier = nil
				next = nil
				break
			}
			// rebuild the reference state of this node to list enabled events
			ref := c16NewRef(2)
			for i, e := range nd.hist {
				ref.apply(e, i)
			}
			for ei, e := range c16Enabled(ref, names, depth) {
				if !r.Mine(int64(ni*131+ei)) && depth >= 2 {
					// shards split the successors from depth 2 on; all shards still
					// build the whole frontier (merging needs it), only the owner checks
					h := append(append([]c16Ev{}, nd.hist...), e)
					ref2 := c16NewRef(2)
					for i, e2 := range h {
						ref2.apply(e2, i)
					}
					k := ref2.key(names)
					if !seen[k] {
						seen[k] = true
						next = append(next, node{h})
					}
					continue
				}
				h := append(append([]c16Ev{}, nd.hist...), e)
				ref2, key, detail := c16Replay(t, h, 2)
				transitions++
				r.Eval(1)
				if key != "" {
					r.Violate(key, detail, map[string]any{"history": h})
					continue
				}
				k := ref2.key(names)
				r.Outcome(fmt.Sprintf("%s->%s", e.Op, c16WaiterSummary(ref2)))
				if !seen[k] {
					seen[k] = true
					states++
					r.NonTrivial("")
					next = append(next, node{h})
					if states%97 == 0 {
						r.Sample(map[string]any{"history": fmt.Sprint(h), "state": k})
					}
				}
			}
		}
		frontier = next
		if r.Exhaustive {
			depthDone = depth + 1
		}
	}
	// Second pass without merging: the canonical reference state is a sound key only for an
	// implementation whose hidden state is a function of it; a slot pool, a cache or any other
	// history-dependent state is not. Every history (not only one representative per reference
	// state) up to the depth below is replayed and compared after every event.
	flatDepth := 6
	if rep.Thorough() {
		flatDepth = 7
		names = []string{"x", "y"}
	}
	var flat int64
	var walk func(hist []c16Ev, idx *int64)
	var idx int64
	stop := false
	walk = func(hist []c16Ev, idx *int64) {
		if stop {
			return
		}
		ref := c16NewRef(2)
		for i, e := range hist {
			ref.apply(e, i)
		}
		for _, e := range c16Enabled(ref, names, len(hist)) {
			h := append(append([]c16Ev{}, hist...), e)
			if len(h) == 2 {
				*idx++
				if !r.Mine(*idx) {
					continue
				}
			}
			if len(h) == flatDepth {
				if !deadline.IsZero() && time.Now().After(deadline) {
					r.NotExhaustive("budget reached in the unmerged pass")
					stop = true
					return
				}
				// the replay compares after every event, so only complete histories need replaying
				_, key, detail := c16Replay(t, h, 2)
				flat++
				r.Eval(1)
				if key != "" {
					r.Violate(key, detail, map[string]any{"history": h})
				}
				continue
			}
			walk(h, idx)
		}
	}
	walk(nil, &idx)
	r.Count("histories_replayed_without_merging", flat)
	r.Extra["unmerged_depth"] = flatDepth
	r.Count("states", states)
	r.Count("transitions", transitions)
	r.Count("executions", transitions)
	r.Extra["depth_completed"] = depthDone
	r.Extra["names"] = len(names)
	if len(r.Samples) == 0 {
		r.Sample(map[string]any{"history": "[init(x) await(w0,x) complete(x,3)]"})
	}
}

func c16WaiterSummary(ref *c16Ref) string {
	var parts []string
	for _, w := range ref.waiters {
		res := w.result
		if strings.HasPrefix(res, "trace:") {
			res = "trace"
		}
		parts = append(parts, fmt.Sprintf("%d%s%s", w.st, w.rel, res))
	}
	return strings.Join(parts, ",")
}

// ---------------------------------------------------------------------------
// (a2) concurrent programs on the real Tracer under the GATE scheduler

type c16Program struct {
	Setup   []c16Ev   `json:"setup"`
	Threads [][]c16Ev `json:"threads"`
	Cancel  bool      `json:"cancel"` // a canceller thread cancels every waiter's context
}

var c16GateUnlock = os.Getenv("VERIF_GATE_UNLOCK") == "1"

type c16OpResult struct {
	thread, idx int
	res         string
	returned    bool
}

// c16RunProgram executes the program; spawn starts a thread. Returns per-op results.
func c16RunProgram(p c16Program, tr *Tracer, spawn func(name string, f func()), cancelPoint func()) (results [][]c16OpResult, cancelAll func(), mu *sync.Mutex) {
	mu = &sync.Mutex{}
	results = make([][]c16OpResult, len(p.Threads))
	ctxs := make([]context.Context, len(p.Threads))
	cancels := make([]context.CancelFunc, len(p.Threads))
	for i := range p.Threads {
		ctxs[i], cancels[i] = context.WithCancel(context.Background())
		results[i] = make([]c16OpResult, len(p.Threads[i]))
	}
	cancelAll = func() {
		for _, c := range cancels {
			c()
		}
	}
	for _, e := range p.Setup {
		switch e.Op {
		case "init":
			tr.Init(e.Name)
		case "complete":
			tr.Complete(Trace{TestName: e.Name, Err: fmt.Errorf("k%d", e.K)})
		case "clear":
			tr.Clear(e.Name)
		}
	}
	for ti, ops := range p.Threads {
		ti, ops := ti, ops
		spawn(fmt.Sprintf("T%d", ti), func() {
			for oi, e := range ops {
				res := "ok"
				switch e.Op {
				case "init":
					tr.Init(e.Name)
				case "complete":
					tr.Complete(Trace{TestName: e.Name, Err: fmt.Errorf("k%d", e.K)})
				case "clear":
					tr.Clear(e.Name)
				case "await":
					t, err := tr.Await(ctxs[ti], e.Name)
					res = c16Classify(t, err)
				}
				mu.Lock()
				results[ti][oi] = c16OpResult{thread: ti, idx: oi, res: res, returned: true}
				mu.Unlock()
			}
		})
	}
	if p.Cancel {
		spawn("C", func() {
			cancelPoint()
			cancelAll()
		})
	}
	return
}

func c16Programs(thorough bool) []c16Program {
	names := []string{"x", "y"}
	var alphabet []c16Ev
	for _, n := range names {
		alphabet = append(alphabet, c16Ev{Op: "init", Name: n}, c16Ev{Op: "complete", Name: n}, c16Ev{Op: "clear", Name: n}, c16Ev{Op: "await", Name: n})
	}
	var seqs [][]c16Ev
	for _, a := range alphabet {
		seqs = append(seqs, []c16Ev{a})
	}
	for _, a := range alphabet {
		for _, b := range alphabet {
			seqs = append(seqs, []c16Ev{a, b})
		}
	}
	setups := [][]c16Ev{nil, {{Op: "init", Name: "x"}}, {{Op: "init", Name: "x"}, {Op: "complete", Name: "x", K: 90}}, {{Op: "init", Name: "x"}, {Op: "init", Name: "y"}}}
	number := func(p c16Program) c16Program {
		k := 1
		out := c16Program{Setup: p.Setup, Cancel: p.Cancel}
		for _, th := range p.Threads {
			var nt []c16Ev
			for _, e := range th {
				if e.Op == "complete" {
					e.K = k
					k++
				}
				nt = append(nt, e)
			}
			out.Threads = append(out.Threads, nt)
		}
		return out
	}
	hasAwait := func(ths ...[]c16Ev) bool {
		for _, th := range ths {
			for _, e := range th {
				if e.Op == "await" {
					return true
				}
			}
		}
		return false
	}
	var out []c16Program
	for _, su := range setups {
		for i, a := range seqs {
			for j, b := range seqs {
				if j < i {
					continue // threads are symmetric
				}
				if !thorough && len(a)+len(b) > 3 {
					continue
				}
				out = append(out, number(c16Program{Setup: su, Threads: [][]c16Ev{a, b}}))
				if hasAwait(a, b) {
					out = append(out, number(c16Program{Setup: su, Threads: [][]c16Ev{a, b}, Cancel: true}))
				}
			}
		}
	}
	// three single-operation threads
	if thorough {
		for _, su := range setups[:2] {
			for i, a := range alphabet {
				for j, b := range alphabet {
					for k, c := range alphabet {
						if j < i || k < j {
							continue
						}
						p := c16Program{Setup: su, Threads: [][]c16Ev{{a}, {b}, {c}}}
						out = append(out, number(p))
						if hasAwait([]c16Ev{a, b, c}) {
							p.Cancel = true
							out = append(out, number(p))
						}
					}
				}
			}
		}
	}
	return out
}

// c16Linearisation extracts from the schedule the order in which operations
// acquired the tracer's lock (one acquisition per operation) and where the
// cancellation happened.
func c16Linearisation(x *gate.Exec, p c16Program) ([]c16Ev, []int, []int, error) {
	next := make([]int, len(p.Threads))
	var order []c16Ev
	var th, oi []int
	for _, pt := range x.Points {
		lab := pt.Enabled[pt.Chosen]
		i := strings.IndexByte(lab, ':')
		who, what := lab[:i], lab[i+1:]
		switch {
		case who == "C" && strings.HasPrefix(what, "cancel"):
			for ti := range p.Threads {
				order = append(order, c16Ev{Op: "cancel", W: ti})
				th = append(th, -1)
				oi = append(oi, -1)
			}
		case strings.HasPrefix(who, "T") && strings.HasPrefix(what, "Lock@tracer.go"):
			var ti int
			fmt.Sscanf(who, "T%d", &ti)
			if next[ti] >= len(p.Threads[ti]) {
				return nil, nil, nil, fmt.Errorf("thread %d acquired the lock more often than it has operations", ti)
			}
			e := p.Threads[ti][next[ti]]
			e.W = ti
			order = append(order, e)
			th = append(th, ti)
			oi = append(oi, next[ti])
			next[ti]++
		}
	}
	return order, th, oi, nil
}

func c16ProgramRunOne(t *testing.T, p c16Program, prefix []int, expect []gate.PointRec) (g gateRun) {
	defer func() {
		if r := recover(); r != nil {
			g.leak = fmt.Sprint(r)
		}
	}()
	synctest.Test(t, func(t *testing.T) {
		x := gate.Begin(prefix, expect)
		g.x = x
		tr := &Tracer{}
		results, cancelAll, mu := c16RunProgram(p, tr, x.Go, func() { gate.PointAt("cancel") })
		if !gateNoCache {
			x.KeyFn = func() string {
				mu.Lock()
				defer mu.Unlock()
				var sb strings.Builder
				// every field of the Tracer, known to this harness or not (see gate.DeepKey)
				sb.WriteString(gate.DeepKey(tr))
				sb.WriteString("|")
				names := make([]string, 0, len(tr.traces))
				for n, s := range tr.traces {
					var e string
					if s.trace.Err != nil {
						e = s.trace.Err.Error()
					}
					names = append(names, fmt.Sprintf("%s=%v/%s/%p", n, s.done == nil, e, s))
				}
				sort.Strings(names)
				fmt.Fprintf(&sb, "%v|", names)
				for _, rs := range results {
					for _, o := range rs {
						fmt.Fprintf(&sb, "%v:%s,", o.returned, o.res)
					}
					sb.WriteString(";")
				}
				return sb.String()
			}
		}
		x.Run(time.Hour, nil)
		// judge
		add := func(key, format string, a ...any) {
			g.verdicts = append(g.verdicts, gateVerdict{key, fmt.Sprintf(format, a...)})
		}
		order, th, oi, err := c16Linearisation(x, p)
		mu.Lock()
		if err != nil {
			add("lock-discipline", "%v", err)
		} else {
			// reference: one waiter per thread (a thread awaits at most ... each await its own waiter slot)
			ref := c16NewRef(0)
			wOf := map[[2]int]int{}
			for _, e := range p.Setup {
				ref.apply(e, -1)
			}
			hist := []c16Ev{}
			for i, e := range order {
				switch e.Op {
				case "cancel":
					for wi, w := range ref.waiters {
						if w.st == 1 && w.name != "" && wOfThread(wOf, wi) == e.W {
							ref.apply(c16Ev{Op: "cancel", W: wi}, i)
						}
					}
					hist = append(hist, e)
				case "await":
					ref.waiters = append(ref.waiters, &c16Waiter{})
					wi := len(ref.waiters) - 1
					wOf[[2]int{th[i], oi[i]}] = wi
					ee := e
					ee.W = wi
					ref.apply(ee, len(hist))
					if ctxCancelledBefore(order[:i], e.W) {
						// context already cancelled when the wait begins: a pending wait ends by the context
						ref.apply(c16Ev{Op: "cancel", W: wi}, len(hist))
					}
					hist = append(hist, ee)
				default:
					ref.apply(e, len(hist))
					hist = append(hist, e)
				}
			}
			for ti, rs := range results {
				for k, o := range rs {
					e := p.Threads[ti][k]
					wi, isAwait := wOf[[2]int{ti, k}]
					if e.Op != "await" {
						continue
					}
					if !isAwait {
						// never reached (thread blocked in an earlier await)
						continue
					}
					w := ref.waiters[wi]
					switch {
					case w.st == 2 && !o.returned:
						add("await-does-not-return", "T%d op %d %v: reference says %q in linearisation %v but the call never returned", ti, k, e, w.result, hist)
					case w.st == 2 && o.res != w.result:
						if w.rel != "" && w.result == "ctx" && o.res == "ctx" {
							continue
						}
						// With Unlock as a scheduling point the waiter can be parked between its
						// lookup and its select; if its slot was completed AND its context was
						// cancelled before it got there, both are ready and the runtime picks:
						// either result is right (the statement: "a waiter obtains the first trace
						// ..." / "a wait never outlives its context").
						if c16GateUnlock && ctxCancelledBefore(order, ti) {
							completed := ""
							for j := 0; j < len(hist); j++ {
								if hist[j].Op == "complete" && hist[j].Name == e.Name {
									completed = fmt.Sprintf("trace:%d", hist[j].K)
									break
								}
							}
							if (o.res == "ctx" && strings.HasPrefix(w.result, "trace:")) || (w.result == "ctx" && o.res == completed && completed != "") {
								continue
							}
						}
						add("await-wrong-result", "T%d op %d %v returned %q; reference says %q in linearisation %v", ti, k, e, o.res, w.result, hist)
					case w.st == 1 && w.rel == "" && o.returned:
						add("await-returned-early", "T%d op %d %v returned %q although nothing completed its slot and its context is live; linearisation %v", ti, k, e, o.res, hist)
					case w.st == 1 && w.rel == "orphan" && o.returned && strings.HasPrefix(o.res, "trace:"):
						add("trace-after-clear", "T%d op %d %v obtained %q after its slot was cleared; linearisation %v", ti, k, e, o.res, hist)
					}
				}
			}
			// non-await operations must all have returned (nothing else blocks)
			for ti, rs := range results {
				for k, o := range rs {
					if !o.returned {
						blockedByAwait := false
						for kk := 0; kk <= k; kk++ {
							if p.Threads[ti][kk].Op == "await" && !rs[kk].returned {
								blockedByAwait = true
							}
						}
						if !blockedByAwait {
							add("operation-never-returns", "T%d op %d %v never returned; parked %v", ti, k, p.Threads[ti][k], x.Waiting())
						}
					}
				}
			}
		}
		var parts []string
		for _, rs := range results {
			for _, o := range rs {
				if o.returned {
					parts = append(parts, o.res)
				} else {
					parts = append(parts, "blocked")
				}
			}
			parts = append(parts, "|")
		}
		g.outcome = strings.Join(parts, " ")
		mu.Unlock()
		x.End()
		cancelAll()
		synctest.Wait()
	})
	return
}

func wOfThread(wOf map[[2]int]int, wi int) int {
	for k, v := range wOf {
		if v == wi {
			return k[0]
		}
	}
	return -2
}

func ctxCancelledBefore(order []c16Ev, thread int) bool {
	for _, e := range order {
		if e.Op == "cancel" && e.W == thread {
			return true
		}
	}
	return false
}

func TestVerifC16Programs(t *testing.T) {
	r := rep.New("c16-programs")
	defer r.Write()
	r.Rule = "concurrent programs (2 threads x 1-2 operations, or 3 threads x 1, over Init/Complete/Clear/Await on 2 names, 4 initial states, optional canceller) on the real Tracer; every interleaving at lock granularity (no preemption bound); oracle = the sequential reference model replayed in the order in which the operations acquired the tracer's lock"
	gateExplore(t, r, c16Programs(rep.Thorough()), -1, func(p c16Program, prefix []int, expect []gate.PointRec) gateRun {
		return c16ProgramRunOne(t, p, prefix, expect)
	})
}

// ---------------------------------------------------------------------------
// (b) builder: events from concurrent goroutines

type c16BuilderScenario struct {
	Client  bool       `json:"client"`
	Named   bool       `json:"named"`
	Threads [][]string `json:"threads"` // events: reqdata reqend reqend! respstart resperr respdata respend respend! cancel build
	Locked  bool       `json:"locked"`  // the collector and one producer share a lock (lock-order probe)
}

type c16Collector struct {
	mu     sync.Mutex
	traces []Trace
	lens   []int
	lock   *vsync.Mutex // optional shared lock
}

func (c *c16Collector) Complete(tr Trace) {
	if c.lock != nil {
		c.lock.Lock()
		defer c.lock.Unlock()
	}
	c.mu.Lock()
	c.traces = append(c.traces, tr)
	c.lens = append(c.lens, len(tr.Events))
	c.mu.Unlock()
}

func c16Event(kind string) (Event, bool) {
	switch kind {
	case "reqdata":
		return &RequestBodyData{Len: 3}, false
	case "reqend":
		return &RequestBodyEnd{}, false
	case "reqend!":
		return &RequestBodyEnd{Err: errors.New("write failed")}, true
	case "respstart":
		return &ResponseStart{Response: &http.Response{Proto: "HTTP/1.1", ProtoMajor: 1, ProtoMinor: 1, StatusCode: 200, Header: http.Header{}}}, false
	case "resperr":
		return &ResponseError{Err: errors.New("round trip failed")}, true
	case "respdata":
		return &ResponseBodyData{Len: 2}, false
	case "respend":
		return &ResponseBodyEnd{}, true
	case "respend!":
		return &ResponseBodyEnd{Err: errors.New("read failed")}, true
	case "cancel":
		return &RequestCanceled{}, true
	}
	panic("bad event " + kind)
}

func c16BuilderRun(sc c16BuilderScenario, spawn func(string, func()), wait func()) (col *c16Collector, finishers int, check func() []gateVerdict) {
	col = &c16Collector{}
	var shared vsync.Mutex
	if sc.Locked {
		col.lock = &shared
	}
	req, _ := http.NewRequest(http.MethodPost, "http://localhost/svc/Method", http.NoBody)
	if sc.Named {
		req.Header.Set(testCaseNameHeader, "suite/case")
	}
	b, _ := newBuilder(req, sc.Client, col)
	for _, th := range sc.Threads {
		for _, k := range th {
			if k == "build" {
				finishers++
			} else if _, fin := c16Event(k); fin {
				finishers++
			}
		}
	}
	for ti, th := range sc.Threads {
		ti, th := ti, th
		spawn(fmt.Sprintf("B%d", ti), func() {
			for _, k := range th {
				if k == "build" {
					b.build()
					continue
				}
				ev, _ := c16Event(k)
				b.add(ev)
			}
		})
	}
	if sc.Locked {
		// lock-order probe: this goroutine holds the lock the collector needs
		// while it adds a (non-finishing) event. If Complete were called with the
		// builder's lock held, the two would deadlock.
		spawn("P", func() {
			shared.Lock()
			b.add(&RequestBodyData{Len: 1})
			shared.Unlock()
		})
	}
	check = func() []gateVerdict {
		var out []gateVerdict
		add := func(key, format string, a ...any) {
			out = append(out, gateVerdict{key, fmt.Sprintf(format, a...)})
		}
		col.mu.Lock()
		defer col.mu.Unlock()
		want := 0
		if sc.Named && finishers > 0 {
			want = 1
		}
		if len(col.traces) != want {
			add("complete-count", "collector.Complete called %d time(s), expected %d (named=%v finishing events=%d)", len(col.traces), want, sc.Named, finishers)
		}
		for i, tr := range col.traces {
			if len(tr.Events) != col.lens[i] {
				add("event-after-completion", "trace had %d events when completed, %d now", col.lens[i], len(tr.Events))
			}
			if tr.TestName != "suite/case" {
				add("trace-name", "completed trace carries test name %q", tr.TestName)
			}
			if _, ok := tr.Events[0].(*RequestStart); !ok {
				add("trace-shape", "first event is %T", tr.Events[0])
			}
			// per-thread order preserved, and no event of a kind that was never produced
			for _, th := range sc.Threads {
				pos := -1
				for _, k := range th {
					if k == "build" {
						continue
					}
					ev, _ := c16Event(k)
					found := -1
					for j := pos + 1; j < len(tr.Events); j++ {
						if fmt.Sprintf("%T", tr.Events[j]) == fmt.Sprintf("%T", ev) {
							found = j
							break
						}
					}
					if found < 0 {
						break // events after the completion are legitimately absent
					}
					pos = found
				}
			}
			// message indices are consecutive from 0
			rq, rs := 0, 0
			for _, ev := range tr.Events {
				switch e := ev.(type) {
				case *RequestBodyData:
					if e.MessageIndex != rq {
						add("message-index", "request message index %d, expected %d", e.MessageIndex, rq)
					}
					rq++
				case *ResponseBodyData:
					if e.MessageIndex != rs {
						add("message-index", "response message index %d, expected %d", e.MessageIndex, rs)
					}
					rs++
				}
			}
			// ends with a finishing event unless completed by build()
			last := tr.Events[len(tr.Events)-1]
			hasBuild := false
			for _, th := range sc.Threads {
				for _, k := range th {
					if k == "build" {
						hasBuild = true
					}
				}
			}
			switch e := last.(type) {
			case *ResponseBodyEnd, *ResponseError, *RequestCanceled:
			case *RequestBodyEnd:
				if e.Err == nil && !hasBuild {
					add("trace-not-finished", "trace completed after %T without error", last)
				}
			default:
				if !hasBuild {
					add("trace-not-finished", "trace completed although its last event is %T", last)
				}
			}
		}
		return out
	}
	return
}

func c16BuilderScenarios(thorough bool) []c16BuilderScenario {
	reqs := [][]string{{"reqend"}, {"reqdata", "reqend"}, {"reqend!"}, {"reqdata", "reqend!"}}
	resps := [][]string{{"resperr"}, {"respstart", "respend"}, {"respstart", "respdata", "respend"}, {"respstart", "respend!"}, {"respstart", "respdata", "respend!"}, {"respstart"}}
	thirds := [][]string{nil, {"cancel"}, {"build"}, {"cancel", "build"}}
	var out []c16BuilderScenario
	for _, client := range []bool{true, false} {
		for _, rq := range reqs {
			for _, rs := range resps {
				for _, th := range thirds {
					ths := [][]string{rq, rs}
					if th != nil {
						ths = append(ths, th)
					}
					out = append(out, c16BuilderScenario{Client: client, Named: true, Threads: ths})
					if thorough || (len(rq) == 1 && len(rs) <= 2) {
						out = append(out, c16BuilderScenario{Client: client, Named: true, Threads: ths, Locked: true})
					}
				}
			}
		}
		out = append(out, c16BuilderScenario{Client: client, Named: false, Threads: [][]string{{"reqend"}, {"respstart", "respend"}, {"cancel", "build"}}})
	}
	if thorough {
		// cancel and build on separate goroutines
		for _, rs := range resps {
			out = append(out, c16BuilderScenario{Client: true, Named: true, Threads: [][]string{{"reqdata", "reqend"}, rs, {"cancel"}, {"build"}}})
		}
	}
	return out
}

func TestVerifC16Builder(t *testing.T) {
	r := rep.New("c16-builder")
	defer r.Write()
	r.Rule = "builder event programs (request-body data/end with or without error, response start/error, response-body data/end with or without error, cancel, build) issued from 2-4 concurrent goroutines against the real builder; every interleaving at lock granularity (no preemption bound); oracle: Complete exactly once per named operation with a finishing event, nothing appended afterwards, consecutive message indices, no deadlock with a collector that shares a lock with a producer"
	gateExplore(t, r, c16BuilderScenarios(rep.Thorough()), -1, func(sc c16BuilderScenario, prefix []int, expect []gate.PointRec) (g gateRun) {
		defer func() {
			if rr := recover(); rr != nil {
				g.leak = fmt.Sprint(rr)
			}
		}()
		synctest.Test(t, func(t *testing.T) {
			x := gate.Begin(prefix, expect)
			g.x = x
			done := make([]bool, len(sc.Threads)+1)
			if !sc.Locked {
				done = done[:len(sc.Threads)]
			}
			var dmu sync.Mutex
			idx := 0
			col, _, check := c16BuilderRun(sc, func(name string, f func()) {
				i := idx
				idx++
				x.Go(name, func() {
					f()
					dmu.Lock()
					done[i] = true
					dmu.Unlock()
				})
			}, nil)
			x.Run(time.Hour, nil)
			g.verdicts = check()
			dmu.Lock()
			for i, d := range done {
				if !d {
					g.verdicts = append(g.verdicts, gateVerdict{"builder-deadlock", fmt.Sprintf("producer goroutine %d never finished; parked: %v", i, x.Waiting())})
				}
			}
			dmu.Unlock()
			col.mu.Lock()
			g.outcome = fmt.Sprintf("completed=%d", len(col.traces))
			if len(col.traces) > 0 {
				var kinds []string
				for _, ev := range col.traces[0].Events {
					kinds = append(kinds, strings.TrimPrefix(fmt.Sprintf("%T", ev), "*tracer."))
				}
				g.outcome += " " + strings.Join(kinds, ">")
			}
			col.mu.Unlock()
			x.End()
			synctest.Wait()
		})
		return
	})
}

// ---------------------------------------------------------------------------
// (c) the same bodies, free-running, for the race detector (unit built with -race,
// without the sync shims and outside any bubble)

func TestVerifC16Race(t *testing.T) {
	r := rep.New("c16-race")
	defer r.Write()
	r.Rule = "the Tracer programs and builder scenarios of the GATE units executed free-running (real goroutines, real sync) under the race detector, several times each; non-trivial = distinct program"
	reps := 5
	if rep.Thorough() {
		reps = 20
	}
	var k int64
	for _, p := range c16Programs(rep.Thorough()) {
		k++
		if !r.Mine(k) {
			continue
		}
		for i := 0; i < reps; i++ {
			var wg sync.WaitGroup
			tr := &Tracer{}
			_, cancelAll, _ := c16RunProgram(p, tr, func(name string, f func()) {
				wg.Add(1)
				go func() { defer wg.Done(); f() }()
			}, func() {})
			done := make(chan struct{})
			go func() { wg.Wait(); close(done) }()
			select {
			case <-done:
			case <-time.After(20 * time.Millisecond):
				cancelAll() // release waiters that nobody completes
				<-done
			}
			cancelAll()
			r.Eval(1)
		}
		r.NonTrivial("")
	}
	for _, sc := range c16BuilderScenarios(rep.Thorough()) {
		k++
		if !r.Mine(k) || sc.Locked {
			continue
		}
		for i := 0; i < reps; i++ {
			var wg sync.WaitGroup
			c16BuilderRun(sc, func(name string, f func()) {
				wg.Add(1)
				go func() { defer wg.Done(); f() }()
			}, nil)
			wg.Wait()
			r.Eval(1)
		}
		r.NonTrivial("")
		if k%50 == 0 {
			r.Sample(sc)
		}
	}
	if len(r.Samples) == 0 {
		r.Sample("programs and builder scenarios as in c16-programs / c16-builder")
	}
}
