package tracer

// C14 — body tracing reconstructs the exact message sequence and never alters
// the data.
//
// Bounded-exhaustive (ENUM) harness. A *case* is
//
//	(side, negotiated headers, delivered byte string D, composition of D into
//	 Read/Write calls, ending)
//
// D ranges over every prefix (= every truncation point) of every enveloped
// stream of the alphabet below. Each case is executed twice on scripted fakes:
// once through the real middleware (TracingRoundTripper / TracingHandler, hence
// tracingReader / tracingResponseWriter / dataTracer / builder, with a fake
// Collector receiving the completed Trace exactly like *Tracer would) and once
// without any tracing. The oracle is
//
//	(1) a reference parse of the whole buffer D written from the property text
//	    (c14Reference): one data event per complete envelope (exact flags,
//	    declared length, consecutive indices from 0), end-stream content equal to
//	    the payload, decompressed exactly when bit 0 of the flags is set, exactly
//	    one body-end event which is last, and one final partial event with the
//	    byte count seen when D ends strictly inside a prefix or a payload (a cut
//	    exactly between prefix and payload is left unconstrained);
//	(2) chunking independence: all compositions of the same D (same side,
//	    headers, ending class) give identical events;
//	(3) transparency: everything the application and its peer observe (bytes,
//	    counts, errors, buffer sizes handed down, headers, status, trailers,
//	    panics) is identical to the run without tracing.
//
// Cheap stages run before this enumeration: stage M (c14_mutate_test.go), the
// owner of the live header map edits it after the headers went out; stage P
// (c14_h2_test.go), bodies carried through the HTTP/2 connection tracer in
// hand-built frames (padding, CONTINUATION, priority, every cut into DATA
// frames); (c14_history_test.go) stage H, histories (pairs of cases traced back
// to back in one process: what the trace says about a body must not depend on
// what was traced before), and stage S, every spelling of every supported
// encoding name in every header carrying it.
//
// Violations are reported through the report only.

import (
	"bytes"
	"compress/gzip"
	"compress/zlib"
	"encoding/binary"
	"encoding/hex"
	"encoding/json"
	"errors"
	"fmt"
	"io"
	"net/http"
	"net/url"
	"sort"
	"strings"
	"sync"
	"testing"
	"time"

	"connectrpc.com/conformance/internal/verif/rep"
	"github.com/andybalholm/brotli"
	"github.com/golang/snappy"
	"github.com/klauspost/compress/zstd"
)

const (
	c14ClientResp = "client-response"
	c14ServerReq  = "server-request"
	c14ServerResp = "server-response"
	c14ClientReq  = "client-request"
)

var (
	c14ErrRead  = errors.New("c14: injected read error")
	c14ErrClose = errors.New("c14: injected close error")
	c14ErrWrite = errors.New("c14: injected write error")
	c14ErrRT    = errors.New("c14: transport failed")

	c14URL = &url.URL{Scheme: "http", Host: "c14.test", Path: "/c14.Service/Method"}

	// what an application buffer holds before a Read: bytes that look like a
	// complete end-stream envelope, so that a tracer looking beyond n is noticed.
	c14Garbage = func() (g [64]byte) {
		pat := []byte{0x02, 0x00, 0x00, 0x00, 0x01, 0x7b}
		for i := range g {
			g[i] = pat[i%len(pat)]
		}
		return g
	}()
	// bytes offered to a Write beyond what the peer accepts
	c14Extra = []byte{0x02, 0x00, 0x00, 0x00, 0x01, 0x7d}
)

const c14PanicVal = "c14: handler panic"

// ---------------------------------------------------------------------------
// case description

type c14Hdr struct {
	CT     string `json:"ct"`                // Content-Type ("" = absent)
	EncKey string `json:"enc_key,omitempty"` // name of the encoding header ("" = absent)
	Enc    string `json:"enc,omitempty"`
	Status int    `json:"status,omitempty"` // writer: 0 = implicit WriteHeader
}

func (h c14Hdr) set(dst http.Header) {
	if h.CT != "" {
		dst.Set("Content-Type", h.CT)
	}
	if h.EncKey != "" {
		dst.Set(h.EncKey, h.Enc)
	}
}

type c14Case struct {
	Part   string `json:"part"`
	Side   string `json:"side"`
	Hdr    c14Hdr `json:"hdr"`
	Body   string `json:"body_hex"` // the delivered bytes D
	Pieces []int  `json:"pieces"`   // composition of D into calls
	Ending string `json:"ending"`
	// stage M (c14_mutate_test.go): the owner of the live header map edits it after the headers went out
	Mut *c14Mut `json:"mut,omitempty"`
}

func c14EndingGroup(e string) string {
	switch e {
	case "eof", "eof+data":
		return "eof"
	case "err", "err+data":
		return "err"
	case "werr0", "werr-partial":
		return "werr"
	}
	return e
}

// ---------------------------------------------------------------------------
// observation

type c14Ev struct {
	K       byte // 'D' data, 'S' end-stream content, 'E' body end
	Env     bool
	Flags   byte
	ELen    uint32
	Len     uint64
	Idx     int
	Content string
	ErrCls  byte // 0 nil, 2 read error, 4 write error, 8 other
	err     error
}

func (e c14Ev) String() string {
	switch e.K {
	case 'D':
		if e.Env {
			return fmt.Sprintf("data#%d{flags=%#x declared=%d len=%d}", e.Idx, e.Flags, e.ELen, e.Len)
		}
		return fmt.Sprintf("data#%d{no-envelope len=%d}", e.Idx, e.Len)
	case 'S':
		return fmt.Sprintf("endstream{%q}", e.Content)
	default:
		return fmt.Sprintf("bodyend{err=%v}", e.err)
	}
}

func c14EvString(evs []c14Ev) string {
	parts := make([]string, len(evs))
	for i, e := range evs {
		parts[i] = e.String()
	}
	return "[" + strings.Join(parts, " ") + "]"
}

func c14SameEvents(a, b []c14Ev) bool {
	if len(a) != len(b) {
		return false
	}
	for i := range a {
		x, y := a[i], b[i]
		if x.K != y.K || x.Env != y.Env || x.Flags != y.Flags || x.ELen != y.ELen || x.Len != y.Len ||
			x.Idx != y.Idx || x.Content != y.Content || x.ErrCls != y.ErrCls {
			return false
		}
	}
	return true
}

type c14Obs struct {
	Log       []byte // everything the application and its peer observe
	Panic     string // panic escaping to the caller of the middleware
	Events    []c14Ev
	Foreign   int // body data events of the other direction
	Completes int
}

type c14Collector struct {
	mu    sync.Mutex
	n     int
	trace Trace
}

func (c *c14Collector) Complete(t Trace) {
	c.mu.Lock()
	defer c.mu.Unlock()
	c.n++
	if c.n == 1 {
		c.trace = t
	}
}

func c14ErrCode(err error) byte {
	switch err {
	case nil:
		return 0
	case io.EOF:
		return 1
	case c14ErrRead:
		return 2
	case c14ErrClose:
		return 3
	case c14ErrWrite:
		return 4
	case c14ErrRT:
		return 5
	}
	return 9
}

func c14LogErr(log *[]byte, err error) {
	code := c14ErrCode(err)
	*log = append(*log, code)
	if code == 9 {
		*log = append(*log, err.Error()...)
		*log = append(*log, 0)
	}
}

var c14HdrKeys = []string{"Content-Type", "Connect-Content-Encoding", "Grpc-Encoding", "Content-Encoding",
	"Content-Length", "Trailer", "X-C14", "X-C14-Announced", http.TrailerPrefix + "X-C14-Late", "X-C14-Trailer", "X-Test-Case-Name"}

func c14LogHeader(log *[]byte, tag byte, h http.Header) {
	*log = append(*log, tag, byte(len(h)))
	for i, k := range c14HdrKeys {
		if vals, ok := h[k]; ok {
			*log = append(*log, byte(i), byte(len(vals)))
			for _, v := range vals {
				*log = append(*log, v...)
				*log = append(*log, 0)
			}
		}
	}
	*log = append(*log, 0xff)
}

// ---------------------------------------------------------------------------
// scripted fakes

type c14Reader struct {
	body   []byte
	pieces []int
	ending string
	i, pos int
	log    *[]byte
}

func (s *c14Reader) Read(p []byte) (int, error) {
	*s.log = append(*s.log, 'r', byte(len(p)))
	if s.i < len(s.pieces) {
		n := s.pieces[s.i]
		if len(p) < n {
			panic("c14 harness: application buffer too small")
		}
		copy(p, s.body[s.pos:s.pos+n])
		s.pos += n
		s.i++
		if s.i == len(s.pieces) {
			switch s.ending {
			case "eof+data":
				return n, io.EOF
			case "err+data":
				return n, c14ErrRead
			}
		}
		return n, nil
	}
	switch s.ending {
	case "err", "err+data":
		return 0, c14ErrRead
	}
	return 0, io.EOF
}

func (s *c14Reader) Close() error {
	*s.log = append(*s.log, 'c')
	if s.ending == "close-err" {
		return c14ErrClose
	}
	return nil
}

// c14Consume is the application side of a body: Read with a garbage-filled
// buffer until the script ends, then Close.
func c14Consume(body io.ReadCloser, pieces []int, ending string, log *[]byte) {
	c14ConsumeHook(body, pieces, ending, log, nil)
}

// c14ConsumeHook is c14Consume with a hook that runs before the i-th Read call (i from 0).
func c14ConsumeHook(body io.ReadCloser, pieces []int, ending string, log *[]byte, hook func(i int)) {
	var buf [64]byte
	reads := 0
	closing := ending == "close" || ending == "close-err"
	for {
		if closing && reads == len(pieces) {
			break
		}
		buf = c14Garbage
		if hook != nil {
			hook(reads)
		}
		n, err := body.Read(buf[:])
		reads++
		*log = append(*log, 'R', byte(n))
		c14LogErr(log, err)
		if n < 0 || n > len(buf) {
			*log = append(*log, '!')
			break
		}
		*log = append(*log, buf[:n]...)
		if !bytes.Equal(buf[n:], c14Garbage[n:]) {
			*log = append(*log, 'G') // buffer modified beyond n
		}
		if err != nil {
			break
		}
		if reads > len(pieces)+2 {
			*log = append(*log, 'X')
			break
		}
	}
	err := body.Close()
	*log = append(*log, 'C')
	c14LogErr(log, err)
}

type c14Transport struct {
	c        *c14Case
	respHdr  http.Header
	respBody io.ReadCloser
	log      *[]byte
}

func (t *c14Transport) RoundTrip(req *http.Request) (*http.Response, error) {
	c14LogHeader(t.log, 'q', req.Header)
	*t.log = append(*t.log, req.Method...)
	*t.log = append(*t.log, req.URL.Path...)
	if req.Body != nil {
		if t.c.Side == c14ClientReq {
			c14Consume(req.Body, t.c.Pieces, t.c.Ending, t.log)
			if c14EndingGroup(t.c.Ending) == "err" {
				return nil, c14ErrRT
			}
		} else {
			c14Consume(req.Body, nil, "eof", t.log)
		}
	}
	return &http.Response{
		Status: "200 OK", StatusCode: http.StatusOK, Proto: "HTTP/1.1", ProtoMajor: 1, ProtoMinor: 1,
		Header: t.respHdr, Body: t.respBody, ContentLength: -1,
		Trailer: http.Header{"X-C14-Trailer": {"t"}}, Request: req,
	}, nil
}

type c14RW struct {
	hdr    http.Header
	wrote  bool
	accept int // number of body bytes the peer accepts before failing
	got    int
	log    *[]byte
}

func (w *c14RW) Header() http.Header { return w.hdr }

func (w *c14RW) WriteHeader(code int) {
	if w.wrote {
		*w.log = append(*w.log, 'x')
		return
	}
	w.wrote = true
	*w.log = append(*w.log, 'H', byte(code>>8), byte(code))
	c14LogHeader(w.log, 's', w.hdr)
}

func (w *c14RW) Write(p []byte) (int, error) {
	if !w.wrote {
		w.WriteHeader(http.StatusOK) // what net/http does
	}
	room := w.accept - w.got
	if len(p) <= room {
		w.got += len(p)
		*w.log = append(*w.log, 'W', byte(len(p)))
		*w.log = append(*w.log, p...)
		return len(p), nil
	}
	w.got += room
	*w.log = append(*w.log, 'W', byte(room))
	*w.log = append(*w.log, p[:room]...)
	*w.log = append(*w.log, 'E')
	return room, c14ErrWrite
}

func (w *c14RW) Flush() { *w.log = append(*w.log, 'F') }

func (w *c14RW) finish() {
	if !w.wrote {
		w.WriteHeader(http.StatusOK)
	}
	c14LogHeader(w.log, 'f', w.hdr) // includes trailers
}

// ---------------------------------------------------------------------------
// running one case

func c14Events(tr *Trace, request bool) (evs []c14Ev, foreign int) {
	cls := func(err error) byte {
		switch {
		case err == nil:
			return 0
		case errors.Is(err, c14ErrRead):
			return 2
		case errors.Is(err, c14ErrWrite):
			return 4
		}
		return 8
	}
	for _, ev := range tr.Events {
		switch e := ev.(type) {
		case *RequestBodyData:
			if !request {
				foreign++
				continue
			}
			x := c14Ev{K: 'D', Len: e.Len, Idx: e.MessageIndex}
			if e.Envelope != nil {
				x.Env, x.Flags, x.ELen = true, e.Envelope.Flags, e.Envelope.Len
			}
			evs = append(evs, x)
		case *RequestBodyEnd:
			if request {
				evs = append(evs, c14Ev{K: 'E', ErrCls: cls(e.Err), err: e.Err})
			}
		case *ResponseBodyData:
			if request {
				foreign++
				continue
			}
			x := c14Ev{K: 'D', Len: e.Len, Idx: e.MessageIndex}
			if e.Envelope != nil {
				x.Env, x.Flags, x.ELen = true, e.Envelope.Flags, e.Envelope.Len
			}
			evs = append(evs, x)
		case *ResponseBodyEndStream:
			if request {
				foreign++
				continue
			}
			evs = append(evs, c14Ev{K: 'S', Content: e.Content})
		case *ResponseBodyEnd:
			if !request {
				evs = append(evs, c14Ev{K: 'E', ErrCls: cls(e.Err), err: e.Err})
			}
		}
	}
	return evs, foreign
}

func c14Run(c *c14Case, body []byte, traced bool) (obs c14Obs) {
	obs.Log = make([]byte, 0, 384)
	coll := &c14Collector{}
	if c.Side == c14ClientResp || c.Side == c14ClientReq {
		c14RunClient(c, body, traced, coll, &obs)
	} else {
		c14RunServer(c, body, traced, coll, &obs)
	}
	if traced {
		coll.mu.Lock()
		obs.Completes = coll.n
		tr := coll.trace
		coll.mu.Unlock()
		obs.Events, obs.Foreign = c14Events(&tr, c.Side == c14ServerReq || c.Side == c14ClientReq)
	}
	return obs
}

func c14RunClient(c *c14Case, body []byte, traced bool, coll Collector, obs *c14Obs) {
	defer func() {
		if p := recover(); p != nil {
			obs.Panic = fmt.Sprint(p)
		}
	}()
	log := &obs.Log
	reqHdr := http.Header{testCaseNameHeader: {"c14"}}
	respHdr := http.Header{"X-C14": {"v"}}
	var reqBody, respBody io.ReadCloser
	respPieces, respEnding := []int(nil), "eof"
	if c.Side == c14ClientReq {
		c.Hdr.set(reqHdr)
		reqBody = &c14Reader{body: body, pieces: c.Pieces, ending: c.Ending, log: log}
		respHdr.Set("Content-Type", "application/connect+proto")
		respBody = &c14Reader{ending: "eof", log: log}
	} else {
		if c.Hdr.CT != "" {
			reqHdr.Set("Content-Type", c.Hdr.CT)
		}
		c.Hdr.set(respHdr)
		reqBody = http.NoBody
		respBody = &c14Reader{body: body, pieces: c.Pieces, ending: c.Ending, log: log}
		respPieces, respEnding = c.Pieces, c.Ending
	}
	req := &http.Request{
		Method: http.MethodPost, URL: c14URL, Proto: "HTTP/1.1", ProtoMajor: 1, ProtoMinor: 1,
		Header: reqHdr, Body: reqBody, ContentLength: -1, Host: c14URL.Host,
	}
	var rt http.RoundTripper = &c14Transport{c: c, respHdr: respHdr, respBody: respBody, log: log}
	if traced {
		rt = TracingRoundTripper(rt, coll)
	}
	resp, err := rt.RoundTrip(req)
	*log = append(*log, 'T')
	c14LogErr(log, err)
	if err != nil {
		return
	}
	*log = append(*log, byte(resp.StatusCode>>8), byte(resp.StatusCode))
	c14LogHeader(log, 'h', resp.Header)
	var hook func(int)
	if c.Mut != nil && c.Side == c14ClientResp {
		hook = func(i int) { c.Mut.applyAt(i, resp.Header) } // the caller owns resp.Header once RoundTrip has returned
	}
	c14ConsumeHook(resp.Body, respPieces, respEnding, log, hook)
	if hook != nil {
		c14LogHeader(log, 'm', resp.Header)
	}
	c14LogHeader(log, 't', resp.Trailer)
}

func c14RunServer(c *c14Case, body []byte, traced bool, coll Collector, obs *c14Obs) {
	log := &obs.Log
	reqHdr := http.Header{testCaseNameHeader: {"c14"}}
	var reqBody io.ReadCloser = http.NoBody
	if c.Side == c14ServerReq {
		c.Hdr.set(reqHdr)
		reqBody = &c14Reader{body: body, pieces: c.Pieces, ending: c.Ending, log: log}
	}
	req := &http.Request{
		Method: http.MethodPost, URL: c14URL, Proto: "HTTP/1.1", ProtoMajor: 1, ProtoMinor: 1,
		Header: reqHdr, Body: reqBody, ContentLength: -1, Host: c14URL.Host,
	}
	rw := &c14RW{hdr: http.Header{}, accept: len(body), log: log}
	var handler http.Handler = http.HandlerFunc(func(w http.ResponseWriter, r *http.Request) {
		*log = append(*log, r.Method...)
		c14LogHeader(log, 'q', r.Header)
		if c.Side == c14ServerReq {
			var hook func(int)
			if c.Mut != nil {
				hook = func(i int) { c.Mut.applyAt(i, r.Header) } // the handler's own copy of the request
			}
			c14ConsumeHook(r.Body, c.Pieces, c.Ending, log, hook)
			return
		}
		h := w.Header()
		c.Hdr.set(h)
		h.Set("X-C14", "v")
		h.Set("Trailer", "X-C14-Announced")
		if c.Hdr.Status != 0 {
			w.WriteHeader(c.Hdr.Status)
		}
		pos := 0
		failed := false
		for i, n := range c.Pieces {
			if c.Mut != nil {
				c.Mut.applyAt(i, h) // legal only once the headers went out: the enumeration sees to that
			}
			p := body[pos : pos+n]
			pos += n
			if i == len(c.Pieces)-1 && c.Ending == "werr-partial" {
				p = append(append(make([]byte, 0, n+len(c14Extra)), p...), c14Extra...)
			}
			wn, err := w.Write(p)
			*log = append(*log, 'w', byte(wn))
			c14LogErr(log, err)
			if f, ok := w.(http.Flusher); ok {
				f.Flush()
			}
			if err != nil {
				failed = true
				break
			}
		}
		if c.Mut != nil && !failed {
			c.Mut.applyAt(len(c.Pieces), h)
		}
		if c.Ending == "werr0" && !failed {
			wn, err := w.Write(c14Extra)
			*log = append(*log, 'w', byte(wn))
			c14LogErr(log, err)
		}
		h.Set("X-C14-Announced", "a")
		h.Set(http.TrailerPrefix+"X-C14-Late", "b")
		if c.Ending == "panic" {
			panic(c14PanicVal)
		}
	})
	if traced {
		handler = TracingHandler(handler, coll)
	}
	func() {
		defer func() {
			if p := recover(); p != nil {
				obs.Panic = fmt.Sprint(p)
			}
		}()
		handler.ServeHTTP(rw, req)
	}()
	rw.finish()
}

// ---------------------------------------------------------------------------
// reference model (from the property statement; independent of reader.go)

type c14Msg struct {
	Flags byte
	L     uint32
	Cat   byte   // end-stream content: 'n' must not appear, 'm' must appear and equal Want, 'o' unconstrained
	Want  string // for 'm'
	Raw   string
}

type c14Ref struct {
	Proto    string // "" = not an enveloped protocol: only body-end, chunking and transparency are checked
	Msgs     []c14Msg
	Partial  byte // 0 none; 'p' inside a prefix; 'd' inside a payload; 'b' exactly between prefix and payload
	PartialN uint64
	PFlags   byte
	PL       uint32
}

func c14Proto(h c14Hdr) string {
	if h.EncKey == "Content-Encoding" && h.Enc != "" {
		return "" // whole body is encoded: the envelopes are not visible
	}
	ct := strings.ToLower(h.CT)
	switch {
	case strings.HasPrefix(ct, "application/connect+"):
		return "connect"
	case ct == "application/grpc-web" || strings.HasPrefix(ct, "application/grpc-web+"):
		return "grpcweb"
	case ct == "application/grpc" || strings.HasPrefix(ct, "application/grpc+"):
		return "grpc"
	}
	return ""
}

var (
	c14ZstdDec = func() *zstd.Decoder {
		d, err := zstd.NewReader(nil, zstd.WithDecoderConcurrency(1), zstd.WithDecoderMaxMemory(1<<24), zstd.WithDecoderMaxWindow(1<<24))
		if err != nil {
			panic(err)
		}
		return d
	}()
	c14ZstdEnc = func() *zstd.Encoder {
		e, err := zstd.NewWriter(nil, zstd.WithEncoderConcurrency(1))
		if err != nil {
			panic(err)
		}
		return e
	}()
)

// c14SupportedEncodings are the content codings the conformance suite negotiates
// (internal/compression); "identity" and an absent header mean no compression.
var c14SupportedEncodings = []string{"gzip", "zstd", "br", "deflate", "snappy"}

func c14KnownEncoding(enc string) bool {
	for _, e := range c14SupportedEncodings {
		if e == enc {
			return true
		}
	}
	return false
}

// c14Decompress is the reference decoder (the libraries themselves, not the
// wrappers of internal/compression). Any error, also one reported after output
// was produced, means "undecodable".
func c14Decompress(enc string, payload []byte) (string, bool) {
	var rd io.Reader
	switch enc {
	case "gzip":
		zr, err := gzip.NewReader(bytes.NewReader(payload))
		if err != nil {
			return "", false
		}
		rd = zr
	case "zstd":
		out, err := c14ZstdDec.DecodeAll(payload, nil)
		if err != nil {
			return "", false
		}
		return string(out), true
	case "br":
		rd = brotli.NewReader(bytes.NewReader(payload))
	case "deflate":
		zr, err := zlib.NewReader(bytes.NewReader(payload))
		if err != nil {
			return "", false
		}
		rd = zr
	case "snappy":
		rd = snappy.NewReader(bytes.NewReader(payload))
	default:
		return "", false
	}
	out, err := io.ReadAll(rd)
	if err != nil {
		return "", false
	}
	return string(out), true
}

func c14Compress(enc string, text []byte) []byte {
	var buf bytes.Buffer
	var zw io.WriteCloser
	switch enc {
	case "gzip":
		zw = gzip.NewWriter(&buf)
	case "zstd":
		return c14ZstdEnc.EncodeAll(text, nil)
	case "br":
		zw = brotli.NewWriter(&buf)
	case "deflate":
		zw = zlib.NewWriter(&buf)
	case "snappy":
		zw = snappy.NewBufferedWriter(&buf)
	default:
		return text
	}
	_, _ = zw.Write(text)
	_ = zw.Close()
	return buf.Bytes()
}

func c14EndStreamExpectation(response bool, proto string, h c14Hdr, flags byte, payload []byte) (byte, string) {
	if !response {
		return 'o', "" // there is no request end-stream event type
	}
	if flags&0x82 == 0 {
		return 'n', "" // an ordinary message
	}
	isEnd := (proto == "connect" && flags&0x02 != 0) || (proto == "grpcweb" && flags&0x80 != 0)
	if !isEnd || len(payload) == 0 {
		return 'o', "" // flag not defined for this protocol, or nothing to show
	}
	if flags&0x01 == 0 {
		return 'm', string(payload) // not compressed: content is the payload as is
	}
	// content-coding names are case-insensitive (RFC 9110 section 8.4.1)
	switch enc := strings.ToLower(h.Enc); {
	case enc == "" || enc == "identity":
		return 'm', string(payload) // identity "decompression"
	case c14KnownEncoding(enc):
		text, ok := c14Decompress(enc, payload)
		if !ok || text == "" {
			return 'o', ""
		}
		return 'm', text
	}
	return 'o', "" // compressed with an encoding nobody knows
}

func c14Reference(side string, h c14Hdr, d []byte) *c14Ref {
	ref := &c14Ref{Proto: c14Proto(h)}
	if ref.Proto == "" {
		return ref
	}
	response := side == c14ClientResp || side == c14ServerResp
	pos := 0
	for pos < len(d) {
		rest := len(d) - pos
		if rest < 5 {
			ref.Partial, ref.PartialN = 'p', uint64(rest)
			break
		}
		flags, declared := d[pos], binary.BigEndian.Uint32(d[pos+1:pos+5])
		if rest == 5 && declared > 0 {
			ref.Partial, ref.PFlags, ref.PL = 'b', flags, declared
			break
		}
		if uint64(rest-5) < uint64(declared) {
			ref.Partial, ref.PartialN, ref.PFlags, ref.PL = 'd', uint64(rest-5), flags, declared
			break
		}
		payload := d[pos+5 : pos+5+int(declared)]
		m := c14Msg{Flags: flags, L: declared, Raw: string(payload)}
		m.Cat, m.Want = c14EndStreamExpectation(response, ref.Proto, h, flags, payload)
		ref.Msgs = append(ref.Msgs, m)
		pos += 5 + int(declared)
	}
	return ref
}

type c14Finding struct{ Key, Detail string }

func c14NonIdentity(h c14Hdr) bool {
	e := strings.ToLower(h.Enc)
	return e != "" && e != "identity"
}

// c14JudgeEvents compares the delivered events with the reference parse.
func c14JudgeEvents(c *c14Case, ref *c14Ref, evs []c14Ev) (out []c14Finding) {
	add := func(key, format string, a ...any) {
		out = append(out, c14Finding{key, fmt.Sprintf(format, a...)})
	}
	// exactly one body-end event, last
	ends := 0
	for _, e := range evs {
		if e.K == 'E' {
			ends++
		}
	}
	switch {
	case ends == 0:
		add("body-end-missing", "no body-end event")
	case ends > 1:
		add("body-end-duplicate", "%d body-end events", ends)
	case evs[len(evs)-1].K != 'E':
		add("body-end-not-last", "body-end event is not the last body event")
	}
	if ends >= 1 {
		var end c14Ev
		for _, e := range evs {
			if e.K == 'E' {
				end = e
				break
			}
		}
		switch c14EndingGroup(c.Ending) {
		case "eof", "return":
			if end.ErrCls != 0 {
				add("body-end-error-wrong", "body ended normally but body-end carries err=%v", end.err)
			}
		case "err":
			if end.ErrCls != 2 {
				add("body-end-error-wrong", "final read failed with %v but body-end carries err=%v", c14ErrRead, end.err)
			}
		case "werr":
			if end.ErrCls != 4 {
				add("body-end-error-wrong", "final write failed with %v but body-end carries err=%v", c14ErrWrite, end.err)
			}
		case "panic":
			if end.ErrCls == 0 {
				add("body-end-error-wrong", "handler panicked but body-end carries no error")
			}
		}
	}
	if ref.Proto == "" {
		return out
	}
	cur, dcount := -1, 0
	seen := make([]int, len(ref.Msgs))
	for _, e := range evs {
		switch e.K {
		case 'D':
			switch {
			case dcount < len(ref.Msgs):
				m := ref.Msgs[dcount]
				if !e.Env || e.Flags != m.Flags || e.ELen != m.L || e.Len != uint64(m.L) {
					add("data-event-wrong", "message %d is {flags=%#x declared=%d}, event is %s", dcount, m.Flags, m.L, e)
				}
				if e.Idx != dcount {
					add("message-index-wrong", "event for message %d carries index %d", dcount, e.Idx)
				}
			case dcount == len(ref.Msgs) && ref.Partial != 0:
				if e.Idx != dcount {
					add("message-index-wrong", "partial event after %d messages carries index %d", dcount, e.Idx)
				}
				switch ref.Partial {
				case 'p':
					if e.Len != ref.PartialN {
						add("partial-count-wrong", "body cut after %d bytes of a prefix, partial event is %s", ref.PartialN, e)
					} else if e.Env {
						add("partial-envelope-wrong", "body cut inside a prefix, partial event has an envelope: %s", e)
					}
				case 'd':
					if e.Len != ref.PartialN {
						add("partial-count-wrong", "body cut after %d of %d payload bytes, partial event is %s", ref.PartialN, ref.PL, e)
					} else if !e.Env || e.Flags != ref.PFlags || e.ELen != ref.PL {
						add("partial-envelope-wrong", "body cut inside payload of {flags=%#x declared=%d}, partial event is %s", ref.PFlags, ref.PL, e)
					}
				}
			default:
				add("data-event-extra", "%d complete messages (partial=%q) but extra event %s", len(ref.Msgs), ref.Partial, e)
			}
			cur = dcount
			dcount++
		case 'S':
			switch {
			case cur < 0:
				add("endstream-event-spurious", "end-stream content %q before any message", e.Content)
			case cur >= len(ref.Msgs):
				if ref.Partial == 0 || ref.PFlags&0x82 == 0 {
					add("endstream-event-spurious", "end-stream content %q after event %d which is no end-stream message", e.Content, cur)
				}
			default:
				m := ref.Msgs[cur]
				seen[cur]++
				if seen[cur] > 1 {
					add("endstream-event-duplicate", "second end-stream content for message %d", cur)
				}
				switch m.Cat {
				case 'n':
					add("endstream-event-spurious", "end-stream content %q for message %d with flags %#x", e.Content, cur, m.Flags)
				case 'm':
					if e.Content != m.Want {
						switch {
						case m.Flags&1 == 0 && c14NonIdentity(c.Hdr):
							add("endstream-decompressed-without-flag", "end-stream message %d flags=%#x (compressed bit unset) under encoding %q: content %q, want the payload %q", cur, m.Flags, c.Hdr.Enc, e.Content, m.Want)
						case m.Flags&1 != 0 && e.Content == m.Raw:
							add("endstream-not-decompressed-with-flag", "end-stream message %d flags=%#x (compressed) under encoding %q: content is the raw payload, want %q", cur, m.Flags, c.Hdr.Enc, m.Want)
						default:
							add("endstream-content-wrong", "end-stream message %d flags=%#x encoding %q: content %q, want %q", cur, m.Flags, c.Hdr.Enc, e.Content, m.Want)
						}
					}
				}
			}
		}
	}
	if dcount < len(ref.Msgs) {
		add("data-event-missing", "%d complete messages but only %d data events", len(ref.Msgs), dcount)
	} else if dcount == len(ref.Msgs) && (ref.Partial == 'p' || ref.Partial == 'd') {
		add("partial-event-missing", "body cut after %d bytes inside a %s, no partial event", ref.PartialN, map[byte]string{'p': "prefix", 'd': "payload"}[ref.Partial])
	}
	for i, m := range ref.Msgs {
		if m.Cat != 'm' || seen[i] > 0 || i >= dcount {
			continue
		}
		switch {
		case m.Flags&1 == 0 && c14NonIdentity(c.Hdr):
			add("endstream-decompressed-without-flag", "end-stream message %d flags=%#x (compressed bit unset) under encoding %q: no end-stream content in the trace, want the payload %q", i, m.Flags, c.Hdr.Enc, m.Want)
		case m.Flags&1 != 0 && c14NonIdentity(c.Hdr):
			add("endstream-not-decompressed-with-flag", "end-stream message %d flags=%#x (compressed) under encoding %q: no end-stream content in the trace, want %q", i, m.Flags, c.Hdr.Enc, m.Want)
		default:
			add("endstream-content-missing", "end-stream message %d flags=%#x: no end-stream content in the trace, want %q", i, m.Flags, m.Want)
		}
	}
	return out
}

// c14Judge applies the whole oracle to one traced/untraced pair.
func c14Judge(c *c14Case, ref *c14Ref, traced, plain *c14Obs, baseline []c14Ev) (out []c14Finding) {
	if traced.Panic != plain.Panic {
		out = append(out, c14Finding{"panic-differs", fmt.Sprintf("panic seen by the caller with tracing: %q, without: %q", traced.Panic, plain.Panic)})
	}
	if !bytes.Equal(traced.Log, plain.Log) {
		out = append(out, c14Finding{"bytes-altered", fmt.Sprintf("application/peer view differs from the run without tracing:\n   traced: %s\n  plain:   %s", hex.EncodeToString(traced.Log), hex.EncodeToString(plain.Log))})
	}
	switch {
	case traced.Completes == 0:
		out = append(out, c14Finding{"trace-not-delivered", "the collector never received the trace"})
		return out
	case traced.Completes > 1:
		out = append(out, c14Finding{"trace-delivered-twice", fmt.Sprintf("the collector received %d traces", traced.Completes)})
	}
	if traced.Foreign != 0 {
		out = append(out, c14Finding{"foreign-body-events", fmt.Sprintf("%d body data events of the direction in which no body was transferred", traced.Foreign)})
	}
	out = append(out, c14JudgeEvents(c, ref, traced.Events)...)
	if baseline != nil && !c14SameEvents(baseline, traced.Events) {
		out = append(out, c14Finding{"events-depend-on-chunking", fmt.Sprintf("events %s differ from %s obtained for the same bytes delivered in one call", c14EvString(traced.Events), c14EvString(baseline))})
	}
	return out
}

// ---------------------------------------------------------------------------
// enumeration

// c14ForEachComposition calls fn with every composition of n into positive
// parts (all), or with those into at most maxCuts+1 parts plus the all-ones
// composition. The single-part composition always comes first. fn must not
// retain the slice.
func c14ForEachComposition(n int, all bool, maxCuts int, fn func(pieces []int)) {
	if n == 0 {
		fn(nil)
		return
	}
	pieces := make([]int, 0, n)
	if all {
		for mask := uint64(0); mask < uint64(1)<<uint(n-1); mask++ {
			pieces = pieces[:0]
			last := 0
			for i := 1; i < n; i++ {
				if mask&(uint64(1)<<uint(i-1)) != 0 {
					pieces = append(pieces, i-last)
					last = i
				}
			}
			pieces = append(pieces, n-last)
			fn(pieces)
		}
		return
	}
	var rec func(start, last, cuts int)
	emit := func(last int) {
		pieces = append(pieces, n-last)
		fn(pieces)
		pieces = pieces[:len(pieces)-1]
	}
	rec = func(start, last, cuts int) {
		emit(last)
		if cuts == maxCuts {
			return
		}
		for i := start; i < n; i++ {
			pieces = append(pieces, i-last)
			rec(i+1, i, cuts+1)
			pieces = pieces[:len(pieces)-1]
		}
	}
	rec(1, 0, 0)
	if n-1 > maxCuts {
		pieces = pieces[:0]
		for i := 0; i < n; i++ {
			pieces = append(pieces, 1)
		}
		fn(pieces)
	}
}

type c14Unit struct {
	Part    string
	Side    string
	Hdr     c14Hdr
	D       []byte
	All     bool
	MaxCuts int
}

var (
	c14Flags = []byte{0, 1, 2, 3, 0x80, 0x81}
	c14Lens  = []int{0, 1, 3}
)

func c14Envelope(flags byte, payload []byte) []byte {
	out := make([]byte, 5, 5+len(payload))
	out[0] = flags
	binary.BigEndian.PutUint32(out[1:], uint32(len(payload)))
	return append(out, payload...)
}

// c14Streams returns all streams of at most 3 envelopes over the alphabet.
func c14Streams() [][]byte {
	var envs [][]byte
	for _, l := range c14Lens {
		for _, f := range c14Flags {
			payload := make([]byte, l)
			for i := range payload {
				payload[i] = byte(i + 1) // 1,2,3: looks like flags if the parser loses alignment
			}
			envs = append(envs, c14Envelope(f, payload))
		}
	}
	streams := [][]byte{{}}
	level := [][]byte{{}}
	for depth := 0; depth < 3; depth++ {
		var next [][]byte
		for _, s := range level {
			for _, e := range envs {
				next = append(next, append(append([]byte{}, s...), e...))
			}
		}
		streams = append(streams, next...)
		level = next
	}
	return streams
}

// c14Prefixes returns the distinct prefixes (every truncation point, including
// none) of the given streams, shortest first.
func c14Prefixes(streams [][]byte, exclude map[string]bool) [][]byte {
	set := map[string]bool{}
	for _, s := range streams {
		for i := 0; i <= len(s); i++ {
			k := string(s[:i])
			if exclude != nil && exclude[k] {
				continue
			}
			set[k] = true
		}
	}
	out := make([][]byte, 0, len(set))
	for k := range set {
		out = append(out, []byte(k))
	}
	sort.Slice(out, func(i, j int) bool {
		if len(out[i]) != len(out[j]) {
			return len(out[i]) < len(out[j])
		}
		return bytes.Compare(out[i], out[j]) < 0
	})
	return out
}

type c14Bounds struct {
	FullLen     int  // complete streams up to this many bytes: all compositions of every truncation
	AnyLen      int  // truncations up to this many bytes of any (longer) stream: all compositions
	FullLenB    int  // truncations up to this many bytes in part B (end-stream encodings): all compositions
	LongCuts    int  // beyond: compositions into at most LongCuts+1 pieces, plus all-1-byte
	LongCutsB   int  // same for part B
	LongAll     bool // long streams also under gRPC-Web and on the client request side
	NonStreamLn int  // part C body length
}

func c14BoundsFor(thorough bool) c14Bounds {
	if thorough {
		return c14Bounds{FullLen: 15, AnyLen: 13, FullLenB: 14, LongCuts: 2, LongCutsB: 3, LongAll: true, NonStreamLn: 10}
	}
	return c14Bounds{FullLen: 14, AnyLen: 0, FullLenB: 12, LongCuts: 1, LongCutsB: 2, LongAll: false, NonStreamLn: 8}
}

func c14Units(thorough bool) []c14Unit {
	b := c14BoundsFor(thorough)
	var units []c14Unit
	connect := c14Hdr{CT: "application/connect+proto", Status: 200}
	grpcweb := c14Hdr{CT: "application/grpc-web+proto", Status: 200}
	grpc := c14Hdr{CT: "application/grpc", Status: 200}
	mainSides := []string{c14ClientResp, c14ServerReq, c14ServerResp}

	// Part A: framing. All envelope sequences, all truncations.
	streams := c14Streams()
	var short [][]byte
	for _, s := range streams {
		if len(s) <= b.FullLen {
			short = append(short, s)
		}
	}
	for _, s := range streams {
		if len(s) > b.AnyLen {
			short = append(short, s[:b.AnyLen]) // every truncation up to AnyLen bytes, whatever would have followed
		}
	}
	full := c14Prefixes(short, nil)
	inFull := map[string]bool{}
	for _, d := range full {
		inFull[string(d)] = true
	}
	long := c14Prefixes(streams, inFull)
	for _, d := range full {
		for _, side := range mainSides {
			units = append(units, c14Unit{"A-framing", side, connect, d, true, 0})
		}
		units = append(units, c14Unit{"A-framing", c14ClientReq, connect, d, false, 2})
		for _, side := range mainSides {
			units = append(units, c14Unit{"A-framing", side, grpcweb, d, false, 2})
			units = append(units, c14Unit{"A-framing", side, grpc, d, false, 2})
		}
	}
	for _, d := range long {
		for _, side := range mainSides {
			units = append(units, c14Unit{"A-framing-long", side, connect, d, false, b.LongCuts})
			if b.LongAll {
				units = append(units, c14Unit{"A-framing-long", side, grpcweb, d, false, b.LongCuts})
			}
		}
		if b.LongAll {
			units = append(units, c14Unit{"A-framing-long", c14ClientReq, connect, d, false, b.LongCuts})
		} else {
			units = append(units, c14Unit{"A-framing-long", c14ClientResp, grpcweb, d, false, b.LongCuts})
		}
	}

	// Part B: end-stream content in every negotiated encoding, compressed bit set and unset.
	type protoCfg struct {
		ct, encKey string
		flag       byte
		text       string
	}
	protos := []protoCfg{
		{"application/connect+proto", "Connect-Content-Encoding", 0x02, `{"e":1}`},
		{"application/grpc-web+proto", "Grpc-Encoding", 0x80, "grpc-status: 0\r\n"},
	}
	encs := []string{"", "identity", "gzip", "zstd", "c14-unknown"}
	for _, p := range protos {
		for _, enc := range encs {
			for _, bit := range []byte{0, 1} {
				payload := []byte(p.text)
				if bit == 1 {
					payload = c14Compress(enc, payload) // identity/absent/unknown: sent as is with the bit set
				}
				for _, lead := range []bool{false, true} {
					var stream []byte
					if lead {
						stream = append(stream, c14Envelope(0, []byte{0x0a})...)
					}
					stream = append(stream, c14Envelope(p.flag|bit, payload)...)
					for _, status := range []int{0, 200} {
						h := c14Hdr{CT: p.ct, Status: status}
						if enc != "" {
							h.EncKey, h.Enc = p.encKey, enc
						}
						for _, d := range c14Prefixes([][]byte{stream}, nil) {
							for _, side := range []string{c14ClientResp, c14ServerResp} {
								if side == c14ClientResp && status != 0 {
									continue // status only varies the writer
								}
								units = append(units, c14Unit{"B-endstream", side, h, d, len(d) <= b.FullLenB, b.LongCutsB})
							}
						}
					}
				}
			}
		}
	}

	// Part C: bodies that are not enveloped (unary content types, or Content-Encoding on the whole body).
	nonStream := []c14Hdr{
		{CT: "application/proto", Status: 409},
		{CT: "application/json"},
		{CT: ""},
		{CT: "application/connect+proto", EncKey: "Content-Encoding", Enc: "gzip", Status: 200},
	}
	for _, d := range full {
		if len(d) > b.NonStreamLn {
			continue
		}
		for _, h := range nonStream {
			for _, side := range mainSides {
				units = append(units, c14Unit{"C-nonstream", side, h, d, true, 0})
			}
			units = append(units, c14Unit{"C-nonstream", c14ClientReq, h, d, false, b.LongCuts})
		}
	}
	// simplest first across all parts: shortest delivered string first (stable, so deterministic)
	sort.SliceStable(units, func(i, j int) bool { return len(units[i].D) < len(units[j].D) })
	return units
}

func c14Endings(side string, n, pieces int) []string {
	if side == c14ServerResp {
		if n == 0 {
			return []string{"return", "werr0", "panic"}
		}
		return []string{"return", "werr0", "werr-partial", "panic"}
	}
	var out []string
	if n == 0 {
		out = []string{"eof", "err", "close"}
	} else {
		out = []string{"eof", "eof+data", "err", "err+data", "close"}
	}
	if pieces <= 2 {
		out = append(out, "close-err")
	}
	return out
}

func c14Outcome(u *c14Unit, ending string, ref *c14Ref, evs []c14Ev) string {
	d, s := 0, 0
	for _, e := range evs {
		switch e.K {
		case 'D':
			d++
		case 'S':
			s++
		}
	}
	partial := "-"
	if ref.Partial != 0 {
		partial = string(ref.Partial)
	}
	proto := ref.Proto
	if proto == "" {
		proto = "nonstream"
	}
	return fmt.Sprintf("%s/%s/%s data=%d eos=%d cut=%s", u.Side, proto, c14EndingGroup(ending), d, s, partial)
}

func c14RunUnit(r *rep.Report, u *c14Unit, deadline time.Time) bool {
	ref := c14Reference(u.Side, u.Hdr, u.D)
	baselines := map[string][]c14Ev{}
	bodyHex := hex.EncodeToString(u.D)
	var evals int64
	ok := true
	c14ForEachComposition(len(u.D), u.All, u.MaxCuts, func(pieces []int) {
		if !ok {
			return
		}
		if evals&0xfff == 0xfff && !deadline.IsZero() && time.Now().After(deadline) {
			ok = false
			return
		}
		for _, ending := range c14Endings(u.Side, len(u.D), len(pieces)) {
			c := c14Case{Part: u.Part, Side: u.Side, Hdr: u.Hdr, Body: bodyHex, Pieces: pieces, Ending: ending}
			traced := c14Run(&c, u.D, true)
			plain := c14Run(&c, u.D, false)
			group := c14EndingGroup(ending)
			base, have := baselines[group]
			if !have {
				baselines[group] = append([]c14Ev(nil), traced.Events...)
				r.Outcome(c14Outcome(u, ending, ref, traced.Events))
			}
			evals++
			findings := c14Judge(&c, ref, &traced, &plain, base)
			if len(findings) > 0 {
				c.Pieces = append([]int(nil), pieces...)
				for _, f := range findings {
					r.Violate(f.Key, fmt.Sprintf("%s\n  case: %s\n  events: %s", f.Detail, c14CaseString(&c), c14EvString(traced.Events)), c)
				}
			}
			if evals == 1 && len(u.D) > 0 {
				c.Pieces = append([]int(nil), pieces...)
				r.Sample(map[string]any{"case": c, "events": c14EvString(traced.Events)})
			}
		}
	})
	r.Eval(evals)
	if len(u.D) > 0 {
		r.Count("nontrivial:"+u.Part, evals)
		r.Count("cases:"+u.Side, evals)
		for i := int64(0); i < evals; i++ { // all cases of a unit are distinct by construction
			r.NonTrivial("")
		}
	}
	return ok
}

// c14UnitSize is the number of cases of a unit (for the evidence; computed, not run).
func c14UnitSize(u *c14Unit) int64 {
	n := len(u.D)
	var total int64
	count := func(pieces int) { total += int64(len(c14Endings(u.Side, n, pieces))) }
	if u.All && n > 0 {
		comps := int64(1) << uint(n-1)
		few := int64(1) // compositions into <= 2 pieces
		if n > 1 {
			few += int64(n - 1)
		}
		return few*int64(len(c14Endings(u.Side, n, 1))) + (comps-few)*int64(len(c14Endings(u.Side, n, 3)))
	}
	c14ForEachComposition(n, u.All, u.MaxCuts, func(pieces []int) { count(len(pieces)) })
	return total
}

func c14CaseString(c *c14Case) string {
	b, _ := json.Marshal(c)
	return string(b)
}

func TestVerifC14(t *testing.T) {
	r := rep.New("c14-enum")
	defer r.Write()
	r.Rule = "case = (side in {client-response, server-request, server-response, client-request}, Content-Type and encoding headers, " +
		"delivered byte string D = a truncation of an enveloped stream, composition of D into Read/Write calls, ending in " +
		"{EOF, EOF with data, error, error with data, Close, failing Close | return, failing write, short write, handler panic}); " +
		"all cases are distinct by construction; non-trivial = at least one byte delivered. " +
		"Stage H (first): history = ordered pair of such cases traced back to back in one process (first: damaged / cut / failing or valid body, " +
		"second: valid body), judged like single cases plus: the second body's events equal those of the same body traced in a fresh process state. " +
		"Stage S (second): encoding names in every spelling (lower, UPPER, Title, mIXED) for every supported encoding and every header that carries them. " +
		"Stage M (before both): single cases plus a late edit of the live header map (ResponseWriter.Header() after WriteHeader, resp.Header after RoundTrip returned, the handler's request header): " +
		"delete / set / add an encoding or content-type header before the k-th Read/Write call of the body, at every byte offset; events must equal those of the case without the edit. " +
		"Stage P (after M): exchange over the HTTP/2 conn tracer with hand-built frames = (server-side / client-side conn, headers, body, cut of the body into DATA frames, PADDED flag and pad length of each frame, " +
		"carrier of END_STREAM, shape of the HEADERS frames (PADDED, PRIORITY, CONTINUATION), size of the conn Read/Write calls); body events of both directions must equal those of one unpadded DATA frame"
	if in := rep.ReplayInput(); in != nil {
		if c14H2Replay(t, r, in) || c14LargeReplay(t, r, in) || c14HistoryReplay(t, r, in) || c14MutateReplay(t, r, in) {
			return
		}
		c14Replay(t, r, in)
		return
	}
	deadline := rep.Deadline()
	// The cheap stages come first so that a budget hit in the heavy enumeration below cannot starve them.
	if !c14MutateStage(r, deadline) || !c14H2Stage(r, deadline) || !c14LargeStage(r, deadline) || !c14HistoryStage(r, deadline) || !c14ShapeStage(r, deadline) {
		r.NotExhaustive("budget reached before all units were enumerated")
		return
	}
	units := c14Units(rep.Thorough())
	if r.Shard == 0 {
		r.Count("units-total", int64(len(units)))
		for k := range units {
			r.Count("planned-cases:"+units[k].Part, c14UnitSize(&units[k]))
		}
	}
	b := c14BoundsFor(rep.Thorough())
	r.Note("bounds: all compositions of every truncation of streams <= %d bytes, of every truncation <= %d bytes of longer streams, and <= %d bytes in part B; "+
		"beyond: <= %d pieces (part B <= %d) plus all-1-byte; non-stream bodies <= %d bytes",
		b.FullLen, b.AnyLen, b.FullLenB, b.LongCuts+1, b.LongCutsB+1, b.NonStreamLn)
	for k := range units {
		if !r.Mine(int64(k)) {
			continue
		}
		if !deadline.IsZero() && time.Now().After(deadline) {
			r.NotExhaustive("budget reached before all units were enumerated")
			break
		}
		if !c14RunUnit(r, &units[k], deadline) {
			r.NotExhaustive("budget reached before all units were enumerated")
			break
		}
	}
}

func c14Replay(t *testing.T, r *rep.Report, in []byte) {
	var rec struct {
		Replay c14Case `json:"replay"`
	}
	if err := json.Unmarshal(in, &rec); err != nil {
		t.Fatalf("bad replay file: %v", err)
	}
	c := rec.Replay
	body, err := hex.DecodeString(c.Body)
	if err != nil {
		t.Fatalf("bad replay body: %v", err)
	}
	ref := c14Reference(c.Side, c.Hdr, body)
	var base []c14Ev
	if len(body) > 0 {
		one := c
		one.Pieces = []int{len(body)}
		if one.Ending == "close-err" && len(c.Pieces) > 2 {
			one.Ending = "close"
		}
		b := c14Run(&one, body, true)
		base = b.Events
		fmt.Printf("C14 replay: same bytes in one call: events %s\n", c14EvString(base))
	}
	traced := c14Run(&c, body, true)
	plain := c14Run(&c, body, false)
	fmt.Printf("C14 replay: case %s\n  reference: %+v\n  events: %s\n  completes=%d foreign=%d panic=%q\n  traced log: %x\n  plain log:  %x\n",
		c14CaseString(&c), *ref, c14EvString(traced.Events), traced.Completes, traced.Foreign, traced.Panic, traced.Log, plain.Log)
	r.Eval(1)
	r.NonTrivial("")
	r.Sample(c)
	for _, f := range c14Judge(&c, ref, &traced, &plain, base) {
		fmt.Printf("C14 replay: still violates %s: %s\n", f.Key, f.Detail)
		r.Violate(f.Key, f.Detail, c)
	}
}
