package compression

// C20 — every supported compression round-trips, also when instances are
// reused. Bounded-exhaustive breadth-first search over the operation histories
// of ONE pooled compressor / decompressor instance: a state is the history
// that reaches it; every history is replayed on a fresh instance obtained from
// GetCompressor / GetDecompressor and followed by the oracle operation.
//
// Oracle (written from the property text, independent of the wrappers):
//   - after ANY history, Reset(valid stream)+read-all on the decompressor
//     returns exactly the original bytes and no error;
//   - after ANY history, Reset(buf)+Write(data)+Close on the compressor emits a
//     stream that a fresh, never reused decoder of the underlying library
//     (compress/gzip, compress/zlib, klauspost zstd, andybalholm brotli,
//     golang/snappy) decodes to the original;
//   - a decode of a corrupted stream may fail or return anything, but nothing
//     panics and nothing poisons a later valid decode.

import (
	"bufio"
	"bytes"
	"compress/flate"
	"compress/gzip"
	"compress/zlib"
	"encoding/json"
	"errors"
	"fmt"
	"io"
	"net/http"
	"os"
	"regexp"
	"runtime"
	"runtime/debug"
	"strings"
	"testing"
	"time"

	conformancev1 "connectrpc.com/conformance/internal/gen/proto/go/connectrpc/conformance/v1"
	"connectrpc.com/conformance/internal/verif/rep"
	"connectrpc.com/connect"
	"github.com/andybalholm/brotli"
	"github.com/golang/snappy"
	"github.com/klauspost/compress/zstd"
)

// ---------------------------------------------------------------------------
// alphabet: encodings, inputs, corruptions

type c20Enc struct {
	Name string // the HTTP content-coding name of the algorithm
	Enum conformancev1.Compression
}

func c20Encs() []c20Enc {
	return []c20Enc{
		{"identity", conformancev1.Compression_COMPRESSION_IDENTITY},
		{"gzip", conformancev1.Compression_COMPRESSION_GZIP},
		{"deflate", conformancev1.Compression_COMPRESSION_DEFLATE},
		{"br", conformancev1.Compression_COMPRESSION_BR},
		{"zstd", conformancev1.Compression_COMPRESSION_ZSTD},
		{"snappy", conformancev1.Compression_COMPRESSION_SNAPPY},
	}
}

type c20Input struct {
	Name    string
	Data    []byte
	Short   bool // corruptions are enumerated completely
	NoWrite bool // compressor side only: the oracle does not call Write at all (empty bytes.Buffer.WriteTo)
}

func c20Inputs(compressorSide bool) []c20Input {
	all := make([]byte, 256)
	for i := range all {
		all[i] = byte(i)
	}
	rnd := make([]byte, 64*1024)
	x := uint64(0x0C20C20C20C20C20) // fixed seed, 64-bit LCG (Knuth MMIX constants)
	for i := range rnd {
		x = x*6364136223846793005 + 1442695040888963407
		rnd[i] = byte(x >> 56)
	}
	ins := []c20Input{
		{Name: "empty", Data: []byte{}, Short: true},
		{Name: "a", Data: []byte("a"), Short: true},
		{Name: "ab300", Data: bytes.Repeat([]byte("ab"), 300)},
		{Name: "bytes256", Data: all},
		{Name: "lcg64k", Data: rnd},
	}
	if compressorSide {
		ins = append(ins[:1:1], append([]c20Input{{Name: "empty-nowrite", Data: []byte{}, Short: true, NoWrite: true}}, ins[1:]...)...)
	}
	return ins
}

// c20IndepEncode produces a stream with a fresh instance of the underlying
// library for the algorithm the HTTP name denotes.
func c20IndepEncode(name string, data []byte) ([]byte, error) {
	var buf bytes.Buffer
	var w io.WriteCloser
	switch name {
	case "identity":
		return append([]byte{}, data...), nil
	case "gzip": // RFC 1952
		w = gzip.NewWriter(&buf)
	case "deflate": // HTTP "deflate" = zlib format, RFC 1950
		w = zlib.NewWriter(&buf)
	case "br":
		w = brotli.NewWriter(&buf)
	case "zstd":
		zw, err := zstd.NewWriter(&buf)
		if err != nil {
			return nil, err
		}
		w = zw
	case "snappy": // framing format
		w = snappy.NewBufferedWriter(&buf)
	default:
		return nil, fmt.Errorf("unknown encoding %q", name)
	}
	if _, err := w.Write(data); err != nil {
		return nil, err
	}
	if err := w.Close(); err != nil {
		return nil, err
	}
	return buf.Bytes(), nil
}

// c20IndepDecode decodes with a fresh, never reused decoder of the library.
func c20IndepDecode(name string, stream []byte) (out []byte, err error) {
	defer func() {
		if r := recover(); r != nil {
			err = fmt.Errorf("independent decoder panicked: %v", r)
		}
	}()
	src := bytes.NewReader(stream)
	switch name {
	case "identity":
		return append([]byte{}, stream...), nil
	case "gzip":
		zr, err := gzip.NewReader(src)
		if err != nil {
			return nil, err
		}
		return io.ReadAll(zr)
	case "deflate":
		zr, err := zlib.NewReader(src)
		if err != nil {
			return nil, err
		}
		return io.ReadAll(zr)
	case "br":
		return io.ReadAll(brotli.NewReader(src))
	case "zstd":
		zr, err := zstd.NewReader(src, zstd.WithDecoderConcurrency(1))
		if err != nil {
			return nil, err
		}
		defer zr.Close()
		return io.ReadAll(zr)
	case "snappy":
		return io.ReadAll(snappy.NewReader(src))
	}
	return nil, fmt.Errorf("unknown encoding %q", name)
}

type c20Variant struct {
	Kind string // "flip" (bit index) | "cut" (prefix length) | "foreign" (index into c20ForeignFormats)
	Pos  int
}

// Well-formed messages of the NEIGHBOURING formats: what a peer sends that
// implements the content-coding name differently (bare RFC 1951 for "deflate",
// the snappy block format for "snappy", ...) or that mixes the names up. For the
// decompressor of encoding E every format except E's own is a malformed input
// in the sense of the property: whatever the instance makes of it (an error, or
// tolerating it), a later valid message of E must decode exactly.
var c20ForeignFormats = []string{"raw-deflate", "raw-deflate-stored", "zlib", "gzip", "zstd", "snappy-block", "snappy-framed", "br", "plain", "gzip-two-members", "zlib+trailing-garbage"}

// c20OwnFormat: the entry of c20ForeignFormats that IS the encoding's format.
var c20OwnFormat = map[string]string{"identity": "plain", "gzip": "gzip", "deflate": "zlib", "br": "br", "zstd": "zstd", "snappy": "snappy-framed"}

func c20ForeignEncode(format string, data []byte) []byte {
	var buf bytes.Buffer
	must := func(err error) {
		if err != nil {
			panic(fmt.Sprintf("c20: foreign encoder %s: %v", format, err))
		}
	}
	lib := func(name string) []byte {
		out, err := c20IndepEncode(name, data)
		must(err)
		return out
	}
	switch format {
	case "raw-deflate", "raw-deflate-stored": // RFC 1951 without any wrapper
		level := flate.DefaultCompression
		if format == "raw-deflate-stored" {
			level = flate.NoCompression
		}
		w, err := flate.NewWriter(&buf, level)
		must(err)
		_, err = w.Write(data)
		must(err)
		must(w.Close())
		return buf.Bytes()
	case "zlib":
		return lib("deflate")
	case "gzip", "zstd", "br":
		return lib(format)
	case "snappy-framed":
		return lib("snappy")
	case "snappy-block":
		return snappy.Encode(nil, data)
	case "plain":
		return append([]byte{}, data...)
	case "gzip-two-members":
		one := lib("gzip")
		return append(append([]byte{}, one...), one...)
	case "zlib+trailing-garbage":
		return append(lib("deflate"), 0xde, 0xad, 0xbe, 0xef)
	}
	panic("c20: unknown foreign format " + format)
}

func (v c20Variant) apply(s, data []byte) []byte {
	switch v.Kind {
	case "foreign":
		return c20ForeignEncode(c20ForeignFormats[v.Pos], data)
	case "flip":
		out := append([]byte{}, s...)
		out[v.Pos/8] ^= 1 << (uint(v.Pos) % 8)
		return out
	case "cut":
		return append([]byte{}, s[:v.Pos]...)
	}
	panic("bad variant " + v.Kind)
}

// c20Variants: for the short inputs every single-bit flip and every proper
// prefix of the valid stream; for the longer ones a fixed set of both.
func c20Variants(encName string, s []byte, short bool) []c20Variant {
	var out []c20Variant
	for i, f := range c20ForeignFormats {
		// for gzip a sequence of members is a valid message, and the identity encoding has no malformed input at all:
		// these stay in as "C" operations (no expectation on what they return), only the own format is skipped
		if f != c20OwnFormat[encName] {
			out = append(out, c20Variant{"foreign", i})
		}
	}
	n := len(s)
	if short {
		for c := 0; c < n; c++ {
			out = append(out, c20Variant{"cut", c})
		}
		for b := 0; b < 8*n; b++ {
			out = append(out, c20Variant{"flip", b})
		}
		return out
	}
	seenC, seenF := map[int]bool{}, map[int]bool{}
	for _, c := range []int{0, 1, 2, 3, 5, 10, 11, n / 3, n / 2, n - 9, n - 8, n - 5, n - 4, n - 1} {
		if c >= 0 && c < n && !seenC[c] {
			seenC[c] = true
			out = append(out, c20Variant{"cut", c})
		}
	}
	for _, b := range []int{0, 7, 8*1 + 3, 8 * 2, 8*3 + 1, 8*4 + 6, 8*9 + 2, 8*10 + 1, 8*12 + 4, 8 * 17, 8*(n/4) + 3, 8*(n/2) + 5, 8 * (n - 9), 8*(n-8) + 1, 8*(n-5) + 2, 8*(n-4) + 7, 8 * (n - 2), 8*(n-1) + 7} {
		if b >= 0 && b < 8*n && !seenF[b] {
			seenF[b] = true
			out = append(out, c20Variant{"flip", b})
		}
	}
	return out
}

// ---------------------------------------------------------------------------
// plumbing

type c20Opaque struct{ r io.Reader } // hides Bytes/Len/ReadByte of the source

func (o *c20Opaque) Read(p []byte) (int, error) { return o.r.Read(p) }

func c20Reader(kind string, s []byte) io.Reader {
	if kind == "opaque" {
		return &c20Opaque{bytes.NewReader(s)}
	}
	// what connect-go's pool and the tracer hand to Reset: a *bytes.Buffer
	return bytes.NewBuffer(s[:len(s):len(s)])
}

func c20Guard(f func()) (panicked string) {
	defer func() {
		if r := recover(); r != nil {
			st := strings.Split(string(debug.Stack()), "\n")
			keep := []string{}
			for _, l := range st {
				if strings.Contains(l, ".go:") && !strings.Contains(l, "runtime/") && !strings.Contains(l, "c20_") {
					keep = append(keep, strings.TrimSpace(l))
				}
				if len(keep) >= 4 {
					break
				}
			}
			panicked = fmt.Sprintf("%v [%s]", r, strings.Join(keep, " <- "))
		}
	}()
	f()
	return ""
}

var (
	c20ErrStall = errors.New("c20: 1000 consecutive (0, nil) reads")
	c20ErrCap   = errors.New("c20: output cap reached")
	c20Digits   = regexp.MustCompile(`[0-9]+`)
)

const c20OutCap = 4 << 20

func c20ReadAll(d io.Reader, out *bytes.Buffer, scratch []byte) error {
	zero := 0
	for {
		n, err := d.Read(scratch)
		out.Write(scratch[:n])
		if err == io.EOF {
			return nil
		}
		if err != nil {
			return err
		}
		if n == 0 {
			zero++
			if zero > 1000 {
				return c20ErrStall
			}
		} else {
			zero = 0
		}
		if out.Len() > c20OutCap {
			return c20ErrCap
		}
	}
}

func c20ErrStr(err error) string {
	if err == nil {
		return ""
	}
	return err.Error()
}

type c20Verdict struct {
	Key    string
	Detail string
	Step   int  // index of the failing operation (len(history) = the oracle operation)
	Reuse  bool // a valid decode / a compression on a good sink failed (as opposed to a panic)
}

// ---------------------------------------------------------------------------
// decompressor histories

// Operation kinds of a decompressor instance.
//
//	V Reset(valid stream) + read all          C Reset(corrupt stream) + read all (not read if Reset fails, as the pool)
//	N Reset(http.NoBody)                      X Close
//	R Read (a few calls) without Reset        P Close + Reset(http.NoBody)  (connect-go putDecompressor)
var c20DKinds = []string{"V", "C", "N", "X", "R", "P"}

var c20DKindName = map[string]string{"": "fresh", "V": "valid", "C": "corrupt", "N": "nobody", "X": "close", "R": "read", "P": "poolput"}

// c20DOpName names an operation in violation keys.
func c20DOpName(op c20DOp) string {
	if op.K == "C" && op.Kind == "foreign" {
		return "foreign-format"
	}
	return c20DKindName[op.K]
}

type c20DOp struct {
	K    string `json:"k"`
	Kind string `json:"kind,omitempty"` // C only
	Pos  int    `json:"pos"`
	s    []byte
	big  bool // decoding this corruption allocates a lot (inflated size field): collect right after the history
}

type c20DStep struct {
	Op       string `json:"op"`
	ResetErr string `json:"reset_err,omitempty"`
	ReadErr  string `json:"read_err,omitempty"`
	CloseErr string `json:"close_err,omitempty"`
	N        int    `json:"n"`
	Same     bool   `json:"same_as_original"`
	Panic    string `json:"panic,omitempty"`
}

type c20DCase struct {
	Side    string     `json:"side"` // "decompressor"
	Enc     string     `json:"enc"`
	Input   string     `json:"input"`
	Reader  string     `json:"reader"`
	History []c20DOp   `json:"history"`
	Steps   []c20DStep `json:"observed,omitempty"`
}

type c20DRunner struct {
	out     bytes.Buffer
	scratch []byte
}

// run replays hist on a fresh instance, then the oracle decode of the valid stream.
func (rn *c20DRunner) run(enc c20Enc, in c20Input, valid []byte, rk string, hist []c20DOp, wantSteps bool) (steps []c20DStep, verdicts []c20Verdict, classes []string) {
	var d connect.Decompressor
	if p := c20Guard(func() {
		var err error
		d, err = GetDecompressor(enc.Enum)
		if err != nil {
			panic(err)
		}
	}); p != "" {
		return nil, []c20Verdict{{Key: "panic:" + enc.Name, Detail: "GetDecompressor: " + p}}, nil
	}
	anyReset := false
	last := "fresh"
	decode := func(src io.Reader, read bool) (st c20DStep) {
		rn.out.Reset()
		st.Panic = c20Guard(func() {
			anyReset = true
			if err := d.Reset(src); err != nil {
				st.ResetErr = err.Error()
				if st.ResetErr == "" {
					st.ResetErr = "error with empty text"
				}
				return
			}
			if read {
				st.ReadErr = c20ErrStr(c20ReadAll(d, &rn.out, rn.scratch))
			}
		})
		st.N = rn.out.Len()
		st.Same = read && st.ResetErr == "" && bytes.Equal(rn.out.Bytes(), in.Data)
		return st
	}
	doClose := func() (st c20DStep) {
		st.Panic = c20Guard(func() { st.CloseErr = c20ErrStr(d.Close()) })
		return st
	}
	total := len(hist) + 1
	for i := 0; i < total; i++ {
		var op c20DOp
		if i < len(hist) {
			op = hist[i]
		} else {
			op = c20DOp{K: "V"} // the oracle operation
		}
		var st c20DStep
		switch op.K {
		case "V":
			st = decode(c20Reader(rk, valid), true)
			if st.Panic != "" {
				verdicts = append(verdicts, c20Verdict{Key: "panic:" + enc.Name, Step: i, Detail: fmt.Sprintf("decode of a VALID stream panicked at step %d: %s", i, st.Panic)})
			} else if st.ResetErr != "" || st.ReadErr != "" || !st.Same {
				key := "reuse-after-" + last + ":" + enc.Name
				if last == "fresh" {
					key = "roundtrip:" + enc.Name
				}
				verdicts = append(verdicts, c20Verdict{Key: key, Step: i, Reuse: true, Detail: fmt.Sprintf(
					"step %d: Reset(valid %s stream of input %q)+read-all after [%s] gave reset_err=%q read_err=%q n=%d identical=%v; want the %d original bytes and no error",
					i, enc.Name, in.Name, c20HistString(hist[:min(i, len(hist))]), st.ResetErr, st.ReadErr, st.N, st.Same, len(in.Data))})
			}
		case "C":
			st = decode(c20Reader(rk, op.s), true)
			if st.Panic != "" {
				verdicts = append(verdicts, c20Verdict{Key: "panic:" + enc.Name, Step: i, Detail: fmt.Sprintf("decode of the malformed stream %s panicked at step %d: %s", c20HistString([]c20DOp{op}), i, st.Panic)})
			}
			if wantSteps || i == 0 {
				cl := "ok-different"
				switch {
				case st.Panic != "":
					cl = "panic"
				case st.ResetErr != "":
					cl = "reset-error"
				case st.ReadErr != "":
					cl = "read-error"
				case st.Same:
					cl = "ok-same-bytes"
				}
				if op.Kind == "foreign" {
					// what the decompressor makes of each neighbouring format (tolerating one is not a violation by itself)
					classes = append(classes, "foreign-decode:"+enc.Name+"<-"+c20ForeignFormats[op.Pos]+":"+cl)
				} else {
					classes = append(classes, "corrupt-decode:"+enc.Name+":"+cl)
				}
			}
		case "N":
			st = decode(http.NoBody, false)
			if st.Panic != "" {
				verdicts = append(verdicts, c20Verdict{Key: "panic:" + enc.Name, Step: i, Detail: fmt.Sprintf("Reset(http.NoBody) panicked at step %d: %s", i, st.Panic)})
			}
		case "X", "P":
			st = doClose()
			if st.Panic != "" {
				if anyReset {
					verdicts = append(verdicts, c20Verdict{Key: "panic-in-close:" + enc.Name, Step: i, Detail: fmt.Sprintf("Close panicked at step %d after [%s]: %s", i, c20HistString(hist[:i]), st.Panic)})
				} else {
					classes = append(classes, "decompressor:close-before-first-reset-panics:"+enc.Name)
				}
			}
			if op.K == "P" {
				st2 := decode(http.NoBody, false)
				if st2.Panic != "" {
					verdicts = append(verdicts, c20Verdict{Key: "panic:" + enc.Name, Step: i, Detail: fmt.Sprintf("Reset(http.NoBody) panicked at step %d: %s", i, st2.Panic)})
					st.Panic += " | " + st2.Panic
				}
				st.ResetErr = st2.ResetErr
			}
		case "R":
			st.Panic = c20Guard(func() {
				var small [64]byte
				for j := 0; j < 4; j++ {
					n, err := d.Read(small[:])
					st.N += n
					if err != nil {
						st.ReadErr = err.Error()
						break
					}
				}
			})
			if st.Panic != "" {
				if anyReset {
					verdicts = append(verdicts, c20Verdict{Key: "panic-in-read:" + enc.Name, Step: i, Detail: fmt.Sprintf("Read panicked at step %d after [%s]: %s", i, c20HistString(hist[:i]), st.Panic)})
				} else {
					classes = append(classes, "decompressor:read-before-first-reset-panics:"+enc.Name)
				}
			}
		default:
			panic("bad op " + op.K)
		}
		last = c20DOpName(op)
		if wantSteps {
			st.Op = c20HistString([]c20DOp{op})
			if i == len(hist) {
				st.Op = "oracle:" + st.Op
			}
			steps = append(steps, st)
		}
	}
	c20Guard(func() { _ = d.Close() }) // release goroutines of stream decoders
	return steps, verdicts, classes
}

func c20HistString(h []c20DOp) string {
	parts := make([]string, len(h))
	for i, op := range h {
		parts[i] = op.K
		if op.K == "C" {
			parts[i] = fmt.Sprintf("C(%s@%d)", op.Kind, op.Pos)
			if op.Kind == "foreign" {
				parts[i] = "C(well-formed " + c20ForeignFormats[op.Pos] + ")"
			}
		}
	}
	return strings.Join(parts, " ")
}

// c20Seqs returns all sequences over kinds of length exactly l, lexicographic.
func c20Seqs(kinds []string, l int) [][]string {
	out := [][]string{{}}
	for i := 0; i < l; i++ {
		var next [][]string
		for _, s := range out {
			for _, k := range kinds {
				next = append(next, append(append([]string{}, s...), k))
			}
		}
		out = next
	}
	return out
}

// c20Instantiate expands one kind sequence into concrete histories.
//   - one C: every variant;
//   - several C: the diagonal (same variant at every C, every variant) and the
//     full product over the class representatives; with fullPairs and exactly
//     two C the full product variants x variants instead.
func c20Instantiate(seq []string, vars []c20Variant, streams [][]byte, bigs []bool, reps []int, fullPairs bool, emit func([]c20DOp)) {
	var cpos []int
	h := make([]c20DOp, len(seq))
	for i, k := range seq {
		h[i] = c20DOp{K: k}
		if k == "C" {
			cpos = append(cpos, i)
		}
	}
	set := func(p, vi int) {
		h[p] = c20DOp{K: "C", Kind: vars[vi].Kind, Pos: vars[vi].Pos, s: streams[vi], big: bigs[vi]}
	}
	switch {
	case len(cpos) == 0:
		emit(h)
	case len(vars) == 0:
		// no corruption exists (empty valid stream): nothing to enumerate
	case len(cpos) == 1:
		for vi := range vars {
			set(cpos[0], vi)
			emit(h)
		}
	case len(cpos) == 2 && fullPairs:
		for a := range vars {
			set(cpos[0], a)
			for b := range vars {
				set(cpos[1], b)
				emit(h)
			}
		}
	default:
		for vi := range vars {
			for _, p := range cpos {
				set(p, vi)
			}
			emit(h)
		}
		idx := make([]int, len(cpos))
		for {
			allEq := true
			for _, x := range idx {
				if x != idx[0] {
					allEq = false
				}
			}
			if !allEq {
				for j, p := range cpos {
					set(p, reps[idx[j]])
				}
				emit(h)
			}
			j := len(idx) - 1
			for j >= 0 {
				idx[j]++
				if idx[j] < len(reps) {
					break
				}
				idx[j] = 0
				j--
			}
			if j < 0 {
				break
			}
		}
	}
}

func c20CloneHist(h []c20DOp) []c20DOp { return append([]c20DOp{}, h...) }

// c20Subseqs calls f with every subsequence of 0..n-1 (as index lists), fewest
// elements first; stops when f returns true.
func c20Subseqs(n int, f func(idx []int) bool) {
	for size := 0; size <= n; size++ {
		for mask := 0; mask < 1<<n; mask++ {
			var idx []int
			for b := 0; b < n; b++ {
				if mask&(1<<b) != 0 {
					idx = append(idx, b)
				}
			}
			if len(idx) == size && f(idx) {
				return
			}
		}
	}
}

// c20MinimizeD returns the shortest sub-history of prefix after which the
// oracle decode still fails, and the violation key named after its operations.
func (rn *c20DRunner) minimize(enc c20Enc, in c20Input, valid []byte, rk string, prefix []c20DOp) (hist []c20DOp, key string) {
	hist = prefix
	c20Subseqs(len(prefix), func(idx []int) bool {
		sub := make([]c20DOp, len(idx))
		for i, j := range idx {
			sub[i] = prefix[j]
		}
		_, verdicts, _ := rn.run(enc, in, valid, rk, sub, false)
		for _, v := range verdicts {
			if v.Reuse && v.Step == len(sub) {
				hist = sub
				return true
			}
		}
		return false
	})
	if len(hist) == 0 {
		return hist, "roundtrip:" + enc.Name
	}
	names := make([]string, len(hist))
	for i, op := range hist {
		names[i] = c20DOpName(op)
	}
	return hist, "reuse-after-" + strings.Join(names, "+") + ":" + enc.Name
}

func c20FirstDiff(a, b []byte) int {
	for i := 0; i < len(a) && i < len(b); i++ {
		if a[i] != b[i] {
			return i
		}
	}
	return min(len(a), len(b))
}

func c20Around(b []byte, at int) []byte { return b[min(at, len(b)):min(at+12, len(b))] }

func c20MinimizeC(enc c20Enc, in c20Input, feed string, prefix []string) (hist []string, key string) {
	hist = prefix
	c20Subseqs(len(prefix), func(idx []int) bool {
		sub := make([]string, len(idx))
		for i, j := range idx {
			sub[i] = prefix[j]
		}
		_, verdicts, _ := c20RunComp(enc, in, feed, sub, false)
		for _, v := range verdicts {
			if v.Reuse {
				hist = sub
				return true
			}
		}
		return false
	})
	// a failure that needs the caller to re-use its buffer gets its own key
	how := ""
	if feed != "whole" && feed != "" {
		if _, verdicts, _ := c20RunComp(enc, in, "whole", hist, false); len(verdicts) == 0 {
			how = "caller-reuses-buffer:"
		}
	}
	if len(hist) == 0 {
		return hist, "compress-roundtrip:" + how + enc.Name
	}
	names := make([]string, len(hist))
	for i, op := range hist {
		names[i] = c20CKindName[op]
	}
	return hist, "compress-after-" + strings.Join(names, "+") + ":" + how + enc.Name
}

func c20DecompSearch(t *testing.T, r *rep.Report, deadline time.Time, k *int64) {
	maxLen := 3
	if rep.Thorough() {
		maxLen = 4
	}
	readers := []string{"buffer", "opaque"}
	rn := &c20DRunner{scratch: make([]byte, 32*1024)}
	var mine int64
	for _, enc := range c20Encs() {
		for _, in := range c20Inputs(false) {
			valid, err := c20IndepEncode(enc.Name, in.Data)
			if err != nil {
				t.Fatalf("independent encoder %s: %v", enc.Name, err)
			}
			if back, err := c20IndepDecode(enc.Name, valid); err != nil || !bytes.Equal(back, in.Data) {
				t.Fatalf("independent codec %s does not round-trip %s: %v", enc.Name, in.Name, err)
			}
			vars := c20Variants(enc.Name, valid, in.Short)
			streams := make([][]byte, len(vars))
			for i, v := range vars {
				streams[i] = v.apply(valid, in.Data)
			}
			for _, rk := range readers {
				// class representatives: first variant of each distinct fresh-instance behaviour
				var reps []int
				bigs := make([]bool, len(vars))
				seen := map[string]bool{}
				for vi := range vars {
					h := []c20DOp{{K: "C", Kind: vars[vi].Kind, Pos: vars[vi].Pos, s: streams[vi]}}
					var m0, m1 runtime.MemStats
					runtime.ReadMemStats(&m0)
					steps, _, _ := rn.run(enc, in, valid, rk, h, true)
					st := steps[0]
					runtime.ReadMemStats(&m1)
					if mb := (m1.TotalAlloc - m0.TotalAlloc) >> 20; mb > 16 {
						// not a violation of C20 (nothing crashes, later decodes are fine), but worth knowing;
						// the harness collects garbage right after such a history to keep its own footprint bounded
						bigs[vi] = true
						debug.FreeOSMemory()
						if r.Shard == 0 {
							r.Outcome(fmt.Sprintf("corrupt-decode:%s:allocates-more-than-16MB", enc.Name))
							if mb > 512 {
								r.Note("observation (not a violation): decoding the %d-byte %s stream of input %q with %s@%d makes the decompressor allocate %d MB (read_err=%q); stream=%x",
									len(streams[vi]), enc.Name, in.Name, vars[vi].Kind, vars[vi].Pos, mb, st.ReadErr, streams[vi])
							}
						}
						if os.Getenv("C20_DEBUG") != "" {
							fmt.Printf("C20_DEBUG bigalloc %s/%s/%s %s@%d: %d MB (reset_err=%q read_err=%q n=%d) stream=%x\n", enc.Name, in.Name, rk, vars[vi].Kind, vars[vi].Pos, mb, st.ResetErr, st.ReadErr, st.N, streams[vi])
						}
					}
					bucket := "0"
					switch {
					case st.Same:
						bucket = "same"
					case st.N > len(in.Data):
						bucket = "longer"
					case st.N == len(in.Data) && st.N > 0:
						bucket = "samelen"
					case st.N > 0:
						bucket = "shorter"
					}
					cl := vars[vi].Kind + "|" + c20Digits.ReplaceAllString(st.ResetErr, "#") + "|" + c20Digits.ReplaceAllString(st.ReadErr, "#") + "|" + bucket + "|" + fmt.Sprint(st.Panic != "")
					if vars[vi].Kind == "foreign" {
						// the neighbouring formats are classed by what happens, not by the text of the error
						// (every one of them still occurs alone and on the diagonal of every history)
						cl = fmt.Sprintf("foreign|%v|%v|%s|%v", st.ResetErr != "", st.ReadErr != "", bucket, st.Panic != "")
					}
					if !seen[cl] {
						seen[cl] = true
						reps = append(reps, vi)
					}
				}
				if os.Getenv("C20_DEBUG") != "" {
					var ms runtime.MemStats
					runtime.ReadMemStats(&ms)
					fmt.Printf("C20_DEBUG before %s/%s/%s: goroutines=%d heap_alloc=%dMB heap_sys=%dMB stacks=%dMB k=%d\n", enc.Name, in.Name, rk, runtime.NumGoroutine(), ms.HeapAlloc>>20, ms.HeapSys>>20, ms.StackSys>>20, *k)
				}
				if r.Shard == 0 {
					r.Count("corrupt-variants", int64(len(vars)))
					r.Count("corrupt-class-representatives", int64(len(reps)))
				}
				for l := 0; l <= maxLen; l++ {
					for _, seq := range c20Seqs(c20DKinds, l) {
						fullPairs := rep.Thorough() && in.Short && l <= 3 && rk == "buffer"
						stop := false
						c20Instantiate(seq, vars, streams, bigs, reps, fullPairs, func(h []c20DOp) {
							if stop {
								return
							}
							*k++
							if !r.Mine(*k) {
								return
							}
							mine++
							if mine%256 == 0 && !deadline.IsZero() && time.Now().After(deadline) {
								r.NotExhaustive(fmt.Sprintf("budget reached in decompressor histories at enc=%s input=%s reader=%s length=%d", enc.Name, in.Name, rk, l))
								stop = true
								return
							}
							_, verdicts, classes := rn.run(enc, in, valid, rk, h, false)
							for _, op := range h {
								if op.big {
									debug.FreeOSMemory() // forces a collection and returns the pages
									break
								}
							}
							r.Eval(1)
							r.Count("decompressor-histories", 1)
							r.Count(fmt.Sprintf("decompressor-histories-len%d", l), 1)
							nontrivial := false
							for _, op := range h {
								if op.K != "V" {
									nontrivial = true
								}
							}
							if nontrivial {
								r.NonTrivial("")
							}
							for _, c := range classes {
								r.Outcome(c)
							}
							if len(verdicts) == 0 {
								r.Outcome("decompressor:" + enc.Name + ":ok")
							}
							if *k%200003 == 1 || (l == maxLen && *k%1000003 == 7) {
								r.Sample(c20DCase{Side: "decompressor", Enc: enc.Name, Input: in.Name, Reader: rk, History: c20CloneHist(h)})
							}
							for _, v := range verdicts {
								hh, key := c20CloneHist(h), v.Key
								if v.Reuse {
									// name the violation after the shortest sub-history that still breaks the valid decode
									hh, key = rn.minimize(enc, in, valid, rk, c20CloneHist(h[:min(v.Step, len(h))]))
								}
								r.Outcome("decompressor:" + key)
								r.Violate(key, fmt.Sprintf("enc=%s input=%s reader=%s history=[%s] (shortest failing sub-history: [%s]): %s", enc.Name, in.Name, rk, c20HistString(h), c20HistString(hh), v.Detail),
									c20DCase{Side: "decompressor", Enc: enc.Name, Input: in.Name, Reader: rk, History: hh})
							}
						})
						if stop {
							return
						}
					}
				}
			}
		}
	}
}

// ---------------------------------------------------------------------------
// compressor histories

// Operation kinds of a compressor instance.
//
//	B Reset(fresh bytes.Buffer)   D Reset(io.Discard) (connect-go putCompressor)   F Reset(sink that fails)
//	W Write(data)                 X Close
var c20CKinds = []string{"B", "D", "F", "W", "X"}

var c20CKindName = map[string]string{"": "fresh", "B": "reset", "D": "discard", "F": "failed-sink", "W": "write", "X": "close"}

// How the caller hands the message to the compressor at a W operation. An
// io.Writer must not retain the slice it is given and must have consumed it when
// Write returns, so every caller is free to build the next piece in the same
// memory - io.Copy (32 KiB transfer buffer), bufio.Writer, fmt.Fprintf and every
// hand-written read/write loop do. The transfer buffer is overwritten with a
// pattern after each Write returns (and once more before Close).
//
//	whole    one Write of the input slice itself (what connect-go and the raw-payload encoder do)
//	reuse1/2/3  the message in 1/2/3 pieces, each copied into ONE transfer buffer and written from there
//	iocopy   io.Copy(compressor, reader)  (32 KiB buffer, or the compressor's own ReadFrom if it has one)
//	copybuf  io.CopyBuffer with a 16-byte transfer buffer through a plain io.Writer view of the compressor
//	bufio    a bufio.Writer (16 bytes) in front of the compressor, fed in 5-byte pieces, then Flush
var c20Feeds = []string{"whole", "reuse1", "reuse2", "reuse3", "iocopy", "copybuf", "bufio"}

type c20WriterOnly struct{ w io.Writer }

func (o c20WriterOnly) Write(p []byte) (int, error) { return o.w.Write(p) }

func c20Scribble(b []byte) {
	for i := range b {
		b[i] = 0xA5 ^ byte(i*7)
	}
}

// c20Feed writes data to w in the given way; n is the number of message bytes the writer accepted.
func c20Feed(w io.Writer, data []byte, feed string) (n int, err error) {
	switch feed {
	case "", "whole":
		return w.Write(data)
	case "reuse1", "reuse2", "reuse3":
		pieces := int(feed[len(feed)-1] - '0')
		size := (len(data)+pieces-1)/pieces | 1 // odd, so that the pieces of a periodic input differ
		transfer := make([]byte, size)
		for p := 0; p < pieces; p++ {
			lo, hi := min(p*size, len(data)), min((p+1)*size, len(data))
			m, err := w.Write(transfer[:copy(transfer, data[lo:hi])])
			c20Scribble(transfer)
			n += m
			if err != nil {
				return n, err
			}
			if m != hi-lo {
				return n, io.ErrShortWrite
			}
		}
		return n, nil
	case "iocopy":
		m, err := io.Copy(w, &c20Opaque{bytes.NewReader(data)})
		return int(m), err
	case "copybuf":
		transfer := make([]byte, 16)
		m, err := io.CopyBuffer(c20WriterOnly{w}, &c20Opaque{bytes.NewReader(data)}, transfer)
		c20Scribble(transfer)
		return int(m), err
	case "bufio":
		bw := bufio.NewWriterSize(c20WriterOnly{w}, 16)
		for lo := 0; lo < len(data); lo += 5 {
			m, err := bw.Write(data[lo:min(lo+5, len(data))])
			n += m
			if err != nil {
				return n, err
			}
		}
		return n, bw.Flush()
	}
	panic("c20: unknown feed " + feed)
}

type c20FailSink struct{}

func (c20FailSink) Write(p []byte) (int, error) { return 0, errors.New("c20: sink failure") }

type c20CStep struct {
	Op    string `json:"op"`
	Err   string `json:"err,omitempty"`
	Panic string `json:"panic,omitempty"`
	Out   int    `json:"sink_bytes,omitempty"`
}

type c20CCase struct {
	Side    string     `json:"side"` // "compressor"
	Enc     string     `json:"enc"`
	Input   string     `json:"input"`
	Feed    string     `json:"feed,omitempty"` // how every W hands the message over (c20Feeds); "" = whole
	History []string   `json:"history"`
	Steps   []c20CStep `json:"observed,omitempty"`
}

func c20RunComp(enc c20Enc, in c20Input, feed string, hist []string, wantSteps bool) (steps []c20CStep, verdicts []c20Verdict, classes []string) {
	var c connect.Compressor
	if p := c20Guard(func() {
		var err error
		c, err = GetCompressor(enc.Enum)
		if err != nil {
			panic(err)
		}
	}); p != "" {
		return nil, []c20Verdict{{Key: "panic:" + enc.Name, Detail: "GetCompressor: " + p}}, nil
	}
	anyReset := false
	var sink *bytes.Buffer // non-nil while a segment on a good sink is open
	segWrites := 0
	segOrigin := "" // kind of the op that preceded the segment's Reset
	last := ""
	// the oracle: Reset(buf), Write(data) (unless NoWrite), Close
	ops := append([]string{}, hist...)
	ops = append(ops, "B")
	if !in.NoWrite {
		ops = append(ops, "W")
	}
	ops = append(ops, "X")
	for i, op := range ops {
		var st c20CStep
		inOracle := i >= len(hist)
		where := fmt.Sprintf("step %d (%s) after [%s]", i, op, strings.Join(ops[:i], " "))
		fail := func(what string) {
			key := "compress-after-" + c20CKindName[segOrigin] + ":" + enc.Name
			if segOrigin == "" {
				key = "compress-roundtrip:" + enc.Name
			}
			verdicts = append(verdicts, c20Verdict{Key: key, Step: i, Reuse: true, Detail: where + ": " + what})
		}
		switch op {
		case "B", "D", "F":
			var w io.Writer
			var nb *bytes.Buffer
			switch op {
			case "B":
				nb = &bytes.Buffer{}
				w = nb
			case "D":
				w = io.Discard
			case "F":
				w = c20FailSink{}
			}
			anyReset = true
			st.Panic = c20Guard(func() { c.Reset(w) })
			if st.Panic != "" {
				verdicts = append(verdicts, c20Verdict{Key: "panic:" + enc.Name, Step: i, Detail: where + ": Reset panicked: " + st.Panic})
				nb = nil
			}
			sink, segWrites, segOrigin = nb, 0, last
		case "W":
			var n int
			var err error
			st.Panic = c20Guard(func() { n, err = c20Feed(c, in.Data, feed) })
			st.Err = c20ErrStr(err)
			switch {
			case st.Panic != "" && anyReset:
				verdicts = append(verdicts, c20Verdict{Key: "panic:" + enc.Name, Step: i, Detail: where + ": Write panicked: " + st.Panic})
				sink = nil
			case st.Panic != "":
				classes = append(classes, "compressor:write-before-first-reset-panics:"+enc.Name)
			case sink != nil && (err != nil || n != len(in.Data)):
				fail(fmt.Sprintf("Write (feed=%s) of %d bytes to a freshly Reset compressor on a bytes.Buffer returned n=%d err=%v", feed, len(in.Data), n, err))
				sink = nil
			case sink != nil:
				segWrites++
			}
		case "X":
			var err error
			st.Panic = c20Guard(func() { err = c.Close() })
			st.Err = c20ErrStr(err)
			switch {
			case st.Panic != "" && anyReset:
				verdicts = append(verdicts, c20Verdict{Key: "panic:" + enc.Name, Step: i, Detail: where + ": Close panicked: " + st.Panic})
			case st.Panic != "":
				classes = append(classes, "compressor:close-before-first-reset-panics:"+enc.Name)
			case sink != nil && err != nil:
				fail(fmt.Sprintf("Close on a bytes.Buffer sink returned %v", err))
			case sink != nil:
				want := bytes.Repeat(in.Data, segWrites)
				got, derr := c20IndepDecode(enc.Name, sink.Bytes())
				if derr != nil || !bytes.Equal(got, want) {
					extra := ""
					if enc.Name == "deflate" {
						if raw, e2 := io.ReadAll(flate.NewReader(bytes.NewReader(sink.Bytes()))); e2 == nil && bytes.Equal(raw, want) {
							extra = " (the stream IS valid raw RFC 1951 flate: wrong algorithm for the name)"
						}
					}
					if derr == nil && feed != "whole" && feed != "" {
						extra += fmt.Sprintf(" (feed=%s: the caller re-used its transfer buffer after Write returned; first difference at offset %d, got %q want %q)", feed, c20FirstDiff(got, want), c20Around(got, c20FirstDiff(got, want)), c20Around(want, c20FirstDiff(got, want)))
					}
					fail(fmt.Sprintf("%d emitted bytes (%d messages of input %q, feed=%s) decoded by an independent %s decoder: err=%v, %d bytes, identical=%v; want the %d original bytes%s",
						sink.Len(), segWrites, in.Name, feed, enc.Name, derr, len(got), bytes.Equal(got, want), len(want), extra))
				} else if inOracle {
					classes = append(classes, "compressor:"+enc.Name+":ok")
				}
			}
			if sink != nil {
				st.Out = sink.Len()
			}
			sink = nil
		}
		last = op
		if wantSteps {
			st.Op = op
			if inOracle {
				st.Op = "oracle:" + op
			}
			steps = append(steps, st)
		}
	}
	return steps, verdicts, classes
}

func c20CompSearch(t *testing.T, r *rep.Report, deadline time.Time, k *int64) {
	maxLen := 3
	if rep.Thorough() {
		maxLen = 4
	}
	for _, enc := range c20Encs() {
		for _, in := range c20Inputs(true) {
			for _, feed := range c20Feeds {
				if in.NoWrite && feed != "whole" {
					continue // no W in the oracle: the feed only matters inside the history, covered by input "empty"
				}
				if len(in.Data) > 4096 && !rep.Thorough() && (feed == "reuse1" || feed == "reuse3" || feed == "copybuf" || feed == "bufio") {
					continue // quick tier: the 64 KB input is handed over whole, in 2 pieces from one buffer and by io.Copy (3 fills of its 32 KiB buffer)
				}
				for l := 0; l <= maxLen; l++ {
					for _, seq := range c20Seqs(c20CKinds, l) {
						*k++
						if !r.Mine(*k) {
							continue
						}
						if !deadline.IsZero() && time.Now().After(deadline) {
							r.NotExhaustive(fmt.Sprintf("budget reached in compressor histories at enc=%s input=%s feed=%s length=%d", enc.Name, in.Name, feed, l))
							return
						}
						_, verdicts, classes := c20RunComp(enc, in, feed, seq, false)
						r.Eval(1)
						r.Count("compressor-histories", 1)
						r.Count("compressor-histories-feed-"+feed, 1)
						r.Count(fmt.Sprintf("compressor-histories-len%d", l), 1)
						if l > 0 {
							r.NonTrivial("")
						}
						for _, c := range classes {
							r.Outcome(c)
						}
						if *k%4001 == 1 {
							r.Sample(c20CCase{Side: "compressor", Enc: enc.Name, Input: in.Name, Feed: feed, History: seq})
						}
						for _, v := range verdicts {
							hh, key := seq, v.Key
							if v.Reuse {
								hh, key = c20MinimizeC(enc, in, feed, seq)
							}
							r.Outcome("compressor:" + key)
							r.Violate(key, fmt.Sprintf("enc=%s input=%s feed=%s compressor history=[%s] (shortest failing sub-history: [%s]): %s", enc.Name, in.Name, feed, strings.Join(seq, " "), strings.Join(hh, " "), v.Detail),
								c20CCase{Side: "compressor", Enc: enc.Name, Input: in.Name, Feed: feed, History: hh})
						}
					}
				}
			}
		}
	}
}

// ---------------------------------------------------------------------------
// histories over TWO instances
//
// A pool holds several instances at a time (one per concurrent message), and
// instances that were closed and put back are used next to instances created
// later. Every history of operations on two slots (0 and 1) is enumerated; the
// operations of the two slots are interleaved in every way (Reset and the reads
// that follow are separate operations), and whatever an instance decodes /
// encodes is compared with ITS OWN input: nothing done to one instance may show
// in the other.
//
// Decompressor operations per slot:
//
//	V Reset(valid)+read all   S Reset(valid) only   D read all (checked when a Reset(valid) is pending, else a few Reads)
//	C Reset(corrupt)+read all X Close               P Close + Reset(http.NoBody) (pool put)
//
// Compressor operations per slot: B Reset(new buffer), W Write(own data), X Close (segment checked), D Reset(io.Discard).
//
// Instance 0 is created at the start; instance 1 either at the start too or at
// its first operation (the way sync.Pool.New creates one when the pool is
// empty). The oracle phase that follows every history is itself interleaved:
// 0S 1S 0D 1D (0B 1B 0W 1W 0X 1X for compressors).

var c20PDKinds = []string{"V", "S", "D", "C", "X", "P"}
var c20PCKinds = []string{"B", "W", "X", "D"}

type c20PStep struct {
	Op    string `json:"op"`
	Err   string `json:"err,omitempty"`
	N     int    `json:"n"`
	Same  bool   `json:"same_as_own_input,omitempty"`
	Other bool   `json:"same_as_input_of_other_instance,omitempty"`
	Panic string `json:"panic,omitempty"`
}

type c20PCase struct {
	Side    string     `json:"side"` // "decompressor-pair" | "compressor-pair"
	Encs    [2]string  `json:"encs"`
	Inputs  [2]string  `json:"inputs"`
	Lazy    bool       `json:"second_instance_created_at_first_use"`
	History []string   `json:"history"` // "<slot><operation>"
	Steps   []c20PStep `json:"observed,omitempty"`
}

func c20PairOps(kinds []string) []string {
	var out []string
	for slot := 0; slot < 2; slot++ {
		for _, k := range kinds {
			out = append(out, fmt.Sprint(slot)+k)
		}
	}
	return out
}

// runPair replays hist (then the interleaved oracle phase) on two decompressor instances.
func (rn *c20DRunner) runPair(encs [2]c20Enc, ins [2]c20Input, valid, corrupt [2][]byte, lazy bool, hist []string, wantSteps bool) (steps []c20PStep, verdicts []c20Verdict, classes []string) {
	var d [2]connect.Decompressor
	var anyReset, pending [2]bool
	create := func(i int) bool {
		if p := c20Guard(func() {
			var err error
			d[i], err = GetDecompressor(encs[i].Enum)
			if err != nil {
				panic(err)
			}
		}); p != "" {
			verdicts = append(verdicts, c20Verdict{Key: "panic:" + encs[i].Name, Detail: "GetDecompressor: " + p})
			return false
		}
		return true
	}
	defer func() {
		for i := range d {
			if d[i] != nil {
				c20Guard(func() { _ = d[i].Close() })
			}
		}
	}()
	if !create(0) || (!lazy && !create(1)) {
		return steps, verdicts, classes
	}
	ops := append(append([]string{}, hist...), "0S", "1S", "0D", "1D")
	for n, op := range ops {
		i, k := int(op[0]-'0'), op[1:]
		if d[i] == nil && !create(i) {
			return steps, verdicts, classes
		}
		where := fmt.Sprintf("step %d (%s) after [%s]", n, op, strings.Join(ops[:n], " "))
		var st c20PStep
		reset := func(src io.Reader) {
			anyReset[i] = true
			st.Err = ""
			if p := c20Guard(func() { st.Err = c20ErrStr(d[i].Reset(src)) }); p != "" {
				st.Panic = p
				verdicts = append(verdicts, c20Verdict{Key: "panic:" + encs[i].Name, Step: n, Detail: where + ": Reset panicked: " + p})
			}
		}
		readAll := func(check bool) {
			rn.out.Reset()
			var err error
			if p := c20Guard(func() { err = c20ReadAll(d[i], &rn.out, rn.scratch) }); p != "" {
				st.Panic = p
				verdicts = append(verdicts, c20Verdict{Key: "panic:" + encs[i].Name, Step: n, Detail: where + ": Read panicked: " + p})
				return
			}
			st.Err, st.N = c20ErrStr(err), rn.out.Len()
			st.Same = bytes.Equal(rn.out.Bytes(), ins[i].Data)
			st.Other = !st.Same && bytes.Equal(rn.out.Bytes(), ins[1-i].Data)
			if check && (err != nil || !st.Same) {
				what := ""
				if st.Other {
					what = fmt.Sprintf(" — these are the %d bytes of input %q, which was given to the OTHER instance", len(ins[1-i].Data), ins[1-i].Name)
				}
				verdicts = append(verdicts, c20Verdict{Key: "two-instances:decode-wrong:" + encs[i].Name, Step: n, Reuse: true, Detail: fmt.Sprintf(
					"%s: instance %d (%s) was Reset to the valid %s stream of its input %q; read-all gave err=%q n=%d identical=%v%s; want the %d original bytes and no error",
					where, i, encs[i].Name, encs[i].Name, ins[i].Name, st.Err, st.N, st.Same, what, len(ins[i].Data))})
			}
		}
		switch k {
		case "V", "S":
			reset(c20Reader("buffer", valid[i]))
			pending[i] = st.Panic == "" && st.Err == ""
			if st.Panic == "" && st.Err != "" {
				verdicts = append(verdicts, c20Verdict{Key: "two-instances:decode-wrong:" + encs[i].Name, Step: n, Reuse: true, Detail: fmt.Sprintf(
					"%s: Reset of instance %d to the valid %s stream of input %q failed: %s", where, i, encs[i].Name, ins[i].Name, st.Err)})
			}
			if k == "V" && pending[i] {
				readAll(true)
				pending[i] = false
			}
		case "D":
			if pending[i] {
				readAll(true)
				pending[i] = false
				break
			}
			st.Panic = c20Guard(func() {
				var small [64]byte
				for j := 0; j < 4; j++ {
					m, err := d[i].Read(small[:])
					st.N += m
					if err != nil {
						st.Err = err.Error()
						break
					}
				}
			})
			if st.Panic != "" {
				if anyReset[i] {
					verdicts = append(verdicts, c20Verdict{Key: "panic-in-read:" + encs[i].Name, Step: n, Detail: where + ": Read panicked: " + st.Panic})
				} else {
					classes = append(classes, "decompressor:read-before-first-reset-panics:"+encs[i].Name)
				}
			}
		case "C":
			reset(c20Reader("buffer", corrupt[i]))
			pending[i] = false
			if st.Panic == "" && st.Err == "" {
				readAll(false)
			}
		case "X", "P":
			pending[i] = false
			if p := c20Guard(func() { st.Err = c20ErrStr(d[i].Close()) }); p != "" {
				st.Panic = p
				if anyReset[i] {
					verdicts = append(verdicts, c20Verdict{Key: "panic-in-close:" + encs[i].Name, Step: n, Detail: where + ": Close panicked: " + p})
				} else {
					classes = append(classes, "decompressor:close-before-first-reset-panics:"+encs[i].Name)
				}
			}
			if k == "P" {
				reset(http.NoBody)
			}
		default:
			panic("bad pair op " + op)
		}
		if wantSteps {
			st.Op = op
			if n >= len(hist) {
				st.Op = "oracle:" + op
			}
			steps = append(steps, st)
		}
	}
	return steps, verdicts, classes
}

// c20RunCompPair replays hist (then the interleaved oracle phase) on two compressor instances.
func c20RunCompPair(encs [2]c20Enc, ins [2]c20Input, lazy bool, hist []string, wantSteps bool) (steps []c20PStep, verdicts []c20Verdict, classes []string) {
	var c [2]connect.Compressor
	var anyReset [2]bool
	var sink [2]*bytes.Buffer
	var segWrites [2]int
	create := func(i int) bool {
		if p := c20Guard(func() {
			var err error
			c[i], err = GetCompressor(encs[i].Enum)
			if err != nil {
				panic(err)
			}
		}); p != "" {
			verdicts = append(verdicts, c20Verdict{Key: "panic:" + encs[i].Name, Detail: "GetCompressor: " + p})
			return false
		}
		return true
	}
	if !create(0) || (!lazy && !create(1)) {
		return steps, verdicts, classes
	}
	ops := append(append([]string{}, hist...), "0B", "1B", "0W", "1W", "0X", "1X")
	for n, op := range ops {
		i, k := int(op[0]-'0'), op[1:]
		if c[i] == nil && !create(i) {
			return steps, verdicts, classes
		}
		where := fmt.Sprintf("step %d (%s) after [%s]", n, op, strings.Join(ops[:n], " "))
		fail := func(what string) {
			verdicts = append(verdicts, c20Verdict{Key: "two-instances:encode-wrong:" + encs[i].Name, Step: n, Reuse: true, Detail: where + ": " + what})
		}
		var st c20PStep
		switch k {
		case "B", "D":
			var w io.Writer = io.Discard
			var nb *bytes.Buffer
			if k == "B" {
				nb = &bytes.Buffer{}
				w = nb
			}
			anyReset[i] = true
			if st.Panic = c20Guard(func() { c[i].Reset(w) }); st.Panic != "" {
				verdicts = append(verdicts, c20Verdict{Key: "panic:" + encs[i].Name, Step: n, Detail: where + ": Reset panicked: " + st.Panic})
				nb = nil
			}
			sink[i], segWrites[i] = nb, 0
		case "W":
			var m int
			var err error
			st.Panic = c20Guard(func() { m, err = c[i].Write(ins[i].Data) })
			st.Err, st.N = c20ErrStr(err), m
			switch {
			case st.Panic != "" && anyReset[i]:
				verdicts = append(verdicts, c20Verdict{Key: "panic:" + encs[i].Name, Step: n, Detail: where + ": Write panicked: " + st.Panic})
				sink[i] = nil
			case st.Panic != "":
				classes = append(classes, "compressor:write-before-first-reset-panics:"+encs[i].Name)
			case sink[i] != nil && (err != nil || m != len(ins[i].Data)):
				fail(fmt.Sprintf("Write of %d bytes to instance %d, freshly Reset on a bytes.Buffer, returned n=%d err=%v", len(ins[i].Data), i, m, err))
				sink[i] = nil
			case sink[i] != nil:
				segWrites[i]++
			}
		case "X":
			var err error
			st.Panic = c20Guard(func() { err = c[i].Close() })
			st.Err = c20ErrStr(err)
			switch {
			case st.Panic != "" && anyReset[i]:
				verdicts = append(verdicts, c20Verdict{Key: "panic:" + encs[i].Name, Step: n, Detail: where + ": Close panicked: " + st.Panic})
			case st.Panic != "":
				classes = append(classes, "compressor:close-before-first-reset-panics:"+encs[i].Name)
			case sink[i] != nil && err != nil:
				fail(fmt.Sprintf("Close of instance %d on a bytes.Buffer sink returned %v", i, err))
			case sink[i] != nil:
				want := bytes.Repeat(ins[i].Data, segWrites[i])
				got, derr := c20IndepDecode(encs[i].Name, sink[i].Bytes())
				st.N, st.Same = sink[i].Len(), derr == nil && bytes.Equal(got, want)
				if !st.Same {
					fail(fmt.Sprintf("the %d bytes instance %d (%s) emitted for %d writes of its input %q, decoded by an independent %s decoder: err=%v, %d bytes, identical=false; want the %d original bytes",
						sink[i].Len(), i, encs[i].Name, segWrites[i], ins[i].Name, encs[i].Name, derr, len(got), len(want)))
				}
			}
			sink[i] = nil
		default:
			panic("bad pair op " + op)
		}
		if wantSteps {
			st.Op = op
			if n >= len(hist) {
				st.Op = "oracle:" + op
			}
			steps = append(steps, st)
		}
	}
	return steps, verdicts, classes
}

type c20PairSetup struct {
	encs   [2]c20Enc
	ins    [2]c20Input
	maxLen int
}

// c20PairSetups: same-encoding pairs get the longer histories and two input
// assignments, pairs of different encodings the shorter ones.
func c20PairSetups(compressorSide bool) []c20PairSetup {
	byName := map[string]c20Input{}
	for _, in := range c20Inputs(false) {
		byName[in.Name] = in
	}
	sameLen, diffLen := 3, 2
	if compressorSide {
		sameLen, diffLen = 2, 1
	}
	if rep.Thorough() {
		sameLen, diffLen = sameLen+1, diffLen+1
	}
	var out []c20PairSetup
	for _, a := range c20Encs() {
		for _, names := range [][2]string{{"ab300", "bytes256"}, {"empty", "a"}, {"a", "lcg64k"}} {
			if names[1] == "lcg64k" && !rep.Thorough() {
				continue
			}
			out = append(out, c20PairSetup{[2]c20Enc{a, a}, [2]c20Input{byName[names[0]], byName[names[1]]}, sameLen})
		}
	}
	for _, a := range c20Encs() {
		for _, b := range c20Encs() {
			if a.Name != b.Name {
				out = append(out, c20PairSetup{[2]c20Enc{a, b}, [2]c20Input{byName["ab300"], byName["bytes256"]}, diffLen})
			}
		}
	}
	return out
}

func c20PairStreams(t *testing.T, su c20PairSetup) (valid, corrupt [2][]byte) {
	for i := 0; i < 2; i++ {
		v, err := c20IndepEncode(su.encs[i].Name, su.ins[i].Data)
		if err != nil {
			t.Fatalf("independent encoder %s: %v", su.encs[i].Name, err)
		}
		valid[i] = v
		corrupt[i] = append([]byte{}, v[:len(v)/2]...) // a truncated stream
		if len(v) > 0 {
			flipped := append([]byte{}, v...)
			flipped[len(v)/2] ^= 0x10
			if i == 1 {
				corrupt[i] = flipped // the other instance gets a bit flip instead
			}
		}
	}
	return valid, corrupt
}

func c20PairName(su c20PairSetup) [2]string { return [2]string{su.encs[0].Name, su.encs[1].Name} }

func c20PairSearch(t *testing.T, r *rep.Report, deadline time.Time, k *int64) {
	rn := &c20DRunner{scratch: make([]byte, 32*1024)}
	var mine int64
	for _, side := range []string{"decompressor-pair", "compressor-pair"} {
		comp := side == "compressor-pair"
		kinds := c20PDKinds
		if comp {
			kinds = c20PCKinds
		}
		ops := c20PairOps(kinds)
		for _, su := range c20PairSetups(comp) {
			valid, corrupt := c20PairStreams(t, su)
			run := func(lazy bool, h []string, steps bool) ([]c20PStep, []c20Verdict, []string) {
				if comp {
					return c20RunCompPair(su.encs, su.ins, lazy, h, steps)
				}
				return rn.runPair(su.encs, su.ins, valid, corrupt, lazy, h, steps)
			}
			for l := 0; l <= su.maxLen; l++ {
				for _, h := range c20Seqs(ops, l) {
					for _, lazy := range []bool{true, false} {
						*k++
						if !r.Mine(*k) {
							continue
						}
						mine++
						if mine%64 == 0 && !deadline.IsZero() && time.Now().After(deadline) {
							r.NotExhaustive(fmt.Sprintf("budget reached in %s histories at encs=%v length=%d", side, c20PairName(su), l))
							return
						}
						_, verdicts, classes := run(lazy, h, false)
						r.Eval(1)
						r.Count(side+"-histories", 1)
						r.Count(fmt.Sprintf("%s-histories-len%d", side, l), 1)
						r.NonTrivial("")
						for _, c := range classes {
							r.Outcome(c)
						}
						if len(verdicts) == 0 {
							r.Outcome(side + ":ok")
						}
						if *k%50021 == 1 {
							r.Sample(c20PCase{Side: side, Encs: c20PairName(su), Inputs: [2]string{su.ins[0].Name, su.ins[1].Name}, Lazy: lazy, History: h})
						}
						for _, v := range verdicts {
							hh := h
							if v.Reuse {
								// the shortest sub-history after which an instance still returns something else than its own input
								c20Subseqs(len(h), func(idx []int) bool {
									sub := make([]string, len(idx))
									for i, j := range idx {
										sub[i] = h[j]
									}
									_, vs, _ := run(lazy, sub, false)
									for _, x := range vs {
										if x.Reuse {
											hh = sub
											return true
										}
									}
									return false
								})
							}
							r.Outcome(side + ":" + v.Key)
							r.Violate(v.Key, fmt.Sprintf("%s encs=%v inputs=[%s %s] second instance created at first use=%v history=[%s] (shortest failing sub-history: [%s]): %s",
								side, c20PairName(su), su.ins[0].Name, su.ins[1].Name, lazy, strings.Join(h, " "), strings.Join(hh, " "), v.Detail),
								c20PCase{Side: side, Encs: c20PairName(su), Inputs: [2]string{su.ins[0].Name, su.ins[1].Name}, Lazy: lazy, History: hh})
						}
					}
				}
			}
		}
	}
}

// ---------------------------------------------------------------------------

func c20Replay(t *testing.T, r *rep.Report, data []byte) {
	var file struct {
		Key    string          `json:"key"`
		Replay json.RawMessage `json:"replay"`
	}
	if err := json.Unmarshal(data, &file); err != nil {
		t.Fatalf("replay file: %v", err)
	}
	var side struct {
		Side string `json:"side"`
	}
	_ = json.Unmarshal(file.Replay, &side)
	findEnc := func(name string) c20Enc {
		for _, e := range c20Encs() {
			if e.Name == name {
				return e
			}
		}
		t.Fatalf("replay: unknown encoding %q", name)
		return c20Enc{}
	}
	findIn := func(name string, comp bool) c20Input {
		for _, in := range c20Inputs(comp) {
			if in.Name == name {
				return in
			}
		}
		t.Fatalf("replay: unknown input %q", name)
		return c20Input{}
	}
	switch side.Side {
	case "decompressor":
		var c c20DCase
		if err := json.Unmarshal(file.Replay, &c); err != nil {
			t.Fatalf("replay: %v", err)
		}
		enc, in := findEnc(c.Enc), findIn(c.Input, false)
		valid, err := c20IndepEncode(enc.Name, in.Data)
		if err != nil {
			t.Fatal(err)
		}
		for i := range c.History {
			if c.History[i].K == "C" {
				c.History[i].s = c20Variant{c.History[i].Kind, c.History[i].Pos}.apply(valid, in.Data)
			}
		}
		rn := &c20DRunner{scratch: make([]byte, 32*1024)}
		steps, verdicts, _ := rn.run(enc, in, valid, c.Reader, c.History, true)
		c.Steps = steps
		out, _ := json.MarshalIndent(c, "", " ")
		fmt.Printf("C20 replay (valid stream = %x...):\n%s\n", valid[:min(len(valid), 48)], out)
		r.Eval(1)
		for _, v := range verdicts {
			fmt.Printf("STILL FAILS: %s: %s\n", v.Key, v.Detail)
			r.Violate(v.Key, fmt.Sprintf("enc=%s input=%s reader=%s history=[%s]: %s", c.Enc, c.Input, c.Reader, c20HistString(c.History), v.Detail), c)
		}
		if len(verdicts) == 0 {
			fmt.Println("replay: no violation observed")
		}
	case "compressor":
		var c c20CCase
		if err := json.Unmarshal(file.Replay, &c); err != nil {
			t.Fatalf("replay: %v", err)
		}
		enc, in := findEnc(c.Enc), findIn(c.Input, true)
		steps, verdicts, _ := c20RunComp(enc, in, c.Feed, c.History, true)
		c.Steps = steps
		out, _ := json.MarshalIndent(c, "", " ")
		fmt.Printf("C20 replay:\n%s\n", out)
		r.Eval(1)
		for _, v := range verdicts {
			if v.Reuse {
				_, v.Key = c20MinimizeC(enc, in, c.Feed, c.History) // the key the search reports
			}
			fmt.Printf("STILL FAILS: %s: %s\n", v.Key, v.Detail)
			r.Violate(v.Key, fmt.Sprintf("enc=%s input=%s feed=%s compressor history=[%s]: %s", c.Enc, c.Input, c.Feed, strings.Join(c.History, " "), v.Detail), c)
		}
		if len(verdicts) == 0 {
			fmt.Println("replay: no violation observed")
		}
	case "decompressor-pair", "compressor-pair":
		var c c20PCase
		if err := json.Unmarshal(file.Replay, &c); err != nil {
			t.Fatalf("replay: %v", err)
		}
		su := c20PairSetup{encs: [2]c20Enc{findEnc(c.Encs[0]), findEnc(c.Encs[1])}, ins: [2]c20Input{findIn(c.Inputs[0], false), findIn(c.Inputs[1], false)}}
		valid, corrupt := c20PairStreams(t, su)
		var steps []c20PStep
		var verdicts []c20Verdict
		if c.Side == "compressor-pair" {
			steps, verdicts, _ = c20RunCompPair(su.encs, su.ins, c.Lazy, c.History, true)
		} else {
			rn := &c20DRunner{scratch: make([]byte, 32*1024)}
			steps, verdicts, _ = rn.runPair(su.encs, su.ins, valid, corrupt, c.Lazy, c.History, true)
		}
		c.Steps = steps
		out, _ := json.MarshalIndent(c, "", " ")
		fmt.Printf("C20 replay:\n%s\n", out)
		r.Eval(1)
		for _, v := range verdicts {
			fmt.Printf("STILL FAILS: %s: %s\n", v.Key, v.Detail)
			r.Violate(v.Key, fmt.Sprintf("%s encs=%v history=[%s]: %s", c.Side, c.Encs, strings.Join(c.History, " "), v.Detail), c)
		}
		if len(verdicts) == 0 {
			fmt.Println("replay: no violation observed")
		}
	default:
		t.Fatalf("replay: unknown side %q", side.Side)
	}
}

func TestVerifC20Hist(t *testing.T) {
	r := rep.New("c20-hist")
	defer r.Write()
	r.Rule = "breadth-first over ALL operation histories (length <=3 quick, <=4 thorough) of one instance obtained once from GetCompressor/GetDecompressor, " +
		"for 6 encodings x inputs {empty, 'a', 300x'ab', 256 distinct bytes, 64 KB LCG}; each history is replayed on a fresh instance and followed by the oracle operation. " +
		"Decompressor operations: V Reset(valid)+read all, C Reset(corrupt)+read all, N Reset(http.NoBody), X Close, R Read, P Close+Reset(http.NoBody) (pool put); source handed to Reset both as *bytes.Buffer (as connect-go/tracer do) and as an opaque io.Reader. " +
		"corrupt = every single-bit flip and every proper prefix of the valid stream for the two short inputs (fixed set of 14 cuts + 18 flips for the longer ones), plus, for every input, the WELL-FORMED message of each neighbouring format " +
		"(bare RFC 1951 deflate compressed and stored, zlib, gzip, zstd, snappy block, snappy framed, brotli, the plain bytes, two gzip members, zlib + 4 trailing bytes; the encoding's own format excluded): whatever the instance makes of it, the later valid message must decode exactly; histories with one C take every corruption; " +
		"histories with several C take the diagonal (same corruption at every C) plus the full product of class representatives (one corruption per distinct fresh-instance behaviour; the neighbouring formats classed by reset error / read error / output size only); thorough additionally takes the full product of all corruptions for two C up to length 3 (source as *bytes.Buffer). " +
		"Compressor operations: B Reset(new buffer), D Reset(io.Discard), F Reset(failing sink), W Write(data), X Close; every closed segment on a good sink and the final Reset+Write+Close are decoded by a fresh decoder of the underlying library. " +
		"Every compressor history is run once per way the caller hands the message over at W (all W of the history and of the oracle alike): whole (one Write of the input slice), reuse1/2/3 (1/2/3 pieces, each copied into ONE transfer buffer that is overwritten after every Write returns), " +
		"iocopy (io.Copy from an opaque reader), copybuf (io.CopyBuffer, 16-byte buffer, compressor seen as a plain io.Writer), bufio (16-byte bufio.Writer fed in 5-byte pieces + Flush) - quick tier: the 64 KB input only with whole, reuse2, iocopy; the oracle is the same: the independent decoder returns the message(s). " +
		"Two instances: every history (same encoding: length <=3 quick / <=4 thorough; two different encodings: <=2 / <=3; compressors one shorter) over the operations of two decompressors {V, S Reset(valid) only, D read all, C, X, P} / two compressors {B, W, X, D} in every interleaving, second instance created at the start or at its first use, followed by the interleaved oracle 0S 1S 0D 1D / 0B 1B 0W 1W 0X 1X: each instance must return / emit its own input. " +
		"A history counts as non-trivial when it contains at least one operation other than a valid decode (decompressor) / at least one operation (compressor); histories are distinct by construction."
	if data := rep.ReplayInput(); data != nil {
		c20Replay(t, r, data)
		return
	}
	// safety net for the harness' own footprint: some corruptions inflate a size field and make a decoder
	// allocate gigabytes of (untouched) memory, which would otherwise inflate the GC goal
	defer debug.SetMemoryLimit(debug.SetMemoryLimit(3 << 30))
	deadline := rep.Deadline()
	var k int64
	t0 := time.Now()
	c20CompSearch(t, r, deadline, &k)
	kc, t1 := k, time.Now()
	c20PairSearch(t, r, deadline, &k)
	kp, t2 := k, time.Now()
	c20DecompSearch(t, r, deadline, &k)
	if r.Shard == 0 { // where the time goes (information only)
		r.Extra["shard0_seconds_compressor_histories"] = t1.Sub(t0).Seconds()
		r.Extra["shard0_seconds_two_instance_histories"] = t2.Sub(t1).Seconds()
		r.Extra["shard0_seconds_decompressor_histories"] = time.Since(t2).Seconds()
	}
	if r.Exhaustive {
		r.Extra["enumeration_size_compressor_histories"] = kc
		r.Extra["enumeration_size_two_instance_histories"] = kp - kc
		r.Extra["enumeration_size_decompressor_histories"] = k - kp
	}
}
