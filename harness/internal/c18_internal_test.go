package internal

// C18 — "Error, metadata and message conversions are lossless", part 1 of 2
// (package internal): errors.go, headers.go, codec.go.
//
// Plain bounded-exhaustive ENUM harness. Three sections share one case counter
// (sharding with r.Mine):
//
//   err/…   errors  = codes 1..16 x messages x 0-2 details (3 in thorough):
//           Proto→Connect→Proto, ConvertErrorToProtoError (plain and %w-wrapped),
//           ConvertErrorToConnectError, twice-repeated round trip; the Connect
//           form in between is inspected too.
//   hdr/…   header lists (≤2 entries, ≤3 in thorough) over names in 3 case
//           variants, repeated keys and value lists: AddHeaders / AddTrailers
//           followed by ConvertToProtoHeader.
//   codec/… every message descriptor of package connectrpc.conformance.v1 x
//           instances of a bounded generator, for StrictProtoCodec and
//           StrictJSONCodec: Marshal / MarshalAppend (nil and non-empty prefix)
//           / MarshalStable round trips, unknown-field rejection.
//
// Oracles are written from the property text: the expected result of a round
// trip is the *specification* the input was built from (never the input object,
// so that input mutation cannot hide a loss).

import (
	"bytes"
	"crypto/sha1"
	"encoding/json"
	"errors"
	"fmt"
	"math"
	"net/http"
	"runtime"
	"runtime/debug"
	"sort"
	"strings"
	"testing"
	"time"

	conformancev1 "connectrpc.com/conformance/internal/gen/proto/go/connectrpc/conformance/v1"
	"connectrpc.com/conformance/internal/verif/rep"
	"connectrpc.com/connect"
	"google.golang.org/protobuf/encoding/protojson"
	"google.golang.org/protobuf/encoding/protowire"
	"google.golang.org/protobuf/proto"
	"google.golang.org/protobuf/reflect/protoreflect"
	"google.golang.org/protobuf/reflect/protoregistry"
	"google.golang.org/protobuf/types/descriptorpb"
	"google.golang.org/protobuf/types/dynamicpb"
	"google.golang.org/protobuf/types/known/anypb"
	"google.golang.org/protobuf/types/known/durationpb"
	"google.golang.org/protobuf/types/known/emptypb"
	"google.golang.org/protobuf/types/known/structpb"
	"google.golang.org/protobuf/types/known/wrapperspb"
)

// ---------------------------------------------------------------------------
// run bookkeeping
// ---------------------------------------------------------------------------

type c18Replay struct {
	Case string `json:"case"`
}

type c18Run struct {
	r        *rep.Report
	k        int64
	replayID string
	replayed bool
	deadline time.Time
	stop     bool
	seen     map[string]bool
}

// take tells whether the case with this id is to be evaluated by this process.
func (c *c18Run) take(id string) bool {
	if c.stop {
		return false
	}
	if c.replayID != "" {
		if id == c.replayID {
			c.replayed = true
			fmt.Printf("C18 replay: re-running case %s\n", id)
			return true
		}
		return false
	}
	c.k++
	if !c.r.Mine(c.k) {
		return false
	}
	if !c.deadline.IsZero() && c.k%64 == 0 && time.Now().After(c.deadline) {
		c.r.NotExhaustive("soft budget reached; cases are enumerated simplest-first, the rest was not evaluated")
		c.stop = true
		return false
	}
	return true
}

// violate records the first failing case of every kind per shard in full (with
// a replay record); further ones of the same kind are only counted — they are
// enumerated simplest-first, so the recorded one is the simplest of its shard.
func (c *c18Run) violate(key, id, detail string) {
	if c.seen == nil {
		c.seen = map[string]bool{}
	}
	if c.seen[key] && c.replayID == "" {
		c.r.Count("violations:"+key, 1)
		return
	}
	c.seen[key] = true
	c.r.Violate(key, id+": "+detail, c18Replay{Case: id})
	if c.replayID != "" {
		fmt.Printf("C18 replay: STILL FAILS key=%s\n  %s\n", key, detail)
	}
}

// thorough: replays always use the larger (superset) enumeration so that a case
// id found in the thorough tier is found again whatever tier the replay runs in.
func (c *c18Run) thorough() bool { return rep.Thorough() || c.replayID != "" }

// size records the size of an alphabet / enumeration once (shard 0 only, since
// bin/check sums counters over shards).
func (c *c18Run) size(name string, n int) {
	if c.r.Shard == 0 && c.replayID == "" {
		c.r.Count("size:"+name, int64(n))
	}
}

func (c *c18Run) say(format string, a ...any) {
	if c.replayID != "" {
		fmt.Printf("C18 replay: "+format+"\n", a...)
	}
}

func c18NewRun(unit string) *c18Run {
	c := &c18Run{r: rep.New(unit), deadline: rep.Deadline()}
	if in := rep.ReplayInput(); in != nil {
		var rec struct {
			Replay c18Replay `json:"replay"`
		}
		if err := json.Unmarshal(in, &rec); err != nil || rec.Replay.Case == "" {
			panic(fmt.Sprintf("C18: unusable replay file: %v", err))
		}
		c.replayID = rec.Replay.Case
	}
	return c
}

// ---------------------------------------------------------------------------
// error alphabet
// ---------------------------------------------------------------------------

type c18Detail struct {
	Name  string // label
	URL   string // type URL as found in the test-case form
	Value []byte
}

type c18Msg struct {
	Set  bool
	Text string
}

// c18Messages: unset, "", ascii, every single byte that is valid UTF-8
// (0..127), and some multi-byte strings incl. '%'.
func c18Messages() []c18Msg {
	out := []c18Msg{{false, ""}, {true, ""}, {true, "an ascii message"}}
	for b := 0; b < 256; b++ {
		s := string([]byte{byte(b)})
		if strings.ToValidUTF8(s, "") == s { // valid UTF-8 on its own
			out = append(out, c18Msg{true, s})
		}
	}
	for _, s := range []string{
		"é", "€", "𝄞", "100% sure", "%41", "%", "%%", "日本語 %E3%81", "a b", "�",
		"x%\x00y", "line1\nline2\ttab", " leading and trailing ", "type.googleapis.com/",
	} {
		out = append(out, c18Msg{true, s})
	}
	return out
}

func c18MustMarshal(m proto.Message) []byte {
	b, err := proto.MarshalOptions{Deterministic: true}.Marshal(m)
	if err != nil {
		panic(err)
	}
	return b
}

const c18Prefix = "type.googleapis.com/"

// c18DetailPool: details of registered types, as anypb.New / protoyaml would
// produce them (default prefix), plus one non-canonically encoded value (bytes
// must be carried verbatim) and one with a foreign URL prefix (for which only
// the type *name* is required to survive).
func c18DetailPool() []c18Detail {
	hdr := &conformancev1.Header{Name: "x-detail", Value: []string{"a", "b%"}}
	inner := &conformancev1.Error{Code: conformancev1.Code_CODE_ABORTED, Message: proto.String("inner é")}
	if a, err := anypb.New(hdr); err == nil {
		inner.Details = append(inner.Details, a)
	}
	// Header{name:"n", value:["v"]} with the fields in reverse order and the name
	// given twice (last wins): a legal but non-canonical encoding.
	var nonCanon []byte
	nonCanon = protowire.AppendTag(nonCanon, 2, protowire.BytesType)
	nonCanon = protowire.AppendString(nonCanon, "v")
	nonCanon = protowire.AppendTag(nonCanon, 1, protowire.BytesType)
	nonCanon = protowire.AppendString(nonCanon, "old")
	nonCanon = protowire.AppendTag(nonCanon, 1, protowire.BytesType)
	nonCanon = protowire.AppendString(nonCanon, "n")
	return []c18Detail{
		{"header", c18Prefix + "connectrpc.conformance.v1.Header", c18MustMarshal(hdr)},
		{"empty", c18Prefix + "google.protobuf.Empty", c18MustMarshal(&emptypb.Empty{})},
		{"string", c18Prefix + "google.protobuf.StringValue", c18MustMarshal(wrapperspb.String("100% é\x00"))},
		{"error", c18Prefix + "connectrpc.conformance.v1.Error", c18MustMarshal(inner)},
		{"noncanon", c18Prefix + "connectrpc.conformance.v1.Header", nonCanon},
		{"duration", c18Prefix + "google.protobuf.Duration", c18MustMarshal(&durationpb.Duration{Seconds: 1, Nanos: 5})},
		{"reqinfo", c18Prefix + "connectrpc.conformance.v1.ConformancePayload.RequestInfo",
			c18MustMarshal(&conformancev1.ConformancePayload_RequestInfo{RequestHeaders: []*conformancev1.Header{hdr}})},
		{"foreignprefix", "example.com/types/connectrpc.conformance.v1.Header", c18MustMarshal(hdr)},
	}
}

// c18DetailLists: all lists of length 0..maxLen over the pool (ordered, with repetition).
func c18DetailLists(pool []c18Detail, maxLen int) [][]int {
	out := [][]int{{}}
	prev := [][]int{{}}
	for l := 1; l <= maxLen; l++ {
		var next [][]int
		for _, p := range prev {
			for i := range pool {
				n := append(append([]int{}, p...), i)
				next = append(next, n)
			}
		}
		out = append(out, next...)
		prev = next
	}
	return out
}

type c18ErrSpec struct {
	Code    int32
	Msg     c18Msg
	Details []c18Detail
}

func (s c18ErrSpec) build() *conformancev1.Error {
	e := &conformancev1.Error{Code: conformancev1.Code(s.Code)}
	if s.Msg.Set {
		e.Message = proto.String(s.Msg.Text)
	}
	for _, d := range s.Details {
		e.Details = append(e.Details, &anypb.Any{TypeUrl: d.URL, Value: append([]byte(nil), d.Value...)})
	}
	return e
}

func c18TypeName(url string) string { return url[strings.LastIndexByte(url, '/')+1:] }

// c18CompareProtoErr compares a proto Error against the specification. It
// returns "" or the aspect that was lost.
func c18CompareProtoErr(got *conformancev1.Error, s c18ErrSpec) (aspect, detail string) {
	if got == nil {
		return "nil-result", "conversion returned nil for a non-nil error"
	}
	if int32(got.GetCode()) != s.Code {
		return "code", fmt.Sprintf("code %d became %d", s.Code, int32(got.GetCode()))
	}
	if got.GetMessage() != s.Msg.Text {
		return "message", fmt.Sprintf("message %q became %q", s.Msg.Text, got.GetMessage())
	}
	if len(got.GetDetails()) != len(s.Details) {
		return "detail-count", fmt.Sprintf("%d details became %d", len(s.Details), len(got.GetDetails()))
	}
	for i, d := range s.Details {
		g := got.GetDetails()[i]
		if strings.HasPrefix(d.URL, c18Prefix) {
			if g.GetTypeUrl() != d.URL {
				return "detail-type-url", fmt.Sprintf("detail %d type URL %q became %q", i, d.URL, g.GetTypeUrl())
			}
		} else if c18TypeName(g.GetTypeUrl()) != c18TypeName(d.URL) {
			return "detail-type-url", fmt.Sprintf("detail %d type %q (URL %q) became URL %q", i, c18TypeName(d.URL), d.URL, g.GetTypeUrl())
		}
		if !bytes.Equal(g.GetValue(), d.Value) {
			return "detail-bytes", fmt.Sprintf("detail %d (%s) bytes %x became %x", i, d.Name, d.Value, g.GetValue())
		}
	}
	return "", ""
}

func c18CompareConnectErr(got *connect.Error, s c18ErrSpec) (aspect, detail string) {
	if got == nil {
		return "nil-result", "conversion returned nil for a non-nil error"
	}
	if int32(got.Code()) != s.Code {
		return "code", fmt.Sprintf("code %d became %d", s.Code, int32(got.Code()))
	}
	if got.Message() != s.Msg.Text {
		return "message", fmt.Sprintf("message %q became %q", s.Msg.Text, got.Message())
	}
	if len(got.Details()) != len(s.Details) {
		return "detail-count", fmt.Sprintf("%d details became %d", len(s.Details), len(got.Details()))
	}
	for i, d := range s.Details {
		g := got.Details()[i]
		if g.Type() != c18TypeName(d.URL) {
			return "detail-type-url", fmt.Sprintf("detail %d type %q became %q", i, c18TypeName(d.URL), g.Type())
		}
		if !bytes.Equal(g.Bytes(), d.Value) {
			return "detail-bytes", fmt.Sprintf("detail %d (%s) bytes %x became %x", i, d.Name, d.Value, g.Bytes())
		}
	}
	return "", ""
}

func c18Guard(fn func()) (panicked string) {
	defer func() {
		if p := recover(); p != nil {
			panicked = fmt.Sprint(p)
		}
	}()
	fn()
	return ""
}

// ---------------------------------------------------------------------------
// grammar of valid but non-canonical encodings of a detail value
// ---------------------------------------------------------------------------

// c18EncVariant is one alternative encoding of the value of a detail: the bytes
// are valid for the type (proto.Unmarshal accepts them) but differ from what
// the Go marshaller emits for the decoded value. Another protobuf runtime may
// legitimately put any of them on the wire; a conversion must carry them
// verbatim.
type c18EncVariant struct {
	Name  string
	Value []byte
}

type c18WireRec struct {
	Num protowire.Number
	Typ protowire.Type
	Raw []byte // tag + value
	Val []byte // value part only
}

func c18SplitRecords(b []byte) ([]c18WireRec, bool) {
	var out []c18WireRec
	for len(b) > 0 {
		num, typ, n := protowire.ConsumeTag(b)
		if n < 0 {
			return nil, false
		}
		m := protowire.ConsumeFieldValue(num, typ, b[n:])
		if m < 0 {
			return nil, false
		}
		out = append(out, c18WireRec{num, typ, append([]byte(nil), b[:n+m]...), append([]byte(nil), b[n:n+m]...)})
		b = b[n+m:]
	}
	return out, true
}

// c18LongVarint re-encodes a minimal varint with one redundant continuation
// group (…|0x80, 0x00): same value, one byte more.
func c18LongVarint(min []byte) []byte {
	out := append([]byte(nil), min...)
	out[len(out)-1] |= 0x80
	return append(out, 0x00)
}

func c18Join(recs []c18WireRec) []byte {
	var out []byte
	for _, r := range recs {
		out = append(out, r.Raw...)
	}
	return out
}

// c18EncodingVariants derives the alternative encodings from the canonical
// bytes of a value of the given (registered) message type:
//   - field records in reverse order / first record moved to the end,
//   - an unknown varint field in front, between and behind the known ones,
//   - every tag, the first length prefix, the first varint value written as a
//     non-minimal varint,
//   - a scalar field without presence that is absent, written explicitly with
//     its default value (in front and at the end),
//   - a singular scalar field given twice (earlier value is overridden),
//   - a packed repeated numeric field written unpacked and vice versa.
//
// Only variants that the protobuf runtime accepts for the type and that differ
// from the canonical bytes are returned.
func c18EncodingVariants(md protoreflect.MessageDescriptor, canon []byte) []c18EncVariant {
	recs, ok := c18SplitRecords(canon)
	if !ok {
		return nil
	}
	var cands []c18EncVariant
	add := func(name string, b []byte) { cands = append(cands, c18EncVariant{name, b}) }
	// an unknown field: number above every declared one
	unkNum := protowire.Number(1)
	for i := 0; i < md.Fields().Len(); i++ {
		if n := md.Fields().Get(i).Number(); n >= unkNum {
			unkNum = n + 1
		}
	}
	unk := protowire.AppendVarint(protowire.AppendTag(nil, unkNum, protowire.VarintType), 1)

	if len(recs) >= 2 {
		rev := make([]c18WireRec, len(recs))
		for i, r := range recs {
			rev[len(recs)-1-i] = r
		}
		add("fields-reversed", c18Join(rev))
	}
	if len(recs) >= 3 {
		add("first-field-last", c18Join(append(append([]c18WireRec{}, recs[1:]...), recs[0])))
	}
	add("unknown-field-first", append(append([]byte(nil), unk...), canon...))
	if len(recs) >= 1 {
		add("unknown-field-behind", append(append([]byte(nil), canon...), unk...))
	}
	if len(recs) >= 2 {
		b := append([]byte(nil), recs[0].Raw...)
		b = append(b, unk...)
		add("unknown-field-between", append(b, c18Join(recs[1:])...))
	}
	if len(recs) >= 1 {
		var b []byte
		for _, r := range recs {
			tag := r.Raw[:len(r.Raw)-len(r.Val)]
			b = append(b, c18LongVarint(tag)...)
			b = append(b, r.Val...)
		}
		add("non-minimal-tags", b)
	}
	for i, r := range recs {
		if r.Typ == protowire.BytesType {
			_, n := protowire.ConsumeVarint(r.Val)
			var b []byte
			b = append(b, c18Join(recs[:i])...)
			b = append(b, r.Raw[:len(r.Raw)-len(r.Val)]...)
			b = append(b, c18LongVarint(r.Val[:n])...)
			b = append(b, r.Val[n:]...)
			b = append(b, c18Join(recs[i+1:])...)
			add("non-minimal-length", b)
			break
		}
	}
	for i, r := range recs {
		if r.Typ == protowire.VarintType {
			var b []byte
			b = append(b, c18Join(recs[:i])...)
			b = append(b, r.Raw[:len(r.Raw)-len(r.Val)]...)
			b = append(b, c18LongVarint(r.Val)...)
			b = append(b, c18Join(recs[i+1:])...)
			add("non-minimal-varint", b)
			break
		}
	}
	present := map[protowire.Number]bool{}
	for _, r := range recs {
		present[r.Num] = true
	}
	zero := func(fd protoreflect.FieldDescriptor) []byte {
		switch fd.Kind() {
		case protoreflect.StringKind, protoreflect.BytesKind:
			return protowire.AppendBytes(protowire.AppendTag(nil, fd.Number(), protowire.BytesType), nil)
		case protoreflect.Fixed32Kind, protoreflect.Sfixed32Kind, protoreflect.FloatKind:
			return protowire.AppendFixed32(protowire.AppendTag(nil, fd.Number(), protowire.Fixed32Type), 0)
		case protoreflect.Fixed64Kind, protoreflect.Sfixed64Kind, protoreflect.DoubleKind:
			return protowire.AppendFixed64(protowire.AppendTag(nil, fd.Number(), protowire.Fixed64Type), 0)
		case protoreflect.MessageKind, protoreflect.GroupKind:
			return nil
		default:
			return protowire.AppendVarint(protowire.AppendTag(nil, fd.Number(), protowire.VarintType), 0)
		}
	}
	nDefault := 0
	for i := 0; i < md.Fields().Len() && nDefault < 2; i++ {
		fd := md.Fields().Get(i)
		if fd.IsList() || fd.IsMap() || fd.HasPresence() || present[fd.Number()] {
			continue
		}
		z := zero(fd)
		if z == nil {
			continue
		}
		nDefault++
		add("explicit-default-first:"+string(fd.Name()), append(append([]byte(nil), z...), canon...))
		if len(recs) >= 1 {
			add("explicit-default-last:"+string(fd.Name()), append(append([]byte(nil), canon...), z...))
		}
	}
	for i, r := range recs {
		fd := md.Fields().ByNumber(r.Num)
		if fd == nil || fd.IsList() || fd.IsMap() || fd.Kind() == protoreflect.MessageKind || fd.Kind() == protoreflect.GroupKind {
			continue
		}
		// the same field once more in front, with another value (the default): the later one wins
		z := zero(fd)
		if z == nil || bytes.Equal(z, r.Raw) {
			continue
		}
		var b []byte
		b = append(b, c18Join(recs[:i])...)
		b = append(b, z...)
		b = append(b, c18Join(recs[i:])...)
		add("singular-field-twice:"+string(fd.Name()), b)
		break
	}
	for i, r := range recs {
		fd := md.Fields().ByNumber(r.Num)
		if fd == nil || !fd.IsList() {
			continue
		}
		switch fd.Kind() {
		case protoreflect.StringKind, protoreflect.BytesKind, protoreflect.MessageKind, protoreflect.GroupKind:
			continue
		}
		if r.Typ == protowire.BytesType { // packed: write the elements unpacked
			payload, n := protowire.ConsumeBytes(r.Val)
			if n < 0 {
				continue
			}
			var elemType protowire.Type
			switch fd.Kind() {
			case protoreflect.Fixed32Kind, protoreflect.Sfixed32Kind, protoreflect.FloatKind:
				elemType = protowire.Fixed32Type
			case protoreflect.Fixed64Kind, protoreflect.Sfixed64Kind, protoreflect.DoubleKind:
				elemType = protowire.Fixed64Type
			default:
				elemType = protowire.VarintType
			}
			var b []byte
			b = append(b, c18Join(recs[:i])...)
			for len(payload) > 0 {
				m := protowire.ConsumeFieldValue(r.Num, elemType, payload)
				if m < 0 {
					break
				}
				b = protowire.AppendTag(b, r.Num, elemType)
				b = append(b, payload[:m]...)
				payload = payload[m:]
			}
			b = append(b, c18Join(recs[i+1:])...)
			add("packed-written-unpacked:"+string(fd.Name()), b)
		} else { // unpacked element: write it as a packed run of one
			var b []byte
			b = append(b, c18Join(recs[:i])...)
			b = protowire.AppendTag(b, r.Num, protowire.BytesType)
			b = protowire.AppendBytes(b, r.Val)
			b = append(b, c18Join(recs[i+1:])...)
			add("unpacked-written-packed:"+string(fd.Name()), b)
		}
		break
	}
	var out []c18EncVariant
	seen := map[string]bool{string(canon): true}
	for _, cand := range cands {
		if seen[string(cand.Value)] {
			continue
		}
		if err := proto.Unmarshal(cand.Value, dynamicpb.NewMessage(md)); err != nil {
			continue // not valid for the type: outside this grammar
		}
		seen[string(cand.Value)] = true
		out = append(out, cand)
	}
	return out
}

// c18EncTypes: canonical values of registered message types the grammar of
// alternative encodings is applied to (the registered types of the detail pool
// plus types with fixed-width, bool, bytes and packed repeated fields).
func c18EncTypes() []c18Detail {
	hdr := &conformancev1.Header{Name: "x-detail", Value: []string{"a", "b%"}}
	inner := &conformancev1.Error{Code: conformancev1.Code_CODE_ABORTED, Message: proto.String("inner é")}
	if a, err := anypb.New(hdr); err == nil {
		inner.Details = append(inner.Details, a)
	}
	mk := func(name string, m proto.Message) c18Detail {
		return c18Detail{name, c18Prefix + string(m.ProtoReflect().Descriptor().FullName()), c18MustMarshal(m)}
	}
	return []c18Detail{
		mk("header", hdr),
		mk("empty", &emptypb.Empty{}),
		mk("string", wrapperspb.String("100% é\x00")),
		mk("error", inner),
		mk("duration", &durationpb.Duration{Seconds: 1, Nanos: 5}),
		mk("duration-seconds-only", &durationpb.Duration{Seconds: 7}),
		mk("header-without-name", &conformancev1.Header{Value: []string{"v"}}),
		mk("reqinfo", &conformancev1.ConformancePayload_RequestInfo{RequestHeaders: []*conformancev1.Header{hdr}, TimeoutMs: proto.Int64(300)}),
		mk("payload", &conformancev1.ConformancePayload{Data: []byte{0, 1, 0xff}}),
		mk("double", wrapperspb.Double(1.5)),
		mk("int32", wrapperspb.Int32(-1)),
		mk("bool", wrapperspb.Bool(true)),
		mk("location", &descriptorpb.SourceCodeInfo_Location{Path: []int32{4, 0, 300}, Span: []int32{1, 2, 3}, LeadingComments: proto.String("c")}),
	}
}

// encodingSection: every alternative encoding of every type of c18EncTypes
// as the only detail, behind and in front of a canonically encoded detail and
// twice, x 3 codes x {no message, a message}, on every conversion path. The
// demanded result is the specification: same type URL, same BYTES.
func (c *c18Run) encodingSection() {
	types := c18EncTypes()
	canon := types[0]
	total := 0
	for _, d := range types {
		mt, err := protoregistry.GlobalTypes.FindMessageByURL(d.URL)
		if err != nil {
			panic(fmt.Sprintf("C18: %s is not a registered type: %v", d.URL, err))
		}
		variants := c18EncodingVariants(mt.Descriptor(), d.Value)
		total += len(variants)
		for _, v := range variants {
			vd := c18Detail{Name: d.Name + "~" + v.Name, URL: d.URL, Value: v.Value}
			layouts := [][]c18Detail{{vd}, {canon, vd}, {vd, canon}, {vd, vd}}
			for li, layout := range layouts {
				for _, code := range []int32{1, 8, 16} {
					for mi, m := range []c18Msg{{false, ""}, {true, "an ascii message"}} {
						id := fmt.Sprintf("err/enc/t=%s/v=%s/l=%d/c=%d/m=%d", d.Name, v.Name, li, code, mi)
						if !c.take(id) {
							continue
						}
						c.say("detail %s: canonical bytes %x, alternative encoding %x", vd.Name, d.Value, v.Value)
						c.r.Outcome("enc:" + strings.SplitN(v.Name, ":", 2)[0])
						c.errorCase(id, c18ErrSpec{Code: code, Msg: m, Details: layout})
						if li == 0 && code == 1 && mi == 0 && c.k%7 == 0 {
							c.r.Sample(map[string]any{"case": id, "type": d.URL, "canonical": fmt.Sprintf("%x", d.Value), "alternative-encoding": fmt.Sprintf("%x", v.Value)})
						}
					}
				}
			}
		}
	}
	c.size("err:alternative-encodings", total)
}

func (c *c18Run) errorSection() {
	msgs := c18Messages()
	pool := c18DetailPool()
	maxLen := 2
	if c.thorough() {
		maxLen = 3
	}
	lists := c18DetailLists(pool, maxLen)
	c.size("err:messages", len(msgs))
	c.size("err:detail-lists", len(lists))

	// nil stays nil (one case)
	if c.take("err/nil") {
		c.r.Eval(1)
		c.r.NonTrivial("err/nil")
		if ConvertProtoToConnectError(nil) != nil || ConvertConnectToProtoError(nil) != nil ||
			ConvertErrorToProtoError(nil) != nil || ConvertErrorToConnectError(nil) != nil {
			c.violate("error-roundtrip:nil-not-nil", "err/nil", "a nil error was converted to a non-nil one")
		}
	}
	// errors that are not Connect errors: code unknown, message kept
	for mi, m := range msgs {
		id := fmt.Sprintf("err/plain/m=%d", mi)
		if !m.Set || !c.take(id) {
			continue
		}
		c.r.Eval(2)
		c.r.NonTrivial("")
		spec := c18ErrSpec{Code: int32(connect.CodeUnknown), Msg: m}
		var p1, p2 *conformancev1.Error
		if pn := c18Guard(func() {
			p1 = ConvertErrorToProtoError(errors.New(m.Text))
			p2 = ConvertConnectToProtoError(ConvertErrorToConnectError(errors.New(m.Text)))
		}); pn != "" {
			c.violate("error-roundtrip:panic", id, "panic: "+pn)
			continue
		}
		if a, d := c18CompareProtoErr(p1, spec); a != "" {
			c.violate("error-roundtrip:plain-error:"+a, id, "ConvertErrorToProtoError(errors.New(msg)): "+d)
		} else if a, d := c18CompareProtoErr(p2, spec); a != "" {
			c.violate("error-roundtrip:plain-error:"+a, id, "ConvertErrorToConnectError(errors.New(msg)): "+d)
		} else {
			c.r.Outcome("err:plain:unknown+message")
		}
	}

	// valid but non-canonical encodings of detail values (bytes must be carried verbatim)
	c.encodingSection()

	for li, list := range lists {
		for mi, m := range msgs {
			for code := int32(1); code <= 16; code++ {
				id := fmt.Sprintf("err/c=%d/m=%d/d=%d", code, mi, li)
				if !c.take(id) {
					continue
				}
				spec := c18ErrSpec{Code: code, Msg: m}
				for _, di := range list {
					spec.Details = append(spec.Details, pool[di])
				}
				c.errorCase(id, spec)
				if c.k%20011 == 1 {
					c.r.Sample(map[string]any{"case": id, "code": code, "message": m.Text, "details": c18DetailNames(spec.Details)})
				}
			}
		}
	}
}

func c18DetailNames(ds []c18Detail) []string {
	out := []string{}
	for _, d := range ds {
		out = append(out, d.Name)
	}
	return out
}

func (c *c18Run) errorCase(id string, spec c18ErrSpec) {
	c.r.Eval(1)
	c.r.NonTrivial("")
	type step struct {
		path string
		got  *conformancev1.Error
	}
	var steps []step
	var connectForm *connect.Error
	pn := c18Guard(func() {
		connectForm = ConvertProtoToConnectError(spec.build())
		steps = append(steps, step{"connect", ConvertConnectToProtoError(ConvertProtoToConnectError(spec.build()))})
		steps = append(steps, step{"errortoproto", ConvertErrorToProtoError(error(ConvertProtoToConnectError(spec.build())))})
		steps = append(steps, step{"errortoproto-wrapped", ConvertErrorToProtoError(fmt.Errorf("wrapped: %w", ConvertProtoToConnectError(spec.build())))})
		steps = append(steps, step{"errortoconnect", ConvertConnectToProtoError(ConvertErrorToConnectError(ConvertProtoToConnectError(spec.build())))})
		once := ConvertConnectToProtoError(ConvertProtoToConnectError(spec.build()))
		steps = append(steps, step{"connect-twice", ConvertConnectToProtoError(ConvertProtoToConnectError(once))})
	})
	if pn != "" {
		c.violate("error-roundtrip:panic", id, "panic: "+pn)
		return
	}
	failed := false
	if a, d := c18CompareConnectErr(connectForm, spec); a != "" {
		c.violate("error-roundtrip:connect-form:"+a, id, "ConvertProtoToConnectError: "+d)
		failed = true
	}
	for _, s := range steps {
		c.say("path %s -> code=%d message=%q details=%d", s.path, int32(s.got.GetCode()), s.got.GetMessage(), len(s.got.GetDetails()))
		if a, d := c18CompareProtoErr(s.got, spec); a != "" {
			c.violate("error-roundtrip:"+s.path+":"+a, id, "Proto→…→Proto via "+s.path+": "+d)
			failed = true
		}
	}
	if failed {
		c.r.Outcome("err:lossy")
	} else {
		c.r.Outcome(fmt.Sprintf("err:identity:details=%d", len(spec.Details)))
	}
}

// ---------------------------------------------------------------------------
// headers.go
// ---------------------------------------------------------------------------

type c18Hdr struct {
	Name   string
	Values []string
}

func c18HdrEntries() []c18Hdr {
	names := []string{
		"x-test", "X-Test", "X-TEST",
		"x-other",
		"x-data-bin", "X-Data-Bin", "X-DATA-BIN",
	}
	valueLists := [][]string{
		{"v1"}, {"v1", "v2"}, {"v2", "v1"}, {"v1", "v1"}, {""}, {"a, b", "AAEC/w"}, {},
	}
	var out []c18Hdr
	for _, vl := range valueLists {
		for _, n := range names {
			out = append(out, c18Hdr{n, vl})
		}
	}
	return out
}

func c18BuildHeaders(list []c18Hdr) []*conformancev1.Header {
	var out []*conformancev1.Header
	for _, h := range list {
		out = append(out, &conformancev1.Header{Name: h.Name, Value: append([]string{}, h.Values...)})
	}
	return out
}

// c18Group is the reference model: per lower-cased key the values in list order.
func c18Group(list []c18Hdr) map[string][]string {
	out := map[string][]string{}
	for _, h := range list {
		k := strings.ToLower(h.Name)
		out[k] = append(out[k], h.Values...)
	}
	for k, v := range out {
		if len(v) == 0 {
			delete(out, k) // a key without any value is not representable in a header block
		}
	}
	return out
}

func c18CompareGroups(want, got map[string][]string) (aspect, detail string) {
	keys := make([]string, 0, len(want))
	for k := range want {
		keys = append(keys, k)
	}
	sort.Strings(keys)
	for _, k := range keys {
		g, ok := got[k]
		if !ok {
			return "key-lost", fmt.Sprintf("key %q (values %q) is missing from the result", k, want[k])
		}
		if !c18EqualStrings(g, want[k]) {
			return "values-lost-or-reordered", fmt.Sprintf("key %q: values %q became %q", k, want[k], g)
		}
	}
	for k, g := range got {
		if _, ok := want[k]; !ok && len(g) > 0 {
			return "key-invented", fmt.Sprintf("result has key %q (values %q) that the input does not have", k, g)
		}
	}
	return "", ""
}

func c18EqualStrings(a, b []string) bool {
	if len(a) != len(b) {
		return false
	}
	for i := range a {
		if a[i] != b[i] {
			return false
		}
	}
	return true
}

func (c *c18Run) headerSection() {
	entries := c18HdrEntries()
	maxLen := 2
	if c.thorough() {
		maxLen = 3
	}
	c.size("hdr:entry-alphabet", len(entries))
	idx := make([]int, 0, maxLen)
	var rec func(depth int)
	n := 0
	rec = func(depth int) {
		if c.stop {
			return
		}
		n++
		id := "hdr/" + strings.Trim(strings.Join(strings.Fields(fmt.Sprint(idx)), ","), "[]")
		if c.take(id) {
			list := make([]c18Hdr, len(idx))
			for i, e := range idx {
				list[i] = entries[e]
			}
			c.headerCase(id, list)
			if n%977 == 5 {
				c.r.Sample(map[string]any{"case": id, "headers": list})
			}
		}
		if depth == maxLen {
			return
		}
		for e := range entries {
			idx = append(idx, e)
			rec(depth + 1)
			idx = idx[:len(idx)-1]
		}
	}
	// breadth would be nicer, but depth-first with the short lists first per
	// prefix keeps ids stable; all lists up to maxLen are covered either way.
	rec(0)
}

func (c *c18Run) headerCase(id string, list []c18Hdr) {
	c.r.Eval(2)
	if len(list) > 0 {
		c.r.NonTrivial("")
	}
	want := c18Group(list)
	for _, mode := range []string{"headers", "trailers"} {
		var dest http.Header
		var back []*conformancev1.Header
		pn := c18Guard(func() {
			dest = http.Header{}
			if mode == "headers" {
				AddHeaders(c18BuildHeaders(list), dest)
			} else {
				AddTrailers(c18BuildHeaders(list), dest)
			}
			back = ConvertToProtoHeader(dest)
		})
		if pn != "" {
			c.violate("headers:panic", id, mode+": panic: "+pn)
			continue
		}
		// (1) what AddHeaders / AddTrailers left in the http.Header. A Go map has
		// no order, so when one key (up to case) ends up under two map keys the
		// relative order of its values is gone; this is reported as such (and
		// deterministically — the map is never iterated in its own order here).
		destKeys := make([]string, 0, len(dest))
		for k := range dest {
			destKeys = append(destKeys, k)
		}
		sort.Strings(destKeys)
		got := map[string][]string{}
		variants := map[string][]string{}
		bad := ""
		for _, k := range destKeys {
			name := k
			if mode == "trailers" {
				if !strings.HasPrefix(name, http.TrailerPrefix) {
					bad = fmt.Sprintf("key %q lacks the %q prefix", k, http.TrailerPrefix)
				}
				name = strings.TrimPrefix(name, http.TrailerPrefix)
			}
			lk := strings.ToLower(name)
			if len(dest[k]) > 0 {
				variants[lk] = append(variants[lk], k)
			}
			got[lk] = append(got[lk], dest[k]...)
		}
		c.say("%s: want %v, http.Header now %v", mode, want, dest)
		split := ""
		for _, lk := range c18SortedKeys(variants) {
			if len(variants[lk]) > 1 {
				split = fmt.Sprintf("values of key %q (in order %q) were spread over the separate map keys %q, so their relative order is no longer represented", lk, want[lk], variants[lk])
				break
			}
		}
		failed := true
		switch a, d := c18CompareGroups(want, got); {
		case bad != "":
			c.violate("headers:"+mode+":prefix-missing", id, fmt.Sprintf("%s of %v: %s", mode, list, bad))
		case split != "":
			c.violate("headers:"+mode+":case-variants-split", id, fmt.Sprintf("%s of %v: %s", mode, list, split))
		case a != "":
			c.violate("headers:"+mode+":"+a, id, fmt.Sprintf("ProtoHeader→http.Header (%s) of %v: %s", mode, list, d))
		default:
			failed = false
		}
		// (2) ConvertToProtoHeader(dest) must hold exactly the entries of dest.
		backMap := map[string][]string{}
		for _, h := range back {
			if _, dup := backMap[h.GetName()]; dup {
				c.violate("headers:toproto:duplicate-entry", id, fmt.Sprintf("ConvertToProtoHeader(%v) lists %q twice", dest, h.GetName()))
				failed = true
			}
			backMap[h.GetName()] = h.GetValue()
		}
		if a, d := c18CompareGroups(map[string][]string(c18NonEmpty(dest)), backMap); a != "" {
			c.violate("headers:toproto:"+a, id, fmt.Sprintf("ConvertToProtoHeader(%v): %s", dest, d))
			failed = true
		}
		if failed {
			c.r.Outcome("hdr:" + mode + ":lossy")
		} else {
			c.r.Outcome(fmt.Sprintf("hdr:%s:preserved:keys=%d", mode, len(want)))
		}
	}
}

func c18SortedKeys(m map[string][]string) []string {
	out := make([]string, 0, len(m))
	for k := range m {
		out = append(out, k)
	}
	sort.Strings(out)
	return out
}

func c18NonEmpty(h http.Header) map[string][]string {
	out := map[string][]string{}
	for k, v := range h {
		if len(v) > 0 {
			out[k] = v
		}
	}
	return out
}

// ---------------------------------------------------------------------------
// strict codecs: bounded instance generator over the conformance.v1 descriptors
// ---------------------------------------------------------------------------

const c18MaxDepth = 2

func c18MessageDescs() []protoreflect.MessageDescriptor {
	var out []protoreflect.MessageDescriptor
	var collect func(mds protoreflect.MessageDescriptors)
	collect = func(mds protoreflect.MessageDescriptors) {
		for i := 0; i < mds.Len(); i++ {
			md := mds.Get(i)
			if md.IsMapEntry() {
				continue
			}
			out = append(out, md)
			collect(md.Messages())
		}
	}
	protoregistry.GlobalFiles.RangeFilesByPackage("connectrpc.conformance.v1", func(fd protoreflect.FileDescriptor) bool {
		collect(fd.Messages())
		return true
	})
	sort.Slice(out, func(i, j int) bool { return out[i].FullName() < out[j].FullName() })
	return out
}

func c18New(md protoreflect.MessageDescriptor) protoreflect.Message {
	mt, err := protoregistry.GlobalTypes.FindMessageByName(md.FullName())
	if err != nil {
		panic(fmt.Sprintf("C18: no Go type registered for %s: %v", md.FullName(), err))
	}
	return mt.New()
}

// c18Scalar is the v-th small value (v = 0, 1, 2) of a scalar kind.
func c18Scalar(fd protoreflect.FieldDescriptor, v int) protoreflect.Value {
	v %= 3
	switch fd.Kind() {
	case protoreflect.BoolKind:
		return protoreflect.ValueOfBool(v != 1)
	case protoreflect.Int32Kind, protoreflect.Sint32Kind, protoreflect.Sfixed32Kind:
		return protoreflect.ValueOfInt32([]int32{1, -1, math.MinInt32}[v])
	case protoreflect.Int64Kind, protoreflect.Sint64Kind, protoreflect.Sfixed64Kind:
		return protoreflect.ValueOfInt64([]int64{1, -1, 1 << 53}[v])
	case protoreflect.Uint32Kind, protoreflect.Fixed32Kind:
		return protoreflect.ValueOfUint32([]uint32{1, 300, math.MaxUint32}[v])
	case protoreflect.Uint64Kind, protoreflect.Fixed64Kind:
		return protoreflect.ValueOfUint64([]uint64{1, 300, math.MaxUint64}[v])
	case protoreflect.FloatKind:
		return protoreflect.ValueOfFloat32([]float32{1.5, -2.25, 0}[v])
	case protoreflect.DoubleKind:
		return protoreflect.ValueOfFloat64([]float64{1.5, -2.25, 1e300}[v])
	case protoreflect.StringKind:
		return protoreflect.ValueOfString([]string{"a", "é%\"\\\n< ", ""}[v])
	case protoreflect.BytesKind:
		return protoreflect.ValueOfBytes([][]byte{{0}, {0xff, '%', 1, '"'}, {}}[v])
	case protoreflect.EnumKind:
		vals := fd.Enum().Values()
		switch v {
		case 0:
			if vals.Len() > 1 {
				return protoreflect.ValueOfEnum(vals.Get(1).Number())
			}
			return protoreflect.ValueOfEnum(vals.Get(0).Number())
		case 1:
			return protoreflect.ValueOfEnum(vals.Get(vals.Len() - 1).Number())
		default:
			return protoreflect.ValueOfEnum(vals.Get(0).Number())
		}
	}
	panic("C18: unexpected kind " + fd.Kind().String())
}

// c18WellKnown returns the v-th hand-made value of a google.protobuf.* message
// type (their JSON forms have validity rules a generic generator would break).
func c18WellKnown(md protoreflect.MessageDescriptor, v int) (proto.Message, bool) {
	hdr := &conformancev1.Header{Name: "any", Value: []string{"payload"}}
	switch md.FullName() {
	case "google.protobuf.Any":
		switch v % 3 {
		case 0:
			a, _ := anypb.New(hdr)
			return a, true
		case 1:
			inner, _ := anypb.New(hdr)
			a, _ := anypb.New(&conformancev1.Error{Code: conformancev1.Code_CODE_INTERNAL, Message: proto.String("m%"), Details: []*anypb.Any{inner}})
			return a, true
		default:
			return &anypb.Any{}, true
		}
	case "google.protobuf.Empty":
		return &emptypb.Empty{}, true
	case "google.protobuf.Struct":
		switch v % 3 {
		case 0:
			s, _ := structpb.NewStruct(map[string]any{"code": "internal", "n": 1.5})
			return s, true
		case 1:
			s, err := structpb.NewStruct(map[string]any{"a": nil, "b": []any{true, map[string]any{"c": "d%"}}, "": "empty key"})
			if err != nil {
				panic(err)
			}
			return s, true
		default:
			return &structpb.Struct{}, true
		}
	}
	return nil, false
}

func c18IsWKT(md protoreflect.MessageDescriptor) bool {
	return strings.HasPrefix(string(md.FullName()), "google.protobuf.")
}

type c18Gen struct {
	notes map[string]bool
}

// msgValue is the v-th representative instance of a message type used as a
// field value at the given depth: v=2 → empty, otherwise "all fields set".
func (g *c18Gen) msgValue(md protoreflect.MessageDescriptor, v, choice, depth int) protoreflect.Message {
	if c18IsWKT(md) {
		m, ok := c18WellKnown(md, v)
		if !ok {
			g.notes["well-known type without hand-made values, left empty: "+string(md.FullName())] = true
			return c18New(md)
		}
		return m.ProtoReflect()
	}
	if v%3 == 2 {
		return c18New(md)
	}
	return g.full(md, v, choice, depth)
}

func (g *c18Gen) chosen(fd protoreflect.FieldDescriptor, choice int) bool {
	oo := fd.ContainingOneof()
	if oo == nil || oo.IsSynthetic() {
		return true
	}
	return oo.Fields().Get(choice%oo.Fields().Len()).Number() == fd.Number()
}

// setField sets fd of m to its v-th value (for repeated fields: v=0 one element,
// v=1 two elements, v=2 three elements).
func (g *c18Gen) setField(m protoreflect.Message, fd protoreflect.FieldDescriptor, v, choice, depth int) {
	elem := func(ev int) protoreflect.Value {
		if fd.Kind() == protoreflect.MessageKind || fd.Kind() == protoreflect.GroupKind {
			if depth >= c18MaxDepth {
				if c18IsWKT(fd.Message()) {
					return protoreflect.ValueOfMessage(g.msgValue(fd.Message(), ev, choice, depth+1))
				}
				return protoreflect.ValueOfMessage(c18New(fd.Message()))
			}
			return protoreflect.ValueOfMessage(g.msgValue(fd.Message(), ev, choice, depth+1))
		}
		return c18Scalar(fd, ev)
	}
	switch {
	case fd.IsMap():
		g.notes["map field skipped by the generator: "+string(fd.FullName())] = true
	case fd.IsList():
		l := m.Mutable(fd).List()
		for i := 0; i <= v%3; i++ {
			l.Append(elem(v + i))
		}
	default:
		m.Set(fd, elem(v))
	}
}

func (g *c18Gen) full(md protoreflect.MessageDescriptor, v, choice, depth int) protoreflect.Message {
	m := c18New(md)
	fds := md.Fields()
	for i := 0; i < fds.Len(); i++ {
		fd := fds.Get(i)
		if !g.chosen(fd, choice) {
			continue
		}
		g.setField(m, fd, v, choice, depth)
	}
	return m
}

type c18Inst struct {
	Label string
	Msg   proto.Message
}

// instances: the empty message; every field alone with each of its values;
// every pair of fields; "all fields set" for every value index and every oneof
// choice. Duplicates (by deterministic encoding) are dropped, so the instances
// of one type are pairwise distinct.
func (g *c18Gen) instances(md protoreflect.MessageDescriptor, thorough bool) []c18Inst {
	nvals := 2
	if thorough {
		nvals = 3
	}
	var out []c18Inst
	seen := map[[20]byte]bool{}
	add := func(label string, m protoreflect.Message) {
		b := c18MustMarshal(m.Interface())
		h := sha1.Sum(b)
		if seen[h] {
			return
		}
		seen[h] = true
		out = append(out, c18Inst{label, m.Interface()})
	}
	add("empty", c18New(md))
	fds := md.Fields()
	maxChoice := 1
	for i := 0; i < md.Oneofs().Len(); i++ {
		if oo := md.Oneofs().Get(i); !oo.IsSynthetic() && oo.Fields().Len() > maxChoice {
			maxChoice = oo.Fields().Len()
		}
	}
	for i := 0; i < fds.Len(); i++ {
		for v := 0; v < 3; v++ { // singles always use all three values (incl. explicit zero / empty sub-message)
			m := c18New(md)
			g.setField(m, fds.Get(i), v, 0, 0)
			add(fmt.Sprintf("%s=v%d", fds.Get(i).Name(), v), m)
		}
	}
	for v := 0; v < nvals; v++ {
		for ch := 0; ch < maxChoice; ch++ {
			add(fmt.Sprintf("full:v%d:choice%d", v, ch), g.full(md, v, ch, 0))
		}
	}
	pairVals := [][2]int{{0, 0}}
	if thorough {
		pairVals = [][2]int{{0, 0}, {0, 1}, {1, 0}, {1, 1}}
	}
	for i := 0; i < fds.Len(); i++ {
		for j := i + 1; j < fds.Len(); j++ {
			fi, fj := fds.Get(i), fds.Get(j)
			if oi := fi.ContainingOneof(); oi != nil && !oi.IsSynthetic() && oi == fj.ContainingOneof() {
				continue
			}
			for _, pv := range pairVals {
				m := c18New(md)
				g.setField(m, fi, pv[0], 0, 0)
				g.setField(m, fj, pv[1], 0, 0)
				add(fmt.Sprintf("%s=v%d+%s=v%d", fi.Name(), pv[0], fj.Name(), pv[1]), m)
			}
		}
	}
	return out
}

type c18Codec interface {
	Name() string
	Marshal(any) ([]byte, error)
	Unmarshal([]byte, any) error
	MarshalAppend([]byte, any) ([]byte, error)
	MarshalStable(any) ([]byte, error)
}

func c18UnknownNumber(md protoreflect.MessageDescriptor) protowire.Number {
	for n := protoreflect.FieldNumber(1000); ; n++ {
		if md.Fields().ByNumber(n) == nil && !md.ReservedRanges().Has(n) && !md.ExtensionRanges().Has(n) {
			return protowire.Number(n)
		}
	}
}

type c18Unknown struct {
	Name string
	Raw  []byte
}

func c18UnknownFields(num protowire.Number) []c18Unknown {
	var v, f64, b0, b1, grp, f32 []byte
	v = protowire.AppendVarint(protowire.AppendTag(v, num, protowire.VarintType), 1)
	f64 = protowire.AppendFixed64(protowire.AppendTag(f64, num, protowire.Fixed64Type), 7)
	b0 = protowire.AppendBytes(protowire.AppendTag(b0, num, protowire.BytesType), nil)
	b1 = protowire.AppendBytes(protowire.AppendTag(b1, num, protowire.BytesType), []byte{0})
	grp = protowire.AppendTag(protowire.AppendTag(grp, num, protowire.StartGroupType), num, protowire.EndGroupType)
	f32 = protowire.AppendFixed32(protowire.AppendTag(f32, num, protowire.Fixed32Type), 7)
	return []c18Unknown{{"varint", v}, {"fixed64", f64}, {"bytes-empty", b0}, {"bytes", b1}, {"group", grp}, {"fixed32", f32}}
}

func (c *c18Run) codecSection() {
	thorough := c.thorough()
	g := &c18Gen{notes: map[string]bool{}}
	descs := c18MessageDescs()
	c.size("codec:message-types", len(descs))
	if len(descs) < 20 {
		c.r.Note("only %d message descriptors found in connectrpc.conformance.v1 — registry incomplete?", len(descs))
	}
	codecs := []c18Codec{StrictProtoCodec{}, StrictJSONCodec{}}
	total := 0
	for _, md := range descs {
		insts := g.instances(md, thorough)
		total += len(insts)
		heads, pool := c18DirtyPool(insts)
		for ii, inst := range insts {
			id := fmt.Sprintf("codec/%s/%s", md.FullName(), inst.Label)
			if !c.take(id) {
				continue
			}
			c.r.NonTrivial("")
			if ii == 1 && len(c.r.Samples) < 6 {
				c.r.Sample(map[string]any{"case": id, "message": c18JSON(inst.Msg)})
			}
			for _, codec := range codecs {
				c.codecRoundTrips(id, md, inst.Msg, codec)
				c.codecReuse(id, md, inst, heads, pool, codec)
				c.codecHistories(id, inst, c18Companions(inst, insts, heads, pool), codec)
			}
			c.codecUnknown(id, md, inst.Msg)
		}
	}
	c.size("codec:instances", total)
	for n := range g.notes {
		c.r.Note("%s", n)
	}
}

// c18Format says in which encoding data holds a message equal to want (judged
// by the protobuf runtime's own decoders, which are part of the trusted base).
func c18Format(data []byte, want proto.Message) string {
	m1 := want.ProtoReflect().New().Interface()
	if err := proto.Unmarshal(data, m1); err == nil && proto.Equal(m1, want) {
		return "binary"
	}
	m2 := want.ProtoReflect().New().Interface()
	if err := protojson.Unmarshal(data, m2); err == nil && proto.Equal(m2, want) {
		return "json"
	}
	return "neither"
}

// c18JSON renders a message for reports (compacted: protojson's own spacing is
// deliberately unstable).
func c18JSON(m proto.Message) string {
	b, err := protojson.Marshal(m)
	if err != nil {
		return fmt.Sprintf("<%T: %v>", m, err)
	}
	var buf bytes.Buffer
	if json.Compact(&buf, b) != nil {
		return string(b)
	}
	return buf.String()
}

func c18Short(b []byte) string {
	if len(b) > 60 {
		return fmt.Sprintf("%q… (%d bytes)", b[:60], len(b))
	}
	return fmt.Sprintf("%q", b)
}

func (c *c18Run) codecRoundTrips(id string, md protoreflect.MessageDescriptor, want proto.Message, codec c18Codec) {
	name := codec.Name()
	prefix := []byte("C18\x00\xfe")
	type method struct {
		name string
		skip int
		call func(m proto.Message) ([]byte, error)
	}
	methods := []method{
		{"marshal", 0, func(m proto.Message) ([]byte, error) { return codec.Marshal(m) }},
		{"marshalappend", 0, func(m proto.Message) ([]byte, error) { return codec.MarshalAppend(nil, m) }},
		{"marshalappend", len(prefix), func(m proto.Message) ([]byte, error) {
			buf := make([]byte, len(prefix), 4096)
			copy(buf, prefix)
			return codec.MarshalAppend(buf, m)
		}},
		{"marshalstable", 0, func(m proto.Message) ([]byte, error) { return codec.MarshalStable(m) }},
	}
	for _, mt := range methods {
		c.r.Eval(1)
		what := fmt.Sprintf("%s codec, %s", name, mt.name)
		if mt.skip > 0 {
			what += " with non-empty prefix"
		}
		var data []byte
		var merr, uerr error
		in := proto.Clone(want)
		got := want.ProtoReflect().New().Interface()
		decoded := false
		pn := c18Guard(func() {
			data, merr = mt.call(in)
			if merr != nil {
				return
			}
			if len(data) < mt.skip || !bytes.Equal(data[:mt.skip], prefix[:mt.skip]) {
				return
			}
			uerr = codec.Unmarshal(data[mt.skip:], got)
			decoded = true
		})
		key := fmt.Sprintf("codec:%s-%s", name, mt.name)
		switch {
		case pn != "":
			c.violate(key+"-panic", id, what+": panic: "+pn)
			c.r.Outcome(key + ":panic")
		case !proto.Equal(in, want):
			c.violate(key+"-mutates-input", id, what+": the message passed in was modified")
			c.r.Outcome(key + ":mutated")
		case merr != nil:
			// a message the reference encoder of that format cannot encode either is a generator problem, not a finding
			var rerr error
			if name == "json" {
				_, rerr = protojson.Marshal(want)
			} else {
				_, rerr = proto.Marshal(want)
			}
			if rerr != nil {
				c.r.Count("codec:generator-produced-unencodable-message", 1)
				c.r.Outcome(key + ":unencodable-instance")
			} else {
				c.violate(key+"-encode-error", id, what+": encoding failed: "+merr.Error())
				c.r.Outcome(key + ":encode-error")
			}
		case !decoded:
			c.violate(key+"-prefix-clobbered", id, fmt.Sprintf("%s: result %s does not start with the prefix %q it was asked to append to", what, c18Short(data), prefix))
			c.r.Outcome(key + ":prefix-clobbered")
		case uerr != nil || !proto.Equal(got, want):
			format := c18Format(data[mt.skip:], want)
			obs := "Unmarshal decoded a different message: " + c18JSON(got)
			if uerr != nil {
				obs = "Unmarshal of its own output failed: " + uerr.Error()
			}
			wrong := (name == "proto" && format == "json") || (name == "json" && format == "binary")
			if wrong {
				key += "-wrong-format"
				obs += fmt.Sprintf(" — the encoder of the %q codec produced %s output", name, format)
			} else if uerr != nil {
				key += "-undecodable"
			} else {
				key += "-not-equal"
			}
			c.violate(key, id, fmt.Sprintf("%s: output %s; %s", what, c18Short(data[mt.skip:]), obs))
			c.r.Outcome(key)
		default:
			c.r.Outcome(key + ":roundtrip-equal")
		}
		c.say("%s: %d bytes, marshal err=%v, unmarshal err=%v", what, len(data), merr, uerr)
	}
}

// c18DirtyPool selects, from the instances of one message type, those that serve
// as PRIOR CONTENT of a decode destination. The selection goes by label and uses
// only labels that exist in both tiers (so a replay finds the same companions):
// pool = every field alone with its first and second value (repeated fields: one
// and two elements) + all-fields-set (value index 0 and 1, every oneof choice);
// heads = the all-fields-set ones (or, for types where they coincide with a
// single-field instance, the first two of the pool).
func c18DirtyPool(insts []c18Inst) (heads, pool []c18Inst) {
	for _, in := range insts {
		switch {
		case strings.HasPrefix(in.Label, "full:v0:") || strings.HasPrefix(in.Label, "full:v1:"):
			heads = append(heads, in)
			pool = append(pool, in)
		case !strings.Contains(in.Label, "+") && (strings.HasSuffix(in.Label, "=v0") || strings.HasSuffix(in.Label, "=v1")):
			pool = append(pool, in)
		}
	}
	if len(heads) == 0 {
		heads = pool
		if len(heads) > 2 {
			heads = heads[:2]
		}
	}
	return heads, pool
}

// codecReuse: "decode what they encode to an equal message" does not depend on
// what the destination held before. The codec's own encoding of a message is
// decoded into a destination that is NOT fresh:
//   - pre-populated with a different instance of the type (every member of the
//     pool: singular, repeated, oneof, sub-message fields set);
//   - re-used for a sequence of three different messages (head, pool member,
//     this message), compared after every step;
//   - re-used after an input that was rejected for an unknown field (fresh and
//     pre-populated destination), for this message and then for a second one.
//
// After every successful Unmarshal the destination must equal the message that
// was encoded (proto.Equal, which also compares unknown fields).
func (c *c18Run) codecReuse(id string, md protoreflect.MessageDescriptor, inst c18Inst, heads, pool []c18Inst, codec c18Codec) {
	name := codec.Name()
	want := inst.Msg
	encode := func(m proto.Message) []byte {
		var data []byte
		var err error
		if pn := c18Guard(func() { data, err = codec.Marshal(proto.Clone(m)) }); pn != "" || err != nil {
			return nil // judged by codecRoundTrips
		}
		if data == nil {
			data = []byte{} // a message without content encodes to zero bytes in the binary format
		}
		return data
	}
	wantData := encode(want)
	if wantData == nil {
		c.r.Count("codec:reuse-skipped-unencodable", 1)
		return
	}
	// step decodes src into dst; false = stop this sequence
	step := func(dst proto.Message, src c18Inst, data []byte, history string) bool {
		c.r.Eval(1)
		before := c18JSON(dst)
		var uerr error
		if pn := c18Guard(func() { uerr = codec.Unmarshal(data, dst) }); pn != "" {
			c.violate("codec:"+name+"-unmarshal-panic", id, fmt.Sprintf("%s codec, destination %s: panic: %s", name, history, pn))
			return false
		}
		switch {
		case uerr != nil:
			c.violate("codec:"+name+"-used-destination-undecodable", id, fmt.Sprintf("%s codec: Unmarshal(Marshal(%s)) into a destination that %s (content %s) failed: %v — the same bytes decode into a fresh message", name, src.Label, history, before, uerr))
			c.r.Outcome("reuse:" + name + ":error")
			return false
		case !proto.Equal(dst, src.Msg):
			c.violate("codec:"+name+"-used-destination-not-equal", id, fmt.Sprintf("%s codec: Unmarshal(Marshal(m)) into a destination that %s (content %s): m = %s %s, decoded = %s", name, history, before, src.Label, c18JSON(src.Msg), c18JSON(dst)))
			c.r.Outcome("reuse:" + name + ":not-equal")
			return false
		}
		c.r.Outcome("reuse:" + name + ":equal")
		return true
	}
	same := func(a, b c18Inst) bool { return a.Label == b.Label }
	// (1) pre-populated destination
	for _, d := range pool {
		if same(d, inst) {
			continue
		}
		step(proto.Clone(d.Msg), inst, wantData, "was pre-populated with instance "+d.Label)
	}
	// (2) one destination for a sequence of three messages
	for _, h := range heads {
		hData := encode(h.Msg)
		if hData == nil {
			continue
		}
		for _, d := range pool {
			if same(d, h) || same(d, inst) {
				continue
			}
			dData := encode(d.Msg)
			if dData == nil {
				continue
			}
			dst := want.ProtoReflect().New().Interface()
			if !step(dst, h, hData, "is fresh (1st message of a sequence)") {
				break
			}
			if !step(dst, d, dData, "was used before for "+h.Label) {
				continue
			}
			step(dst, inst, wantData, "was used before for "+h.Label+", then "+d.Label)
		}
	}
	// (3) destination re-used after a rejected input
	var bad []byte
	if name == "json" {
		var compact bytes.Buffer
		if err := json.Compact(&compact, wantData); err != nil || compact.Len() < 2 || compact.Bytes()[0] != '{' {
			return
		}
		bad = []byte(c18InsertKey(compact.String(), `1`, false))
	} else {
		bad = append(append([]byte{}, wantData...), c18UnknownFields(c18UnknownNumber(md))[0].Raw...)
	}
	starts := []*c18Inst{nil}
	for i := range heads {
		starts = append(starts, &heads[i])
	}
	for _, st := range starts {
		dst := want.ProtoReflect().New().Interface()
		history := "is fresh"
		if st != nil {
			dst = proto.Clone(st.Msg)
			history = "was pre-populated with " + st.Label
		}
		var rerr error
		if pn := c18Guard(func() { rerr = codec.Unmarshal(bad, dst) }); pn != "" || rerr == nil {
			c.r.Count("codec:reuse-after-rejection-skipped:"+name, 1)
			continue // acceptance of unknown fields is judged by codecUnknown
		}
		history += ", then received an input that was rejected (" + rerr.Error() + ")"
		if !step(dst, inst, wantData, history) {
			continue
		}
		for _, h := range heads {
			if same(h, inst) {
				continue
			}
			if hData := encode(h.Msg); hData != nil {
				step(dst, h, hData, history+", then "+inst.Label)
			}
			break
		}
	}
}

// c18Companions selects the "other message" of a two-call history for an
// instance: the empty message, the first all-fields-set instance and the last
// single-field instance of the type (labels that exist in both tiers), without
// the instance itself. Smaller and larger encodings than the instance's own
// both occur (a scratch buffer that is re-used without growing, and one that is).
func c18Companions(inst c18Inst, insts, heads, pool []c18Inst) []c18Inst {
	var out []c18Inst
	add := func(in c18Inst) {
		if in.Label == inst.Label {
			return
		}
		for _, o := range out {
			if o.Label == in.Label {
				return
			}
		}
		out = append(out, in)
	}
	if len(insts) > 0 {
		add(insts[0]) // "empty"
	}
	if len(heads) > 0 {
		add(heads[0])
	}
	if len(pool) > 0 {
		add(pool[len(pool)-1])
	}
	for _, p := range pool { // types with very few instances: take what there is
		if len(out) >= 2 {
			break
		}
		add(p)
	}
	return out
}

// c18ScribbleBytes overwrites, in place, the backing arrays of every bytes field
// of m (recursively) - what a caller does that recycles the buffers it built a
// message from. It reports whether anything was overwritten.
func c18ScribbleBytes(m protoreflect.Message) bool {
	touched := false
	scribble := func(b []byte) {
		for i := range b {
			b[i] ^= 0xff
			touched = true
		}
	}
	m.Range(func(fd protoreflect.FieldDescriptor, v protoreflect.Value) bool {
		switch {
		case fd.IsMap():
			// no bytes keys; values of message kind are walked
			if fd.MapValue().Kind() == protoreflect.MessageKind {
				v.Map().Range(func(_ protoreflect.MapKey, mv protoreflect.Value) bool {
					if c18ScribbleBytes(mv.Message()) {
						touched = true
					}
					return true
				})
			}
		case fd.IsList():
			l := v.List()
			for i := 0; i < l.Len(); i++ {
				switch fd.Kind() {
				case protoreflect.BytesKind:
					scribble(l.Get(i).Bytes())
				case protoreflect.MessageKind, protoreflect.GroupKind:
					if c18ScribbleBytes(l.Get(i).Message()) {
						touched = true
					}
				}
			}
		case fd.Kind() == protoreflect.BytesKind:
			scribble(v.Bytes())
		case fd.Kind() == protoreflect.MessageKind || fd.Kind() == protoreflect.GroupKind:
			if c18ScribbleBytes(v.Message()) {
				touched = true
			}
		}
		return true
	})
	return touched
}

// codecHistories: "decode what they encode to an equal message" is a statement
// about the bytes a caller HOLDS, for as long as it holds them - not only at the
// instant the call returns. Two-call histories for every entry point of a codec,
// on one goroutine with GOMAXPROCS 1 and the collector off (so that pooled or
// package-level scratch state always reaches the next call):
//
//	(a) d1 = E1(m1); then any second call X(m2) with a DIFFERENT message m2 -
//	    X in {Marshal, MarshalAppend(nil), MarshalAppend(prefix), MarshalStable,
//	    Unmarshal} -; THEN d1 is judged: its bytes must be what they were when
//	    E1 returned and must decode to m1. The second result must be right too.
//	(b) Unmarshal(buf, dst); the caller overwrites buf (recycles it for the
//	    encoding of m2, decodes that into a second destination); dst must still
//	    equal m1 and the second destination m2.
//	(c) d = E(m); the caller overwrites, in place, the byte slices it built m
//	    from; d must still decode to what m was.
//
// MarshalAppend(b, m) returning a slice that shares memory with b is what the
// API promises; nothing else may share memory with a buffer the caller owns.
func (c *c18Run) codecHistories(id string, inst c18Inst, companions []c18Inst, codec c18Codec) {
	name := codec.Name()
	want := inst.Msg
	prevProcs := runtime.GOMAXPROCS(1)
	prevGC := debug.SetGCPercent(-1)
	defer func() {
		debug.SetGCPercent(prevGC)
		runtime.GOMAXPROCS(prevProcs)
	}()
	prefix := []byte("C18\x00\xfe")
	type entry struct {
		name string
		skip int
		call func(m proto.Message) ([]byte, error)
	}
	entries := []entry{
		{"marshal", 0, func(m proto.Message) ([]byte, error) { return codec.Marshal(m) }},
		{"marshalappend", 0, func(m proto.Message) ([]byte, error) { return codec.MarshalAppend(nil, m) }},
		{"marshalappend-prefix", len(prefix), func(m proto.Message) ([]byte, error) {
			buf := make([]byte, len(prefix), 4096)
			copy(buf, prefix)
			return codec.MarshalAppend(buf, m)
		}},
		{"marshalstable", 0, func(m proto.Message) ([]byte, error) { return codec.MarshalStable(m) }},
	}
	// decodes judges bytes with the codec's own decoder into a fresh message
	decodes := func(data []byte, skip int, m proto.Message) (ok bool, obs string) {
		if len(data) < skip || !bytes.Equal(data[:skip], prefix[:skip]) {
			return false, "the prefix is gone"
		}
		got := m.ProtoReflect().New().Interface()
		var uerr error
		if pn := c18Guard(func() { uerr = codec.Unmarshal(data[skip:], got) }); pn != "" {
			return false, "Unmarshal panics: " + pn
		}
		if uerr != nil {
			return false, "Unmarshal fails: " + uerr.Error()
		}
		if !proto.Equal(got, m) {
			return false, "they decode to " + c18JSON(got)
		}
		return true, ""
	}
	refEncode := func(m proto.Message) []byte {
		var data []byte
		var err error
		if pn := c18Guard(func() { data, err = codec.Marshal(proto.Clone(m)) }); pn != "" || err != nil {
			return nil
		}
		if data == nil {
			data = []byte{}
		}
		return data
	}
	type second struct {
		name string
		run  func(m2 proto.Message) (string, bool) // observation, result fine
	}
	var seconds []second
	for _, e := range entries {
		e := e
		seconds = append(seconds, second{e.name, func(m2 proto.Message) (string, bool) {
			var d2 []byte
			var err error
			if pn := c18Guard(func() { d2, err = e.call(proto.Clone(m2)) }); pn != "" || err != nil {
				return "", true // judged by codecRoundTrips
			}
			ok, obs := decodes(d2, e.skip, m2)
			return obs, ok
		}})
	}
	seconds = append(seconds, second{"unmarshal", func(m2 proto.Message) (string, bool) {
		enc := refEncode(m2)
		if enc == nil {
			return "", true
		}
		ok, obs := decodes(enc, 0, m2)
		return obs, ok
	}})

	// (a) an earlier result survives a later call
	for _, e1 := range entries {
		for _, comp := range companions {
			for _, s2 := range seconds {
				c.r.Eval(1)
				var d1 []byte
				var err error
				if pn := c18Guard(func() { d1, err = e1.call(proto.Clone(want)) }); pn != "" || err != nil {
					c.r.Count("codec:history-skipped-unencodable", 1)
					continue
				}
				ok0, _ := decodes(d1, e1.skip, want)
				if !ok0 {
					continue // wrong at once: judged by codecRoundTrips
				}
				snap := append([]byte(nil), d1...)
				obs2, ok2 := s2.run(comp.Msg)
				ok1, obs1 := decodes(d1, e1.skip, want)
				what := fmt.Sprintf("%s codec: d1 = %s(m1 = %s %s) [%s]; then %s(m2 = %s %s)", name, e1.name, inst.Label, c18JSON(want), c18Short(snap), s2.name, comp.Label, c18JSON(comp.Msg))
				switch {
				case !ok1:
					c.violate("codec:"+name+"-"+e1.name+"-result-overwritten-by-later-call", id, what+fmt.Sprintf("; afterwards d1 holds %s: %s — the bytes handed to the first caller were changed by the second call", c18Short(d1), obs1))
					c.r.Outcome("history:" + name + ":earlier-result-lost")
				case !bytes.Equal(d1, snap):
					c.violate("codec:"+name+"-"+e1.name+"-result-overwritten-by-later-call", id, what+fmt.Sprintf("; afterwards d1 holds %s (different bytes, still decoding to m1)", c18Short(d1)))
					c.r.Outcome("history:" + name + ":earlier-result-changed")
				case !ok2:
					c.violate("codec:"+name+"-"+s2.name+"-wrong-after-earlier-call", id, what+": the result of the second call is wrong, "+obs2+" — the same call alone is fine")
					c.r.Outcome("history:" + name + ":later-result-wrong")
				default:
					c.r.Outcome("history:" + name + ":both-results-intact")
				}
				c.say("%s -> d1 intact=%v, second fine=%v", what, ok1, ok2)
			}
		}
	}

	// (b) Unmarshal keeps nothing of the caller's buffer
	wantData := refEncode(want)
	if wantData != nil {
		for _, comp := range companions {
			compData := refEncode(comp.Msg)
			if compData == nil {
				continue
			}
			c.r.Eval(1)
			n := len(wantData)
			if len(compData) > n {
				n = len(compData)
			}
			buf := make([]byte, n)
			copy(buf, wantData)
			dst := want.ProtoReflect().New().Interface()
			var uerr error
			if pn := c18Guard(func() { uerr = codec.Unmarshal(buf[:len(wantData)], dst) }); pn != "" || uerr != nil || !proto.Equal(dst, want) {
				continue // judged by codecRoundTrips
			}
			for i := range buf {
				buf[i] = 0xff
			}
			what := fmt.Sprintf("%s codec: Unmarshal(buf = Marshal(m1 = %s %s), dst); the caller then fills buf with 0xff", name, inst.Label, c18JSON(want))
			if !proto.Equal(dst, want) {
				c.violate("codec:"+name+"-unmarshal-result-aliases-input", id, what+": dst changed to "+c18JSON(dst))
				c.r.Outcome("history:" + name + ":decoded-message-aliases-input")
				continue
			}
			copy(buf, compData)
			dst2 := want.ProtoReflect().New().Interface()
			if pn := c18Guard(func() { uerr = codec.Unmarshal(buf[:len(compData)], dst2) }); pn != "" || uerr != nil {
				continue
			}
			switch {
			case !proto.Equal(dst, want):
				c.violate("codec:"+name+"-unmarshal-result-aliases-input", id, what+fmt.Sprintf(" and re-uses it for Marshal(m2 = %s), decoded into a second destination: the FIRST destination changed to %s", comp.Label, c18JSON(dst)))
				c.r.Outcome("history:" + name + ":decoded-message-aliases-input")
			case !proto.Equal(dst2, comp.Msg):
				c.violate("codec:"+name+"-unmarshal-wrong-after-earlier-call", id, what+fmt.Sprintf(" and re-uses it for Marshal(m2 = %s %s): decoded %s", comp.Label, c18JSON(comp.Msg), c18JSON(dst2)))
				c.r.Outcome("history:" + name + ":later-decode-wrong")
			default:
				c.r.Outcome("history:" + name + ":decoded-messages-independent-of-buffer")
			}
		}
	}

	// (c) an encoding keeps nothing of the message it was made from
	for _, e := range entries {
		in := proto.Clone(want)
		var d []byte
		var err error
		if pn := c18Guard(func() { d, err = e.call(in) }); pn != "" || err != nil {
			continue
		}
		if ok, _ := decodes(d, e.skip, want); !ok {
			continue
		}
		if !c18ScribbleBytes(in.ProtoReflect()) {
			break // no bytes field populated in this instance
		}
		c.r.Eval(1)
		if ok, obs := decodes(d, e.skip, want); !ok {
			c.violate("codec:"+name+"-"+e.name+"-result-aliases-message", id, fmt.Sprintf("%s codec: d = %s(m = %s %s); the caller then overwrites the byte slices of m in place: %s", name, e.name, inst.Label, c18JSON(want), obs))
			c.r.Outcome("history:" + name + ":encoding-aliases-message")
		} else {
			c.r.Outcome("history:" + name + ":encoding-independent-of-message")
		}
	}
}

// c18NestedTarget finds the first populated sub-message of a non-well-known
// type (singular field or first list element).
func c18NestedTarget(m protoreflect.Message) (fd protoreflect.FieldDescriptor, sub protoreflect.Message) {
	fds := m.Descriptor().Fields()
	for i := 0; i < fds.Len(); i++ {
		f := fds.Get(i)
		if f.Kind() != protoreflect.MessageKind || f.IsMap() || c18IsWKT(f.Message()) || !m.Has(f) {
			continue
		}
		if f.IsList() {
			return f, m.Mutable(f).List().Get(0).Message()
		}
		return f, m.Mutable(f).Message()
	}
	return nil, nil
}

func (c *c18Run) codecUnknown(id string, md protoreflect.MessageDescriptor, want proto.Message) {
	// --- binary, top level: one unknown field of each wire type, appended or prepended
	base, err := proto.Marshal(want)
	if err != nil {
		return
	}
	unknowns := c18UnknownFields(c18UnknownNumber(md))
	for _, u := range unknowns {
		for _, pos := range []string{"appended", "prepended"} {
			data := append(append([]byte{}, base...), u.Raw...)
			if pos == "prepended" {
				data = append(append([]byte{}, u.Raw...), base...)
			}
			c.unknownCase(id, "proto", "top-level "+u.Name+" field "+pos, "codec:unknown-field-accepted", data, want, StrictProtoCodec{})
		}
	}
	// --- binary, nested: the unknown field sits inside a populated sub-message
	clone := proto.Clone(want)
	if fd, sub := c18NestedTarget(clone.ProtoReflect()); fd != nil {
		for _, u := range c18UnknownFields(c18UnknownNumber(sub.Descriptor())) {
			sub.SetUnknown(protoreflect.RawFields(u.Raw))
			data, err := proto.Marshal(clone)
			if err != nil {
				continue
			}
			c.unknownCase(id, "proto", "unknown "+u.Name+" field inside sub-message "+string(fd.Name()), "codec:nested-unknown-field-accepted", data, want, StrictProtoCodec{})
		}
	}
	// --- JSON
	js, err := protojson.Marshal(want)
	if err != nil {
		return
	}
	var compact bytes.Buffer
	if err := json.Compact(&compact, js); err != nil || compact.Len() < 2 || compact.Bytes()[0] != '{' {
		return
	}
	obj := compact.String()
	for _, val := range []string{`1`, `"s"`, `null`, `{}`, `[]`, `true`} {
		for _, pos := range []string{"first", "last"} {
			c.unknownCase(id, "json", "top-level unknown key with value "+val+" "+pos, "codec:unknown-field-accepted",
				[]byte(c18InsertKey(obj, val, pos == "first")), want, StrictJSONCodec{})
		}
	}
	if fd, _ := c18NestedTarget(want.ProtoReflect()); fd != nil {
		var top map[string]json.RawMessage
		if err := json.Unmarshal(compact.Bytes(), &top); err == nil {
			raw, ok := top[fd.JSONName()]
			if ok {
				s := string(raw)
				if fd.IsList() {
					// first element of the array
					var elems []json.RawMessage
					if json.Unmarshal(raw, &elems) == nil && len(elems) > 0 {
						elems[0] = json.RawMessage(c18InsertKey(string(elems[0]), `1`, false))
						b, _ := json.Marshal(elems)
						s = string(b)
					}
				} else {
					s = c18InsertKey(s, `1`, false)
				}
				top[fd.JSONName()] = json.RawMessage(s)
				data, _ := json.Marshal(top)
				c.unknownCase(id, "json", "unknown key inside sub-message "+fd.JSONName(), "codec:nested-unknown-field-accepted", data, want, StrictJSONCodec{})
			}
		}
	}
}

func c18InsertKey(obj, val string, first bool) string {
	const key = `"c18UnknownField":`
	if obj == "{}" {
		return "{" + key + val + "}"
	}
	if first {
		return "{" + key + val + "," + obj[1:]
	}
	return obj[:len(obj)-1] + "," + key + val + "}"
}

func (c *c18Run) unknownCase(id, codecName, what, key string, data []byte, orig proto.Message, codec c18Codec) {
	c.r.Eval(1)
	got := orig.ProtoReflect().New().Interface()
	var uerr error
	if pn := c18Guard(func() { uerr = codec.Unmarshal(data, got) }); pn != "" {
		c.violate("codec:"+codecName+"-unmarshal-panic", id, what+": panic: "+pn)
		return
	}
	c.say("%s codec, %s: Unmarshal error = %v", codecName, what, uerr)
	if uerr != nil {
		c.r.Outcome("unknown:" + codecName + ":rejected")
		return
	}
	fate := "kept as unknown bytes"
	if proto.Equal(got, orig) {
		fate = "silently dropped (result equals the message without it)"
	}
	c.violate(key, id, fmt.Sprintf("%s codec accepted input %s with %s; the field was %s", codecName, c18Short(data), what, fate))
	c.r.Outcome("unknown:" + codecName + ":accepted")
}

// ---------------------------------------------------------------------------

func TestVerifC18Internal(t *testing.T) {
	c := c18NewRun("c18-internal")
	defer c.r.Write()
	c.r.Rule = "errors: codes 1..16 x messages {unset, \"\", ascii, each single byte 0..127, 14 multi-byte/%-strings} x all ordered lists of 0..2 (thorough 0..3) details from a pool of 8 (registered types, default and foreign URL prefix, one non-canonical encoding), each checked on 6 conversion paths against the specification it was built from; plus every alternative (valid, non-canonical) encoding - records reversed / rotated, unknown field in front / between / behind, non-minimal varints in tags, lengths, values, explicit default value, singular field twice, packed written unpacked - of 13 values of 11 registered types as the only detail, next to a canonical one and twice x 3 codes x 2 messages on the same paths (type URL and BYTES must come back); " +
		"headers: all lists of ≤2 (thorough ≤3) entries over 7 names (3 case variants of two keys, one more key) x 7 value lists, through AddHeaders/AddTrailers and ConvertToProtoHeader, compared per lower-cased key; " +
		"codecs: every message descriptor of connectrpc.conformance.v1 x {empty, each field alone with 3 values, each pair of fields, all-fields-set per value index and oneof choice; nesting ≤2; duplicates removed} x {proto, json} x {Marshal, MarshalAppend nil/prefix, MarshalStable} plus 12 top-level and 6 nested unknown-field variants per codec, plus decoding into a destination that is not fresh (pre-populated with every other single-field / all-fields-set instance of the type; one destination for sequences of three different messages; re-used after a rejected unknown-field input), compared after every decode; string contents (ids codecstr/<hex first>/<hex second>): ordered pairs of strings over the JSON-significant alphabet {a, blank, backslash, double quote, tab, U+0001, é, : , { } [ ]} - quick: (all strings of length <=2 + 83 longer tails ending in backslashes / quotes / JSON-looking text) x (length <=1 + tails) in both orders plus length-3 strings x length<=1 strings in both orders; thorough: (all of length <=3 + tails) x (all of length <=2 + tails) in both orders plus length-4 strings x 4 strings in both orders - placed, first in front of second, in 7 message shapes (Header name/value, two values, two header entries, response definition with header + error message + expanded Any detail + trailers, error message + detail, two details, Struct key/value) x {json, proto} x {Marshal, MarshalAppend nil / empty / prefix without spare capacity / prefix in a re-used buffer / re-used buffer, MarshalStable} (full product for pairs of two short / tail strings, one rotating entry point per shape for the others): Unmarshal of the appended bytes must equal the specification, the prefix bytes must be untouched, Marshal output is also judged by the runtime's decoder; a case counts as non-trivial when it is a distinct error spec / non-empty header list / distinct message instance"
	if c.replayID == "" || strings.HasPrefix(c.replayID, "err/") {
		c.errorSection()
	}
	if c.replayID == "" || strings.HasPrefix(c.replayID, "hdr/") {
		c.headerSection()
	}
	if c.replayID == "" || strings.HasPrefix(c.replayID, "codec/") {
		c.codecSection()
	}
	if c.replayID == "" || strings.HasPrefix(c.replayID, "codecstr/") {
		c.stringSection() // c18_strings_test.go
	}
	if c.replayID != "" && !c.replayed {
		t.Errorf("C18: replay case %q not found in the enumeration of tier %s", c.replayID, rep.Tier())
	}
}
