package internal

// C18, unit c18-internal, section codecstr/… — the CONTENT of string fields.
//
// The instance generator of the codec section varies which fields are set; the
// strings it puts into them are a handful of plain values. This section varies
// what the strings CONTAIN. A strict codec is free to post-process what the
// protobuf runtime emits (compacting, escaping, re-ordering); any such step has
// to understand the JSON / wire syntax of a string literal, and what a string
// holds in front of its closing quote decides how the REST of the message is
// read. Hence two strings per message, drawn from an alphabet of characters
// that are significant in JSON:
//
//	alphabet  a  blank  \  "  tab  U+0001 (needs a \u escape)  é  :  ,  {  }  [  ]
//	S(n)      ALL strings of length 0..n over the alphabet, shortest first
//	tails     ~40 longer strings: every way of ending in backslashes / quotes
//	          (`a\`, `a\\`, `\"`, `\\"`, `C:\tmp\`, …), JSON-looking text, text
//	          that looks like an escape sequence, blanks in every position
//
//	quick     (S(2) ∪ tails) x (S(1) ∪ tails), both orders
//	          +  strings of length 3 x S(1), both orders
//	thorough  (S(3) ∪ tails) x (S(2) ∪ tails), both orders
//	          +  strings of length 4 x {blank, "a b", quote, backslash}, both orders
//
// Pairs of two "small" strings (quick: S(1) ∪ tails, thorough: S(2) ∪ tails) get
// the full product shapes x entry points below; the other pairs get every shape
// and both codecs with ONE entry point per shape, rotating with the index of the
// pair and of the shape (so every entry point meets every pair in some shape).
//
// Every ordered pair (first, second) is put into seven message shapes in which
// `first` is serialised in front of `second` (name / value of one Header, two
// values of one Header, two Header entries of a response definition, a header
// value + error message + a string inside an expanded Any detail + trailers,
// error message + Any detail, two Any details, key and value of a Struct), and
// every shape goes through every entry point of both strict codecs:
//
//	Marshal, MarshalAppend(nil), MarshalAppend(empty non-nil),
//	MarshalAppend(prefix, no spare capacity), MarshalAppend(prefix, re-used roomy
//	buffer that still holds an earlier encoding), MarshalAppend(re-used buffer[:0]),
//	MarshalStable
//
// Oracle (property text): the codec's own Unmarshal of what was appended gives a
// message proto.Equal to the specification; the bytes of the caller's prefix
// are what they were (in the result and in the buffer that was handed in); the
// message passed in is not modified. The output of Marshal is decoded with the
// protobuf runtime's decoder of that format as well. For first strings of S(1) ∪
// {"a b", `C:\tmp\`, `a\\"`} and second strings of {blank, "a b", quote, backslash}
// (thorough: of the same set as the first) the richest shape is also run through
// the two-call histories of the codec section (codecHistories).

import (
	"bytes"
	"encoding/hex"
	"fmt"
	"strings"
	"time"

	conformancev1 "connectrpc.com/conformance/internal/gen/proto/go/connectrpc/conformance/v1"
	"google.golang.org/protobuf/encoding/protojson"
	"google.golang.org/protobuf/proto"
	"google.golang.org/protobuf/types/known/anypb"
	"google.golang.org/protobuf/types/known/structpb"
	"google.golang.org/protobuf/types/known/wrapperspb"
)

// c18sAlphabet: simplest first.
var c18sAlphabet = []string{"a", " ", "\\", "\"", "\t", "\u0001", "é", ":", ",", "{", "}", "[", "]"}

// c18sOfLen: all strings of exactly n symbols, odometer order.
func c18sOfLen(n int) []string {
	out := []string{""}
	for i := 0; i < n; i++ {
		next := make([]string, 0, len(out)*len(c18sAlphabet))
		for _, p := range out {
			for _, s := range c18sAlphabet {
				next = append(next, p+s)
			}
		}
		out = next
	}
	return out
}

func c18sUpTo(n int) []string {
	var out []string
	for l := 0; l <= n; l++ {
		out = append(out, c18sOfLen(l)...)
	}
	return out
}

// c18sTails: longer strings. Every symbol of the alphabet behind a plain word and
// behind an escaped-looking prefix; runs of backslashes in front of the end and in
// front of a quote; text that looks like JSON or like an escape sequence; blanks
// in every position.
func c18sTails() []string {
	out := []string{
		"a b", " a", "a ", " a b ", "  ", "a  b",
		"no such file or directory",
		`C:\tmp\`, `C:\tmp\file name`, `x\\`, `x\\\`, `\\\\`,
		`a\"`, `a\\"`, `a\\\"`, `"a"`, `"a b"`, `\" `, `" \`, `\ "`, ` \" `,
		`say "a b" \`, `say \"a b\"`,
		`{"a": "b c"}`, `["x y", "z"]`, `{"a":"b\\"}`, `", "k": "v w`, `\", \"k\": \"v w`,
		`\n`, `\t`, `\u0020`, `\u005c`, `\u0022`, `\x`, "line1\nline2", "cr\rlf\n", "a\tb c",
		"\u0001\\", "é\\", "é \"", "\u2028 \u2029", "𝄞 \\", "</script> <a>", "\x7f \\",
	}
	for _, s := range c18sAlphabet {
		out = append(out, "a b"+s, `x\`+s, `x"`+s)
	}
	return out
}

// c18sHistoryTails: the tails that, with S(1), also go through the two-call histories
// (quick: as the first string, with a second string of c18sHistorySeconds).
var c18sHistoryTails = []string{"a b", `C:\tmp\`, `a\\"`}
var c18sHistorySeconds = []string{" ", "a b", "\"", "\\"}

// how much of shapes x entry points a pair gets
const (
	c18sRotated   = iota // every shape, both codecs, ONE entry point per shape (rotating with pair and shape index)
	c18sFull             // every shape x every entry point
	c18sFullHist         // ... and the two-call histories for the richest shape
)

// c18sUnion appends to base the elements of extra that base does not hold.
func c18sUnion(base, extra []string) []string {
	seen := make(map[string]bool, len(base)+len(extra))
	out := make([]string, 0, len(base)+len(extra))
	for _, l := range [][]string{base, extra} {
		for _, s := range l {
			if !seen[s] {
				seen[s] = true
				out = append(out, s)
			}
		}
	}
	return out
}

func c18sSet(l []string) map[string]bool {
	m := make(map[string]bool, len(l))
	for _, s := range l {
		m[s] = true
	}
	return m
}

// ---------------------------------------------------------------------------
// message shapes: `first` is serialised in front of `second` (field-number order
// and list order, which both encoders follow)
// ---------------------------------------------------------------------------

type c18sShape struct {
	name  string
	build func(first, second string) proto.Message
}

func c18sAny(m proto.Message) *anypb.Any {
	a, err := anypb.New(m)
	if err != nil {
		panic(err)
	}
	return a
}

func c18sShapes() []c18sShape {
	return []c18sShape{
		{"header-name-value", func(a, b string) proto.Message {
			return &conformancev1.Header{Name: a, Value: []string{b}}
		}},
		{"header-two-values", func(a, b string) proto.Message {
			return &conformancev1.Header{Name: "x-k", Value: []string{a, b}}
		}},
		{"two-header-entries", func(a, b string) proto.Message {
			return &conformancev1.UnaryResponseDefinition{ResponseHeaders: []*conformancev1.Header{
				{Name: "x-first", Value: []string{a}}, {Name: "x-second", Value: []string{b}},
			}}
		}},
		{"response-definition", func(a, b string) proto.Message {
			return &conformancev1.UnaryResponseDefinition{
				ResponseHeaders: []*conformancev1.Header{{Name: "x-path", Value: []string{a}}},
				Response: &conformancev1.UnaryResponseDefinition_Error{Error: &conformancev1.Error{
					Code:    conformancev1.Code_CODE_NOT_FOUND,
					Message: proto.String(b),
					Details: []*anypb.Any{c18sAny(&conformancev1.Header{Name: "detail name", Value: []string{a, b}})},
				}},
				ResponseTrailers: []*conformancev1.Header{{Name: "x-trailer", Value: []string{b, "trailer value"}}},
			}
		}},
		{"error-message-detail", func(a, b string) proto.Message {
			return &conformancev1.Error{
				Code:    conformancev1.Code_CODE_INTERNAL,
				Message: proto.String(a),
				Details: []*anypb.Any{c18sAny(&conformancev1.Header{Name: b, Value: []string{b}})},
			}
		}},
		{"two-details", func(a, b string) proto.Message {
			return &conformancev1.Error{Details: []*anypb.Any{
				c18sAny(wrapperspb.String(a)), c18sAny(&conformancev1.Header{Name: b}),
			}}
		}},
		{"struct-key-value", func(a, b string) proto.Message {
			return &structpb.Struct{Fields: map[string]*structpb.Value{a: structpb.NewStringValue(b)}}
		}},
	}
}

const c18sRichShape = 3 // "response-definition"

// ---------------------------------------------------------------------------
// entry points
// ---------------------------------------------------------------------------

var c18sEntryNames = []string{
	"marshal", "marshalappend", "marshalappend-empty", "marshalappend-prefix-exact",
	"marshalappend-prefix-reused", "marshalappend-reused", "marshalstable",
}

var c18sPrefix = []byte("C18 \"\\\x00\xfe") // holds a blank, a quote and a backslash itself

type c18sState struct {
	scratch []byte // a caller's long-lived buffer; keeps the residue of earlier encodings
}

// c18sEncode runs one entry point. handed is the buffer given to MarshalAppend
// (nil when the entry point takes none), skip the number of prefix bytes in it.
func c18sEncode(codec c18Codec, entry int, m proto.Message, st *c18sState) (out, handed []byte, skip int, err error) {
	switch entry {
	case 0:
		out, err = codec.Marshal(m)
	case 1:
		out, err = codec.MarshalAppend(nil, m)
	case 2:
		handed = []byte{}
		out, err = codec.MarshalAppend(handed, m)
	case 3:
		handed = append(make([]byte, 0, len(c18sPrefix)), c18sPrefix...)
		skip = len(c18sPrefix)
		out, err = codec.MarshalAppend(handed, m)
	case 4:
		handed = append(st.scratch[:0], c18sPrefix...)
		skip = len(c18sPrefix)
		out, err = codec.MarshalAppend(handed, m)
		if err == nil && cap(out) > cap(st.scratch) {
			st.scratch = out[:0]
		}
	case 5:
		handed = st.scratch[:0]
		out, err = codec.MarshalAppend(handed, m)
		if err == nil && cap(out) > cap(st.scratch) {
			st.scratch = out[:0]
		}
	case 6:
		out, err = codec.MarshalStable(m)
	}
	return out, handed, skip, err
}

func c18sShow(b []byte) string {
	if len(b) > 400 {
		return fmt.Sprintf("%q… (%d bytes)", b[:400], len(b))
	}
	return fmt.Sprintf("%q", b)
}

// stringCase runs one ordered pair through every shape, codec and entry point.
func (c *c18Run) stringCase(id, first, second string, shapes []c18sShape, codecs []c18Codec, st *c18sState, class, rot int) {
	histories := class == c18sFullHist
	for si, sh := range shapes {
		want := sh.build(first, second)
		in := proto.Clone(want)
		for _, codec := range codecs {
			name := codec.Name()
			allEqual := true
			for entry, ename := range c18sEntryNames {
				if class == c18sRotated && entry != (rot+si)%len(c18sEntryNames) {
					continue
				}
				c.r.Eval(1)
				var out, handed []byte
				var skip int
				var merr, uerr, rerr error
				var ref proto.Message
				got := want.ProtoReflect().New().Interface()
				prefixKept, decoded := true, false
				pn := c18Guard(func() {
					out, handed, skip, merr = c18sEncode(codec, entry, in, st)
					if merr != nil {
						return
					}
					if len(out) < skip || !bytes.Equal(out[:skip], c18sPrefix[:skip]) || !bytes.Equal(handed[:skip], c18sPrefix[:skip]) {
						prefixKept = false
						return
					}
					uerr = codec.Unmarshal(out[skip:], got)
					decoded = true
					if entry == 0 || class == c18sRotated { // the runtime's own decoder of the format as a second judge
						ref = want.ProtoReflect().New().Interface()
						if name == "json" {
							rerr = protojson.Unmarshal(out[skip:], ref)
						} else {
							rerr = proto.Unmarshal(out[skip:], ref)
						}
					}
				})
				key := "codec:" + name + "-" + ename
				what := func() string {
					return fmt.Sprintf("shape %s with first string %q and second string %q, %s codec, %s", sh.name, first, second, name, ename)
				}
				fail := ""
				switch {
				case pn != "":
					fail = "-panic"
					c.violate(key+fail, id, what()+": panic: "+pn)
				case merr != nil:
					fail = "-encode-error"
					c.violate(key+fail, id, what()+": encoding failed: "+merr.Error())
				case !prefixKept:
					fail = "-prefix-clobbered"
					c.violate(key+fail, id, fmt.Sprintf("%s: asked to append to %q; result %s, the buffer handed in now starts with %q", what(), c18sPrefix, c18sShow(out), handed[:min(len(handed), skip)]))
				case !decoded:
					fail = "-not-run"
				case uerr != nil:
					fail = "-undecodable"
					c.violate(key+fail, id, fmt.Sprintf("%s: output %s; Unmarshal of its own output failed: %v", what(), c18sShow(out[skip:]), uerr))
				case !proto.Equal(got, want):
					fail = "-not-equal"
					c.violate(key+fail, id, fmt.Sprintf("%s: output %s; Unmarshal decoded a different message: %s instead of %s", what(), c18sShow(out[skip:]), c18JSON(got), c18JSON(want)))
				case ref != nil && (rerr != nil || !proto.Equal(ref, want)):
					fail = "-reference-decoder-differs"
					c.violate(key+fail, id, fmt.Sprintf("%s: output %s; the codec's Unmarshal gives the message back, the protobuf runtime's decoder of the format does not (err=%v): %s instead of %s", what(), c18sShow(out), rerr, c18JSON(ref), c18JSON(want)))
				}
				if fail != "" {
					allEqual = false
					c.r.Outcome("codecstr:" + name + "-" + ename + fail)
				}
				if si == 0 && name == "json" && merr == nil && pn == "" && (entry == 0 || class == c18sRotated) {
					// which syntactic situations the encoder's output actually contained (shows the enumeration is not vacuous)
					switch {
					case bytes.Contains(out, []byte(`\\"`)):
						c.r.Count("codecstr:json-output-has-escaped-backslash-before-quote", 1)
					case bytes.Contains(out, []byte(`\"`)):
						c.r.Count("codecstr:json-output-has-escaped-quote", 1)
					}
				}
				if c.replayID != "" {
					c.say("%s: output %s, marshal err=%v, unmarshal err=%v, equal=%v", what(), c18sShow(out), merr, uerr, fail == "")
				}
			}
			if allEqual {
				if class == c18sRotated {
					c.r.Outcome("codecstr:" + name + ":" + sh.name + ":" + c18sEntryNames[(rot+si)%len(c18sEntryNames)] + ":roundtrip-equal")
				} else {
					c.r.Outcome("codecstr:" + name + ":" + sh.name + ":all-entry-points-roundtrip-equal")
				}
			}
		}
		if !proto.Equal(in, want) {
			c.violate("codec:string-case-mutates-input", id, fmt.Sprintf("shape %s with first string %q and second string %q: the message passed to the encoders was modified: %s", sh.name, first, second, c18JSON(in)))
		}
		if histories && si == c18sRichShape {
			companions := []c18Inst{
				{Label: "empty", Msg: want.ProtoReflect().New().Interface()},
				{Label: "other-strings", Msg: sh.build(`other\`, "o t h e r")},
				{Label: "swapped", Msg: sh.build(second+" ", first+`\`)},
			}
			for _, codec := range codecs {
				c.codecHistories(id, c18Inst{Label: sh.name, Msg: want}, companions, codec)
			}
		}
	}
}

// c18sPairs enumerates the ordered pairs of a tier, simplest first, each once,
// with the class of treatment. Quick is a subset of thorough.
func c18sPairs(thorough bool, emit func(first, second string, n, class int) bool) (sizes map[string]int) {
	tails := c18sTails()
	s1 := c18sUpTo(1)
	s1t := c18sUnion(s1, tails)
	s2t := c18sUnion(c18sUpTo(2), tails)
	histFirst := c18sSet(c18sUnion(s1, c18sHistoryTails))
	histSecond := histFirst
	fullSet := c18sSet(s2t)
	if !thorough {
		histSecond = c18sSet(c18sHistorySeconds)
		fullSet = c18sSet(s1t)
	}
	sizes = map[string]int{"alphabet": len(c18sAlphabet), "tails": len(tails), "S(1)+tails": len(s1t), "S(2)+tails": len(s2t)}
	n := 0
	out := func(a, b string) bool {
		n++
		class := c18sRotated
		switch {
		case histFirst[a] && histSecond[b]:
			class = c18sFullHist
		case fullSet[a] && fullSet[b]:
			class = c18sFull
		}
		sizes[[]string{"pairs-rotated", "pairs-full", "pairs-full+histories"}[class]]++
		return emit(a, b, n, class)
	}
	defer func() { sizes["pairs"] = n }()
	if !thorough {
		inS1t := c18sSet(s1t)
		for _, a := range s2t {
			for _, b := range s1t {
				if !out(a, b) {
					return
				}
				if !inS1t[a] { // (b, a) with both in S(1)+tails is produced when a takes the value b
					if !out(b, a) {
						return
					}
				}
			}
		}
		l3 := c18sOfLen(3)
		sizes["len3"] = len(l3)
		for _, a := range l3 {
			for _, b := range s1 {
				if !out(a, b) || !out(b, a) {
					return
				}
			}
		}
		return
	}
	s3t := c18sUnion(c18sUpTo(3), tails)
	sizes["S(3)+tails"] = len(s3t)
	inB := c18sSet(s2t)
	for _, a := range s3t {
		for _, b := range s2t {
			if !out(a, b) {
				return
			}
			if !inB[a] { // (b, a) with both in S(2)+tails is produced when a takes the value b
				if !out(b, a) {
					return
				}
			}
		}
	}
	l4 := c18sOfLen(4)
	sizes["len4"] = len(l4)
	for _, a := range l4 {
		for _, b := range c18sHistorySeconds {
			if !out(a, b) || !out(b, a) {
				return
			}
		}
	}
	return
}

func (c *c18Run) stringSection() {
	shapes := c18sShapes()
	codecs := []c18Codec{StrictJSONCodec{}, StrictProtoCodec{}}
	st := &c18sState{scratch: bytes.Repeat([]byte(`" \`), 4096)[:0]}
	if c.replayID != "" {
		parts := strings.Split(c.replayID, "/")
		if len(parts) != 3 {
			return
		}
		a, err1 := hex.DecodeString(parts[1])
		b, err2 := hex.DecodeString(parts[2])
		if err1 != nil || err2 != nil || !c.take(c.replayID) {
			return
		}
		c.say("first string %q, second string %q", a, b)
		c.stringCase(c.replayID, string(a), string(b), shapes, codecs, st, c18sFullHist, 0)
		return
	}
	hexOf := map[string]string{}
	hx := func(s string) string {
		h, ok := hexOf[s]
		if !ok {
			h = hex.EncodeToString([]byte(s))
			hexOf[s] = h
		}
		return h
	}
	done := 0
	sizes := c18sPairs(c.thorough(), func(first, second string, n, class int) bool {
		id := "codecstr/" + hx(first) + "/" + hx(second)
		if !c.take(id) {
			return !c.stop
		}
		done++
		if done%256 == 0 && !c.deadline.IsZero() && time.Now().After(c.deadline) {
			c.r.NotExhaustive("soft budget reached inside the string-content section; pairs are enumerated simplest-first, the rest was not evaluated")
			c.stop = true
			return false
		}
		c.r.NonTrivial("")
		if strings.HasSuffix(first, `\`) && strings.Contains(second, " ") {
			c.r.Count("codecstr:first-ends-in-backslash-and-second-holds-a-blank", 1)
			if c.r.Shard == 0 && done < 4096 && len(c.r.Samples) < 6 {
				c.r.Sample(map[string]any{"case": id, "first": first, "second": second, "message": c18JSON(shapes[c18sRichShape].build(first, second))})
			}
		}
		c.stringCase(id, first, second, shapes, codecs, st, class, n)
		return true
	})
	for k, v := range sizes {
		c.size("codecstr:"+k, v)
	}
	c.size("codecstr:shapes", len(shapes))
	c.size("codecstr:entry-points-per-codec", len(c18sEntryNames))
}
