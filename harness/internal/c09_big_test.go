package internal

// C09, "big" family — message sizes around thresholds, and reads that end
// anywhere inside the message that follows.
//
// The other families use messages of at most 5 bytes, so whatever a reader does
// differently for large messages (another buffer, a buffer that is given back,
// a size class) is outside their bound. This family feeds the three readers with
// streams that contain ONE message of a size around a power of two
// (2^k-1, 2^k+1 [thorough: and 2^k; quick: without 2^21+1] for k = 10..21, i.e. up to and beyond 1 MiB and 2 MiB; the size is the
// serialized size for the binary framing and the length of the JSON text for
// the JSON wire variant) between small messages whose strings contain blanks,
// runs of blanks, escaped tabs/newlines and raw Unicode white space (NBSP,
// U+2028, U+3000) at their start, in the middle and at their end.
//
// Partitions (not all compositions - the stream has megabytes): with E = the
// offset right behind the large message and c = 0..window bytes of what follows
//   lump   [E+c, rest]          one Read-answer window ends c bytes into the following message
//   tail   [E-7, 7+c, rest]     the same, but the answer that completes the large message is a small one
//   cut    [E+c] then EOF       the stream ENDS there (truncation / clean end, as in the read family)
//   cut+   the same, EOF delivered together with the last data
// plus, once per stream: one piece, 1-byte-free fixed reads of 4093 and 65537 bytes.
// (A Read answer is min(len(p), rest of the scripted chunk), so a reader with
// a small buffer simply sees the chunk in several pieces.)
//
// Oracle = c09RunReadAt, the one of the read family: every completely delivered
// message is read back exactly as written, a clean end is io.EOF, an end inside
// a message is an error that is not io.EOF, nothing is invented.

import (
	"bytes"
	"fmt"
	"strings"
	"syscall"
	"time"

	conformancev1 "connectrpc.com/conformance/internal/gen/proto/go/connectrpc/conformance/v1"
	"google.golang.org/protobuf/proto"
)

const c09BigLimit = 8 << 20 // size limit handed to ReadDelimitedMessage in this family

type c09BigSt struct {
	*c09Stream
	Ends  []int // offset behind message i including its separator
	Close []int // offset behind message i proper (JSON: behind its closing brace)
	BigAt int   // index of the large message
}

// refAt: the reference parser's view of the first cut bytes. Message
// boundaries are boundaries whatever precedes them, so only the part behind
// the last boundary <= cut is parsed.
func (b *c09BigSt) refAt(cut int) c09Ref {
	base, n := 0, 0
	for i, e := range b.Ends {
		if e <= cut {
			base, n = e, i+1
		}
	}
	ref := c09RefAt(b.JSON, b.Bytes[base:cut])
	ref.Complete += n
	return ref
}

// c09BigSmall is the i-th small message: white space of every kind inside its strings.
func c09BigSmall(i int) *c09Resp {
	return &c09Resp{
		TestName: fmt.Sprintf(" s%d/a b  c\td\ne \u00a0f\u2028 g\u3000h \u0085", i),
		Result: &conformancev1.ClientCompatResponse_Error{Error: &conformancev1.ClientErrorResult{
			Message: "deadline exceeded while waiting for the response ",
		}},
	}
}

// c09BigText: n bytes, blanks inside, no blank at either end.
func c09BigText(n int) string {
	if n <= 0 {
		return ""
	}
	s := strings.Repeat("abcdefg ", n/8+1)[:n]
	if s[n-1] == ' ' {
		s = s[:n-1] + "z"
	}
	return s
}

// c09BigJSONString writes s as a JSON string; only what must be escaped is
// escaped (Unicode white space stays raw).
func c09BigJSONString(s string) string {
	var b strings.Builder
	b.WriteByte('"')
	for i := 0; i < len(s); i++ {
		switch ch := s[i]; {
		case ch == '"' || ch == '\\':
			b.WriteByte('\\')
			b.WriteByte(ch)
		case ch == '\n':
			b.WriteString(`\n`)
		case ch == '\t':
			b.WriteString(`\t`)
		case ch < 0x20:
			fmt.Fprintf(&b, `\u%04x`, ch)
		default:
			b.WriteByte(ch)
		}
	}
	b.WriteByte('"')
	return b.String()
}

func c09BigCompact(m *c09Resp) string {
	s := `{"testName":` + c09BigJSONString(m.GetTestName())
	if e := m.GetError(); e != nil {
		s += `,"error":{"message":` + c09BigJSONString(e.GetMessage()) + `}`
	}
	return s + `}`
}

// c09BigOverhead: size of the large message minus the length of its text, per producer.
var c09BigOverheadMemo = map[string]int{}

func c09BigMeasure(enc string, m *c09Resp) (int, error) {
	switch enc {
	case "wdm", "penc":
		return proto.Size(m), nil
	case "compact-nl", "compact-cat":
		return len(c09BigCompact(m)), nil
	case "jenc":
		var buf bytes.Buffer
		if err := NewCodec(true).NewEncoder(&buf).Encode(m); err != nil {
			return 0, err
		}
		return len(bytes.TrimSpace(buf.Bytes())), nil
	}
	return 0, fmt.Errorf("unknown producer %q", enc)
}

// c09BigMessage returns the large message whose size under producer enc is
// size (or as close below as the encoding allows).
func c09BigMessage(enc string, size int) (*c09Resp, int, error) {
	var best *c09Resp
	bestSize := -1
	// the overhead depends on the text length only through the varint of the binary form: try the candidates
	for over := 30; over >= 0; over-- {
		n := size - over
		if n < 1 {
			continue
		}
		m := &c09Resp{TestName: c09BigText(n)}
		var got int
		if enc == "jenc" {
			// the real encoder's overhead does not depend on n; measure it once on a short text
			o, ok := c09BigOverheadMemo[enc]
			if !ok {
				g, err := c09BigMeasure(enc, &c09Resp{TestName: c09BigText(40)})
				if err != nil {
					return nil, 0, err
				}
				o = g - 40
				c09BigOverheadMemo[enc] = o
			}
			got = n + o
		} else {
			var err error
			if got, err = c09BigMeasure(enc, m); err != nil {
				return nil, 0, err
			}
		}
		if got <= size && got > bestSize {
			best, bestSize = m, got
		}
		if got == size {
			break
		}
	}
	if best == nil {
		return nil, 0, fmt.Errorf("no message of size %d", size)
	}
	return best, bestSize, nil
}

// c09BigStream writes the messages named by shape with the real writer enc.
func c09BigStream(target, enc, shape string, size int) (st *c09BigSt, why string) {
	defer func() {
		if p := recover(); p != nil {
			st, why = nil, fmt.Sprintf("writer %s panicked: %v", enc, p)
		}
	}()
	st = &c09BigSt{c09Stream: &c09Stream{Target: target, Enc: enc, JSON: target == "jdec"}, BigAt: -1}
	var buf bytes.Buffer
	var e StreamEncoder
	if enc == "penc" || enc == "jenc" {
		e = NewCodec(enc == "jenc").NewEncoder(&buf)
	}
	for i, ch := range shape {
		var m *c09Resp
		if ch == 'B' {
			var err error
			var got int
			if m, got, err = c09BigMessage(enc, size); err != nil {
				return nil, err.Error()
			}
			_ = got
			st.BigAt = i
		} else {
			m = c09BigSmall(i)
		}
		st.Want = append(st.Want, m)
		switch enc {
		case "wdm":
			if err := WriteDelimitedMessage(&buf, m); err != nil {
				return nil, fmt.Sprintf("writer %s failed on an always-accepting writer: %v", enc, err)
			}
			st.Close = append(st.Close, buf.Len())
		case "penc", "jenc":
			if err := e.Encode(m); err != nil {
				return nil, fmt.Sprintf("writer %s failed on an always-accepting writer: %v", enc, err)
			}
			st.Close = append(st.Close, len(bytes.TrimRight(buf.Bytes(), " \t\r\n")))
			if enc == "penc" {
				st.Close[i] = buf.Len()
			}
		case "compact-nl", "compact-cat":
			buf.WriteString(c09BigCompact(m))
			st.Close = append(st.Close, buf.Len())
			if enc == "compact-nl" {
				buf.WriteByte('\n')
			}
		default:
			return nil, fmt.Sprintf("unknown producer %q", enc)
		}
		st.Ends = append(st.Ends, buf.Len())
	}
	st.Bytes = buf.Bytes()
	if bad := c09CheckEncoding(st.JSON, st.Bytes, st.Want); bad != "" {
		return nil, c09Short(fmt.Sprintf("output of %s (%d bytes): %s", enc, len(st.Bytes), bad))
	}
	return st, ""
}

func c09CPU() time.Duration {
	var ru syscall.Rusage
	if syscall.Getrusage(syscall.RUSAGE_SELF, &ru) != nil {
		return 0
	}
	return time.Duration(ru.Utime.Nano() + ru.Stime.Nano())
}

func c09BigFixed(total, size int) []int {
	var out []int
	for total > 0 {
		n := size
		if n > total {
			n = total
		}
		out = append(out, n)
		total -= n
	}
	return out
}

func (x *c09Run) bigFamily(thorough bool) {
	if x.overBudget() {
		return
	}
	type tgt struct {
		target string
		encs   []string
	}
	targets := []tgt{
		{"jdec", []string{"compact-nl", "jenc"}},
		{"pdec", []string{"wdm"}},
		{"rdm", []string{"penc"}},
	}
	// quick: one shape, the first 64 bytes behind the large message; for sizes above 2^16 only the lump partition
	shapes := []string{"fBf"}
	deltas := []int{-1, 1}
	window := 64
	allPartsUpTo := 16
	if thorough {
		targets[0].encs = append(targets[0].encs, "compact-cat")
		shapes = []string{"Bf", "fBff"}
		deltas = []int{-1, 0, 1}
		window = 160 // the whole following message and the beginning of the one behind it
		allPartsUpTo = 18
	}
	x.r.Extra["big_shapes"] = shapes
	x.r.Extra["big_tail_and_cut_partitions_for_k_up_to"] = allPartsUpTo
	x.r.Extra["big_sizes"] = "2^k+d, k=10..21, d in " + fmt.Sprint(deltas) + " (quick: without 2^21+1)"
	x.r.Extra["big_window_bytes_behind_the_large_message"] = window
	// The family must not starve the ones behind it on an overloaded machine: it stops at 40% of what is left of the budget.
	var own time.Time
	if !x.deadline.IsZero() {
		own = time.Now().Add(time.Until(x.deadline) * 2 / 5)
	}
	var total int64
	began, cpu0 := time.Now(), c09CPU()
	defer func() {
		x.r.Extra["big_cases_enumerated_all_shards"] = total
		x.r.Count("big-family-shard-milliseconds", time.Since(began).Milliseconds())
		x.r.Count("big-family-cpu-milliseconds", (c09CPU() - cpu0).Milliseconds())
	}()
	for _, tg := range targets {
		for _, enc := range tg.encs {
			for _, shape := range shapes {
				for k := 10; k <= 21; k++ {
					for _, d := range deltas {
						if x.overBudget() {
							return
						}
						if !own.IsZero() && time.Now().After(own) {
							x.r.NotExhaustive("big family stopped at 40% of the per-shard budget (order: reader, producer, shape, size ascending)")
							return
						}
						size := 1<<uint(k) + d
						if !thorough && k == 21 && d > 0 {
							continue // quick: 2^21-1 is the largest size
						}
						type part struct {
							name   string
							cut    int
							chunks []int
							end    string
						}
						st, why := c09BigStream(tg.target, enc, shape, size)
						if st == nil {
							x.k++
							if x.r.Mine(x.k) {
								cs := &c09Case{Fam: "big", Target: tg.target, Enc: enc, Shape: shape, Big: size}
								x.report(cs, []c09Verdict{{enc + ":written-bytes-wrong", why}}, "bad-stream")
							}
							continue
						}
						x.r.Count("big-streams", 1)
						n := len(st.Bytes)
						E := st.Close[st.BigAt]
						var parts []part
						parts = append(parts,
							part{"one-piece", n, []int{n}, "eof"},
							part{"fixed-4093", n, c09BigFixed(n, 4093), "eof"},
							part{"fixed-65537", n, c09BigFixed(n, 65537), "eof+"},
						)
						for c := 0; c <= window && E+c <= n; c++ {
							lump := []int{E + c}
							tail := []int{E - 7, 7 + c}
							if rest := n - E - c; rest > 0 {
								lump = append(lump, rest)
								tail = append(tail, rest)
							}
							parts = append(parts, part{"lump", n, lump, "eof"})
							if k > allPartsUpTo {
								continue
							}
							parts = append(parts,
								part{"tail", n, tail, "eof"},
								part{"cut", E + c, []int{E + c}, "eof"},
							)
							if thorough {
								parts = append(parts, part{"cut+", E + c, []int{E - 7, 7 + c}, "eof+"})
							}
						}
						x.bubble(fmt.Sprintf("big/%s/%s/%s/%d", tg.target, enc, shape, size), func() {
							for _, p := range parts {
								x.k++
								total++
								if !x.r.Mine(x.k) {
									continue
								}
								cs := &c09Case{Fam: "big", Target: tg.target, Enc: enc, Shape: shape, Big: size, Cut: p.cut, Chunks: p.chunks, End: p.end, Part: p.name}
								vs, outcome := c09RunReadAt(st.c09Stream, cs, st.refAt(p.cut), c09BigLimit)
								x.r.NonTrivial("")
								if x.k%5003 == 1 {
									x.r.Sample(*cs)
								}
								x.report(cs, vs, "big/"+outcome)
							}
						})
					}
				}
			}
		}
	}
}
